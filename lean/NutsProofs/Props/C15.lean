/-
  C15 — private transaction payloads go only to authenticated listed participants.
  ONLY property theorems (+ the small per-handler steps they are assembled from, non-vacuity examples and fact_*
  obligations). Helper lemmas: NutsProofs/Lemmas/C15.lean, NutsProofs/Lemmas/C07.lean.
  Model: NutsModel/C07 (handlers.go, senders.go, protocol.go decryptPAL/handlePrivateTxRetry, dag/pal.go Decrypt),
  NutsModel/C15/Authn.lean (grpc/authenticator.go). Facts: NutsModel/Facts/C15.lean is REGENERATED on every run.
  ECIES, x509 host name verification, URL parsing, SHA-256 are parameters (Env.dec, AuthEnv, Payload.sha).
-/
import NutsModel.C07.Net
import NutsModel.C15.Authn
import NutsModel.C15.Streams
import NutsModel.C15.Outbound
import NutsModel.Facts.C15
import NutsProofs.Lemmas.C15
open Nuts.Proto Nuts Nuts.Proto.L Nuts.C15.L

namespace Nuts.C15.Props

/-! ### Obligations on the regenerated facts (a source change flips these) -/

/-- `handleTransactionPayloadQuery` guards the release of a PAL-bearing transaction's payload by exactly the four
    refusals the model has, in this order, each answering with the empty response, before the payload is read -/
theorem fact_payload_query_checks :
    Facts.C15.payloadQueryPalGuard = "len(tx.PAL()) > 0" ∧
    Facts.C15.payloadQueryRefusals = ["!peer.Authenticated", "err != nil", "pal == nil", "!pal.Contains(peer.NodeDID)"] ∧
    Facts.C15.payloadQueryRefusalsSendEmpty = true ∧ Facts.C15.payloadReadAfterPalChecks = true := by decide

/-- `collectTransactionList` reads a payload only for transactions without PAL -/
theorem fact_collect_guard : Facts.C15.collectPayloadGuard = "len(transaction.PAL()) == 0" := by decide

/-- `handleTransactionPayload` writes only after: ref present, data present, transaction found, hash equal -/
theorem fact_payload_store_checks :
    Facts.C15.payloadStoreChecks = ["ref.Empty()", "len(msg.Data) == 0", "err != nil", "!tx.PayloadHash().Equals(payloadHash)"] := by decide

/-- a node without node DID has no private payload receiver; the handler checks for that instead of dereferencing
    nil (the model has no panic outcome there) -/
theorem fact_payload_finished_nil_guard : Facts.C15.payloadFinishedNilGuard = true := by decide

/-- the only functions of the protocol package that put payload bytes into an outgoing message -/
theorem fact_payload_writers :
    Facts.C15.payloadBytesWriters = ["handleTransactionPayloadQuery", "collectTransactionList"] := by decide

/-- `tlsAuthenticator.Authenticate`: three failure exits (no certificate, endpoint not resolvable/parsable, host name
    not covered) before the flag is set -/
theorem fact_authenticate_steps :
    Facts.C15.authenticateSteps = ["peer.Certificate == nil", "err != nil", "err != nil", "SET-AUTHENTICATED"] ∧
    Facts.C15.authenticateSetsFlag = true := by decide

/-- every message a handler hands to `Connection.Send` (including the immediate re-attempt of the payload scheduler) -/
def allOut (env : Env) (r : HR) : Out := r.out ++ retryOut env r.node r.retry

/-- **C15, part 1.** For every node state, every peer and every incoming message of every type: an outgoing
    envelope contains the payload bytes of a PAL-bearing transaction of the node only if the incoming message is
    a TransactionPayloadQuery and the envelope is the TransactionPayload reply to it — never a TransactionList
    (list or range reply), gossip, state or transaction set. -/
theorem payload_only_in_payload_msg (cfg : Cfg) (env : Env) (n : Node) (peer : Peer) (m : Msg)
    (hs : StoreOK n) (hsep : PrivSeparate n) (hord : ∀ l t, t ∈ env.order l → t ∈ l)
    (o : Nat × Msg) (ho : o ∈ allOut env (handle cfg env n peer m))
    (p : Payload) (hp : p ∈ payloadBytes o.2) (hpriv : PrivateBytes n p) :
    ∃ ref, m = .payloadQuery ref ∧ o = (peer.key, .payload ref (some p)) := by
  unfold allOut at ho
  rcases List.mem_append.mp ho with ho | ho
  · cases m with
    | gossip x lc refs => rw [gossip_clean cfg n peer x lc refs o ho] at hp; cases hp
    | state cid x lc => rw [state_clean cfg n peer cid x lc o ho] at hp; cases hp
    | txSet cid a b i => rw [set_clean cfg env n peer cid a b i o ho] at hp; cases hp
    | txList cid a b txs => rw [txlist_clean cfg env n peer cid a b txs o ho] at hp; cases hp
    | listQuery cid refs =>
      exfalso
      simp only [handle] at ho
      unfold handleTransactionListQuery at ho
      split at ho
      · cases ho
      · split at ho
        · cases ho
        · rename_i l hc
          refine list_reply_clean cfg n hs hsep _ (fun t ht => ?_) l hc peer.key cid o ho p hp hpriv
          have := hord _ _ ht
          obtain ⟨r, _, hr⟩ := List.mem_filterMap.mp this
          exact getTx_mem hr
    | rangeQuery cid a b =>
      exfalso
      simp only [handle] at ho
      unfold handleTransactionRangeQuery at ho
      split at ho
      · cases ho
      · simp only at ho
        split at ho
        · cases ho
        · rename_i l hc
          exact list_reply_clean cfg n hs hsep _ (fun t ht => findBetween_mem ht) l hc peer.key cid o ho p hp hpriv
    | payloadQuery ref =>
      simp only [handle] at ho
      rcases payloadQuery_release env n peer ref o ho with h | ⟨tx, p', _, _, h, _⟩
      · rw [h] at hp; cases hp
      · rw [h] at hp
        simp only [payloadBytes, List.mem_singleton] at hp
        subst hp
        exact ⟨ref, rfl, h⟩
    | payload ref data =>
      simp only [handle, payload_out_nil] at ho
      cases ho
    | diagnostics => simp [handle] at ho
    | unsupported => simp [handle] at ho
  · rw [pq_no_bytes (retryOut_out env _ _ o ho)] at hp; cases hp

/-- the same for the other two places where a node sends: the gossip tick and the payload-query broadcast after
    a transaction was added locally -/
theorem tick_and_create_send_no_payload (cfg : Cfg) (env : Env) (n : Node) (peer : Nat) (tx : Tx) (pl : Option Payload)
    (o : Nat × Msg) (ho : o ∈ (gossipTick n peer).out ∨ o ∈ (addTx cfg env n tx pl).2.1) : payloadBytes o.2 = [] := by
  rcases ho with ho | ho
  · unfold gossipTick at ho
    split at ho
    · cases ho
    · split at ho
      · simp only [List.mem_singleton] at ho; subst ho; rfl
      · cases ho
  · rw [addTx_out cfg env n tx pl o ho]; rfl

/-- **C15, part 2.** A TransactionPayload reply with data is sent only to the peer that asked, for a transaction
    the node has; if the transaction has a PAL then the connection is authenticated, this node could decrypt the
    PAL, and the peer's verified node DID is on the decrypted list. -/
theorem private_payload_release_sound (cfg : Cfg) (env : Env) (n : Node) (peer : Peer) (m : Msg)
    (o : Nat × Msg) (ho : o ∈ allOut env (handle cfg env n peer m)) (ref : Ref) (p : Payload)
    (hpl : o.2 = .payload ref (some p)) :
    m = .payloadQuery ref ∧ o.1 = peer.key ∧
    ∃ tx, getTx n.dag ref = some tx ∧ readPayload n tx.payloadHash = some p ∧
      (tx.pal ≠ [] → peer.authenticated = true ∧ ∃ dids, decryptPAL env n tx.pal = .pal dids ∧ peer.did ∈ dids) := by
  have hb : p ∈ payloadBytes o.2 := by rw [hpl]; simp [payloadBytes]
  unfold allOut at ho
  rcases List.mem_append.mp ho with ho | ho
  · cases m with
    | gossip x lc refs => rw [gossip_clean cfg n peer x lc refs o ho] at hb; cases hb
    | state cid x lc => rw [state_clean cfg n peer cid x lc o ho] at hb; cases hb
    | txSet cid a b i => rw [set_clean cfg env n peer cid a b i o ho] at hb; cases hb
    | txList cid a b txs => rw [txlist_clean cfg env n peer cid a b txs o ho] at hb; cases hb
    | listQuery cid refs =>
      exfalso
      simp only [handle] at ho
      unfold handleTransactionListQuery at ho
      split at ho
      · cases ho
      · split at ho
        · cases ho
        · obtain ⟨_, k, total, c, heq, _⟩ := sendTransactionList_mem cfg _ _ _ o ho
          rw [heq] at hpl; cases hpl
    | rangeQuery cid a b =>
      exfalso
      simp only [handle] at ho
      unfold handleTransactionRangeQuery at ho
      split at ho
      · cases ho
      · simp only at ho
        split at ho
        · cases ho
        · obtain ⟨_, k, total, c, heq, _⟩ := sendTransactionList_mem cfg _ _ _ o ho
          rw [heq] at hpl; cases hpl
    | payloadQuery ref' =>
      simp only [handle] at ho
      rcases payloadQuery_release env n peer ref' o ho with h | ⟨tx, p', htx, hrd, h, hyp⟩
      · rw [h] at hpl; cases hpl
      · rw [h] at hpl
        simp only [Msg.payload.injEq, Option.some.injEq] at hpl
        obtain ⟨rfl, rfl⟩ := hpl
        exact ⟨rfl, by rw [h], tx, htx, hrd, hyp⟩
    | payload ref' data =>
      simp only [handle, payload_out_nil] at ho
      cases ho
    | diagnostics => simp [handle] at ho
    | unsupported => simp [handle] at ho
  · obtain ⟨r, hr⟩ := retryOut_out env _ _ o ho
    rw [hr] at hpl; cases hpl


/-! ### "the payload of X goes only to X's list": FALSE of the code when two PAL-bearing transactions share a payload hash
  (known finding C15:payload-of-other-transaction-released-via-shared-payload-hash; replayed on the real handlers) -/

/-- no two PAL-bearing transactions of the node have the same payload hash -/
def PrivUnique (n : Node) : Prop :=
  ∀ t ∈ n.dag, ∀ t' ∈ n.dag, t.pal ≠ [] → t'.pal ≠ [] → t.payloadHash = t'.payloadHash → t = t'

/-- the full-strength statement: whenever a handler releases bytes that are the payload of a PAL-bearing transaction `X`
    of the node, the peer is authenticated and its verified DID is on `X`'s decrypted list -/
def ReleaseOnlyToListedStmt : Prop :=
  ∀ (cfg : Cfg) (env : Env) (n : Node) (peer : Peer) (m : Msg), StoreOK n → PrivSeparate n →
    ∀ o ∈ allOut env (handle cfg env n peer m), ∀ ref p, o.2 = .payload ref (some p) →
      ∀ X ∈ n.dag, X.pal ≠ [] → X.payloadHash = p.sha →
        peer.authenticated = true ∧ ∃ dids, decryptPAL env n X.pal = .pal dids ∧ peer.did ∈ dids

private def wEnv : Env :=
  { decode := fun _ _ => .fail, order := id,
    dec := fun kid c =>
      if kid == "B#k" && c == 1 then .ok [some "A", some "B"]        -- Y, for [A, B]
      else if kid == "B#k" && c == 2 then .ok [some "B", some "C"]   -- X, for [B, C]
      else .fail }
private def wRoot : Tx := { ref := 1, clock := 0, prevs := [], pal := [], payloadHash := 10, sigOK := true, size := 10 }
private def wX : Tx := { ref := 7, clock := 1, prevs := [1], pal := [2, 3], payloadHash := 70, sigOK := true, size := 10 }
private def wY : Tx := { ref := 9, clock := 1, prevs := [1], pal := [0, 1], payloadHash := 70, sigOK := true, size := 10 }
private def wB : Node :=
  { id := 0, did := "B", kaks := [⟨"B#k", true⟩], dag := [wY, wX, wRoot],
    payloads := [(70, ⟨"secret-of-X", 11, 70⟩), (10, ⟨"public", 6, 10⟩)] }
private def wCfg : Cfg :=
  { pageSize := 512, maxQueue := 100, rangePages := 2, msgOverhead := 512, txOverhead := 9, maxMsg := 524288, validity := 30,
    blockState := false, blockList := true, blockRange := true, nextOne := (1, 2), nextTwo := (1, 3) }

/-- **witness**: `B` holds `X` (list [B, C]) and the crafted `Y` (list [A, B], same payload hash); the authenticated peer
    `A` asks for `Y` and receives the payload of `X`, although `A` is not on `X`'s list -/
theorem release_only_to_listed_false : ¬ ReleaseOnlyToListedStmt := by
  intro h
  have hs : StoreOK wB := storeOK_of_all wB (by decide)
  have hsep : PrivSeparate wB := by
    intro t ht t' ht' hp hp'
    simp only [wB, List.mem_cons, List.mem_nil_iff, or_false] at ht ht'
    rcases ht with rfl | rfl | rfl <;> rcases ht' with rfl | rfl | rfl <;> simp_all [wX, wY, wRoot]
  have := h wCfg wEnv wB { key := 5, authenticated := true, did := "A" } (.payloadQuery 9) hs hsep
    (5, .payload 9 (some ⟨"secret-of-X", 11, 70⟩)) (by decide) 9 ⟨"secret-of-X", 11, 70⟩ rfl wX (by decide) (by decide) rfl
  obtain ⟨_, dids, hd, hm⟩ := this
  have hdec : decryptPAL wEnv wB wX.pal = .pal ["B", "C"] := by decide
  rw [hdec] at hd
  cases hd
  simp at hm

/-- **the proved part**: under the extra hypothesis that no two PAL-bearing transactions of the node share a payload
    hash (`PrivUnique`), the full statement holds -/
theorem release_only_to_listed_partial (cfg : Cfg) (env : Env) (n : Node) (peer : Peer) (m : Msg)
    (hs : StoreOK n) (hsep : PrivSeparate n) (huniq : PrivUnique n)
    (o : Nat × Msg) (ho : o ∈ allOut env (handle cfg env n peer m)) (ref : Ref) (p : Payload) (hpl : o.2 = .payload ref (some p))
    (X : Tx) (hX : X ∈ n.dag) (hpal : X.pal ≠ []) (hh : X.payloadHash = p.sha) :
    peer.authenticated = true ∧ ∃ dids, decryptPAL env n X.pal = .pal dids ∧ peer.did ∈ dids := by
  obtain ⟨_, _, tx, htx, hrd, hyp⟩ := private_payload_release_sound cfg env n peer m o ho ref p hpl
  have htm : tx ∈ n.dag := getTx_mem htx
  have hsha : p.sha = tx.payloadHash := hs _ _ hrd
  have htpal : tx.pal ≠ [] := by
    intro he
    exact hsep X hX tx htm hpal he (by rw [hh, hsha])
  have : X = tx := huniq X hX tx htm hpal htpal (by rw [hh, hsha])
  subst this
  exact hyp hpal

/-! ### "could decrypt" ⇔ "is on the list", for PALs produced by `PAL.Encrypt` under the ECIES contract -/

/-- For a participant list encrypted by `PAL.Encrypt` (one ciphertext per participant, ECIES contract), a node
    that holds exactly its own key agreement key decrypts the PAL iff its DID is on the list. The gap: a PAL header
    NOT produced by `Encrypt` (the author adds a ciphertext for a non-member) is decryptable by that non-member. -/
theorem decrypt_iff_member (env : Env) (keyOf : String → String) (cipherFor : String → Nat) (pal : List String)
    (hh : HonestPal env keyOf cipherFor pal) (hinj : ∀ a b, keyOf a = keyOf b → a = b)
    (n : Node) (hdid : n.did ≠ "") (hres : n.resolvable = true) (hk : n.kaks = [⟨keyOf n.did, true⟩]) :
    decryptPAL env n (encryptPAL cipherFor pal) = if n.did ∈ pal then .pal pal else .notForUs := by
  unfold decryptPAL encryptPAL
  have h := tryCiphers_honest env keyOf cipherFor pal hh hinj n.did pal (fun _ h => h)
  simp only [hk, hres]
  rw [h]
  have : (n.did == "") = false := by simpa using hdid
  simp only [this]
  by_cases hm : n.did ∈ pal
  · simp only [hm, if_true]
    cases pal with
    | nil => cases hm
    | cons a as => simp [parseDids_some, parseDids]
  · simp [hm]

/-- the stated gap, by witness: a header with an extra ciphertext for a non-member is decrypted by that non-member -/
theorem nonmember_cipher_gap :
    ∃ (env : Env) (n : Node) (epal : List Nat) (dids : List String),
      decryptPAL env n epal = .pal dids ∧ n.did ∉ dids := by
  refine ⟨{ decode := fun _ _ => .fail, order := id, dec := fun kid c => if kid == "C#k" && c == 2 then .ok [some "A", some "B"] else .fail },
          { id := 0, did := "C", kaks := [⟨"C#k", true⟩] }, [0, 1, 2], ["A", "B"], by decide, by decide⟩

/-! ### storing received payloads -/

/-- **C15, part 3.** `handleTransactionPayload` changes the payload store iff the transaction exists in the DAG and
    the data hashes to its payload hash (unsolicited but matching payloads are stored; mismatching, unknown, empty
    ones leave the store unchanged); nothing else of the node changes. -/
theorem payload_stored_only_if_hash_matches (n : Node) (ref : Ref) (data : Option Payload) :
    (∃ p tx, data = some p ∧ ref ≠ 0 ∧ p.len ≠ 0 ∧ getTx n.dag ref = some tx ∧ p.sha = tx.payloadHash ∧
        (handleTransactionPayload n ref data).node = { n with payloads := Nuts.alPut n.payloads p.sha p }) ∨
    (handleTransactionPayload n ref data).node = n ∧
      ¬ (∃ p tx, data = some p ∧ ref ≠ 0 ∧ p.len ≠ 0 ∧ getTx n.dag ref = some tx ∧ p.sha = tx.payloadHash) := by
  unfold handleTransactionPayload
  split
  · rename_i h
    refine Or.inr ⟨rfl, ?_⟩
    rintro ⟨p, tx, _, hne, _⟩
    exact hne (by simpa using h)
  · rename_i href
    split
    · refine Or.inr ⟨rfl, ?_⟩
      rintro ⟨p, tx, h, _⟩; cases h
    · rename_i p
      split
      · rename_i hlen
        refine Or.inr ⟨rfl, ?_⟩
        rintro ⟨p', tx, h, _, hl, _⟩
        cases h
        exact hl (by simpa using hlen)
      · rename_i hlen
        split
        · rename_i hnone
          refine Or.inr ⟨rfl, ?_⟩
          rintro ⟨p', tx, h, _, _, hg, _⟩
          rw [hnone] at hg; cases hg
        · rename_i tx htx
          split
          · rename_i hsha
            refine Or.inr ⟨rfl, ?_⟩
            rintro ⟨p', tx', h, _, _, hg, hs⟩
            cases h
            rw [htx] at hg; cases hg
            simp [hs] at hsha
          · rename_i hsha
            exact Or.inl ⟨p, tx, rfl, by simpa using href, by simpa using hlen, htx, by simpa using hsha, rfl⟩

/-- the only other way a payload enters the store — together with its transaction in a TransactionList or a local
    `Add` — also requires the hash to match: `state.Add` admits `(tx, payload)` only if `sha payload = tx.payloadHash` -/
theorem payload_with_transaction_only_if_hash_matches (cfg : Cfg) (env : Env) (n : Node) (tx : Tx) (p : Payload)
    (h : (addTx cfg env n tx (some p)).2.2 = .added) : p.sha = tx.payloadHash := by
  rcases addTx_cases cfg env n tx (some p) with ⟨_, hc, _⟩ | ⟨hne, _, _⟩
  · exact (addCheck_added hc).2.2.2.2.2 p rfl
  · exact absurd h hne

/-- **a transaction that is already on the DAG is a no-op for `state.Add`, whatever bytes come with it**: the node — in
    particular its payload store — is unchanged and nothing is sent. A peer cannot fill in (or replace) the payload of a
    known private transaction by repeating the transaction in a TransactionList / range answer with bytes of its choosing;
    the only writer left is `handleTransactionPayload` (`payload_stored_only_if_hash_matches`). -/
theorem known_transaction_writes_no_payload (cfg : Cfg) (env : Env) (n : Node) (tx : Tx) (pl : Option Payload)
    (h : present n.dag tx.ref = true) :
    (addTx cfg env n tx pl).1 = n ∧ (addTx cfg env n tx pl).2.1 = [] ∧ (addTx cfg env n tx pl).2.2 = .present := by
  have hc : addCheck n.dag tx pl = .present := by simp [addCheck, h]
  simp [addTx, hc]

theorem known_transaction_keeps_payload_store (cfg : Cfg) (env : Env) (n : Node) (tx : Tx) (pl : Option Payload)
    (h : present n.dag tx.ref = true) (hash : Ref) : readPayload (addTx cfg env n tx pl).1 hash = readPayload n hash := by
  rw [(known_transaction_writes_no_payload cfg env n tx pl h).1]

/-- regenerated: the early-return branch of `State.Add` for a present transaction is `return nil` and nothing else; the only
    payload write in `Add` is the hash-checked one under `payload != nil` on the new-transaction path -/
theorem fact_state_add_present_branch_writes_nothing :
    Facts.C15.stateAddPresentBranch = ["return nil"] ∧
    Facts.C15.stateAddPayloadWrites = ["s.payloadStore.writePayload if payload != nil"] := by decide

/-- the two cooperating guards as the source has them: a public transaction in a list needs a payload of non-zero LENGTH
    (a present-but-empty `optional bytes` field does not count), and `state.Add` hash-checks and stores every non-nil payload -/
theorem fact_payload_presence_guards :
    Facts.C15.listPayloadGuard = "len(tx.PAL()) == 0 && len(msg.Transactions[i].Payload) == 0" ∧
    Facts.C15.stateAddPayloadGuard = "payload != nil" := by decide

/-- **a public transaction enters the DAG through a TransactionList only together with a non-empty payload that hashes
    to its payload hash** — so nobody can plant a public transaction carrying the payload hash of a private one without
    knowing that payload (which is what keeps `PrivSeparate` true of DAGs built by the protocol) -/
theorem public_tx_admitted_only_with_payload (cfg : Cfg) (env : Env) (n : Node) (tx : Tx) (pl : Option Payload)
    (hp : tx.pal = []) (h : (addLoop cfg env n [(tx, pl)]).node.dag ≠ n.dag) :
    ∃ p, pl = some p ∧ p.len ≠ 0 ∧ p.sha = tx.payloadHash := by
  unfold addLoop at h
  by_cases hnp : (tx.pal.isEmpty && payloadEmpty pl) = true
  · simp [hnp] at h
  · simp only [hnp, Bool.false_eq_true, if_false] at h
    cases pl with
    | none => simp [hp, payloadEmpty] at hnp
    | some p =>
      have hlen : p.len ≠ 0 := by
        intro h0; apply hnp; simp [hp, payloadEmpty, h0]
      rcases addTx_cases cfg env n tx (some p) with ⟨hr, hc, hnode⟩ | ⟨hr, hnode, hres⟩
      · exact ⟨p, rfl, hlen, (addCheck_added hc).2.2.2.2.2 p rfl⟩
      · exfalso
        apply h
        generalize hq : addTx cfg env n tx (some p) = q at hr hnode h ⊢
        obtain ⟨n1, out1, r⟩ := q
        simp only at hr hnode
        subst hnode
        cases r <;> simp [addLoop] at hr ⊢

/-! ### authentication -/

/-- `Network.Configure` assigns the authenticator in exactly two places: the TLS authenticator under `tlsEnabled`,
    the dummy authenticator under its negation, where strict mode returns an error first -/
theorem fact_authenticator_selection :
    Facts.C15.authenticatorAssignments = [["tlsEnabled", "grpc.NewTLSAuthenticator"], ["!(tlsEnabled)", "grpc.NewDummyAuthenticator"]] ∧
    Facts.C15.strictTLSErrorGuard = ["!(tlsEnabled)", "config.Strictmode"] ∧ Facts.C15.strictErrorBeforeDummy = true := by decide

/-- the connection manager's TLS server requires AND verifies client certificates against the trust store, with the
    minimum TLS version of the core package (TLS 1.2) -/
theorem fact_server_tls_config :
    Facts.C15.serverTLSConfig = ["ClientCAs=config.trustStore", "ClientAuth=tls.RequireAndVerifyClientCert"] ∧
    Facts.C15.baseTLSConfig = ["MinVersion=core.MinTLSVersion"] ∧ Facts.C15.minTLSVersion = "tls.VersionTLS12" := by decide

/-- hence the certificate `tlsAuthenticator` matches against the NutsComm host (`AuthIn.cert`) is one that chains to the
    trust store: with the configured mode the server hands over a client certificate only if it was presented and verified -/
theorem authenticated_certificate_is_verified (presented chains : Bool)
    (h : serverAcceptsClient (ClientAuthMode.ofSource "tls.RequireAndVerifyClientCert") presented chains = true) :
    presented = true ∧ chains = true := by
  cases presented <;> cases chains <;> simp [serverAcceptsClient, ClientAuthMode.ofSource] at h ⊢

/-- **the dummy authenticator is reachable only without TLS**: with TLS configured the TLS authenticator is
    installed in strict AND non-strict mode; in strict mode the dummy authenticator is never installed -/
theorem dummy_authenticator_only_without_tls (tlsEnabled strict : Bool) (k : AuthKind)
    (h : configureAuthenticator tlsEnabled strict = .ok k) :
    (tlsEnabled = true → k = .tls) ∧ (k = .dummy → tlsEnabled = false ∧ strict = false) := by
  cases tlsEnabled <;> cases strict <;> simp [configureAuthenticator] at h <;> subst h <;> simp

/-- hence on every node with TLS configured (either strict-mode value) a peer is marked authenticated with a claimed
    DID only if its certificate is valid for the host of the NutsComm endpoint resolved for that DID -/
theorem configured_authn_sound (strict : Bool) (k : AuthKind) (h : configureAuthenticator true strict = .ok k)
    (e : AuthEnv) (claimed : String) (peer : Peer) (i : AuthIn) (hok : (authenticateWith k e claimed peer i).2 = "ok") :
    ∃ dns ep host, i.cert = some dns ∧ i.endpoint = some ep ∧ e.parseHost ep = some host ∧ e.verifyHostname dns host = true := by
  have hk : k = .tls := (dummy_authenticator_only_without_tls true strict k h).1 rfl
  subst hk
  exact (authn_sound_iff e claimed peer i).mp hok

/-- **C15, part 4.** `Authenticate` marks the peer authenticated with the claimed DID iff the peer presented a
    certificate, a NutsComm endpoint was resolved for the claimed DID, it parses, and the certificate is valid for
    its host name; in every other case the peer is returned unchanged. -/
theorem authn_sound (e : AuthEnv) (claimed : String) (peer : Peer) (i : AuthIn) :
    ((authenticate e claimed peer i).2 = "ok" ↔
      ∃ dns ep host, i.cert = some dns ∧ i.endpoint = some ep ∧ e.parseHost ep = some host ∧ e.verifyHostname dns host = true) ∧
    ((authenticate e claimed peer i).2 = "ok" →
      (authenticate e claimed peer i).1 = { peer with did := claimed, authenticated := true }) ∧
    ((authenticate e claimed peer i).2 ≠ "ok" → (authenticate e claimed peer i).1 = peer) := by
  unfold authenticate
  cases hc : i.cert with
  | none => simp
  | some dns =>
    cases he : i.endpoint with
    | none => simp
    | some ep =>
      cases hp : e.parseHost ep with
      | none => simp [hp]
      | some host =>
        cases hv : e.verifyHostname dns host <;> simp [hp, hv]


/-- the connection manager's wrapper: a connection carries an authenticated peer only if a DID was claimed and the
    (TLS) authenticator accepted the certificate for it; otherwise the stream is refused or stays unauthenticated -/
theorem connection_authenticated_only_via_authenticator (e : AuthEnv) (claimed : String) (peer : Peer) (i : AuthIn)
    (hp : peer.authenticated = false) (h : (cmAuthenticate .tls e claimed peer i).1.authenticated = true) :
    claimed ≠ "" ∧ (cmAuthenticate .tls e claimed peer i).1.did = claimed ∧
    ∃ dns ep host, i.cert = some dns ∧ i.endpoint = some ep ∧ e.parseHost ep = some host ∧ e.verifyHostname dns host = true := by
  unfold cmAuthenticate at h ⊢
  by_cases hc : (claimed == "") = true
  · simp [hc, hp] at h
  · simp only [hc, Bool.false_eq_true, if_false] at h ⊢
    by_cases hok : ((authenticateWith .tls e claimed peer i).2 == "ok") = true
    · simp only [hok, if_true] at h ⊢
      have hok' : (authenticate e claimed peer i).2 = "ok" := by simpa [authenticateWith] using hok
      refine ⟨by simpa using hc, ?_, (authn_sound_iff e claimed peer i).mp hok'⟩
      have := (authn_sound e claimed peer i).2.1 hok'
      simp only [authenticateWith]
      rw [this]
    · simp [hok] at h

/-- every call of the connection manager's `authenticate` is followed by an error return (inbound and outbound);
    `extractCertificate` returns exactly `PeerCertificates[0]` (no loop, no selection among the peer's certificates) -/
theorem fact_authenticate_call_sites : Facts.C15.cmAuthenticateCalls = 2 ∧ Facts.C15.cmAuthenticateCallsChecked = 2 ∧
    Facts.C15.cmAuthenticateErrorReturnsZeroPeer = true ∧ Facts.C15.extractCertificateIndex = "0" ∧
    Facts.C15.extractCertificateReturns = ["nil", "tlsInfo.State.PeerCertificates[0]"] ∧ Facts.C15.extractCertificateLoops = 0 := by decide

/-- the authenticated certificate is the proven one: appending certificates (the victim's public certificate, CAs, in
    any position after the first) never changes which certificate is used -/
theorem authenticated_with_proven_certificate {α : Type} (first : α) (appended appended' : List α) :
    peerCertificate (first :: appended) = some first ∧ peerCertificate (first :: appended) = peerCertificate (first :: appended') :=
  ⟨rfl, rfl⟩

/-- **the decrypted list is a function of the node's DID/keys and of the header it is given**: two nodes that agree on
    DID, resolvability and key agreement keys decrypt EVERY header to the same result, whatever their DAG, payload store,
    conversations, gossip queues, peers and clock are — i.e. whatever they handled before. (No earlier transaction,
    query or header can influence the list a header decrypts to.) -/
theorem decryptPAL_depends_only_on_keys_and_header (env : Env) (n n' : Node) (hdr : List Nat)
    (hd : n.did = n'.did) (hr : n.resolvable = n'.resolvable) (hk : n.kaks = n'.kaks) :
    decryptPAL env n hdr = decryptPAL env n' hdr := by
  simp only [decryptPAL, hd, hr, hk]

/-- … and it depends on the WHOLE header, not on a prefix: headers that share their first entry decrypt to different lists -/
theorem header_prefix_does_not_determine_list :
    ∃ (env : Env) (n : Node) (c other other' : Nat),
      decryptPAL env n [c, other] = .pal ["A", "B"] ∧ decryptPAL env n [c, other'] = .pal ["A", "E"] :=
  ⟨{ decode := fun _ _ => .fail, order := id, dec := fun kid c => if kid = "A#k" ∧ c = 1 then .ok [some "A", some "B"]
        else if kid = "A#k" ∧ c = 2 then .ok [some "A", some "E"] else .fail },
   { id := 0, did := "A", kaks := [⟨"A#k", true⟩] }, 0, 1, 2, by decide, by decide⟩

/-- every envelope handed to `Connection.Send` is freshly allocated at the Send site (the connection only queues the pointer and
    marshals it later): no `sync.Pool` in the package; envelope and message are composite literals everywhere -/
theorem fact_sent_envelopes_fresh :
    Facts.C15.v2SyncPools = [] ∧
    Facts.C15.v2SendEnvelopes =
      ["handleTransactionPayloadQuery:&Envelope{}<-&Envelope_TransactionPayload{}", "handleTransactionPayloadQuery:&Envelope{}<-&Envelope_TransactionPayload{}",
       "handleTransactionPayloadQuery:&Envelope{}<-&Envelope_TransactionPayload{}", "handleTransactionPayloadQuery:&Envelope{}<-&Envelope_TransactionPayload{}",
       "handleTransactionPayloadQuery:&Envelope{}<-&Envelope_TransactionPayload{}", "handleTransactionPayloadQuery:&Envelope{}<-&Envelope_TransactionPayload{}",
       "handlePrivateTxRetry:&Envelope{}<-&Envelope_TransactionPayloadQuery{}", "sendGossipMsg:&Envelope{}<-&Envelope_Gossip{}",
       "sendTransactionListQuery:&Envelope{}<-&Envelope_TransactionListQuery{}", "sendTransactionList:&Envelope{}<-&Envelope_TransactionList{}",
       "sendTransactionRangeQuery:&Envelope{}<-&Envelope_TransactionRangeQuery{}", "sendState:&Envelope{}<-&Envelope_State{}",
       "sendTransactionSet:&Envelope{}<-&Envelope_TransactionSet{}", "broadcastDiagnostics:&Envelope{}<-&Envelope_DiagnosticsBroadcast{}"] := by decide

/-- `decryptPAL` touches the node DID, the DID resolver and the decrypter only; `protocol` has no cache of decrypted lists -/
theorem fact_decryptPAL_stateless :
    Facts.C15.decryptPALTouches = ["nodeDID", "didResolver", "decrypter"] ∧
    Facts.C15.protocolFields =
      ["cancel func()", "config Config", "state dag.State", "ctx context.Context", "routines *sync.WaitGroup", "didResolver resolver.DIDResolver",
       "privatePayloadReceiver dag.Notifier", "decrypter crypto.Decrypter", "connectionList grpc.ConnectionList", "nodeDID did.DID",
       "connectionManager transport.ConnectionManager", "cMan *conversationManager", "gManager gossip.Manager", "diagnosticsMan *peerDiagnosticsManager",
       "sender messageSender", "listHandler *transactionListHandler", "dagStore stoabs.KVStore"] := by decide

theorem encryptCount_ok : ∀ (parts : List KeyRes) (k : Nat), encryptCount parts = .ok k → k = parts.length ∧ ∀ p ∈ parts, p = .ok := by
  intro parts
  induction parts with
  | nil => intro k h; simp [encryptCount] at h; subst h; simp
  | cons p rest ih =>
    intro k h
    cases p with
    | ok =>
      simp only [encryptCount] at h
      cases hr : encryptCount rest with
      | ok k' =>
        rw [hr] at h
        simp only [Nuts.Res.bind, Nuts.Res.ok.injEq] at h
        obtain ⟨h1, h2⟩ := ih k' hr
        subst h
        exact ⟨by simp [h1], fun p hp => by
          rcases List.mem_cons.mp hp with rfl | hp'
          · rfl
          · exact h2 p hp'⟩
      | err e => rw [hr] at h; simp [Nuts.Res.bind] at h
      | panic e => rw [hr] at h; simp [Nuts.Res.bind] at h
    | deactivated => simp [encryptCount] at h
    | notFound => simp [encryptCount] at h
    | badKey => simp [encryptCount] at h

/-- **a transaction requested WITH participants is never created public**: `CreateTransaction` either fails or produces
    a PAL header with exactly one entry per participant (so `collectTransactionList` never attaches its payload); it
    succeeds only if the node DID is set and every participant's key agreement key resolved -/
theorem created_private_has_full_pal (nodeDIDSet : Bool) (parts : List KeyRes) (hne : parts ≠ []) (k : Nat)
    (h : createPalCount nodeDIDSet parts = .ok k) :
    k = parts.length ∧ 0 < k ∧ nodeDIDSet = true ∧ ∀ p ∈ parts, p = .ok := by
  unfold createPalCount at h
  have he : parts.isEmpty = false := by cases parts with | nil => exact absurd rfl hne | cons _ _ => rfl
  simp only [he, Bool.false_eq_true, if_false] at h
  cases nodeDIDSet with
  | false => simp at h
  | true =>
    simp only [Bool.not_true, Bool.false_eq_true, if_false] at h
    obtain ⟨h1, h2⟩ := encryptCount_ok parts k h
    refine ⟨h1, ?_, rfl, h2⟩
    rw [h1]
    cases parts with
    | nil => exact absurd rfl hne
    | cons _ _ => simp

/-- `PAL.Encrypt` has no `continue` in its loops (no participant is skipped) and both checks of the recipient loop
    return an error; `tlsAuthenticator` is stateless: its only field is the service resolver, `Authenticate` has a value
    receiver, the file declares no package-level variables — the endpoint is resolved on EVERY call -/
theorem fact_encrypt_and_authenticator_stateless :
    Facts.C15.encryptContinues = 0 ∧ Facts.C15.encryptLoopChecks = ["err != nil", "!ok"] ∧ Facts.C15.encryptChecksAllReturnError = true ∧
    Facts.C15.tlsAuthenticatorFields = ["serviceResolver"] ∧ Facts.C15.authenticateReceiver = "tlsAuthenticator" ∧
    Facts.C15.authenticatorPackageVars = [] := by decide

/-- with TLS offloading the certificate used for authentication is the one in the SINGLE header value: any other
    multiplicity (none, or a client-supplied value next to the proxy's) is refused -/
theorem offloaded_certificate_needs_exactly_one_value (vals : List HeaderVal) (owner : String)
    (h : offloadedCertificate vals = some owner) : vals = [.cert owner] := by
  match vals, h with
  | [.cert o], h => simp [offloadedCertificate] at h; rw [h]

theorem fact_offloading_header_checks :
    Facts.C15.offloadHeaderCountCheck = "len(values) != 1" ∧ Facts.C15.offloadCertificateCountCheck = "len(certificates) != 1" ∧
    Facts.C15.offloadValueIndex = ["0", "0"] := by decide

/-- **several streams on one connection (TLS offloading behind a multiplexing proxy)**: whatever the shared `*peer.Peer` of the
    connection holds when a stream arrives (nothing, the certificate of an earlier stream, anything), the certificate the
    stream's handler authenticates with is the one in THIS stream's single header value, or the stream is refused -/
theorem offloaded_identity_is_this_streams_header (shared : Option String) (vals : List HeaderVal) :
    (interceptStream shared vals).2 = offloadedCertificate vals := by
  unfold interceptStream
  cases offloadedCertificate vals <;> rfl

/-- for the whole history of streams of a connection: stream i sees exactly the certificate of its own header — it is
    independent of the earlier streams and of the initial peer info -/
theorem offloaded_streams_independent (shared : Option String) (streams : List (List HeaderVal)) :
    interceptStreams shared streams = streams.map offloadedCertificate := by
  induction streams generalizing shared with
  | nil => rfl
  | cons v rest ih =>
    simp only [interceptStreams, List.map_cons]
    rw [ih, offloaded_identity_is_this_streams_header]

/-- in particular a stream whose header carries the attacker's certificate is never handled with the victim's, although the
    victim's stream came first on the same connection -/
example : interceptStreams none [[.cert "victim.example.org"], [.cert "attacker.example"]]
    = [some "victim.example.org", some "attacker.example"] := by decide

/-- regenerated: `intercept` assigns `peerInfo.AuthInfo` exactly once, as a top-level (unguarded) statement, from the
    certificates parsed from this stream's header -/
theorem fact_offloading_authinfo_overwritten :
    Facts.C15.offloadAuthInfoAssignments = ["depth=0 guard=- PeerCertificates=certificates"] := by decide

/-! ### non-vacuity: a node holding a private transaction for [A, B]; B (listed, authenticated) gets the payload,
    C (unlisted) and an unauthenticated B get the empty response; hypotheses of the theorems are met -/

private def exEnv : Env :=
  { decode := fun _ _ => .fail, order := id,
    dec := fun kid c => if (kid == "A#k" && c == 0) || (kid == "B#k" && c == 1) then .ok [some "A", some "B"] else .fail }
private def exPriv : Tx := { ref := 7, clock := 1, prevs := [1], pal := [0, 1], payloadHash := 70, sigOK := true, size := 10 }
private def exRoot : Tx := { ref := 1, clock := 0, prevs := [], pal := [], payloadHash := 10, sigOK := true, size := 10 }
private def exNode : Node :=
  { id := 0, did := "A", kaks := [⟨"A#k", true⟩], dag := [exPriv, exRoot],
    payloads := [(70, ⟨"secret", 6, 70⟩), (10, ⟨"public", 6, 10⟩)] }

example : (handleTransactionPayloadQuery exEnv exNode { key := 1, authenticated := true, did := "B" } 7).out
    = [(1, .payload 7 (some ⟨"secret", 6, 70⟩))] := by decide
example : (handleTransactionPayloadQuery exEnv exNode { key := 2, authenticated := true, did := "C" } 7).out
    = [(2, .payload 7 none)] := by decide
example : (handleTransactionPayloadQuery exEnv exNode { key := 1, authenticated := false, did := "B" } 7).out
    = [(1, .payload 7 none)] := by decide
private def exCfg : Cfg :=
  { pageSize := 512, maxQueue := 100, rangePages := 2, msgOverhead := 512, txOverhead := 9, maxMsg := 524288, validity := 30,
    blockState := false, blockList := true, blockRange := true, nextOne := (1, 2), nextTwo := (1, 3) }
example : (handleTransactionRangeQuery exCfg exNode { key := 2 } (9, 9) 0 5).out
    = [(2, .txList (9, 9) 1 1 [⟨some exRoot, some ⟨"public", 6, 10⟩⟩, ⟨some exPriv, none⟩])] := by decide
example : StoreOK exNode := storeOK_of_all exNode (by decide)
example : PrivSeparate exNode := by
  intro t ht t' ht' hp hp'
  simp only [exNode, List.mem_cons, List.mem_nil_iff, or_false] at ht ht'
  rcases ht with rfl | rfl <;> rcases ht' with rfl | rfl <;> simp_all [exPriv, exRoot]
example : PrivateBytes exNode ⟨"secret", 6, 70⟩ := ⟨exPriv, by simp [exNode], by decide, rfl⟩
example : HonestPal exEnv (fun d => d ++ "#k") (fun d => if d = "A" then 0 else 1) ["A", "B"] := by
  intro d hd kid
  simp only [List.mem_cons, List.mem_nil_iff, or_false] at hd
  rcases hd with rfl | rfl
  · by_cases h : kid = "A#k"
    · subst h; decide
    · have h2 : ¬ kid = "A" ++ "#k" := h
      simp only [exEnv, h2, if_false, if_true]
      have : (kid == "A#k") = false := by simpa using h
      simp [this]
  · by_cases h : kid = "B#k"
    · subst h; decide
    · have h2 : ¬ kid = "B" ++ "#k" := h
      simp only [exEnv, h2, if_false]
      have : (kid == "B#k") = false := by simpa using h
      simp [this]
example : (authenticate { parseHost := fun _ => some "node.example.com", verifyHostname := fun dns h => dns.contains h }
    "did:nuts:x" { key := 1 } { cert := some ["node.example.com"], endpoint := some "grpc://node.example.com:5555" }).1.authenticated = true := by decide


/-! ### Deepening round 2: how the identity on a connection comes about for inbound streams
    (grpc/util.go readMetadata, connection_manager.go handleInboundStream, connection_list.go getOrRegister, connection.go
    registerStream). The v2 handlers decide on `connection.Peer()`; a stream joins an EXISTING connection when peer ID and node
    DID match. Invariant over ALL histories of stream arrivals and ends: every stream sits on a connection whose identity its own
    set-up (its own headers, its own certificate) established. -/

/-- a stream record whose remembered identity is what ITS OWN set-up established -/
def StreamOK (E : InEnv) (s : StreamRec) : Prop :=
  (cmAuthenticate E.kind E.auth s.claimed { key := 0 } s.auth).2 = false ∧
  s.peer = (cmAuthenticate E.kind E.auth s.claimed { key := 0 } s.auth).1 ∧
  s.auth.endpoint = E.resolve s.claimed

def ConnOK (E : InEnv) (c : Conn) : Prop :=
  (c.peer.authenticated = true ↔ c.peer.did ≠ "") ∧
  ∀ s ∈ c.streams, StreamOK E s ∧ s.peer.did = c.peer.did ∧ s.peer.authenticated = c.peer.authenticated

def ConnsOK (E : InEnv) (cs : List Conn) : Prop := ∀ c ∈ cs, ConnOK E c

theorem cmAuthenticate_wf (k : AuthKind) (e : AuthEnv) (claimed : String) (i : AuthIn)
    (h : (cmAuthenticate k e claimed { key := 0 } i).2 = false) :
    ((cmAuthenticate k e claimed { key := 0 } i).1.authenticated = true ↔
      (cmAuthenticate k e claimed { key := 0 } i).1.did ≠ "") ∧
    ((cmAuthenticate k e claimed { key := 0 } i).1.did = "" ∨ (cmAuthenticate k e claimed { key := 0 } i).1.did = claimed) := by
  unfold cmAuthenticate at h ⊢
  by_cases hc : (claimed == "") = true
  · simp [hc]
  · simp only [hc, Bool.false_eq_true, if_false] at h ⊢
    have hne : claimed ≠ "" := by simpa using hc
    by_cases hok : ((authenticateWith k e claimed { key := 0 } i).2 == "ok") = true
    · simp only [hok, if_true] at h ⊢
      cases k with
      | dummy => simp [authenticateWith, dummyAuthenticate, hne]
      | tls =>
        have hok' : (authenticate e claimed { key := 0 } i).2 = "ok" := by simpa [authenticateWith] using hok
        have := (authn_sound e claimed { key := 0 } i).2.1 hok'
        simp only [authenticateWith]
        rw [this]
        simp [hne]
    · simp [hok] at h

theorem attach_ok (E : InEnv) (id did : String) (r : StreamRec) (fresh : Conn)
    (hr : StreamOK E r) (hd : r.peer.did = did) (hf : ConnOK E fresh) :
    ∀ cs, ConnsOK E cs → ConnsOK E (attach id did r fresh cs).1 := by
  intro cs
  induction cs with
  | nil => intro _ c hc; simp [attach] at hc; subst hc; exact hf
  | cons c rest ih =>
    intro h
    have hc0 : ConnOK E c := h c (by simp)
    have hrest : ConnsOK E rest := fun x hx => h x (by simp [hx])
    unfold attach
    by_cases hm : (c.id == id && c.peer.did == did) = true
    · simp only [hm, if_true]
      by_cases hp : hasProto c r.proto = true
      · simp only [hp, if_true]; exact h
      · simp only [hp, Bool.false_eq_true, if_false]
        intro x hx
        rcases List.mem_cons.mp hx with hx | hx
        · subst hx
          have hdid : c.peer.did = did := by
            have := (Bool.and_eq_true _ _).mp hm
            simpa using this.2
          have hwf := cmAuthenticate_wf E.kind E.auth r.claimed r.auth hr.1
          rw [← hr.2.1] at hwf
          refine ⟨hc0.1, ?_⟩
          intro s hs
          rcases List.mem_append.mp hs with hs | hs
          · exact hc0.2 s hs
          · have : s = r := by simpa using hs
            subst this
            refine ⟨hr, by rw [hd, hdid], ?_⟩
            have e1 : s.peer.did = c.peer.did := by rw [hd, hdid]
            rw [Bool.eq_iff_iff, hwf.1, hc0.1, e1]
        · exact hrest x hx
    · simp only [hm, Bool.false_eq_true, if_false]
      intro x hx
      rcases List.mem_cons.mp hx with hx | hx
      · subst hx; exact hc0
      · exact ih hrest x hx

theorem handleInbound_ok (E : InEnv) (cs : List Conn) (s : StreamIn) (h : ConnsOK E cs) :
    ConnsOK E (handleInbound E cs s).1 := by
  unfold handleInbound
  split
  · rename_i pid claimed _
    by_cases hf : (streamAuth E claimed s).2 = true
    · simp only [hf, if_true]; exact h
    · have hf' : (streamAuth E claimed s).2 = false := by simpa using hf
      simp only [hf', Bool.false_eq_true, if_false]
      have hr : StreamOK E (streamRec E claimed s) := ⟨hf', rfl, rfl⟩
      have hwf := cmAuthenticate_wf E.kind E.auth claimed (streamAuthIn E claimed s) hf'
      have hfresh : ConnOK E (freshConn E pid claimed s) := by
        refine ⟨hwf.1, ?_⟩
        intro x hx
        have : x = streamRec E claimed s := by simpa [freshConn] using hx
        subst this
        exact ⟨hr, rfl, rfl⟩
      have := attach_ok E pid _ _ _ hr rfl hfresh cs h
      split
      · exact h
      · exact this
  · exact h

theorem closeStream_ok (E : InEnv) (cs : List Conn) (sid : Nat) (h : ConnsOK E cs) : ConnsOK E (closeStream cs sid) := by
  intro c hc
  exact h c (List.mem_filter.mp hc).1

theorem runEvs_ok (E : InEnv) (evs : List Ev) : ∀ cs, ConnsOK E cs → ConnsOK E (runEvs E cs evs) := by
  induction evs with
  | nil => intro cs h; exact h
  | cons ev rest ih =>
    intro cs h
    simp only [runEvs, List.foldl_cons]
    apply ih
    cases ev with
    | open_ s => exact handleInbound_ok E cs s h
    | close sid => exact closeStream_ok E cs sid h



/-- **C15, clause 1, connection state.** For every history of inbound streams and stream ends (from the empty connection list),
    every stream attached to a connection passed the connection manager's `authenticate` ITSELF and the identity that
    established (node DID, authenticated flag) is exactly the identity of the connection the v2 handlers will read. -/
theorem inbound_streams_share_connection_identity (E : InEnv) (evs : List Ev) (c : Conn) (hc : c ∈ runEvs E [] evs)
    (s : StreamRec) (hs : s ∈ c.streams) :
    (cmAuthenticate E.kind E.auth s.claimed { key := 0 } s.auth).2 = false ∧
    s.peer = (cmAuthenticate E.kind E.auth s.claimed { key := 0 } s.auth).1 ∧
    s.auth.endpoint = E.resolve s.claimed ∧
    s.peer.did = c.peer.did ∧ s.peer.authenticated = c.peer.authenticated := by
  have h := runEvs_ok E evs [] (by intro c hc; cases hc) c hc
  have := h.2 s hs
  exact ⟨this.1.1, this.1.2.1, this.1.2.2, this.2.1, this.2.2⟩

/-- with the TLS authenticator: every stream on an authenticated connection claimed the connection's DID and presented
    ITS OWN certificate valid for the host of the NutsComm endpoint of that DID (no stream rides on another stream's proof) -/
theorem stream_on_authenticated_connection_proved_it (E : InEnv) (hk : E.kind = .tls) (evs : List Ev) (c : Conn)
    (hc : c ∈ runEvs E [] evs) (ha : c.peer.authenticated = true) (s : StreamRec) (hs : s ∈ c.streams) :
    s.claimed = c.peer.did ∧ s.claimed ≠ "" ∧
    ∃ dns ep host, s.auth.cert = some dns ∧ E.resolve c.peer.did = some ep ∧ E.auth.parseHost ep = some host ∧
      E.auth.verifyHostname dns host = true := by
  obtain ⟨_, hp, hep, hd, hau⟩ := inbound_streams_share_connection_identity E evs c hc s hs
  rw [hk] at hp
  have h1 : (cmAuthenticate .tls E.auth s.claimed { key := 0 } s.auth).1.authenticated = true := by
    rw [← hp, hau, ha]
  obtain ⟨hne, hdid, dns, ep, host, h2, h3, h4, h5⟩ :=
    connection_authenticated_only_via_authenticator E.auth s.claimed { key := 0 } s.auth rfl h1
  have hcl : s.claimed = c.peer.did := by rw [← hd, hp, hdid]
  refine ⟨hcl, hne, dns, ep, host, h2, ?_, h4, h5⟩
  rw [← hcl, ← hep, h3]

/-- **C15, end to end (stream set-up -> payload release).** Composition of the connection-state invariant with
    `private_payload_release_sound`: whatever streams arrived and ended, if the node answers a message handled with the identity of
    connection `c` with the payload of a PAL-bearing transaction, then the DID of `c` is on the list this node decrypts AND every
    stream on `c` proved that DID with its own certificate. -/
theorem inbound_stream_to_release_sound (E : InEnv) (hk : E.kind = .tls) (evs : List Ev) (c : Conn)
    (hc : c ∈ runEvs E [] evs) (cfg : Cfg) (env : Env) (n : Node) (key : Nat) (m : Msg)
    (o : Nat × Msg) (ho : o ∈ allOut env (handle cfg env n { c.peer with key := key } m)) (ref : Ref) (p : Payload)
    (hpl : o.2 = .payload ref (some p)) :
    ∃ tx, getTx n.dag ref = some tx ∧ readPayload n tx.payloadHash = some p ∧
      (tx.pal ≠ [] →
        (∃ dids, decryptPAL env n tx.pal = .pal dids ∧ c.peer.did ∈ dids) ∧
        ∀ s ∈ c.streams, s.claimed = c.peer.did ∧
          ∃ dns ep host, s.auth.cert = some dns ∧ E.resolve c.peer.did = some ep ∧ E.auth.parseHost ep = some host ∧
            E.auth.verifyHostname dns host = true) := by
  obtain ⟨_, _, tx, h1, h2, h3⟩ := private_payload_release_sound cfg env n { c.peer with key := key } m o ho ref p hpl
  refine ⟨tx, h1, h2, ?_⟩
  intro hpal
  obtain ⟨ha, dids, hd, hmem⟩ := h3 hpal
  refine ⟨⟨dids, hd, hmem⟩, ?_⟩
  intro s hs
  obtain ⟨a, _, b⟩ := stream_on_authenticated_connection_proved_it E hk evs c hc ha s hs
  exact ⟨a, b⟩

/-- a refused stream (bad metadata, failed authentication, protocol already connected) leaves the connection list untouched -/
theorem refused_inbound_stream_changes_nothing (E : InEnv) (cs : List Conn) (s : StreamIn)
    (h : ∀ i, (handleInbound E cs s).2 ≠ .joined i) : (handleInbound E cs s).1 = cs := by
  unfold handleInbound at h ⊢
  split
  · rename_i pid claimed heq
    simp only [heq] at h
    by_cases hf : (streamAuth E claimed s).2 = true
    · simp [hf]
    · simp only [hf, Bool.false_eq_true, if_false] at h ⊢
      split
      · rfl
      · rename_i i hi
        exfalso
        have := h i
        simp [hi] at this
  · rfl

/-- `readMetadata` accepts only ONE peer ID value (non-empty after trimming) and at most ONE node DID value, which must parse:
    a second header value (e.g. appended by a proxy after a client-supplied one) never selects an identity -/
theorem readMetadata_ok_needs_single_values (pd : String → Option String) (pids dids : List String) (pid d : String)
    (h : readMetadata pd pids dids = .ok (pid, d)) :
    (∃ v, pids = [v] ∧ pid = trimSpace v) ∧ pid ≠ "" ∧
    ((dids = [] ∧ d = "") ∨ ∃ w, dids = [w] ∧ ((trimSpace w = "" ∧ d = "") ∨ (trimSpace w ≠ "" ∧ pd (trimSpace w) = some d))) := by
  unfold readMetadata at h
  match pids, h with
  | [], h => simp [headerValue] at h
  | _ :: _ :: _, h => simp [headerValue] at h
  | [v], h =>
    simp only [headerValue] at h
    by_cases he : (trimSpace v == "") = true
    · simp [he] at h
    · simp only [he, Bool.false_eq_true, if_false] at h
      match dids, h with
      | _ :: _ :: _, h => simp at h
      | [], h =>
        simp at h
        exact ⟨⟨v, rfl, h.1.symm⟩, by rw [← h.1]; simpa using he, Or.inl ⟨rfl, h.2⟩⟩
      | [w], h =>
        simp only at h
        by_cases hw : (trimSpace w == "") = true
        · simp [hw] at h
          exact ⟨⟨v, rfl, h.1.symm⟩, by rw [← h.1]; simpa using he, Or.inr ⟨w, rfl, Or.inl ⟨by simpa using hw, h.2⟩⟩⟩
        · simp only [hw, Bool.false_eq_true, if_false] at h
          cases hpd : pd (trimSpace w) with
          | none => simp [hpd] at h
          | some c =>
            simp [hpd] at h
            exact ⟨⟨v, rfl, h.1.symm⟩, by rw [← h.1]; simpa using he, Or.inr ⟨w, rfl, Or.inr ⟨by simpa using hw, by first | exact hpd | exact h.2 ▸ hpd⟩⟩⟩

/-- the regenerated call site of the inbound connection lookup means what the model's `attach` tests: peer ID AND node DID
    (dropping `ByNodeDID` would let a stream without identity join an authenticated connection announcing its peer ID) -/
theorem fact_inbound_lookup_is_model (c : Conn) (id did : String) :
    connMatches (Facts.C15.inboundConnectionLookup.map LookupKey.ofSource) c id did = (c.id == id && c.peer.did == did) := by
  have : Facts.C15.inboundConnectionLookup.map LookupKey.ofSource = [.peerID, .nodeDID] := by decide
  rw [this]
  simp [connMatches]

/-- `connectionList.get`: a mismatching predicate skips the connection, the first full match is returned; the two identity
    predicates compare `conn.Peer().ID` / `conn.Peer().NodeDID`; `registerStream` refuses a second stream of a protocol -/
theorem fact_connection_get_and_predicates :
    Facts.C15.connectionGetShape = ["if len(query) == 0 { return nil }", "return nil", "if !predicate.Match(curr) { continue outer }", "return curr", "return nil"] ∧
    Facts.C15.identityPredicates = ["nodeDIDPredicate: { return conn.Peer().NodeDID.Equals(predicate.nodeDID) }", "peerIDPredicate: { return conn.Peer().ID == predicate.peerID }"] ∧
    Facts.C15.registerStreamGuard = "mc.streams[methodName] != nil => { return false }" := by decide

/-- `handleInboundStream`: metadata, certificate of THIS stream, authentication, and only then lookup / registration; the peer
    handed to `authenticate` carries no node DID and no authenticated flag of its own -/
theorem fact_inbound_stream_order :
    Facts.C15.inboundStreamCalls = ["readMetadata(md)", "extractCertificate(peerFromCtx)", "s.authenticate(nodeDID, peer)",
      "s.connections.getOrRegister(s.ctx, peer, false)", "connection.registerStream(protocol, wrappedStream)",
      "connection.waitUntilDisconnected()", "s.connections.remove(connection)"] ∧
    Facts.C15.inboundPeerLiteral = ["ID=peerID", "Address=peerFromCtx.Addr.String()", "Certificate=extractCertificate(peerFromCtx)"] := by decide

/-- `readMetadata`: peer ID required, node DID optional, more than one value refused, a single value trimmed -/
theorem fact_read_metadata_shape :
    Facts.C15.readMetadataValCalls = ["peerIDHeader,true", "nodeDIDHeader,false"] ∧
    Facts.C15.readMetadataShape = ["if len(values) == 0", "if !required", "ok \"\"", "err", "if len(values) > 1", "err",
      "ok strings.TrimSpace(values[0])", "top-if peerIDStr == \"\"", "top-if nodeDIDStr != \"\""] := by decide

def exAuthEnv : AuthEnv := { parseHost := fun ep => some ep, verifyHostname := fun dns h => dns.contains h }
def exE : InEnv := ⟨.tls, exAuthEnv, fun d => some d, fun d => if d = "did:nuts:v" then some "v.example" else none⟩

example : (runEvs exE [] [.open_ ⟨0, ["P1"], ["did:nuts:v"], some ["v.example"], "p1"⟩, .open_ ⟨1, ["P1"], [], some ["x.example"], "p2"⟩,
    .open_ ⟨2, ["P1"], ["did:nuts:v"], some ["x.example"], "p2"⟩, .open_ ⟨3, ["P1"], ["did:nuts:v"], some ["v.example"], "p2"⟩]).map
    (fun c => (c.peer.authenticated, c.streams.map (·.sid))) = [(true, [0, 3]), (false, [1])] := by decide


/-! ### Deepening round 3: how the identity on a connection comes about for OUTBOUND connections
    (grpc/connection_manager.go connect / openOutboundStreams / openOutboundStream, connection.go verifyOrSetPeerID / setPeer /
    registerStream / disconnect). The node dials a contact with an EXPECTED node DID; the invariant over all server answers:
    the connection's DID stays the dialled one and is marked authenticated only by a covering certificate. -/

/-- the certificate `cert` is valid for the host of the NutsComm endpoint the DID `d` resolves to -/
def CertCovers (E : InEnv) (d : String) (cert : Option (List String)) : Prop :=
  ∃ dns ep host, cert = some dns ∧ E.resolve d = some ep ∧ E.auth.parseHost ep = some host ∧
    E.auth.verifyHostname dns host = true

/-- the connection manager's `authenticate` with the TLS authenticator, for ANY peer value passed in (on an outbound connection
    it is the connection's current peer): no error for a claimed DID means authenticated as that DID by a covering certificate -/
theorem cmAuthenticate_tls_ok (e : AuthEnv) (claimed : String) (peer : Peer) (i : AuthIn) (hne : claimed ≠ "")
    (h : (cmAuthenticate .tls e claimed peer i).2 = false) :
    (cmAuthenticate .tls e claimed peer i).1 = { peer with did := claimed, authenticated := true } ∧
    ∃ dns ep host, i.cert = some dns ∧ i.endpoint = some ep ∧ e.parseHost ep = some host ∧ e.verifyHostname dns host = true := by
  unfold cmAuthenticate at h ⊢
  have hc : (claimed == "") = false := by simpa using hne
  simp only [hc, Bool.false_eq_true, if_false] at h ⊢
  by_cases hok : ((authenticateWith .tls e claimed peer i).2 == "ok") = true
  · simp only [hok, if_true] at h ⊢
    have hok' : (authenticate e claimed peer i).2 = "ok" := by simpa [authenticateWith] using hok
    refine ⟨?_, (authn_sound e claimed peer i).1.mp hok'⟩
    simp only [authenticateWith]
    exact (authn_sound e claimed peer i).2.1 hok'
  · simp [hok] at h

/-- what holds of an outbound connection dialled for the expected DID `x` at every point of its set-up -/
def OutOK (E : InEnv) (x : String) (c : Conn) : Prop :=
  c.peer.did = x ∧
  (c.peer.authenticated = true → x ≠ "" ∧ CertCovers E x c.cert) ∧
  ∀ s ∈ c.streams, s.peer.did = x ∧ s.claimed = x ∧ s.peer.authenticated = c.peer.authenticated ∧
    (x ≠ "" → s.peer.authenticated = true ∧ CertCovers E x s.auth.cert)

theorem verifyOrSetPeerID_same (c : Conn) (id : String) :
    (verifyOrSetPeerID c id).1.peer = c.peer ∧ (verifyOrSetPeerID c id).1.cert = c.cert ∧
    (verifyOrSetPeerID c id).1.streams = c.streams := by
  unfold verifyOrSetPeerID
  split <;> simp

theorem registerOut_ok (E : InEnv) (x : String) (c : Conn) (r : StreamRec) (hc : OutOK E x c)
    (hr : r.peer.did = x ∧ r.claimed = x ∧ r.peer.authenticated = c.peer.authenticated ∧
      (x ≠ "" → r.peer.authenticated = true ∧ CertCovers E x r.auth.cert)) :
    OutOK E x (registerOut c r).1 := by
  unfold registerOut
  split
  · exact hc
  · refine ⟨hc.1, hc.2.1, ?_⟩
    intro s hs
    rcases List.mem_append.mp hs with hs | hs
    · exact hc.2.2 s hs
    · have : s = r := by simpa using hs
      subst this
      exact hr

theorem openOutboundStream_ok (E : InEnv) (hk : E.kind = .tls) (x : String) (c : Conn) (s : OutStream)
    (hc : OutOK E x c) : OutOK E x (openOutboundStream E c s).1 := by
  unfold openOutboundStream
  split
  · exact hc
  split
  · exact hc
  split
  · exact hc
  split
  · rename_i pid srv _
    obtain ⟨hp, hce, hst⟩ := verifyOrSetPeerID_same c pid
    have hc1 : OutOK E x (verifyOrSetPeerID c pid).1 := by
      unfold OutOK
      rw [hp, hce, hst]
      exact hc
    split
    · exact hc1
    · simp only []
      split
      · rename_i hd
        have hxne : x ≠ "" := by
          have : (verifyOrSetPeerID c pid).1.peer.did ≠ "" := by simpa using hd
          rw [hc1.1] at this; exact this
        split
        · exact hc1
        split
        · exact hc1
        · rename_i hsrv0 hsrv
          have hsrv' : srv = x := by
            have : srv = (verifyOrSetPeerID c pid).1.peer.did := by simpa using hsrv
            rw [this, hc1.1]
          subst hsrv'
          split
          · exact hc1
          · rename_i ha
            have ha' : (cmAuthenticate .tls E.auth srv (verifyOrSetPeerID c pid).1.peer (outAuthIn E srv s)).2 = false := by
              rw [← hk]; simpa using ha
            obtain ⟨hp1, dns, ep, host, h1, h2, h3, h4⟩ := cmAuthenticate_tls_ok E.auth srv _ _ hxne ha'
            rw [hk]
            rw [hp1]
            have hcov : CertCovers E srv s.cert := ⟨dns, ep, host, h1, h2, h3, h4⟩
            apply registerOut_ok
            · refine ⟨rfl, fun _ => ⟨hxne, hcov⟩, ?_⟩
              intro t ht
              have := hc1.2.2 t ht
              exact ⟨this.1, this.2.1, (this.2.2.2 hxne).1, this.2.2.2⟩
            · exact ⟨rfl, rfl, rfl, fun _ => ⟨rfl, hcov⟩⟩
      · rename_i hd
        have hx : x = "" := by
          have : (verifyOrSetPeerID c pid).1.peer.did = "" := by simpa using hd
          rw [hc1.1] at this; exact this
        apply registerOut_ok
        · exact ⟨hc1.1, fun ha => absurd hx (hc1.2.1 ha).1, hc1.2.2⟩
        · refine ⟨hc1.1, hx.symm, rfl, fun h => absurd hx h⟩
  · exact hc

theorem openOutboundStreams_ok (E : InEnv) (hk : E.kind = .tls) (x : String) (ss : List OutStream) :
    ∀ (c : Conn) (n : Nat), OutOK E x c → OutOK E x (openOutboundStreams E c ss n).1 := by
  induction ss with
  | nil => intro c n h; exact h
  | cons s rest ih =>
    intro c n h
    have hs := openOutboundStream_ok E hk x c s h
    unfold openOutboundStreams
    split
    · exact hs
    · exact ih _ _ hs
    · exact ih _ _ hs

theorem dialled_ok (E : InEnv) (x : String) : OutOK E x (dialled x) :=
  ⟨rfl, fun h => by simp [dialled] at h, fun s hs => by simp [dialled] at hs⟩

/-- **C15, clause 1, outbound connections.** Whatever the dialled server answers on whatever streams (any number of protocols,
    any headers, any certificates, any failures): the identity of the connection stays the DID this node dialled; it is marked
    authenticated only if that DID is non-empty and the certificate now on the connection covers the NutsComm host of it; and
    every stream registered on it carries that identity, proved by the certificate of ITS OWN set-up. -/
theorem outbound_connection_identity_is_dialled_and_proved (E : InEnv) (hk : E.kind = .tls) (x : String)
    (ss : List OutStream) :
    let c := (openOutboundStreams E (dialled x) ss 0).1
    c.peer.did = x ∧
    (c.peer.authenticated = true → x ≠ "" ∧ CertCovers E x c.cert) ∧
    ∀ s ∈ c.streams, s.peer.did = x ∧ s.claimed = x ∧ s.peer.authenticated = c.peer.authenticated ∧
      (x ≠ "" → s.peer.authenticated = true ∧ CertCovers E x s.auth.cert) :=
  openOutboundStreams_ok E hk x ss _ _ (dialled_ok E x)

/-- a bootstrap connection (no expected DID) is never authenticated, whatever DID the server announces -/
theorem bootstrap_connection_never_authenticated (E : InEnv) (hk : E.kind = .tls) (ss : List OutStream) :
    (openOutboundStreams E (dialled "") ss 0).1.peer.authenticated = false ∧
    (openOutboundStreams E (dialled "") ss 0).1.peer.did = "" := by
  have h := openOutboundStreams_ok E hk "" ss _ 0 (dialled_ok E "")
  refine ⟨?_, h.1⟩
  cases ha : (openOutboundStreams E (dialled "") ss 0).1.peer.authenticated with
  | false => rfl
  | true => exact absurd rfl (h.2.1 ha).1

/-- **C15, end to end (dial -> payload release).** If the node answers a message handled with the identity of an outbound
    connection with the payload of a PAL-bearing transaction, then the DID it DIALLED is on the list it decrypts, and the
    connection's certificate and the certificate of every stream on it cover the NutsComm host of that DID. -/
theorem outbound_stream_to_release_sound (E : InEnv) (hk : E.kind = .tls) (x : String) (ss : List OutStream)
    (cfg : Cfg) (env : Env) (n : Node) (key : Nat) (m : Msg) (o : Nat × Msg)
    (ho : o ∈ allOut env (handle cfg env n { (openOutboundStreams E (dialled x) ss 0).1.peer with key := key } m))
    (ref : Ref) (p : Payload) (hpl : o.2 = .payload ref (some p)) :
    ∃ tx, getTx n.dag ref = some tx ∧ readPayload n tx.payloadHash = some p ∧
      (tx.pal ≠ [] →
        (∃ dids, decryptPAL env n tx.pal = .pal dids ∧ x ∈ dids) ∧ x ≠ "" ∧
        CertCovers E x (openOutboundStreams E (dialled x) ss 0).1.cert ∧
        ∀ s ∈ (openOutboundStreams E (dialled x) ss 0).1.streams, CertCovers E x s.auth.cert) := by
  obtain ⟨_, _, tx, h1, h2, h3⟩ := private_payload_release_sound cfg env n _ m o ho ref p hpl
  refine ⟨tx, h1, h2, ?_⟩
  intro hpal
  obtain ⟨ha, dids, hd, hmem⟩ := h3 hpal
  have hinv := outbound_connection_identity_is_dialled_and_proved E hk x ss
  simp only at hinv
  have ha' : (openOutboundStreams E (dialled x) ss 0).1.peer.authenticated = true := ha
  have hmem' : (openOutboundStreams E (dialled x) ss 0).1.peer.did ∈ dids := hmem
  rw [hinv.1] at hmem'
  obtain ⟨hne, hcov⟩ := hinv.2.1 ha'
  exact ⟨⟨dids, hd, hmem'⟩, hne, hcov, fun s hs => ((hinv.2.2 s hs).2.2.2 hne).2⟩

theorem openOutboundStream_streams (E : InEnv) (c : Conn) (s : OutStream) :
    (openOutboundStream E c s).1.streams = c.streams ∨ (openOutboundStream E c s).2 = .opened := by
  have hreg : ∀ (c' : Conn) (r : StreamRec), (registerOut c' r).1.streams = c'.streams ∨ (registerOut c' r).2 = .opened := by
    intro c' r
    unfold registerOut
    split
    · exact Or.inl rfl
    · exact Or.inr rfl
  unfold openOutboundStream
  split
  · exact Or.inl rfl
  split
  · exact Or.inl rfl
  split
  · exact Or.inl rfl
  split
  · rename_i pid srv heq
    obtain ⟨_, _, hst⟩ := verifyOrSetPeerID_same c pid
    split
    · exact Or.inl hst
    · simp only []
      split
      · split
        · exact Or.inl hst
        split
        · exact Or.inl hst
        split
        · exact Or.inl hst
        · rcases hreg _ _ with h | h
          · left; rw [h]; exact hst
          · exact Or.inr h
      · rcases hreg _ _ with h | h
        · left; rw [h]; exact hst
        · exact Or.inr h
  · exact Or.inl rfl

/-- a stream that is not opened (any refusal, fatal or not) adds no stream to the connection -/
theorem unopened_outbound_stream_registers_nothing (E : InEnv) (c : Conn) (s : OutStream)
    (h : (openOutboundStream E c s).2 ≠ .opened) : (openOutboundStream E c s).1.streams = c.streams := by
  rcases openOutboundStream_streams E c s with h' | h'
  · exact h'
  · exact absurd h' h

/-- every way out of the outbound set-up other than live streams leaves a reset connection: no streams, no DID, not
    authenticated (the deferred `disconnect()` of `connect`) -/
theorem failed_outbound_connection_is_reset (E : InEnv) (x : String) (ss : List OutStream)
    (h : (connectOutbound E x ss).2 ≠ .blocked) :
    (connectOutbound E x ss).1.streams = [] ∧ (connectOutbound E x ss).1.peer.did = "" ∧
    (connectOutbound E x ss).1.peer.authenticated = false ∧ (connectOutbound E x ss).1.id = "" := by
  unfold connectOutbound at h ⊢
  split
  · rename_i hb; simp [hb] at h
  · simp [disconnect]


/-- regenerated: `openOutboundStream` in source order — create, headers (no headers = the only non-fatal exit), metadata, peer ID,
    the connection's peer with THIS stream's certificate, and — under "expected DID non-empty" only — server DID present, equal,
    authenticated (each failure fatal); `setPeer` after all of them; `registerStream` last -/
theorem fact_open_outbound_stream_flow :
    Facts.C15.openOutboundStreamFlow = ["clientStream, err := protocol.CreateClientStream(outgoingContext, grpcConn)", "if err != nil",
      ">return nil, fatalError{error: err}", "peerHeaders, err := clientStream.Header()", "if err != nil",
      ">return nil, fatalError{error: fmt.Errorf(\"failed to read gRPC headers: %w\", err)}",
      "if len(peerHeaders) == 0",
      ">return nil, fmt.Errorf(\"peer didn't send any headers, maybe the protocol version is not supported\")",
      "peerID, nodeDID, err := readMetadata(peerHeaders)", "if err != nil",
      ">return nil, fatalError{error: fmt.Errorf(\"failed to read peer ID header: %w\", err)}",
      "if !connection.verifyOrSetPeerID(peerID)",
      ">return nil, fatalError{error: fmt.Errorf(\"peer sent invalid ID (id=%s)\", peerID)}",
      "peer := connection.Peer()", "peer.Certificate = extractCertificate(peerFromCtx)", "if !peer.NodeDID.Empty()",
      ">if nodeDID.Empty()", ">>return nil, fatalError{ErrNodeDIDAuthFailed}", ">if !peer.NodeDID.Equals(nodeDID)",
      ">>return nil, fatalError{ErrUnexpectedNodeDID}", ">peer, err = s.authenticate(nodeDID, peer)",
      ">if err != nil", ">>return nil, fatalError{err}", "connection.setPeer(peer)",
      "if !connection.registerStream(protocol, wrappedStream)",
      ">return nil, fatalError{error: ErrAlreadyConnected}", "return clientStream, nil"] := by decide

/-- regenerated: the protocol loop gives up on a fatal error, moves on after a non-fatal one, counts opened streams and fails
    when none was opened; `connect` registers the contact's peer as an outbound connection and ALWAYS disconnects + removes it
    when it returns -/
theorem fact_open_outbound_streams_loop_and_connect :
    Facts.C15.openOutboundStreamsFlow = ["md, err := s.constructMetadata(connection.Peer().NodeDID.Empty())", "if err != nil", ">return err",
      "protocolNum := 0", "range s.protocols",
      ">clientStream, err := s.openOutboundStream(connection, protocol, grpcConn, md)", ">if err != nil",
      ">>if errors.As(err, new(fatalError))", ">>>return err", ">>continue", ">protocolNum++", "if protocolNum == 0",
      ">return fmt.Errorf(\"could not use any of the supported protocols to communicate with peer (id=%s)\", connection.Peer())",
      "connection.waitUntilDisconnected()",
      "if st := connection.closeError(); st != nil && st.Code() == codes.Unauthenticated", ">return st.Err()",
      "return nil"] ∧
    Facts.C15.connectFlow = ["connection, isNew := s.connections.getOrRegister(s.ctx, contact.peer, true)", "if !isNew", ">return", "defer",
      ">connection.disconnect()", ">s.connections.remove(connection)",
      "grpcClient, err := s.dialer(dialContext, contact.peer.Address, s.dialOptions...)", "if err != nil",
      ">if isStatusError && errStatus.Code() == codes.Canceled", ">>return", ">return",
      "err = s.openOutboundStreams(connection, grpcClient)", "if err != nil",
      ">if errors.Is(err, ErrUnexpectedNodeDID)", "else"] := by decide

/-- regenerated: `verifyOrSetPeerID` sets an empty ID and compares otherwise; `disconnect` drops the streams and resets peer ID,
    node DID and the authenticated flag; `createConnection` stores the peer it is given -/
theorem fact_connection_peer_updates :
    Facts.C15.verifyOrSetPeerIDFlow = ["currentPeer := mc.Peer()", "if len(currentPeer.ID) == 0", ">currentPeer.ID = id", ">mc.setPeer(currentPeer)",
      ">return true", "return currentPeer.ID == id"] ∧
    Facts.C15.disconnectFlow = ["mc.streams = make(map[string]Stream)", "range mc.outboxes", "peer := mc.Peer()", "peer.ID = \"\"",
      "peer.NodeDID = did.DID{}", "peer.Authenticated = false", "mc.setPeer(peer)"] ∧
    Facts.C15.createConnectionFlow = ["result := &conn{streams: make(map[string]Stream), outboxes: make(map[string]chan interface{})}",
      "result.setPeer(peer)", "return result"] ∧
    Facts.C15.outboundConnectionLookups = ["ByAddress(peer.Address) & ByNodeDID(peer.NodeDID)", "ByNodeDID(peer.NodeDID)"] := by decide

def exOut (pids dids : List String) (cert : Option (List String)) (proto : String) : OutStream :=
  ⟨0, proto, false, false, pids, dids, false, cert⟩

/-- non-vacuity: the dialled DID proved on two protocols; a lying server (other DID / wrong certificate / no DID) is fatal and the
    connection is reset; a bootstrap connection opens unauthenticated whatever DID is announced -/
example : (fun r : Conn × LoopRes => (r.1.peer.authenticated, r.1.peer.did, r.1.streams.length, r.2))
    (connectOutbound exE "did:nuts:v" [exOut ["S"] ["did:nuts:v"] (some ["v.example"]) "p1", exOut ["S"] ["did:nuts:v"] (some ["v.example"]) "p2"])
    = (true, "did:nuts:v", 2, .blocked) := by decide
example : (fun r : Conn × LoopRes => (r.1.peer.authenticated, r.1.peer.did, r.1.streams.length, r.2))
    (connectOutbound exE "did:nuts:v" [exOut ["S"] ["did:nuts:v"] (some ["v.example"]) "p1", exOut ["S"] ["did:nuts:v"] (some ["x.example"]) "p2"])
    = (false, "", 0, .fatal "auth") := by decide
example : ((connectOutbound exE "did:nuts:v" [exOut ["S"] ["did:nuts:w"] (some ["v.example"]) "p1"]).2,
    (connectOutbound exE "did:nuts:v" [exOut ["S"] [] (some ["v.example"]) "p1"]).2,
    (connectOutbound exE "did:nuts:v" [exOut ["S"] ["did:nuts:v"] (some ["v.example"]) "p1", exOut ["T"] ["did:nuts:v"] (some ["v.example"]) "p2"]).2)
    = (.fatal "unexpected", .fatal "maintenance", .fatal "peerid") := by decide
example : (fun r : Conn × LoopRes => (r.1.peer.authenticated, r.1.peer.did, r.1.streams.length, r.2))
    (connectOutbound exE "" [exOut ["S"] ["did:nuts:v"] (some ["v.example"]) "p1"]) = (false, "", 1, .blocked) := by decide
example : CertCovers exE "did:nuts:v" (some ["v.example"]) := ⟨["v.example"], "v.example", "v.example", rfl, rfl, rfl, by decide⟩


/-! ### Deepening round 3: inbound streams and outbound connections on ONE connection list (the inbound lookup also matches a
    connection this node dialled; `connect` does not dial when a connection with the expected DID exists) -/

/-- what must hold of EVERY connection in the list, whoever created it: marked authenticated only with a DID and a covering
    certificate; every stream on it named the connection's DID in its own set-up and, when there is a DID, proved it with its
    own certificate -/
def Safe (E : InEnv) (c : Conn) : Prop :=
  (c.peer.authenticated = true → c.peer.did ≠ "" ∧ CertCovers E c.peer.did c.cert) ∧
  ∀ s ∈ c.streams, s.claimed = c.peer.did ∧ (c.peer.did ≠ "" → CertCovers E c.peer.did s.auth.cert)

def AllSafe (E : InEnv) (cs : List Conn) : Prop := ∀ c ∈ cs, Safe E c

/-- the inbound wrapper with the TLS authenticator, zero peer: no error ⇒ the DID is the claimed one, and a non-empty one is proved -/
theorem cmAuthenticate_tls_zero (e : AuthEnv) (claimed : String) (i : AuthIn)
    (h : (cmAuthenticate .tls e claimed { key := 0 } i).2 = false) :
    (cmAuthenticate .tls e claimed { key := 0 } i).1.did = claimed ∧
    ((cmAuthenticate .tls e claimed { key := 0 } i).1.authenticated = true → claimed ≠ "") ∧
    (claimed ≠ "" → ∃ dns ep host, i.cert = some dns ∧ i.endpoint = some ep ∧ e.parseHost ep = some host ∧
      e.verifyHostname dns host = true) := by
  by_cases hc : claimed = ""
  · subst hc
    simp [cmAuthenticate]
  · obtain ⟨h1, h2⟩ := cmAuthenticate_tls_ok e claimed { key := 0 } i hc h
    rw [h1]
    exact ⟨rfl, fun _ => hc, fun _ => h2⟩

theorem attach_safe (E : InEnv) (id did : String) (r : StreamRec) (fresh : Conn)
    (hr : r.claimed = did ∧ (did ≠ "" → CertCovers E did r.auth.cert)) (hf : Safe E fresh) :
    ∀ cs, AllSafe E cs → AllSafe E (attach id did r fresh cs).1 := by
  intro cs
  induction cs with
  | nil => intro _ c hc; simp [attach] at hc; subst hc; exact hf
  | cons c rest ih =>
    intro h
    have hc0 : Safe E c := h c (by simp)
    have hrest : AllSafe E rest := fun x hx => h x (by simp [hx])
    unfold attach
    by_cases hm : (c.id == id && c.peer.did == did) = true
    · simp only [hm, if_true]
      by_cases hp : hasProto c r.proto = true
      · simp only [hp, if_true]; exact h
      · simp only [hp, Bool.false_eq_true, if_false]
        intro x hx
        rcases List.mem_cons.mp hx with hx | hx
        · subst hx
          have hdid : c.peer.did = did := by
            have := (Bool.and_eq_true _ _).mp hm
            simpa using this.2
          refine ⟨hc0.1, ?_⟩
          intro s hs
          rcases List.mem_append.mp hs with hs | hs
          · exact hc0.2 s hs
          · have : s = r := by simpa using hs
            subst this
            show s.claimed = c.peer.did ∧ (c.peer.did ≠ "" → CertCovers E c.peer.did s.auth.cert)
            rw [hdid]; exact hr
        · exact hrest x hx
    · simp only [hm, Bool.false_eq_true, if_false]
      intro x hx
      rcases List.mem_cons.mp hx with hx | hx
      · subst hx; exact hc0
      · exact ih hrest x hx

theorem handleInbound_safe (E : InEnv) (hk : E.kind = .tls) (cs : List Conn) (s : StreamIn) (h : AllSafe E cs) :
    AllSafe E (handleInbound E cs s).1 := by
  unfold handleInbound
  split
  · rename_i pid claimed _
    by_cases hf : (streamAuth E claimed s).2 = true
    · simp only [hf, if_true]; exact h
    · have hf' : (streamAuth E claimed s).2 = false := by simpa using hf
      simp only [hf', Bool.false_eq_true, if_false]
      have hz : (cmAuthenticate .tls E.auth claimed { key := 0 } (streamAuthIn E claimed s)).2 = false := by
        rw [← hk]; exact hf'
      obtain ⟨hd, ha, hcov⟩ := cmAuthenticate_tls_zero E.auth claimed _ hz
      have hd' : (streamAuth E claimed s).1.did = claimed := by unfold streamAuth; rw [hk]; exact hd
      have ha' : (streamAuth E claimed s).1.authenticated = true → claimed ≠ "" := by unfold streamAuth; rw [hk]; exact ha
      have hcv : claimed ≠ "" → CertCovers E claimed s.cert := by
        intro hne
        obtain ⟨dns, ep, host, h1, h2, h3, h4⟩ := hcov hne
        exact ⟨dns, ep, host, h1, h2, h3, h4⟩
      have hr : (streamRec E claimed s).claimed = (streamAuth E claimed s).1.did ∧
          ((streamAuth E claimed s).1.did ≠ "" → CertCovers E (streamAuth E claimed s).1.did (streamRec E claimed s).auth.cert) := by
        rw [hd']; exact ⟨rfl, hcv⟩
      have hfresh : Safe E (freshConn E pid claimed s) := by
        refine ⟨?_, ?_⟩
        · intro hau
          show (streamAuth E claimed s).1.did ≠ "" ∧ CertCovers E (streamAuth E claimed s).1.did s.cert
          rw [hd']; exact ⟨ha' hau, hcv (ha' hau)⟩
        · intro x hx
          have : x = streamRec E claimed s := by simpa [freshConn] using hx
          subst this
          exact hr
      have := attach_safe E pid _ _ _ hr hfresh cs h
      split
      · exact h
      · exact this
  · exact h

theorem registerOut_safe (E : InEnv) (c : Conn) (r : StreamRec) (hc : Safe E c)
    (hr : r.claimed = c.peer.did ∧ (c.peer.did ≠ "" → CertCovers E c.peer.did r.auth.cert)) :
    Safe E (registerOut c r).1 := by
  unfold registerOut
  split
  · exact hc
  · refine ⟨hc.1, ?_⟩
    intro s hs
    rcases List.mem_append.mp hs with hs | hs
    · exact hc.2 s hs
    · have : s = r := by simpa using hs
      subst this
      exact hr

theorem openOutboundStream_safe (E : InEnv) (hk : E.kind = .tls) (c : Conn) (s : OutStream)
    (hc : Safe E c) : Safe E (openOutboundStream E c s).1 := by
  unfold openOutboundStream
  split
  · exact hc
  split
  · exact hc
  split
  · exact hc
  split
  · rename_i pid srv _
    obtain ⟨hp, hce, hst⟩ := verifyOrSetPeerID_same c pid
    have hc1 : Safe E (verifyOrSetPeerID c pid).1 := by
      unfold Safe
      rw [hp, hce, hst]
      exact hc
    split
    · exact hc1
    · simp only []
      split
      · rename_i hd
        split
        · exact hc1
        split
        · exact hc1
        · rename_i hsrv0 hsrv
          have hsrv' : srv = (verifyOrSetPeerID c pid).1.peer.did := by simpa using hsrv
          have hxne : srv ≠ "" := by simpa using hsrv0
          split
          · exact hc1
          · rename_i ha
            have ha' : (cmAuthenticate .tls E.auth srv (verifyOrSetPeerID c pid).1.peer (outAuthIn E srv s)).2 = false := by
              rw [← hk]; simpa using ha
            obtain ⟨hp1, dns, ep, host, h1, h2, h3, h4⟩ := cmAuthenticate_tls_ok E.auth srv _ _ hxne ha'
            rw [hk]
            rw [hp1]
            have hcov : CertCovers E srv s.cert := ⟨dns, ep, host, h1, h2, h3, h4⟩
            apply registerOut_safe
            · refine ⟨fun _ => ⟨hxne, hcov⟩, ?_⟩
              intro t ht
              have := hc1.2 t ht
              rw [← hsrv'] at this
              exact this
            · exact ⟨rfl, fun _ => hcov⟩
      · rename_i hd
        have hx : (verifyOrSetPeerID c pid).1.peer.did = "" := by simpa using hd
        apply registerOut_safe
        · refine ⟨fun ha => ?_, hc1.2⟩
          exact absurd hx (hc1.1 ha).1
        · exact ⟨hx.symm, fun h => absurd hx h⟩
  · exact hc

theorem modifyAt_safe (E : InEnv) (f : Conn → Conn) (hf : ∀ c, Safe E c → Safe E (f c)) :
    ∀ (cs : List Conn) (i : Nat), AllSafe E cs → AllSafe E (modifyAt cs i f) := by
  intro cs
  induction cs with
  | nil => intro i h; simpa [modifyAt] using h
  | cons c rest ih =>
    intro i h
    have hc0 : Safe E c := h c (by simp)
    have hrest : AllSafe E rest := fun x hx => h x (by simp [hx])
    cases i with
    | zero =>
      intro x hx
      simp only [modifyAt] at hx
      rcases List.mem_cons.mp hx with hx | hx
      · subst hx; exact hf c hc0
      · exact hrest x hx
    | succ j =>
      intro x hx
      simp only [modifyAt] at hx
      rcases List.mem_cons.mp hx with hx | hx
      · subst hx; exact hc0
      · exact ih j hrest x hx

theorem stepM_safe (E : InEnv) (hk : E.kind = .tls) (cs : List Conn) (ev : MEv) (h : AllSafe E cs) :
    AllSafe E (stepM E cs ev) := by
  cases ev with
  | inOpen s => exact handleInbound_safe E hk cs s h
  | close sid => intro c hc; exact h c (List.mem_filter.mp hc).1
  | dial a x =>
    show AllSafe E (dialOut cs a x).1
    unfold dialOut
    by_cases hb : (cs.any (fun c => if x == "" then c.addr == a && c.peer.did == "" else c.peer.did == x)) = true
    · rw [if_pos hb]; exact h
    · rw [if_neg hb]
      intro c hc
      rcases List.mem_append.mp hc with hc | hc
      · exact h c hc
      · have : c = { dialled x with addr := a } := by simpa using hc
        subst this
        exact ⟨fun ha => by simp [dialled] at ha, fun s hs => by simp [dialled] at hs⟩
  | outStream i s => exact modifyAt_safe E _ (fun c hc => openOutboundStream_safe E hk c s hc) cs i h
  | outEnd i => intro c hc; exact h c (List.mem_of_mem_eraseIdx hc)

/-- **C15, clause 1, the shared connection list.** For every interleaving of inbound streams, stream ends, dials, outbound
    stream set-ups and outbound failures (from the empty list): a connection is marked authenticated only with a non-empty DID
    and a certificate covering the NutsComm host of it, and EVERY stream on it — also an inbound stream that joined a connection
    this node dialled, or the other way round — named that DID in its own set-up and proved it with its own certificate. -/
theorem connection_list_identity_safe (E : InEnv) (hk : E.kind = .tls) (evs : List MEv) :
    ∀ c ∈ runM E [] evs,
      (c.peer.authenticated = true → c.peer.did ≠ "" ∧ CertCovers E c.peer.did c.cert) ∧
      ∀ s ∈ c.streams, s.claimed = c.peer.did ∧ (c.peer.did ≠ "" → CertCovers E c.peer.did s.auth.cert) := by
  have : ∀ (evs : List MEv) (cs : List Conn), AllSafe E cs → AllSafe E (runM E cs evs) := by
    intro evs
    induction evs with
    | nil => intro cs h; exact h
    | cons ev rest ih =>
      intro cs h
      simp only [runM, List.foldl_cons]
      exact ih _ (stepM_safe E hk cs ev h)
  exact this evs [] (by intro c hc; cases hc)

/-- end to end over the shared list: a private payload leaves on a connection of ANY reachable list only if the connection's DID
    is on the decrypted list and every stream on the connection proved that DID with its own certificate -/
theorem connection_list_to_release_sound (E : InEnv) (hk : E.kind = .tls) (evs : List MEv) (c : Conn)
    (hc : c ∈ runM E [] evs) (cfg : Cfg) (env : Env) (n : Node) (key : Nat) (m : Msg)
    (o : Nat × Msg) (ho : o ∈ allOut env (handle cfg env n { c.peer with key := key } m)) (ref : Ref) (p : Payload)
    (hpl : o.2 = .payload ref (some p)) :
    ∃ tx, getTx n.dag ref = some tx ∧ readPayload n tx.payloadHash = some p ∧
      (tx.pal ≠ [] →
        (∃ dids, decryptPAL env n tx.pal = .pal dids ∧ c.peer.did ∈ dids) ∧
        CertCovers E c.peer.did c.cert ∧
        ∀ s ∈ c.streams, s.claimed = c.peer.did ∧ CertCovers E c.peer.did s.auth.cert) := by
  obtain ⟨_, _, tx, h1, h2, h3⟩ := private_payload_release_sound cfg env n { c.peer with key := key } m o ho ref p hpl
  refine ⟨tx, h1, h2, ?_⟩
  intro hpal
  obtain ⟨ha, dids, hd, hmem⟩ := h3 hpal
  have hs := connection_list_identity_safe E hk evs c hc
  obtain ⟨hne, hcov⟩ := hs.1 ha
  exact ⟨⟨dids, hd, hmem⟩, hcov, fun s hs' => ⟨(hs.2 s hs').1, (hs.2 s hs').2 hne⟩⟩


/-- non-vacuity: the node dials v (peer ID S fixed by the first stream, authenticated), then an inbound stream with peer ID S that
    proves v JOINS the dialled connection; one that claims v with another certificate is refused; an anonymous one gets its own
    unauthenticated connection; a second dial of v does nothing -/
example : (runM exE [] [.dial "v.example:5555" "did:nuts:v", .outStream 0 (exOut ["S"] ["did:nuts:v"] (some ["v.example"]) "p1"),
    .inOpen ⟨7, ["S"], ["did:nuts:v"], some ["v.example"], "p2"⟩, .inOpen ⟨8, ["S"], ["did:nuts:v"], some ["x.example"], "p3"⟩,
    .inOpen ⟨9, ["S"], [], some ["x.example"], "p2"⟩, .dial "v.example:5555" "did:nuts:v"]).map
    (fun c => (c.peer.authenticated, c.peer.did, c.streams.map (·.sid))) = [(true, "did:nuts:v", [0, 7]), (false, "", [9])] := by decide

end Nuts.C15.Props
