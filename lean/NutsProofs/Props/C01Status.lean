/-
  C01 — deepening round 2 (2026-09-28): `statusListIndex` text → slot (strconv.Atoi, NutsModel/C01/Atoi.lean) and its
  composition with the validator and the status-list check (document text → validator verdict → bit that is read → decision).
-/
import NutsModel.C01.Subject
import NutsModel.Facts.C01
import NutsProofs.Props.C01Subject
namespace Nuts.C01.Props
open Nuts.C01

/-- the shape Go's Atoi accepts as a non-negative int: a non-empty run of ASCII digits, optionally after ONE '+',
    or after one '-' when the digits denote zero; the magnitude fits an int64 -/
def DenotesSlot (cs : List Char) (n : Nat) : Prop :=
  ∃ body, body ≠ [] ∧ (∀ c ∈ body, isAsciiDigit c = true) ∧ decVal body 0 = n ∧
    ((cs = body ∧ n ≤ maxInt64) ∨ (cs = '+' :: body ∧ n ≤ maxInt64) ∨ (cs = '-' :: body ∧ n = 0))

theorem digit_not_sign {c : Char} (h : isAsciiDigit c = true) : c ≠ '-' ∧ c ≠ '+' := by
  constructor <;> (intro e; subst e; revert h; decide)

theorem isEmpty_false_iff {α} (l : List α) : (l.isEmpty = false) ↔ l ≠ [] := by cases l <;> simp

/-- FULL CHARACTERISATION of the index parser (all strings): the model of `strconv.Atoi` + `n < 0` yields slot `n` exactly for the
    texts of the documented shape.  In particular no '_' separators, no 0x/0b prefixes, no blanks, no exponent, no non-ASCII digits,
    no second sign, nothing ≥ 2^63, and a '-' only in front of zero. -/
theorem indexOfText_some_iff (s : String) (n : Nat) : indexOfText s = some n ↔ DenotesSlot s.toList n := by
  unfold indexOfText goAtoi DenotesSlot
  generalize s.toList = cs
  constructor
  · intro h
    cases cs with
    | nil => simp [splitSign] at h
    | cons c r =>
      by_cases hm : c = '-'
      · subst hm
        simp only [splitSign, if_true] at h
        by_cases he : r.isEmpty = true
        · simp [he] at h
        · by_cases hd : r.all isAsciiDigit = true
          · simp only [he, hd, Bool.not_true, if_false, Bool.false_eq_true] at h
            by_cases hr : decVal r 0 ≤ maxInt64 + 1
            · simp only [hr, if_true] at h
              by_cases hz : decVal r 0 = 0
              · refine ⟨r, by simpa using he, fun c hc => List.all_eq_true.mp hd c hc, ?_, Or.inr (Or.inr ⟨rfl, ?_⟩)⟩
                · rw [hz] at h ⊢; simp at h; omega
                · rw [hz] at h; simp at h; omega
              · have : (-(decVal r 0 : Int)) < 0 := by omega
                simp [this] at h
                exact absurd h.1 hz
            · simp [hr] at h
          · simp [he, hd] at h
      · by_cases hp : c = '+'
        · subst hp
          simp only [splitSign, hm, if_false, if_true] at h
          by_cases he : r.isEmpty = true
          · simp [he] at h
          · by_cases hd : r.all isAsciiDigit = true
            · simp only [he, hd, Bool.not_true, if_false, Bool.false_eq_true] at h
              by_cases hr : decVal r 0 ≤ maxInt64
              · simp only [hr, if_true] at h
                have : ¬ ((decVal r 0 : Int) < 0) := by omega
                simp only [this, if_false, Option.some.injEq, Int.toNat_natCast] at h
                exact ⟨r, by simpa using he, fun c hc => List.all_eq_true.mp hd c hc, h, Or.inr (Or.inl ⟨rfl, by omega⟩)⟩
              · simp [hr] at h
            · simp [he, hd] at h
        · simp only [splitSign, hm, hp, if_false] at h
          by_cases hd : (c :: r).all isAsciiDigit = true
          · simp only [List.isEmpty_cons, hd, Bool.not_true, if_false, Bool.false_eq_true] at h
            by_cases hr : decVal (c :: r) 0 ≤ maxInt64
            · simp only [hr, if_true] at h
              have : ¬ ((decVal (c :: r) 0 : Int) < 0) := by omega
              simp only [this, if_false, Option.some.injEq, Int.toNat_natCast] at h
              exact ⟨c :: r, by simp, fun x hx => List.all_eq_true.mp hd x hx, h, Or.inl ⟨rfl, by omega⟩⟩
            · simp [hr] at h
          · simp [hd] at h
  · rintro ⟨body, hne, hdig, hv, hcs⟩
    have hall : body.all isAsciiDigit = true := List.all_eq_true.mpr hdig
    have hemp : body.isEmpty = false := (isEmpty_false_iff body).mpr hne
    rcases hcs with ⟨rfl, hr⟩ | ⟨rfl, hr⟩ | ⟨rfl, hz⟩
    · cases cs with
      | nil => exact absurd rfl hne
      | cons c r =>
        obtain ⟨h1, h2⟩ := digit_not_sign (hdig c (by simp))
        simp only [splitSign, h1, h2, if_false, List.isEmpty_cons, hall, Bool.not_true, Bool.false_eq_true]
        have : decVal (c :: r) 0 ≤ maxInt64 := by omega
        simp only [this, if_true]
        have : ¬ ((decVal (c :: r) 0 : Int) < 0) := by omega
        simp [this, hv]
    · have hpm : ('+' : Char) ≠ '-' := by decide
      simp only [splitSign, hpm, if_false, if_true, hemp, hall, Bool.not_true, Bool.false_eq_true]
      have : decVal body 0 ≤ maxInt64 := by omega
      simp only [this, if_true]
      have : ¬ ((decVal body 0 : Int) < 0) := by omega
      simp [this, hv]
    · simp only [splitSign, if_true, hemp, hall, Bool.not_true, Bool.false_eq_true, if_false]
      subst hz
      rw [hv]
      simp [maxInt64]

/-- a minus sign never selects a slot other than 0 (so "-1", "-7" are refused; "-0" is slot 0) -/
theorem negative_index_text_is_refused (r : List Char) (n : Nat) (h : indexOfText (String.ofList ('-' :: r)) = some n) : n = 0 := by
  obtain ⟨body, _, hdig, _, hcs⟩ := (indexOfText_some_iff _ _).mp h
  simp only [String.toList_ofList] at hcs
  rcases hcs with ⟨e, _⟩ | ⟨e, _⟩ | ⟨_, hz⟩
  · have := (digit_not_sign (hdig '-' (by rw [← e]; simp))).1; exact absurd rfl this
  · cases e
  · exact hz

example : indexOfText "7" = some 7 ∧ indexOfText "+7" = some 7 ∧ indexOfText "007" = some 7 ∧ indexOfText "-0" = some 0 ∧
    indexOfText "-1" = none ∧ indexOfText "" = none ∧ indexOfText "+" = none ∧ indexOfText "1_0" = none ∧ indexOfText "0x10" = none ∧
    indexOfText " 1" = none ∧ indexOfText "1e3" = none ∧ indexOfText "++1" = none ∧ indexOfText "１" = none ∧
    indexOfText "9223372036854775807" = some 9223372036854775807 ∧ indexOfText "9223372036854775808" = none ∧
    goAtoi "-9223372036854775808" = some (-9223372036854775808) ∧ goAtoi "-9223372036854775809" = none := by decide

/-! ## composition: document text → validator → the bit that decides -/

/-- END TO END (wire text → validator → Verify): every StatusList2021Entry of a credential that `Verify` reports valid carries an index TEXT
    of the documented decimal shape, and the slot the status check reads (`Status.index`) is the number that text denotes -/
theorem accepted_status_index_text_denotes_the_slot (cfg : Cfg) (P : Crypto) (E : Env) (au cs : Bool) (at_ : Option Time) (c : Cred)
    (u ok : Status → Bool)
    (hc : ∀ l, c.statuses = some l → ∀ s ∈ l, s.typ = statusListEntryType → s.entryValid = entryValidOf (u s) (ok s) s)
    (h : verify cfg P E au cs at_ c = .ok ()) :
    ∃ l, c.statuses = some l ∧ ∀ s ∈ l, s.typ = statusListEntryType →
      ∃ n, s.index = some n ∧ DenotesSlot s.indexText.toList n := by
  obtain ⟨l, hl, hall⟩ := accepted_credential_has_well_formed_status_entries cfg P E au cs at_ c u ok hc h
  refine ⟨l, hl, fun s hs ht => ?_⟩
  have hi := ((hall s hs).2.2 ht).2.2.2.2.1
  cases hx : s.index with
  | none => rw [hx] at hi; cases hi
  | some n => exact ⟨n, rfl, (indexOfText_some_iff _ _).mp (by simpa [Status.index] using hx)⟩

/-- WIRE TEXT → DECISION: for a validated revocation entry whose list the node can obtain with the same purpose, the status verdict
    of that entry is decided by exactly the bit at the slot the index text denotes: revoked iff that bit is set;
    an index beyond the list is an error (soft), never "not revoked" -/
theorem status_decision_reads_the_denoted_bit (E : Env) (s : Status) (rest : List Status) (sl : StatusList) (n : Nat)
    (ht : s.typ = statusListEntryType) (hv : s.entryValid = true) (hp : s.purpose = "revocation")
    (hl : E.statusList s.listCred = some sl) (hsp : sl.purpose = "revocation")
    (hn : DenotesSlot s.indexText.toList n) :
    statusVerdictL E (s :: rest) =
      match sl.bit n with
      | none => .softErr
      | some true => .revoked
      | some false => statusVerdictL E rest := by
  have hi : s.index = some n := by unfold Status.index; exact (indexOfText_some_iff _ _).mpr hn
  rw [statusVerdictL]
  simp [ht, hv, hp, hl, hsp, hi]
  cases sl.bit n with
  | none => rfl
  | some b => cases b <;> rfl

/-- hence: a credential whose (single) revocation entry denotes a set bit is never reported valid, whatever sign / leading-zero
    spelling of the index the document uses -/
theorem set_bit_at_denoted_slot_is_never_valid (cfg : Cfg) (P : Crypto) (E : Env) (au cs : Bool) (at_ : Option Time) (c : Cred)
    (s : Status) (rest : List Status) (sl : StatusList) (n : Nat)
    (hc : c.statuses = some (s :: rest))
    (ht : s.typ = statusListEntryType) (hv : s.entryValid = true) (hp : s.purpose = "revocation")
    (hl : E.statusList s.listCred = some sl) (hsp : sl.purpose = "revocation")
    (hn : DenotesSlot s.indexText.toList n) (hb : sl.bit n = some true) :
    verify cfg P E au cs at_ c ≠ .ok () := by
  intro h
  have hs := (verify_ok_iff.mp h)
  have hv' : statusVerdict E c = .revoked := by
    unfold statusVerdict
    rw [hc]
    simp only []
    rw [status_decision_reads_the_denoted_bit E s rest sl n ht hv hp hl hsp hn, hb]
  exact hs.2.2.2.1 hv'

/-! ## tie: the default validator and its credentialStatus loop, as the source has them (were extracted but not pinned) -/

def validate_defaultCredentialValidatorSrc : List String :=
  ["!credential.IsType(vc.VerifiableCredentialTypeV1URI()) => fmt.Errorf(\"%w: type 'VerifiableCredential' is required\",errValidation)", "!credential.ContainsContext(vc.VCContextV1URI()) => fmt.Errorf(\"%w: default context is required\",errValidation)", "credential.Issuer.String() == \"\" => fmt.Errorf(\"%w: 'issuer' is required\",errValidation)", "credential.ID == nil => fmt.Errorf(\"%w: 'ID' is required\",errValidation)", "credential.IssuanceDate.IsZero() => fmt.Errorf(\"%w: 'issuanceDate' is required\",errValidation)", "err := validateCredentialStatus(credential); err != nil => fmt.Errorf(\"%w: invalid credentialStatus: %w\",errValidation,err)"]

def validateCredentialStatusReturnsSrc : List String :=
  ["statuses,err := credential.CredentialStatuses(); err != nil => err", "range statuses && credentialStatus.ID.String() == \"\" => errors.New(\"credentialStatus.id is required\")", "range statuses && credentialStatus.Type == \"\" => errors.New(\"credentialStatus.type is required\")", "range statuses && switch credentialStatus.Type case revocation.StatusList2021EntryType && !credential.ContainsContext(revocation.StatusList2021ContextURI) => errors.New(\"StatusList2021 context is required\")", "range statuses && switch credentialStatus.Type case revocation.StatusList2021EntryType && err = json.Unmarshal(credentialStatus.Raw(),&cs); err != nil => err", "range statuses && switch credentialStatus.Type case revocation.StatusList2021EntryType && err = cs.Validate(); err != nil => err"]

/-- the guard sequence of `defaultCredentialValidator.Validate` (= the conjuncts of `validateDefault`) and of `validateCredentialStatus`
    (= `statusSyntaxOK`: per entry id, type, then for StatusList2021Entry context → unmarshal → `Validate`, whose own sequence incl.
    `strconv.Atoi(e.StatusListIndex); err != nil || n < 0` is pinned by fact_status_entry_validate_sequence; the status check's
    `strconv.Atoi(slEntry.StatusListIndex)` → `Bitstring.bit(index)` by fact_wiring/statusListVerifyReturns) -/
theorem fact_default_validator_sequence :
    Nuts.Facts.C01.validate_defaultCredentialValidator = validate_defaultCredentialValidatorSrc ∧
    Nuts.Facts.C01.validateCredentialStatusReturns = validateCredentialStatusReturnsSrc ∧
    Nuts.Facts.C01.guards_defaultCredentialValidator.length = 6 := by
  refine ⟨rfl, rfl, rfl⟩

end Nuts.C01.Props
