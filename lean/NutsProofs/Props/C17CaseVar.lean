/-
  C17 — caseVariantMember's reflect loop over the fields of the decoded Go type (vcr/verifier/signature_verifier.go): property
  theorems + non-vacuity examples + fact obligations. Model: NutsModel/C17/CaseVar.lean.
-/
import NutsModel.C17.CaseVar
import NutsModel.Facts.C17
import NutsProofs.Props.C17Fold

namespace Nuts.C17.Props
open Nuts.C17 Nuts.C17.Fold Nuts.C17.CaseVar

/-- the regenerated constants of the loop: Cut separator, tag key, skipped names + what skipping is, the inner comparison, the tail call -/
theorem fact_caseVariant_loop :
    Facts.C17.caseVariantCutSep = "," ∧ Facts.C17.caseVariantTagKey = "structType.Field(i).Tag.Get:json" ∧
    Facts.C17.caseVariantSkipNames = ["", "-"] ∧ Facts.C17.caseVariantSkipAction = "continue" ∧
    Facts.C17.caseVariantCompare = "member != name && strings.EqualFold(member, name)" ∧
    Facts.C17.caseVariantFinal = "return ambiguousMember(map[string]interface{}(document))" := by decide

/-- the separator as a character (the model's `cutAt` takes a Char) -/
def cvSep : Char := (Facts.C17.caseVariantCutSep.toList.head?).getD ','
theorem fact_cvSep : cvSep = ',' ∧ Facts.C17.caseVariantCutSep.length = 1 := by decide

theorem variantIn_none_iff (fold : String → String) (name : String) :
    ∀ ms : List String, variantIn fold name ms = none ↔ ∀ m ∈ ms, m = name ∨ fold m ≠ fold name
  | [] => by simp [variantIn]
  | x :: r => by
    unfold variantIn
    by_cases h : x ≠ name ∧ fold x = fold name
    · rw [if_pos h]
      constructor
      · intro hc; cases hc
      · intro hall
        cases hall x (List.mem_cons_self ..) with
        | inl e => exact absurd e h.1
        | inr e => exact absurd h.2 e
    · rw [if_neg h, variantIn_none_iff fold name r]
      constructor
      · intro hr m hm
        cases hm with
        | head => by_cases e : x = name; exact .inl e; exact .inr (fun hf => h ⟨e, hf⟩)
        | tail _ hm => exact hr m hm
      · intro hall m hm; exact hall m (List.mem_cons_of_mem _ hm)

theorem variantIn_some {fold : String → String} {name m : String} :
    ∀ {ms : List String}, variantIn fold name ms = some m → m ∈ ms ∧ m ≠ name ∧ fold m = fold name
  | [], h => by cases h
  | x :: r, h => by
    unfold variantIn at h
    split at h
    · next hc => injection h with h; subst h; exact ⟨List.mem_cons_self .., hc.1, hc.2⟩
    · obtain ⟨hm, hr⟩ := variantIn_some h; exact ⟨List.mem_cons_of_mem _ hm, hr⟩

/-- **structLoop_none_iff** (completeness of the guard's first half, ALL member lists / tag lists / folds): the loop finds nothing
    exactly when no member of the document is a case variant of (folds like, but is not) the JSON name of a field -/
theorem structLoop_none_iff (sep : Char) (skip : List String) (fold : String → String) (ms : List String) :
    ∀ tags : List String, structLoop sep skip fold ms tags = none ↔
      ∀ name ∈ fieldNames sep skip tags, ∀ m ∈ ms, m = name ∨ fold m ≠ fold name
  | [] => by simp [structLoop, fieldNames]
  | t :: r => by
    unfold structLoop
    have ih := structLoop_none_iff sep skip fold ms r
    cases ht : tagName sep skip t with
    | none =>
      simp only [fieldNames, List.filterMap_cons, ht]
      exact ih
    | some name =>
      simp only [fieldNames, List.filterMap_cons, ht]
      cases hv : variantIn fold name ms with
      | some m =>
        simp only []
        constructor
        · intro hc; cases hc
        · intro hall
          have := (variantIn_none_iff fold name ms).2 (hall name (List.mem_cons_self ..))
          rw [hv] at this; cases this
      | none =>
        simp only []
        rw [ih]
        constructor
        · intro hr n hn
          cases hn with
          | head => exact (variantIn_none_iff fold name ms).1 hv
          | tail _ hn => exact hr n hn
        · intro hall n hn; exact hall n (List.mem_cons_of_mem _ hn)

/-- **structLoop_sound**: what the loop reports IS a member of the document that differs from a field's JSON name only by case -/
theorem structLoop_sound {sep : Char} {skip : List String} {fold : String → String} {ms : List String} {m : String} :
    ∀ {tags : List String}, structLoop sep skip fold ms tags = some m →
      m ∈ ms ∧ ∃ name ∈ fieldNames sep skip tags, m ≠ name ∧ fold m = fold name
  | [], h => by cases h
  | t :: r, h => by
    unfold structLoop at h
    cases ht : tagName sep skip t with
    | none =>
      rw [ht] at h; simp only [] at h
      obtain ⟨hm, n, hn, hr⟩ := structLoop_sound (tags := r) h
      exact ⟨hm, n, by simp only [fieldNames, List.filterMap_cons, ht]; exact hn, hr⟩
    | some name =>
      rw [ht] at h
      simp only [] at h
      cases hv : variantIn fold name ms with
      | some m' =>
        rw [hv] at h; simp only [] at h; injection h with h; subst h
        obtain ⟨hm, hne, hf⟩ := variantIn_some hv
        exact ⟨hm, name, by simp only [fieldNames, List.filterMap_cons, ht]; exact List.mem_cons_self .., hne, hf⟩
      | none =>
        rw [hv] at h; simp only [] at h
        obtain ⟨hm, n, hn, hr⟩ := structLoop_sound (tags := r) h
        exact ⟨hm, n, by simp only [fieldNames, List.filterMap_cons, ht]; exact List.mem_cons_of_mem _ hn, hr⟩

/-- **caseVariant_verdict_order_independent**: Go ranges over the document in map order; WHETHER a variant is found does not depend on it -/
theorem caseVariant_verdict_order_independent (sep : Char) (skip : List String) (fold : String → String) (ms ms' tags : List String)
    (hp : ∀ m, m ∈ ms ↔ m ∈ ms') :
    (structLoop sep skip fold ms tags).isNone = (structLoop sep skip fold ms' tags).isNone := by
  have h1 := structLoop_none_iff sep skip fold ms tags
  have h2 := structLoop_none_iff sep skip fold ms' tags
  cases ha : structLoop sep skip fold ms tags with
  | none =>
    have : structLoop sep skip fold ms' tags = none := h2.2 (fun n hn m hm => h1.1 ha n hn m ((hp m).2 hm))
    rw [this]
  | some a =>
    cases hb : structLoop sep skip fold ms' tags with
    | some b => rfl
    | none =>
      have : structLoop sep skip fold ms tags = none := h1.2 (fun n hn m hm => h2.1 hb n hn m ((hp m).1 hm))
      rw [ha] at this; cases this

/-- **clean_document_decodes_exact_names**: when caseVariantMember finds nothing, every top-level member that encoding/json stores in a
    field of the decoded struct is spelt EXACTLY like that field's JSON name — the term the JSON-LD canonicalisation (hence the
    signature) knows; no unsigned look-alike is read. For all documents, struct types (through any number of pointers), folds. -/
theorem clean_document_decodes_exact_names (sep : Char) (skip : List String) (fold : String → String) (ty : GoType) (tags : List String)
    (doc : JMembers) (hty : deref ty = .struct tags) (h : caseVariantMember sep skip fold ty doc = none) :
    (∀ m ∈ namesOf doc, ∀ f, decodesInto fold (fieldNames sep skip tags) m = some f → f = m) ∧ ambVal fold (.obj doc) = none := by
  unfold caseVariantMember at h
  cases hs : structPart sep skip fold ty (namesOf doc) with
  | some x => rw [hs] at h; cases h
  | none =>
    rw [hs] at h
    refine ⟨?_, h⟩
    unfold structPart at hs
    rw [hty] at hs
    have hall := (structLoop_none_iff sep skip fold (namesOf doc) tags).1 hs
    intro m hm f hf
    unfold decodesInto at hf
    split at hf
    · injection hf with hf; exact hf.symm
    · have hmem := List.mem_of_find?_eq_some hf
      have hfold : fold f = fold m := by simpa using List.find?_some hf
      cases hall f hmem m hm with
      | inl e => exact e.symm
      | inr e => exact absurd hfold.symm e

/-- **vcJsonLdDocS_refines**: with the loop computed, jsonldProof-up-to-the-guard is Fold.`vcJsonLdDoc` with `structVariant` := "the loop
    found a member" — accept_vcJsonLdDoc / ambiguousMember_refuses_every_conflated_pair carry over -/
theorem vcJsonLdDocS_refines (sep : Char) (skip : List String) (fold : String → String) (docOK : Bool) (ty : GoType) (doc : JMembers) (rest : Outcome) :
    vcJsonLdDocS sep skip fold docOK ty doc rest =
      vcJsonLdDoc fold docOK (structPart sep skip fold ty (namesOf doc)).isSome (.obj doc) rest := by
  unfold vcJsonLdDocS vcJsonLdDoc caseVariantMember
  cases docOK <;> simp only [Bool.not_true, Bool.not_false, if_true, if_false, Bool.false_eq_true]
  cases structPart sep skip fold ty (namesOf doc) <;> simp <;> cases ambVal fold (JVal.obj doc) <;> rfl

/-- **accept_vcJsonLdDocS**: an accepted JSON-LD document (decoded into a struct) went through the rest of jsonldProof, none of its
    top-level members is an unsigned look-alike of a struct field, and no object at any depth holds two conflated members -/
theorem accept_vcJsonLdDocS (sep : Char) (skip : List String) (fold : String → String) (docOK : Bool) (ty : GoType) (tags : List String)
    (doc : JMembers) (rest : Outcome) (vs : List Verified) (hty : deref ty = .struct tags)
    (h : vcJsonLdDocS sep skip fold docOK ty doc rest = .accept vs) :
    rest = .accept vs ∧ docOK = true ∧
    (∀ m ∈ namesOf doc, ∀ f, decodesInto fold (fieldNames sep skip tags) m = some f → f = m) ∧ ambVal fold (.obj doc) = none := by
  unfold vcJsonLdDocS at h
  split at h; · cases h
  next hd =>
  split at h; · cases h
  next hc => exact ⟨h, by simpa using hd, clean_document_decodes_exact_names sep skip fold ty tags doc hty hc⟩

/-- **accepted_jsonld_reads_what_was_signed** (end to end, composing the document guard with the proof check of round 1): a JSON-LD
    credential / presentation decoded into a struct and ACCEPTED by jsonldProof (a) carries a single proof object whose verificationMethod
    is a DID URL of exactly the issuer, verified once with the key the resolver returns for it and an asymmetric algorithm derived from that
    key; (b) none of its top-level members is an unsigned look-alike of a struct field; (c) no object at ANY depth holds two members that
    encoding/json conflates. For all documents, decoded types, folds, environments. -/
theorem accepted_jsonld_reads_what_was_signed (sep : Char) (skip : List String) (fold : String → String) (docOK : Bool) (ty : GoType)
    (tags : List String) (doc : JMembers) (E : Env) (L : LdEnv) (po : Bool) (issuer vm : String) (didOf : String → String) (va canon : Bool)
    (parts : Nat) (dec : Bool) (vs : List Verified) (hty : deref ty = .struct tags)
    (hderive : ∀ k a, L.keyAlg k = some a → a ∈ Facts.C17.keyDerivedAlgs)
    (h : vcJsonLdDocS sep skip fold docOK ty doc (vcJsonLdProof E L po issuer vm didOf va canon parts dec) = .accept vs) :
    (po = true ∧ didOf vm = issuer ∧ ∃ k v, E.resolve vm = some k ∧ vs = [v] ∧ v.key = k ∧ L.keyAlg k = some v.alg ∧
      v.alg ∉ symmetricOrNone ∧ L.verifiesDetached k v.alg = true) ∧
    (∀ m ∈ namesOf doc, ∀ f, decodesInto fold (fieldNames sep skip tags) m = some f → f = m) ∧
    (∀ ns ∈ objsVal (.obj doc), ns.Pairwise (fun a b => fold a ≠ fold b)) := by
  obtain ⟨hrest, _, hexact, hamb⟩ := accept_vcJsonLdDocS sep skip fold docOK ty tags doc _ vs hty h
  exact ⟨accept_vcJsonLd E L po issuer vm didOf va canon parts dec vs hderive hrest, hexact,
         fun ns hns => (ambVal_none fold (.obj doc) hamb ns hns).2⟩

/-- negation for a loop that compares exact names only (no EqualFold): a look-alike of a field passes and is decoded into it -/
theorem exact_compare_misses_case_variant :
    ∃ (doc : JMembers) (tags : List String), structLoop ',' ["", "-"] id (namesOf doc) tags = none ∧
      ∃ m ∈ namesOf doc, ∃ f, decodesInto (foldName sf) (fieldNames ',' ["", "-"] tags) m = some f ∧ f ≠ m :=
  ⟨.cons "Issuer" .leaf .nil, ["issuer,omitempty"], by decide, "Issuer", by decide, "issuer", by decide, by decide⟩

/-! non-vacuity -/
private def vcTags : List String := ["@context", "id,omitempty", "type", "issuer", "-", "", "credentialSubject,omitempty", "proof,omitempty"]
example : fieldNames cvSep Facts.C17.caseVariantSkipNames vcTags = ["@context", "id", "type", "issuer", "credentialSubject", "proof"] := by decide
/-- a clean document through two pointers: nothing found; hypotheses of clean_document_decodes_exact_names hold -/
example : caseVariantMember cvSep Facts.C17.caseVariantSkipNames (foldName sf) (.ptr (.ptr (.struct vcTags)))
    (.cons "issuer" .leaf (.cons "credentialSubject" (.obj (.cons "id" .leaf .nil)) .nil)) = none := by decide
/-- `iſsuer` (LONG S) next to nothing else: reported, although no two members of the document conflate -/
example : caseVariantMember cvSep Facts.C17.caseVariantSkipNames (foldName sf) (.ptr (.struct vcTags)) (.cons "iſsuer" .leaf .nil) = some "iſsuer" := by decide
example : ambVal (foldName sf) (.obj (.cons "iſsuer" .leaf .nil)) = none := by decide
/-- not a struct (map / nil): only ambiguousMember speaks -/
example : caseVariantMember cvSep Facts.C17.caseVariantSkipNames (foldName sf) .other (.cons "ISSUER" .leaf .nil) = none := by decide
example : caseVariantMember cvSep Facts.C17.caseVariantSkipNames (foldName sf) .nil (.cons "ISSUER" .leaf (.cons "issuer" .leaf .nil)) = some "issuer" := by decide

end Nuts.C17.Props
