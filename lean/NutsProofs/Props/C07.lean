/-
  C07 — connected nodes converge to the union of their DAGs despite loss and reordering.
  ONLY property theorems (+ non-vacuity examples and fact_* obligations). Helper lemmas: NutsProofs/Lemmas/C07.lean.
  Model: NutsModel/C07 {Types, Dag, Handlers, Net} (transport/v2 handlers.go, transactionlist_handler.go, senders.go,
  conversation.go, protocol.go, gossip/manager.go, gossip/queue.go; the decisions of dag/state.go).
  Facts: NutsModel/Facts/C07.lean is REGENERATED from /repo on every run.
-/
import NutsModel.C07.Net
import NutsModel.Facts.C07
import NutsProofs.Lemmas.C07
import NutsProofs.Lemmas.C07LiveN
import NutsProofs.Lemmas.C07Example
import NutsProofs.Lemmas.C07LiveO
import NutsProofs.Lemmas.C07IbltB
import NutsProofs.Lemmas.C07Disp
import NutsProofs.Lemmas.C07Addr
import NutsProofs.Lemmas.C07ConvLock
open Nuts.Proto Nuts Nuts.Proto.L Nuts.Proto.Live Nuts.C07.Ex

namespace Nuts.C07.Props

/-! ### Obligations on the regenerated facts (a source change flips these) -/

/-- the constants the liveness argument needs: pages are non-empty, a range reply spans at least the page asked
    for, the gossip queue and the message size are positive -/
theorem fact_constants :
    0 < Facts.C07.pageSize ∧ 0 < Facts.C07.maxQueueSize ∧ 1 ≤ Facts.C07.rangeLimitPages ∧
    Facts.C07.transactionListMessageOverhead < Facts.C07.defaultMaxMessageSizeInBytes ∧ 0 < Facts.C07.maxValidity := by decide

/-- list and range queries block further queries to the same peer, `State` does not; all three are checked -/
theorem fact_blockable :
    Facts.C07.blockable = ["Envelope_TransactionListQuery", "Envelope_TransactionRangeQuery"] ∧
    Facts.C07.checkable = ["Envelope_TransactionListQuery", "Envelope_TransactionRangeQuery", "Envelope_State"] := by decide

/-- `handleTransactionSet` asks for the page after the requested one (one page when reconciling history, two when
    behind), the first page when the first page does not decode, and checks the conversation before it marks it
    done and decodes; a range reply is limited to `rangeLimitPages` pages, which covers both requests -/
theorem fact_transaction_set_shape :
    Facts.C07.nextPageOffsets = [1, 2, 1, 3] ∧ Facts.C07.firstPageQueryEnd = "dag.PageSize" ∧
    Facts.C07.setCheckThenDoneThenDecode = true ∧ Facts.C07.rangeLimitPages = 2 := by decide

/-- `handleTransactionList` checks the conversation before the first `Add` and ends the conversation only with the
    last chunk (or in the missing-prevs branch) -/
theorem fact_transaction_list_shape :
    Facts.C07.listCheckBeforeAdd = true ∧ Facts.C07.listDoneGuard = "msg.MessageNumber >= msg.TotalMessages" := by decide

/-- `handleGossip` sends a list query iff the gossiped refs explain the XOR difference or the peer is behind -/
theorem fact_gossip_condition :
    Facts.C07.gossipListQueryCond = "tempXor.Equals(peerXor) || (msg.LC < clock && len(refs) > 0)" := by decide

/-- every envelope type the model handles is dispatched by `protocol.handle`, and no other -/
theorem fact_handled_envelopes :
    Facts.C07.handledEnvelopes = ["Envelope_Gossip", "Envelope_TransactionList", "Envelope_TransactionListQuery",
      "Envelope_TransactionPayloadQuery", "Envelope_TransactionPayload", "Envelope_TransactionRangeQuery", "Envelope_State",
      "Envelope_TransactionSet", "Envelope_DiagnosticsBroadcast"] := by decide

/-- `protocol.handle` dispatches every envelope type to the handler the model (and the harness, which calls the handlers
    directly) uses for it; TransactionLists are queued for in-order processing by `handleTransactionList`; `Configure`
    registers `sendGossip` as the gossip sender and `gossipTransaction` as the "gossip" notifier -/
theorem fact_dispatch_and_wiring :
    Facts.C07.dispatch = ["Envelope_Gossip->p.handleGossip", "Envelope_TransactionList->channel:p.listHandler.ch",
      "Envelope_TransactionListQuery->p.handleTransactionListQuery", "Envelope_TransactionPayloadQuery->p.handleTransactionPayloadQuery",
      "Envelope_TransactionPayload->p.handleTransactionPayload", "Envelope_TransactionRangeQuery->p.handleTransactionRangeQuery",
      "Envelope_State->p.handleState", "Envelope_TransactionSet->p.handleTransactionSet",
      "Envelope_DiagnosticsBroadcast->p.handleDiagnostics"] ∧
    Facts.C07.listHandlerFunc = "p.handleTransactionList" ∧
    Facts.C07.configureWiring = ["RegisterSender:p.sendGossip", "Notifier:\"private\":<*ast.FuncLit>", "Notifier:\"gossip\":p.gossipTransaction"] := by decide

/-! ### Safety, unconditional: every schedule of the adversarial network -/

/-- **Safety for ANY schedule** (deliveries in any order, any number of times or never; forged messages of any type
    with any content; gossip ticks; clock advances; evictions; local creation) and ANY behaviour of the IBLT decode,
    the sort and the ECIES oracles. Starting from valid DAGs:
    (a) every node's DAG only grows — the old DAG is a suffix of the new one, nothing is removed or reordered;
    (b) every DAG stays a valid DAG (`DagOK`: good signature verdict, no duplicates, prevs present before, right clock,
        one root) — in particular no transaction with a bad verdict, a wrong clock or missing prevs is ever admitted;
    (c) if every good-verdict transaction the adversary ever shows is in `U` (it cannot forge signatures; take
        `U = dagA₀ ∪ dagB₀ ∪ created`), every DAG stays inside `U`. -/
theorem safety_any_schedule (cfg : Cfg) (sched : List Step) : ∀ (w : World), (∀ n ∈ w.nodes, DagOK n.dag) →
    (∀ n ∈ (w.run cfg sched).nodes, DagOK n.dag) ∧
    (∀ j, ∃ added, World.dag (w.run cfg sched) j = added ++ World.dag w j ∧ ∀ t ∈ added, t.sigOK = true) ∧
    (∀ U : Tx → Prop, InvU U w → (∀ s ∈ sched, StepIn U s) → InvU U (w.run cfg sched)) := by
  induction sched with
  | nil => intro w hok; exact ⟨hok, fun j => ⟨[], by simp [World.run], by simp⟩, fun U hi _ => hi⟩
  | cons s rest ih =>
    intro w hok
    obtain ⟨hok1, hd1⟩ := step_dag cfg w s hok
    obtain ⟨hok2, hd2, hu2⟩ := ih (w.step cfg s) hok1
    refine ⟨hok2, fun j => ?_, fun U hi hs => ?_⟩
    · obtain ⟨a1, h1, m1⟩ := hd1 j
      obtain ⟨a2, h2, m2⟩ := hd2 j
      refine ⟨a2 ++ a1, ?_, ?_⟩
      · show World.dag ((w.step cfg s).run cfg rest) j = _
        rw [h2, h1, List.append_assoc]
      · intro t ht
        rcases List.mem_append.mp ht with h | h
        · exact m2 t h
        · exact (m1 t h).1
    · exact hu2 U (step_invU cfg U w s hok hi (hs s List.mem_cons_self)) (fun x hx => hs x (List.mem_cons_of_mem _ hx))

/-- **Stale, duplicated, unsolicited or conversation-mismatching responses change no DAG** — they change nothing at
    all: a `TransactionList` or `TransactionSet` whose conversation check fails (unknown/expired/evicted conversation,
    wrong envelope type for the request, non-requested ref, clock outside the requested range, unparsable
    transaction, wrong `LCReq`) leaves the node exactly as it was and sends nothing. And conversely a DAG changes only
    through a `TransactionList` whose conversation check passed, by transactions contained in that message. -/
theorem unsolicited_responses_change_no_dag (cfg : Cfg) (env : Env) (n : Node) (peer : Peer) :
    (∀ cid num total txs, convCheck n cid (.txList cid num total txs) ≠ none →
        (handle cfg env n peer (.txList cid num total txs)).node = n ∧ (handle cfg env n peer (.txList cid num total txs)).out = []) ∧
    (∀ cid lcReq lc iblt, convCheck n cid (.txSet cid lcReq lc iblt) ≠ none →
        (handle cfg env n peer (.txSet cid lcReq lc iblt)).node = n ∧ (handle cfg env n peer (.txSet cid lcReq lc iblt)).out = []) ∧
    (∀ m, DagOK n.dag → (handle cfg env n peer m).node.dag ≠ n.dag →
        ∃ cid num total txs, m = .txList cid num total txs ∧ convCheck n cid m = none ∧
          ∀ t ∈ (handle cfg env n peer m).node.dag, t ∈ n.dag ∨ (t.sigOK = true ∧ t ∈ txs.filterMap (·.tx))) := by
  refine ⟨fun cid => (rejected_response_noop cfg env n peer cid).1, fun cid => (rejected_response_noop cfg env n peer cid).2, ?_⟩
  intro m hok hne
  obtain ⟨_, added, hd, hc, hm⟩ := handle_dag cfg env n peer m hok
  have hadd : added ≠ [] := by
    intro h; apply hne; rw [hd, h]; rfl
  obtain ⟨cid, num, total, txs, rfl, hcheck⟩ := hc hadd
  refine ⟨cid, num, total, txs, rfl, hcheck, fun t ht => ?_⟩
  rw [hd] at ht
  rcases List.mem_append.mp ht with h | h
  · exact Or.inr (hm t h)
  · exact Or.inl h

/-! ### chunking and reply order -/

/-- `chunkTransactionList` loses nothing, duplicates nothing and keeps the order; every chunk fits the message size
    limit unless it is a single oversize transaction (or the empty chunk the code emits before a first oversize one) -/
theorem chunks_lossless (cfg : Cfg) (l : List NetTx) :
    (chunkTransactionList cfg l).flatten = l ∧
    ∀ c ∈ chunkTransactionList cfg l, csize cfg c ≤ cfg.maxMsg - cfg.msgOverhead ∨ c.length ≤ 1 :=
  ⟨chunks_flatten cfg l, chunks_bounded cfg l⟩

/-- **every TransactionList message fits**: counting `txOverhead` bytes of framing for EVERY transaction (as the source
    does), each chunk stays within `maxMsg − msgOverhead` whenever each transaction fits on its own. (That the real
    protobuf framing needs at most `txOverhead` per transaction and `msgOverhead` per message is measured by the harness
    on the real marshalled size of every message the senders produce.) -/
theorem chunks_fit_message_limit (cfg : Cfg) (l : List NetTx) (hfit : ∀ t ∈ l, netSize cfg t ≤ cfg.maxMsg - cfg.msgOverhead) :
    ∀ c ∈ chunkTransactionList cfg l, csize cfg c ≤ cfg.maxMsg - cfg.msgOverhead := chunks_fit cfg l hfit

/-- the release of `addMutex` as the source has it (state.go Add): locked once, then `unlock := func() { unlockOnce.Do(s.addMutex.Unlock) }`,
    `defer unlock()` at the top level, the same `unlock` as AfterCommit hook, no other reference to `addMutex.Unlock` -/
theorem fact_add_mutex_release :
    Facts.C07.addTopLevelDefers = ["unlock()"] ∧
    Facts.C07.addUnlockDef = "func() { unlockOnce.Do(s.addMutex.Unlock) }" ∧
    Facts.C07.addAfterLock = ["s.addMutex.Lock()", "var unlockOnce sync.Once", "unlock := func() { unlockOnce.Do(s.addMu", "defer unlock()",
                               "return s.db.Write(ctx, func(tx stoabs.Wr"] ∧
    Facts.C07.addWriteHooks = ["stoabs.OnRollback(func)", "stoabs.AfterCommit(unlock)", "stoabs.AfterCommit(func)", "stoabs.AfterCommit(func)", "stoabs.WithWriteLock"] ∧
    Facts.C07.addDirectUnlockRefs = 1 := by decide

/-- the source's construction, read off the facts -/
def srcAddUnlock : AddUnlock :=
  { deferred := Facts.C07.addTopLevelDefers.contains "unlock()",
    afterCommit := Facts.C07.addWriteHooks.contains "stoabs.AfterCommit(unlock)",
    onRollback := false,
    once := Facts.C07.addUnlockDef == "func() { unlockOnce.Do(s.addMutex.Unlock) }" }

/-- **`State.Add` releases its mutex exactly once on EVERY exit** — commit, error of the function, failed commit, and a `Write`
    that fails before a transaction exists (database busy / closed): a failed Add never blocks the Adds that follow, so for the
    protocol it is a lost TransactionList and nothing more. -/
theorem add_mutex_released_on_every_exit (e : WriteExit) : unlockCalls srcAddUnlock e = 1 := by
  cases e <;> decide

/-- in general: a top-level deferred release through a `sync.Once` is exactly one release on every exit, whatever hooks exist -/
theorem deferred_once_releases_exactly_once (u : AddUnlock) (hd : u.deferred = true) (ho : u.once = true) (e : WriteExit) :
    unlockCalls u e = 1 := by
  simp only [unlockCalls, requestedUnlocks, ho, hd, if_true]
  exact Nat.min_eq_right (by omega)

/-- … whereas the commit / rollback hooks alone leave the mutex locked when no transaction came into being -/
theorem hooks_alone_leave_mutex_locked :
    unlockCalls { deferred := false, afterCommit := true, onRollback := true, once := false } .noTransaction = 0 := by decide

/-- the gossip manager's peer table is keyed by the same expression wherever it is read, written or deleted from -/
theorem fact_gossip_peer_table_keys :
    Facts.C07.gossipPeerTableKeys =
      ["GossipReceived:index:transportPeer.Key()", "PeerConnected:index:transportPeer.Key()", "PeerConnected:index:transportPeer.Key()",
       "PeerDisconnected:index:transportPeer.Key()", "PeerDisconnected:delete:transportPeer.Key()"] := by decide

/-- `PeerDisconnected` removes the peer's gossip queue … -/
theorem disconnect_removes_queue (n : Node) (key : Nat) :
    (connChange n key .disconnect).queues.any (fun q => q.peer == key) = false := by
  simp only [connChange]
  rw [List.any_eq_false]
  intro q hq
  have := (List.mem_filter.mp hq).2
  simpa using this

theorem connect_of_no_queue (m : Node) (key : Nat) (h : m.queues.any (fun q => q.peer == key) = false) :
    (connChange m key .connect).queues = m.queues ++ [{ peer := key, xor := xorOf m.dag, clock := lcOf m.dag }] := by
  have hq : (setConnected m key true).queues = m.queues := rfl
  have hd : (setConnected m key true).dag = m.dag := rfl
  simp only [connChange, hq, hd, h, Bool.false_eq_true, if_false]

/-- … so **a peer that reconnects gets a fresh gossip queue** (current XOR and clock, nothing queued): gossip to it resumes -/
theorem reconnect_gets_fresh_queue (n : Node) (key : Nat) :
    ({ peer := key, xor := xorOf n.dag, clock := lcOf n.dag } : PeerQueue) ∈
      (connChange (connChange n key .disconnect) key .connect).queues := by
  rw [connect_of_no_queue _ key (disconnect_removes_queue n key)]
  exact List.mem_append_right _ (List.mem_singleton.mpr rfl)

/-- connect ∘ disconnect is the identity on the peer table: a connection that comes and goes leaves no entry behind -/
theorem connect_then_disconnect_leaves_no_entry (n : Node) (key : Nat)
    (hnew : n.queues.any (fun q => q.peer == key) = false) :
    (connChange (connChange n key .connect) key .disconnect).queues = n.queues := by
  have hc := connect_of_no_queue n key hnew
  rw [List.any_eq_false] at hnew
  have hkeep : n.queues.filter (fun q => q.peer != key) = n.queues := by
    apply List.filter_eq_self.mpr
    intro q hq'
    have := hnew q hq'
    simpa using this
  show List.filter (fun q => q.peer != key) (connChange n key .connect).queues = n.queues
  rw [hc, List.filter_append, hkeep]
  simp

/-- the chunk size accounting of the source: room = message limit − message overhead; every transaction counts its payload,
    its data and the per-transaction overhead; the same limit is what the gRPC client and server enforce -/
theorem fact_chunk_accounting :
    Facts.C07.chunkMaxExpr = "grpc.MaxMessageSizeInBytes - transactionListMessageOverhead" ∧
    Facts.C07.chunkTxSizeExpr = "len(tx.Payload) + len(tx.Data) + transactionListTXOverhead" ∧
    Facts.C07.grpcLimitOptions = ["grpc.MaxCallRecvMsgSize", "grpc.MaxCallSendMsgSize", "grpc.MaxRecvMsgSize", "grpc.MaxSendMsgSize"] := by decide

/-- **a range reply is sorted by clock and is exactly the node's transactions in the (two-page-limited) range**, so a
    receiver that has everything below the range can add it in order; a list reply is a clock-sorted rearrangement of
    the requested present transactions for every sort meeting `OrderOK` -/
theorem range_reply_sorted_prefixclosed (d : List Tx) (s e : Nat) :
    (findBetween d s e).Pairwise (fun x y => x.clock ≤ y.clock) ∧ ∀ t, t ∈ findBetween d s e ↔ (t ∈ d ∧ s ≤ t.clock ∧ t.clock < e) :=
  ⟨findBetween_sorted d s e, fun _ => findBetween_iff⟩

/-! ### stability -/

/-- **Once the XORs are equal the handlers send nothing but gossip**: a gossip or a state message carrying the
    node's own XOR leaves the node unchanged and produces no message (so two equal nodes exchange gossip only). -/
theorem stable_when_equal (cfg : Cfg) (env : Env) (n : Node) (peer : Peer) (lc : Nat) (refs : List Ref) (cid : Cid) :
    (handle cfg env n peer (.gossip (xorOf n.dag) lc refs)).node = n ∧
    (handle cfg env n peer (.gossip (xorOf n.dag) lc refs)).out = [] ∧
    (handle cfg env n peer (.state cid (xorOf n.dag) lc)).node = n ∧
    (handle cfg env n peer (.state cid (xorOf n.dag) lc)).out = [] := by
  simp [handle, handleGossip, handleState]


/-! ### Liveness, relative to the decode contract `DC`, the sort contract, XOR faithfulness and fairness

  A *pull round* `pullRound` is: the gossip tick of `b`, then every reconciliation message of the resulting exchange
  delivered, batch by batch in the order sent (Round.lean). A *fair round pair* `roundPair` is: conversations that
  lost a message expire, `a` pulls from `b`, `b` pulls from `a`. These are compositions of the handlers of the model —
  particular schedules of the adversarial network — and the hypotheses below are explicit, never axioms. -/

/-- the constants of the source meet what the liveness argument needs (pages non-empty, `State` requests never
    blocked, a range reply covers the page asked for, next-page offsets 1..2 / 1..3) for any oracles meeting their
    contracts -/
theorem fact_liveness_constants (maxMsg validity : Nat) (env : Env) (hdc : DC env) (hord : OrderOK env) :
    Hyp (factCfg maxMsg validity) env := fact_hyp maxMsg validity env hdc hord

/-- **One pull round.** From a state where the puller `a` has no open conversation, a loss-free round started by
    `b`'s gossip tick terminates (fuel: pages of `b` + 3 exchanges), leaves `b`'s DAG untouched and `a` with a valid
    DAG between its own and the union, and EITHER `a` gained a transaction OR `a` learned `StuckAt`: for some page
    `k`, everything `b` has up to page `k` is already in `a`, and on every page from `k` up to the page of the smaller
    clock the decode failed (so the two differ there). Proof: cases on the handler branches, with the page pointer of
    the State/TransactionSet fallback chain as inner measure (`chain`). -/
theorem pull_round_result {cfg : Cfg} {env : Env} (H : Hyp cfg env) (a b : Node) (pA pB : Peer)
    (ha : DagOK a.dag) (hB : DagOK b.dag) (hf : RefFun a.dag b.dag) (hroot : RootIn a.dag b.dag) (hpb : PayloadsOK b)
    (hq : QueueOK b pA.key) (hc : a.convs = [])
    (hxf : ∀ d : List Tx, DagOK d → (∀ t ∈ a.dag, t ∈ d) → (∀ t ∈ d, t ∈ a.dag ∨ t ∈ b.dag) → xorOf b.dag = xorOf d → ∀ t ∈ b.dag, t ∈ d)
    (fuel : Nat) (hfuel : pageOf cfg (lcOf b.dag) + 3 ≤ fuel) :
    ∃ a', pullRound cfg env pA pB fuel a b = (a', (gossipTick b pA.key).node) ∧ (gossipTick b pA.key).node.dag = b.dag ∧
      DagOK a'.dag ∧ (∀ t ∈ a.dag, t ∈ a'.dag) ∧ (∀ t ∈ a'.dag, t ∈ a.dag ∨ t ∈ b.dag) ∧
      ((∃ t ∈ a'.dag, t ∉ a.dag) ∨ StuckAt cfg a.dag b.dag (pageOf cfg (Nat.min (lcOf b.dag) (lcOf a.dag)))) :=
  pull_result H a b pA pB ha hB hf hroot hpb hq hc hxf fuel hfuel

/-- **A pull round is a schedule of the adversarial network** (node 0 = puller, node 1 = server): one gossip tick
    followed by deliveries of messages the partner sent, so everything proved for ALL schedules holds along rounds
    and the convergence theorem speaks about executions of the network model. -/
theorem rounds_are_schedules (cfg : Cfg) (env : Env) (pA pB : Peer) (fuel : Nat) (a b : Node)
    (w : World) (hw : w.nodes = [a, b]) (hpa : peerOf a pB.key = some pB) (hpb : peerOf b pA.key = some pA) :
    ∃ sched, (w.run cfg sched).nodes = [(pullRound cfg env pA pB fuel a b).1, (pullRound cfg env pA pB fuel a b).2] :=
  pullRound_is_run cfg env pA pB fuel a b w hw hpa hpb

/-- **Two stuck pulls mean equality** (why one direction alone is not enough, and why a pair is): if `a` learned
    `StuckAt` about `b` and `b` learned `StuckAt` about `a`, the two DAGs hold the same transactions. -/
theorem stuck_both_ways_same (cfg : Cfg) (hps : 0 < cfg.pageSize) (A B : List Tx) (hA : DagOK A) (hB : DagOK B)
    (h1 : StuckAt cfg A B (pageOf cfg (Nat.min (lcOf B) (lcOf A)))) (h2 : StuckAt cfg B A (pageOf cfg (Nat.min (lcOf A) (lcOf B)))) :
    (∀ t ∈ B, t ∈ A) ∧ (∀ t ∈ A, t ∈ B) := pair_stuck_same cfg hps A B hA hB h1 h2

/-- **Progress of a fair round pair.** In any state satisfying the pair invariant (valid DAGs inside a universe `U`
    in which refs identify transactions and whose root both nodes hold; sound payload stores; gossip queues in sync;
    the two connected), a fair round pair keeps the invariant, loses nothing, stays inside the union, and ends with
    EITHER identical transaction sets OR strictly more transactions in the two DAGs together. -/
theorem round_progress {cfg : Cfg} {env : Env} (H : Hyp cfg env) (U : List Tx)
    (hU : ∀ t ∈ U, ∀ t' ∈ U, t.ref = t'.ref → t = t')
    (hxf : ∀ d d' : List Tx, DagOK d → DagOK d' → (∀ t ∈ d, t ∈ U) → (∀ t ∈ d', t ∈ U) → xorOf d' = xorOf d → ∀ t ∈ d', t ∈ d)
    (pA pB : Peer) (fuel : Nat) (hfuel : pageOf cfg (lcOf U) + 3 ≤ fuel) (a b : Node) (hI : PairInv U a b pA.key pB.key) :
    PairInv U (roundPair cfg env pA pB fuel (a, b)).1 (roundPair cfg env pA pB fuel (a, b)).2 pA.key pB.key ∧
    (∀ t ∈ a.dag, t ∈ (roundPair cfg env pA pB fuel (a, b)).1.dag) ∧ (∀ t ∈ b.dag, t ∈ (roundPair cfg env pA pB fuel (a, b)).2.dag) ∧
    (∀ t ∈ (roundPair cfg env pA pB fuel (a, b)).1.dag, t ∈ a.dag ∨ t ∈ b.dag) ∧
    (∀ t ∈ (roundPair cfg env pA pB fuel (a, b)).2.dag, t ∈ a.dag ∨ t ∈ b.dag) ∧
    (SameSet (roundPair cfg env pA pB fuel (a, b)).1.dag (roundPair cfg env pA pB fuel (a, b)).2.dag ∨
      a.dag.length + b.dag.length < (roundPair cfg env pA pB fuel (a, b)).1.dag.length + (roundPair cfg env pA pB fuel (a, b)).2.dag.length) :=
  roundPair_step H U hU hxf pA pB fuel hfuel a b hI

/-- **Convergence.** After any number `k` of fair round pairs with `|a| + |b| + k > 2·|U|` — for `U` the union that
    is at most `|a △ b|` productive pairs — both nodes hold exactly the union `a ∪ b`; and they keep it for every
    later pair (`k` is arbitrary above the bound). The state `(a, b)` is any state satisfying the pair invariant, in
    particular any state reached by an arbitrary adversarial prefix (`safety_any_schedule` keeps DAGs valid and inside
    `U`; expiry clears whatever conversations the prefix left behind). -/
theorem converges {cfg : Cfg} {env : Env} (H : Hyp cfg env) (U : List Tx)
    (hU : ∀ t ∈ U, ∀ t' ∈ U, t.ref = t'.ref → t = t')
    (hxf : ∀ d d' : List Tx, DagOK d → DagOK d' → (∀ t ∈ d, t ∈ U) → (∀ t ∈ d', t ∈ U) → xorOf d' = xorOf d → ∀ t ∈ d', t ∈ d)
    (pA pB : Peer) (fuel : Nat) (hfuel : pageOf cfg (lcOf U) + 3 ≤ fuel) (a b : Node) (hI : PairInv U a b pA.key pB.key)
    (k : Nat) (hk : 2 * U.length < a.dag.length + b.dag.length + k) :
    (∀ t, t ∈ (roundPairs cfg env pA pB fuel k (a, b)).1.dag ↔ (t ∈ a.dag ∨ t ∈ b.dag)) ∧
    (∀ t, t ∈ (roundPairs cfg env pA pB fuel k (a, b)).2.dag ↔ (t ∈ a.dag ∨ t ∈ b.dag)) ∧
    DagOK (roundPairs cfg env pA pB fuel k (a, b)).1.dag ∧ DagOK (roundPairs cfg env pA pB fuel k (a, b)).2.dag := by
  obtain ⟨hIk, sa, sb, ua, ub, _, hcase⟩ := converge_aux H U hU hxf pA pB fuel hfuel k a b hI
  have hsame : SameSet (roundPairs cfg env pA pB fuel k (a, b)).1.dag (roundPairs cfg env pA pB fuel k (a, b)).2.dag := by
    rcases hcase with h | h
    · exact h
    · exfalso
      have h1 := length_le_of_sub hIk.oka hIk.ua
      have h2 := length_le_of_sub hIk.okb hIk.ub
      omega
  refine ⟨fun t => ⟨ua t, fun h => ?_⟩, fun t => ⟨ub t, fun h => ?_⟩, hIk.oka, hIk.okb⟩
  · rcases h with h | h
    · exact sa t h
    · exact hsame.1 t (sb t h)
  · rcases h with h | h
    · exact hsame.2 t (sa t h)
    · exact sb t h

/-- **Stability**: once the two hold the same set, every further fair round pair leaves it so -/
theorem stable_after_convergence {cfg : Cfg} {env : Env} (H : Hyp cfg env) (U : List Tx)
    (hU : ∀ t ∈ U, ∀ t' ∈ U, t.ref = t'.ref → t = t')
    (hxf : ∀ d d' : List Tx, DagOK d → DagOK d' → (∀ t ∈ d, t ∈ U) → (∀ t ∈ d', t ∈ U) → xorOf d' = xorOf d → ∀ t ∈ d', t ∈ d)
    (pA pB : Peer) (fuel : Nat) (hfuel : pageOf cfg (lcOf U) + 3 ≤ fuel) (a b : Node) (hI : PairInv U a b pA.key pB.key)
    (hs : SameSet a.dag b.dag) (k : Nat) :
    SameSet (roundPairs cfg env pA pB fuel k (a, b)).1.dag (roundPairs cfg env pA pB fuel k (a, b)).2.dag :=
  (converge_aux H U hU hxf pA pB fuel hfuel k a b hI).2.2.2.2.2.1 hs

/-! ### non-vacuity: the hypotheses are satisfiable together, and the conclusion is reached on a concrete instance -/

example : DC idealEnv ∧ OrderOK idealEnv := ⟨idealEnv_DC, idealEnv_OrderOK⟩
example : PairInv exU exA exB 0 1 := exPairInv
example : ∀ t ∈ exU, ∀ t' ∈ exU, t.ref = t'.ref → t = t' := by decide
/-- `b` is one transaction ahead: after one fair round pair of the model (constants of the source, ideal oracles) `a` has it -/
example : ((roundPairs exCfg idealEnv { key := 0 } { key := 1 } 4 1 (exA, exB)).1.dag.map (·.ref),
           (roundPairs exCfg idealEnv { key := 0 } { key := 1 } 4 1 (exA, exB)).2.dag.map (·.ref)) = ([2, 1], [2, 1]) := by decide
/-- the theorem applied to the instance -/
example : ∀ t, t ∈ (roundPairs exCfg idealEnv { key := 0 } { key := 1 } 4 2 (exA, exB)).1.dag ↔ (t ∈ exA.dag ∨ t ∈ exB.dag) :=
  (converges (fact_hyp 524288 30 idealEnv idealEnv_DC idealEnv_OrderOK) exU (by decide) exXF { key := 0 } { key := 1 } 4
    (by decide) exA exB exPairInv 2 (by decide)).1
/-- safety: a forged TransactionList without conversation, and an invalid transaction, change nothing -/
example : (handle exCfg idealEnv exA { key := 1 } (.txList (7, 7) 1 1 [⟨some exX, some ⟨"p-x", 3, 20⟩⟩])).node.dag = exA.dag := by decide

/-! ### Deepening round 2026-09-28: `tree.Iblt` inside the model (NutsModel/C07/Iblt.lean) -/

section IbltProps
open Nuts.Proto.Iblt

/-- `bucketIndices` yields pairwise distinct buckets inside the table, for every hash function, key hash and table size ≥ 1:
    Insert followed by Delete of a key cancels exactly and no index is out of range -/
theorem iblt_bucket_indices_distinct_in_range (H : Hash) (P : Par) {n : Nat} (hn : 0 < n) (hash : Nat) :
    (bucketIndices H P n hash).Nodup ∧ ∀ i ∈ bucketIndices H P n hash, i < n :=
  bucketIndices_good H P hn hash

/-- `Subtract` of the encodings of two duplicate-free key lists is the table of their two-sided difference: the common keys
    cancel bucket by bucket (whatever the order the keys were inserted in) -/
theorem iblt_subtract_represents_difference (H : Hash) (P : Par) {n : Nat} (hn : 0 < n) {loc peer : List Ref}
    (hl : loc.Nodup) (hp : peer.Nodup) :
    ∃ t, subtract (encode H P n loc) (encode H P n peer) = some t ∧
      Rep H P n t (loc.filter (fun x => !peer.contains x)) (peer.filter (fun x => !loc.contains x)) :=
  subtract_rep H P n hn hl hp

/-- **The decode contract of the liveness theorems (`DC`), proved for the modelled `Subtract` + `Decode`** relative to ONE
    property of the hash (`Faithful`: no ≥2 distinct keys of `U` look like a single key; no non-empty set of distinct keys of
    `U` cancels to the zero bucket — false only on a 64-bit hash-sum collision): for duplicate-free key lists inside `U`
    (a) a successful decode returns exactly the keys the peer has and we lack, (b) equal sets decode (to nothing),
    (c) the result is never an error: no ErrDecodeLoop, and the peeling loop ends within |loc|+|peer|+1 sweeps. -/
theorem iblt_decode_contract (H : Hash) (P : Par) {n : Nat} (U : Ref → Prop) (hn : 0 < n) (hk : 0 < P.k) (hm : 0 < P.maxChain)
    (hF : Faithful H U) (loc peer : List Ref) (hl : loc.Nodup) (hp : peer.Nodup)
    (hUl : ∀ x ∈ loc, U x) (hUp : ∀ x ∈ peer, U x) :
    (∀ m, envDecode H P n loc (.ofSet peer) = .ok m → ∀ r, r ∈ m ↔ (r ∈ peer ∧ r ∉ loc)) ∧
    ((∀ r, r ∈ loc ↔ r ∈ peer) → ∃ m, envDecode H P n loc (.ofSet peer) = .ok m) ∧
    envDecode H P n loc (.ofSet peer) ≠ .err := by
  obtain ⟨t, hsub, hrep⟩ := subtract_rep H P n hn hl hp
  have hinv : Inv H P n U (loc.filter (fun x => !peer.contains x)) (peer.filter (fun x => !loc.contains x))
      ⟨t, [], [], [], false⟩ (loc.filter (fun x => !peer.contains x)) (peer.filter (fun x => !loc.contains x)) := by
    refine ⟨hrep, hl.filter _, hp.filter _, ?_, ?_, ?_, ?_, ?_, ?_⟩
    · intro x hx hx'
      have h1 := (List.mem_filter.mp hx).1
      have h2 := (List.mem_filter.mp hx').2
      simp [h1] at h2
    · intro x hx; exact hUl x (List.mem_filter.mp hx).1
    · intro x hx; exact hUp x (List.mem_filter.mp hx).1
    · intro r; simp
    · intro r; simp
    · intro r hr; cases hr
  have hfuel : (loc.filter (fun x => !peer.contains x)).length + (peer.filter (fun x => !loc.contains x)).length
      < loc.length + peer.length + 1 := by
    have h1 := List.length_filter_le (fun x => !peer.contains x) loc
    have h2 := List.length_filter_le (fun x => !loc.contains x) peer
    omega
  have hspec := decodeLoop_spec H P n U hn hk hm hF (loc.length + peer.length + 1) t [] [] [] _ _ hinv hfuel
  have hdef : envDecode H P n loc (.ofSet peer) =
      (match decodeLoop H P (loc.length + peer.length + 1) t [] [] [] with
       | .ok _ mis => .ok mis | .notPossible _ _ => .fail | .loop => .err | .fuel => .err) := by
    simp only [envDecode, decodeAgainst, hsub, decode]
    generalize decodeLoop H P (loc.length + peer.length + 1) t [] [] [] = d
    cases d <;> rfl
  rcases hspec with ⟨r, m, hd, _, hB⟩ | ⟨r, m, hd, hne, _, _⟩
  · have hres : envDecode H P n loc (.ofSet peer) = .ok m := by rw [hdef, hd]
    rw [hres]
    refine ⟨?_, fun _ => ⟨m, rfl⟩, by simp⟩
    intro m' hm' x
    cases hm'
    rw [← hB x]
    simp [List.mem_filter]
  · have hres : envDecode H P n loc (.ofSet peer) = .fail := by rw [hdef, hd]
    rw [hres]
    refine ⟨fun m' hm' => (by cases hm'), ?_, by simp⟩
    intro hsame
    exfalso
    rcases hne with h | h
    · apply h
      rw [List.filter_eq_nil_iff]
      intro x hx
      simp [(hsame x).mp hx]
    · apply h
      rw [List.filter_eq_nil_iff]
      intro x hx
      simp [(hsame x).mpr hx]

/-- what `Decode` itself returns on the table left by `Subtract` (both result lists): on success `remaining` = loc∖peer and
    `missing` = peer∖loc exactly; on ErrDecodeNotPossible the partial lists lie inside those differences (the basis of the
    recovery promise in the doc comment of `Decode`); ErrDecodeLoop and running out of sweeps do not occur -/
theorem iblt_decode_both_sides (H : Hash) (P : Par) {n : Nat} (U : Ref → Prop) (hn : 0 < n) (hk : 0 < P.k) (hm : 0 < P.maxChain)
    (hF : Faithful H U) (loc peer : List Ref) (hl : loc.Nodup) (hp : peer.Nodup)
    (hUl : ∀ x ∈ loc, U x) (hUp : ∀ x ∈ peer, U x) :
    ∃ t, subtract (encode H P n loc) (encode H P n peer) = some t ∧
      ((∃ r m, decode H P (loc.length + peer.length + 1) t = .ok r m ∧
          (∀ x, x ∈ r ↔ (x ∈ loc ∧ x ∉ peer)) ∧ (∀ x, x ∈ m ↔ (x ∈ peer ∧ x ∉ loc))) ∨
       (∃ r m, decode H P (loc.length + peer.length + 1) t = .notPossible r m ∧
          (∀ x ∈ r, x ∈ loc ∧ x ∉ peer) ∧ (∀ x ∈ m, x ∈ peer ∧ x ∉ loc))) := by
  obtain ⟨t, hsub, hrep⟩ := subtract_rep H P n hn hl hp
  refine ⟨t, hsub, ?_⟩
  have hinv : Inv H P n U (loc.filter (fun x => !peer.contains x)) (peer.filter (fun x => !loc.contains x))
      ⟨t, [], [], [], false⟩ (loc.filter (fun x => !peer.contains x)) (peer.filter (fun x => !loc.contains x)) := by
    refine ⟨hrep, hl.filter _, hp.filter _, ?_, ?_, ?_, ?_, ?_, ?_⟩
    · intro x hx hx'
      have h1 := (List.mem_filter.mp hx).1
      have h2 := (List.mem_filter.mp hx').2
      simp [h1] at h2
    · intro x hx; exact hUl x (List.mem_filter.mp hx).1
    · intro x hx; exact hUp x (List.mem_filter.mp hx).1
    · intro r; simp
    · intro r; simp
    · intro r hr; cases hr
  have hfuel : (loc.filter (fun x => !peer.contains x)).length + (peer.filter (fun x => !loc.contains x)).length
      < loc.length + peer.length + 1 := by
    have h1 := List.length_filter_le (fun x => !peer.contains x) loc
    have h2 := List.length_filter_le (fun x => !loc.contains x) peer
    omega
  rcases decodeLoop_spec H P n U hn hk hm hF (loc.length + peer.length + 1) t [] [] [] _ _ hinv hfuel with
    ⟨r, m, hd, hA, hB⟩ | ⟨r, m, hd, _, hA, hB⟩
  · left
    refine ⟨r, m, hd, ?_, ?_⟩
    · intro x; rw [← hA x]; simp [List.mem_filter]
    · intro x; rw [← hB x]; simp [List.mem_filter]
  · right
    refine ⟨r, m, hd, ?_, ?_⟩
    · intro x hx; have := hA x hx; simpa [List.mem_filter] using this
    · intro x hx; have := hB x hx; simpa [List.mem_filter] using this

/-- garbage bytes and a table of another size are errors, as in `UnmarshalBinary` / `validate` -/
theorem iblt_garbage_and_size_mismatch_err (H : Hash) (P : Par) (n fuel : Nat) (loc : List Ref) (peer : Table) (h : peer.length ≠ n) :
    envDecode H P n loc .garbage = .err ∧ decodeAgainst H P n fuel loc peer = .err := by
  refine ⟨rfl, ?_⟩
  have : (encode H P n loc).length ≠ peer.length := by rw [encode_length]; exact fun e => h e.symm
  simp [decodeAgainst, subtract, this]

/-- non-vacuity of `Faithful`: the keys {1, 2} with hashKey x = x + 10 -/
def exIbltHash : Hash := { hashKey := fun x => x + 10, chain0 := fun h => h * 7 + 3, chain := fun x => x * 5 + 1 }

theorem exIbltHash_faithful : Faithful exIbltHash (fun x => x = 1 ∨ x = 2) := by
  constructor
  · intro S hnd hU hlen
    match S, hnd, hU, hlen with
    | [a, b], hnd, hU, _ =>
      have ha := hU a (by simp)
      have hb := hU b (by simp)
      have hne : a ≠ b := by
        intro h; subst h; simp at hnd
      rcases ha with rfl | rfl <;> rcases hb with rfl | rfl <;> first | exact absurd rfl hne | decide
    | a :: b :: c :: _, hnd, hU, _ =>
      exfalso
      have ha := hU a (by simp)
      have hb := hU b (by simp)
      have hc := hU c (by simp)
      have h1 := (List.nodup_cons.mp hnd).1
      have h2 := (List.nodup_cons.mp (List.nodup_cons.mp hnd).2).1
      have hab : a ≠ b := fun h => h1 (by rw [h]; simp)
      have hac : a ≠ c := fun h => h1 (by rw [h]; simp)
      have hbc : b ≠ c := fun h => h2 (by rw [h]; simp)
      rcases ha with rfl | rfl <;> rcases hb with rfl | rfl <;> rcases hc with rfl | rfl <;> simp_all
  · intro S hnd hU hne
    match S, hnd, hU, hne with
    | [a], _, hU, _ =>
      rcases hU a (by simp) with rfl | rfl <;> decide
    | [a, b], hnd, hU, _ =>
      have ha := hU a (by simp)
      have hb := hU b (by simp)
      rcases ha with rfl | rfl <;> rcases hb with rfl | rfl <;> first | decide | (simp at hnd)
    | a :: b :: c :: _, hnd, hU, _ =>
      exfalso
      have ha := hU a (by simp)
      have hb := hU b (by simp)
      have hc := hU c (by simp)
      have h1 := (List.nodup_cons.mp hnd).1
      have h2 := (List.nodup_cons.mp (List.nodup_cons.mp hnd).2).1
      have hab : a ≠ b := fun h => h1 (by rw [h]; simp)
      have hac : a ≠ c := fun h => h1 (by rw [h]; simp)
      have hbc : b ≠ c := fun h => h2 (by rw [h]; simp)
      rcases ha with rfl | rfl <;> rcases hb with rfl | rfl <;> rcases hc with rfl | rfl <;> simp_all

example : envDecode exIbltHash ⟨6, 64⟩ 16 [1] (.ofSet [2, 1]) = .ok [2] := by decide
example : decode exIbltHash ⟨6, 64⟩ 5 ((subtract (encode exIbltHash ⟨6, 64⟩ 16 [1]) (encode exIbltHash ⟨6, 64⟩ 16 [2])).getD []) = .ok [1] [2] := by decide

/-- the oracle record with the MODELLED IBLT in place of the decode oracle (sort and ECIES stay oracles) -/
def ibltEnv (H : Hash) (P : Par) (n : Nat) (order : List Tx → List Tx) (dec : String → Nat → DecRes) : Env :=
  { decode := envDecode H P n, order := order, dec := dec }

/-- **the decode hypothesis of the liveness theorems is discharged by the modelled algorithm**: with a hash that is faithful on
    the keys in play, `Subtract` + `Decode` of NutsModel/C07/Iblt.lean satisfy `DC` -/
theorem modelled_iblt_satisfies_DC (H : Hash) (P : Par) {n : Nat} (hn : 0 < n) (hk : 0 < P.k) (hm : 0 < P.maxChain)
    (hF : Faithful H (fun _ => True)) (order : List Tx → List Tx) (dec : String → Nat → DecRes) :
    DC (ibltEnv H P n order dec) := by
  refine ⟨?_, ?_, ?_⟩
  · intro loc peer m hl hp h
    exact (iblt_decode_contract H P (fun _ => True) hn hk hm hF loc peer hl hp (fun _ _ => trivial) (fun _ _ => trivial)).1 m h
  · intro loc peer hl hp h
    exact (iblt_decode_contract H P (fun _ => True) hn hk hm hF loc peer hl hp (fun _ _ => trivial) (fun _ _ => trivial)).2.1 h
  · intro loc peer hl hp
    exact (iblt_decode_contract H P (fun _ => True) hn hk hm hF loc peer hl hp (fun _ _ => trivial) (fun _ _ => trivial)).2.2

/-- the liveness hypotheses `Hyp` for the constants of the source with the modelled IBLT run at the regenerated parameters
    (k = ibltK, chain bound = ibltMaxChain, IbltNumBuckets buckets): what is left as a hypothesis of `pull_round_result`,
    `round_progress` and `converges` about the IBLT is the faithfulness of the hash alone -/
theorem liveness_hypotheses_with_modelled_iblt (maxMsg validity : Nat) (H : Hash) (hF : Faithful H (fun _ => True))
    (order : List Tx → List Tx) (dec : String → Nat → DecRes)
    (hord : OrderOK (ibltEnv H ⟨Facts.C07.ibltK, Facts.C07.ibltMaxChain⟩ Facts.C07.ibltNumBuckets order dec)) :
    Hyp (factCfg maxMsg validity) (ibltEnv H ⟨Facts.C07.ibltK, Facts.C07.ibltMaxChain⟩ Facts.C07.ibltNumBuckets order dec) :=
  fact_hyp maxMsg validity _
    (modelled_iblt_satisfies_DC H ⟨Facts.C07.ibltK, Facts.C07.ibltMaxChain⟩ (by decide) (by decide) (by decide) hF order dec) hord

/-- non-vacuity of faithfulness on ALL keys (the model's key type is unbounded): hashKey x = 2^(x+1) -/
def exPowHash : Hash := { hashKey := fun x => 2 ^ (x + 1), chain0 := fun h => h, chain := fun x => x + 1 }

theorem pow_hash_bits : ∀ (S : List Nat), S.Nodup → ∀ i,
    (xorL (S.map (fun x => 2 ^ (x + 1)))).testBit i = decide (∃ x ∈ S, x + 1 = i)
  | [], _, i => by simp [xorL]
  | a :: S, hnd, i => by
    have ih := pow_hash_bits S (List.nodup_cons.mp hnd).2 i
    have hx : xorL ((a :: S).map (fun x => 2 ^ (x + 1))) = 2 ^ (a + 1) ^^^ xorL (S.map (fun x => 2 ^ (x + 1))) := rfl
    rw [hx, Nat.testBit_xor, Nat.testBit_two_pow, ih]
    by_cases h : a + 1 = i
    · have hno : ¬ ∃ x ∈ S, x + 1 = i := by
        rintro ⟨x, hx', hxi⟩
        have : x = a := by omega
        subst this
        exact (List.nodup_cons.mp hnd).1 hx'
      simp [h, hno]
    · simp [h]

theorem exPowHash_faithful : Faithful exPowHash (fun _ => True) := by
  constructor
  · intro S hnd _ hlen heq
    match S, hnd, hlen, heq with
    | a :: b :: rest, hnd, _, heq =>
      have hab : a ≠ b := by
        intro h; subst h
        exact (List.nodup_cons.mp hnd).1 (by simp)
      have hbits := pow_hash_bits (a :: b :: rest) hnd
      have e : xorL ((a :: b :: rest).map exPowHash.hashKey) = 2 ^ (xorL (a :: b :: rest) + 1) := heq.symm
      have ha := hbits (a + 1)
      have hb := hbits (b + 1)
      rw [show (fun x => 2 ^ (x + 1)) = exPowHash.hashKey from rfl, e, Nat.testBit_two_pow] at ha hb
      have ha' : xorL (a :: b :: rest) + 1 = a + 1 := by
        have : decide (∃ x ∈ a :: b :: rest, x + 1 = a + 1) = true := by simp
        rw [this] at ha; simpa using ha
      have hb' : xorL (a :: b :: rest) + 1 = b + 1 := by
        have : decide (∃ x ∈ a :: b :: rest, x + 1 = b + 1) = true := by simp
        rw [this] at hb; simpa using hb
      exact hab (Nat.succ.inj (ha'.symm.trans hb'))
  · intro S hnd _ hne ⟨_, h0⟩
    match S, hnd, hne, h0 with
    | a :: rest, hnd, _, h0 =>
      have hbits := pow_hash_bits (a :: rest) hnd (a + 1)
      rw [show (fun x => 2 ^ (x + 1)) = exPowHash.hashKey from rfl, h0] at hbits
      simp at hbits

example : DC (ibltEnv exPowHash ⟨6, 64⟩ 1024 idealEnv.order idealEnv.dec) :=
  modelled_iblt_satisfies_DC exPowHash ⟨6, 64⟩ (by decide) (by decide) (by decide) exPowHash_faithful _ _
example : Hyp (factCfg 524288 30) (ibltEnv exPowHash ⟨Facts.C07.ibltK, Facts.C07.ibltMaxChain⟩ Facts.C07.ibltNumBuckets idealEnv.order idealEnv.dec) :=
  liveness_hypotheses_with_modelled_iblt 524288 30 exPowHash exPowHash_faithful _ _ ⟨idealEnv_OrderOK.perm, idealEnv_OrderOK.sorted⟩

/-- regenerated constants of iblt.go the model is run with (`Driver.Proto.ibltPar`), and the side conditions of the contract -/
theorem fact_iblt_constants :
    Facts.C07.ibltK = 6 ∧ Facts.C07.ibltMaxChain = 64 ∧ Facts.C07.ibltHk = 1 ∧ Facts.C07.ibltHc = 0 ∧ Facts.C07.bucketBytes = 44 ∧
    0 < Facts.C07.ibltK ∧ 0 < Facts.C07.ibltMaxChain ∧ Facts.C07.ibltK ≤ Facts.C07.ibltNumBuckets := by decide

/-- regenerated: `bucketIndices` reduces every bucket number modulo the bucket count (chain value and linear probe), clamps k to
    the bucket count, bounds the chain by `ibltMaxChain` and probes offsets 1 .. numBuckets-1 -/
theorem fact_iblt_bucket_indices_shape :
    Facts.C07.ibltIndexAssigns = ["numBuckets := uint32(i.numBuckets())", "k := int(i.k)", "k = int(numBuckets)", "next := murmur3.SeedSum32(i.hk, hashKeyBytes)", "bucketID = next % numBuckets", "next = murmur3.SeedSum32(i.hk, nextBytes)", "probe := (bucketID + off) % numBuckets"] ∧
    Facts.C07.ibltIndexLoops = ["step := 0; len(indices) < k && step < ibltMaxChain; step++", "off := uint32(1); len(indices) < k && off < numBuckets; off++"] ∧
    Facts.C07.ibltIndexIfs = ["uint32(k) > numBuckets", "!bucketUsed[bucketID]", "!bucketUsed[probe]"] := by decide

/-- regenerated: the control flow of `Decode` (endless outer loop, sweep over the buckets, the purity test, the `pures` guard with
    ErrDecodeLoop, Delete for +1 / Insert otherwise, ErrDecodeNotPossible when nothing was peeled and the table is not empty) -/
theorem fact_iblt_decode_shape :
    Facts.C07.ibltDecodeShape = ["for{}", "updated := false", "range i.buckets", "(i.buckets[idx].count == 1 || i.buckets[idx].count == -1) && i.hashKey(i.buckets[idx].keySum) == i.buckets[idx].hashSum", "txRef := i.buckets[idx].keySum", "pures[txRef]", "err = ErrDecodeLoop", "i.buckets[idx].count == 1", "updated = true", "!updated", "!i.Empty()", "err = ErrDecodeNotPossible"] ∧
    Facts.C07.ibltDecodeCalls = ["hashKey", "Delete", "Insert", "Empty"] := by decide

set_option maxRecDepth 20000 in
/-- regenerated: the bucket operations and the Iblt methods built on them -/
theorem fact_iblt_bucket_ops :
    Facts.C07.ibltOps = ["bucket.insert: b.count++; b.update(key, hash);", "bucket.delete: b.count--; b.update(key, hash);", "bucket.subtract: b.count -= o.count; b.update(o.keySum, o.hashSum);", "bucket.update: b.keySum = b.keySum.Xor(key); b.hashSum ^= hash;", "bucket.isEmpty: return b.equals(new(bucket));", "Iblt.Insert: keyHash := i.hashKey(ref); for _, h := range i.bucketIndices(keyHash) { i.buckets[h].insert(ref, keyHash) };", "Iblt.Delete: keyHash := i.hashKey(key); for _, h := range i.bucketIndices(keyHash) { i.buckets[h].delete(key, keyHash) };", "Iblt.Subtract: o, err := i.validate(other); if err != nil { return err }; for idx := range i.buckets { i.buckets[idx].subtract(&o.buckets[idx]) }; return nil;", "Iblt.Empty: for idx := range i.buckets { if !i.buckets[idx].isEmpty() { return false } }; return true;", "Iblt.hashKey: return murmur3.SeedSum64(i.hc, key.Slice());"] := by decide

end IbltProps

/-! ### Deepening round 2: the dispatcher (`Handle` / `handle` / `handleASync` / the TransactionList channel) inside the model -/

namespace DispProps
open Nuts.Proto.Disp

/-- the routing of the real code: the model's lookup in the REGENERATED switch table -/
def factRoute : Msg → Route := routeOf Facts.C07.dispatchTable

/-- the parameters of the real code -/
def factParams (cfg : Cfg) (env : Env) : Params :=
  { cfg := cfg, env := env, rt := factRoute, cap := Facts.C07.outboxHardLimit, allowed := Facts.C07.allowedErrors }

/-- regenerated switch of `protocol.handle` = the routing the abstract layer assumes: TransactionLists go through the
    channel, an envelope of no known type is refused, every other type gets its own goroutine -/
theorem fact_dispatch_table_routes (m : Msg) :
    factRoute m = (match m with | .txList .. => Route.listChan | .unsupported => Route.unsupported | _ => Route.async) := by
  cases m <;> simp only [factRoute, routeOf, envName] <;> decide

/-- regenerated: the statements the dispatcher model mirrors — `Handle`'s error classification, the non-blocking send of the
    TransactionList clause, the fall-through of the switch, `handleASync` (goroutine, returns nil), the capacity of the list
    channel and the loop of `transactionListHandler.start` -/
theorem fact_dispatcher_shape :
    Facts.C07.allowedErrors = ["errInternalError", "errMessageNotSupported"] ∧
    Facts.C07.handleErrShape = ["if:err != nil && err != context.Canceled", "range:allowedErrors", "if:err == allowedError",
      "return:err", "return:errInternalError", "return:nil"] ∧
    Facts.C07.listChanClause = ["select", "comm:p.listHandler.ch <- pe", "default", "return:nil"] ∧
    Facts.C07.handleFallthrough = "return errMessageNotSupported" ∧
    Facts.C07.handleASyncShape = ["go", "funclit", "if:err != nil", "return:nil"] ∧
    Facts.C07.listChanMake = "chan connectionEnvelope,grpc.OutboxHardLimit" ∧ 0 < Facts.C07.outboxHardLimit ∧
    Facts.C07.listHandlerStartShape = ["for", "select", "comm:<-tlh.ctx.Done()", "return:", "comm:pe := <-tlh.ch", "if:err != nil"] := by
  decide

/-- **The dispatcher refines the atomic-handler layer.** For EVERY schedule of arrivals, list-handler iterations and
    goroutine runs (any interleaving, any order of the handleASync goroutines): the node state is the result of running the
    atomic handlers one after the other over the invocation trace; the TransactionLists handled so far followed by the ones
    still on the channel form a SUBLIST of the ones that were waiting plus the ones that arrived — in-order, at most once,
    none invented — and the channel never exceeds its capacity. -/
theorem dispatcher_refines_handler_sequence (P : Params) (evs : List Ev) (d : DNode)
    (hw : WaitOK P.rt d) (hc : d.chan.length ≤ P.cap) :
    (run P d evs).1.node = foldHandle P.cfg P.env d.node (run P d evs).2 ∧
    List.Sublist (((run P d evs).2.filter (isList P.rt)) ++ (run P d evs).1.chan) (d.chan ++ (arrivals evs).filter (isList P.rt)) ∧
    (run P d evs).1.chan.length ≤ P.cap :=
  ⟨run_node P evs d, run_lists_fifo P evs d hw, run_chan_le P evs d hc⟩

/-- **Safety under any goroutine schedule inside a node**: the DAG only grows (old DAG = suffix), stays valid, and every
    added transaction has a good verdict and was carried by a message whose handler ran. Closes the "handlers are called
    directly, the dispatcher is not modelled" gap of `safety_any_schedule` for the node-internal scheduling. -/
theorem dispatcher_safety_any_goroutine_schedule (P : Params) (evs : List Ev) (d : DNode) (h : DagOK d.node.dag) :
    DagOK (run P d evs).1.node.dag ∧
    ∃ added, (run P d evs).1.node.dag = added ++ d.node.dag ∧
      ∀ t ∈ added, t.sigOK = true ∧ ∃ x ∈ (run P d evs).2, t ∈ msgTxs x.2 := by
  rw [run_node]
  exact foldHandle_dag P.cfg P.env _ d.node h

/-- **A full channel is message loss and nothing else**: a TransactionList arriving at a full channel leaves the node, the
    channel and the goroutines untouched and `Handle` returns nil — the rest of the schedule runs as if it never arrived
    (the abstract network's loss step). -/
theorem full_channel_drop_is_loss (P : Params) (d : DNode) (p : Peer) (m : Msg) (evs : List Ev)
    (hr : P.rt m = .listChan) (hfull : P.cap ≤ d.chan.length) :
    run P d (.arrive p m :: evs) = run P d evs ∧ (Handle P.allowed P.rt P.cap d p m).2 = none := by
  have hn : ¬ d.chan.length < P.cap := by omega
  constructor
  · simp [run, stepEv, Handle, dispatchMsg, hr, hn]
  · simp [Handle, dispatchMsg, hr, hn, handleRet]

/-- **`Handle` with the regenerated `allowedErrors`**: whatever error `handle` returns, the peer sees nil, errInternalError
    or errMessageNotSupported; for the real `handle` the result is errMessageNotSupported exactly for an envelope of no
    known type, and such an envelope changes nothing. -/
theorem handle_error_classification (rt : Msg → Route) (cap : Nat) :
    (∀ e, handleRet Facts.C07.allowedErrors e = none ∨ handleRet Facts.C07.allowedErrors e = some .internal ∨
      handleRet Facts.C07.allowedErrors e = some .notSupported) ∧
    (∀ d p m, (Handle Facts.C07.allowedErrors rt cap d p m).2 = (if rt m = .unsupported then some .notSupported else none)) ∧
    (∀ d p m, rt m = .unsupported → (Handle Facts.C07.allowedErrors rt cap d p m).1 = d) := by
  have hns : handleRet Facts.C07.allowedErrors (some .notSupported) = some .notSupported := by decide
  refine ⟨?_, ?_, ?_⟩
  · intro e
    cases e with
    | none => left; rfl
    | some e =>
      cases e with
      | canceled => left; rfl
      | internal => right; left; decide
      | notSupported => right; right; exact hns
      | other w => right; left; simp [handleRet, HErr.allowedBy]
  · intro d p m
    simp only [Handle, dispatchMsg]
    split <;> rename_i hr
    · simp [hr, hns]
    · simp only [hr]; split <;> simp [handleRet]
    · simp [hr, handleRet]
  · intro d p m hr
    simp [Handle, dispatchMsg, hr]

/-- once the arrivals stop, `length chan` iterations of the list handler handle exactly the waiting lists, in channel order,
    and leave the channel empty (no list waits forever while the handler goroutine runs) -/
theorem list_handler_drains_in_order (P : Params) : ∀ (c : List (Peer × Msg)) (d : DNode), d.chan = c →
    (run P d (List.replicate c.length .listRun)).2 = c ∧ (run P d (List.replicate c.length .listRun)).1.chan = [] := by
  intro c
  induction c with
  | nil => intro d h; simp [run, h]
  | cons x r ih =>
    intro d h
    simp only [List.length_cons, List.replicate_succ, run, stepEv, h]
    obtain ⟨h1, h2⟩ := ih { d with node := (handle P.cfg P.env d.node x.1 x.2).node, chan := r } rfl
    exact ⟨by simp [h1], h2⟩

/-- non-vacuity: capacity 2, three TransactionLists arrive before the handler runs — the third is dropped; the hypotheses of
    the refinement theorem hold for a fresh dispatcher; the DAG hypothesis holds for the example node -/
example : (run { factParams exCfg idealEnv with cap := 2 } { node := exA }
    [.arrive { key := 1 } (.txList (0, 0) 1 1 []), .arrive { key := 1 } (.txList (0, 1) 1 1 []),
     .arrive { key := 1 } (.txList (0, 2) 1 1 []), .arrive { key := 1 } .unsupported]).1.chan.length = 2 := by decide
example : WaitOK factRoute { node := exA } ∧ ({ node := exA } : DNode).chan.length ≤ Facts.C07.outboxHardLimit :=
  ⟨⟨by simp, by simp⟩, by simp⟩
example : DagOK ({ node := exA } : DNode).node.dag := exA_ok
example : factRoute (.txList (0, 0) 1 1 []) = .listChan ∧ factRoute .unsupported = .unsupported := by
  constructor <;> rw [fact_dispatch_table_routes]

end DispProps

/-! ### Deepening round 3: how the periodic Gossip message finds its connection (`sendGossip`, grpc predicates, `connectionList.get`) -/

namespace AddrProps
open Nuts.Proto.Addr

/-- regenerated: `sendGossip` asks the connection list for a CONNECTED connection of exactly the queue's peer (peer key =
    ID + node DID + address, the key the gossip manager files the queue under: `fact_gossip_peer_table_keys`), reports
    `false` without a connection or when the send fails, `true` otherwise -/
theorem fact_send_gossip_addressing :
    Facts.C07.sendGossipQuery = ["grpc.ByConnected()", "grpc.ByPeer(transportPeer)"] ∧
    Facts.C07.sendGossipFlow = ["assign:conn := p.connectionList.Get(grpc.ByConnected(), grpc.ByPeer(transportPeer))",
      "if:conn == nil", "assign:err = grpc.ErrNoConnection", "assign:err = p.sendGossipMsg(conn, refs, xor, clock)",
      "if:err != nil", "return:false", "return:true"] := by decide

/-- the regenerated query, read by the model's interpreter, is the query the theorems below are about -/
theorem fact_send_gossip_query_interpreted (p : TPeer) :
    queryOfSrc p Facts.C07.sendGossipQuery = some (gossipQuery p) := by
  simp [Facts.C07.sendGossipQuery, queryOfSrc, predOfSrc, gossipQuery]

/-- regenerated: the predicates of grpc/predicate.go, the first-match loop of `connectionList.get` (an empty query selects
    nothing; `continue outer` on the first predicate that does not match; the first survivor is returned) and the format of
    `transport.Peer.Key()` -/
theorem fact_connection_lookup_shape :
    Facts.C07.predicateMatches = ["addressPredicate:return:predicate.address == conn.Peer().Address",
      "authenticatedPredicated:return:conn.IsAuthenticated()", "connectedPredicate:return:conn.IsConnected() == predicate.connected",
      "nodeDIDPredicate:return:conn.Peer().NodeDID.Equals(predicate.nodeDID)", "peerIDPredicate:return:conn.Peer().ID == predicate.peerID",
      "peerPredicate:return:conn.Peer().Key() == predicate.peer.Key()"] ∧
    Facts.C07.predicateCtors = ["ByAddress:return:&addressPredicate{address: address}", "ByAuthenticated:return:authenticatedPredicated{}",
      "ByConnected:return:connectedPredicate{connected: true}", "ByNodeDID:return:nodeDIDPredicate{nodeDID: nodeDID}",
      "ByNotConnected:return:connectedPredicate{connected: false}", "ByPeer:return:peerPredicate{peer: peer}",
      "ByPeerID:return:peerIDPredicate{peerID: peerID}"] ∧
    Facts.C07.connListGetFlow = ["if:len(query) == 0", "return:nil", "range:c.list", "range:query", "if:!predicate.Match(curr)",
      "branch:continue outer", "return:curr", "return:nil"] ∧
    Facts.C07.connListGetWrapper = ["return:c.get(query...)"] ∧
    Facts.C07.peerKeyFlow = ["return:fmt.Sprintf(\"%s(%s)@%s\", p.ID, p.NodeDID.String(), p.Address)"] := by decide

/-- **The gossip of a peer's queue goes to that peer and to nobody else.** For EVERY connection list (any number of
    connections, duplicates of a node DID, unauthenticated peers with the empty DID, disconnected entries, any order) and
    every queue owner `p`: if `sendGossip` hands the message to connection `i`, that connection is connected and its peer
    key is `p`'s key; and the queue is reported as sent (cleared) only if that connection accepted the message. -/
theorem gossip_addressed_to_queue_owner (l : List Conn) (p : TPeer) :
    (∀ i, (sendGossip l p).target = some i → ∃ c, l[i]? = some c ∧ c.connected = true ∧ c.peer.key = p.key ∧
        (sendGossip l p).cleared = c.sendOK) ∧
    ((sendGossip l p).target = none → (sendGossip l p).cleared = false) := by
  unfold sendGossip sendGossipWith
  cases hg : get l (gossipQuery p) with
  | none => simp
  | some k =>
    obtain ⟨_, c, hc, hm, _⟩ := get_some hg
    have := (matchesAll_gossip p c).mp hm
    simp [hc, this.1, this.2]

/-- **No spurious "no connection".** If the connection list holds a connected connection of the queue's peer, `sendGossip`
    finds one (the first such entry of the list): a connected peer is never starved of gossip by the lookup. Conversely
    ErrNoConnection means that no connected connection with the peer's key exists. -/
theorem gossip_reaches_connected_owner (l : List Conn) (p : TPeer) :
    ((∃ c ∈ l, c.connected = true ∧ c.peer.key = p.key) ↔ ∃ i, (sendGossip l p).target = some i) ∧
    (∀ i, (sendGossip l p).target = some i → ∀ j c, j < i → l[j]? = some c → ¬ (c.connected = true ∧ c.peer.key = p.key)) := by
  unfold sendGossip sendGossipWith
  cases hg : get l (gossipQuery p) with
  | none =>
    have hn := get_none_of_nonempty (q := gossipQuery p) (by simp [gossipQuery]) hg
    refine ⟨⟨?_, by simp⟩, by simp⟩
    rintro ⟨c, hc, h1, h2⟩
    have := hn c hc
    rw [(matchesAll_gossip p c).mpr ⟨h1, h2⟩] at this
    cases this
  | some k =>
    obtain ⟨_, c, hc, hm, hmin⟩ := get_some hg
    have hcm := (matchesAll_gossip p c).mp hm
    simp only [hc]
    refine ⟨⟨fun _ => ⟨k, rfl⟩, fun _ => ⟨c, List.mem_of_getElem? hc, hcm.1, hcm.2⟩⟩, ?_⟩
    intro i hi j c' hj hg' hh
    simp at hi; subst hi
    have := hmin j c' hj hg'
    rw [(matchesAll_gossip p c').mpr hh] at this
    cases this

/-- **Addressing by node DID is NOT enough** (why the regenerated query must stay `ByPeer`): with two connected,
    unauthenticated peers (both carry the empty node DID) the query `ByConnected, ByNodeDID` for the SECOND peer's queue
    selects the FIRST peer's connection — the second peer never hears gossip. -/
theorem did_addressing_starves_a_peer :
    ∃ (l : List Conn) (p : TPeer), (∃ c ∈ l, c.connected = true ∧ c.peer.key = p.key) ∧
      ∃ i c, (sendGossipWith [.byConnected true, .byNodeDID p.did] l).target = some i ∧ l[i]? = some c ∧ c.peer.key ≠ p.key :=
  ⟨[{ peer := ⟨"a", "", "a:1"⟩, connected := true, authenticated := false },
    { peer := ⟨"b", "", "b:1"⟩, connected := true, authenticated := false }], ⟨"b", "", "b:1"⟩,
   ⟨_, List.mem_cons_of_mem _ (List.mem_cons_self ..), rfl, rfl⟩, 0, _, by decide, rfl, by decide⟩

/-- the connection list as the abstract layer sees it: peers named by (an injective encoding of) their key -/
def absPeers (enc : String → Nat) (l : List Conn) : List Peer :=
  l.map (fun c => { key := enc c.peer.key, authenticated := c.authenticated, did := c.peer.did, connected := c.connected })

/-- **The lookup refines the guard of the abstract gossip tick.** The step relation's `gossipTick` sends "if the peer table
    holds a connected peer with that key", to that key. Reading the REAL connection list through any injective naming of
    peer keys, that guard is exactly "sendGossip's lookup finds a connection", and the connection found carries the key
    the abstract message is addressed to. -/
theorem addressing_refines_gossip_tick_guard (enc : String → Nat) (hinj : ∀ a b, enc a = enc b → a = b)
    (l : List Conn) (p : TPeer) :
    ((absPeers enc l).any (fun q => q.key == enc p.key && q.connected) = (sendGossip l p).target.isSome) ∧
    (∀ i, (sendGossip l p).target = some i → ∃ c, l[i]? = some c ∧ enc c.peer.key = enc p.key) := by
  constructor
  · have h := (gossip_reaches_connected_owner l p).1
    cases ht : (sendGossip l p).target with
    | none =>
      simp only [Option.isSome_none]
      rw [Bool.eq_false_iff]
      intro hany
      simp only [absPeers, List.any_map, List.any_eq_true, Function.comp, Bool.and_eq_true, beq_iff_eq] at hany
      obtain ⟨c, hc, hk, hcon⟩ := hany
      have := h.mp ⟨c, hc, hcon, hinj _ _ hk⟩
      rw [ht] at this
      obtain ⟨i, hi⟩ := this
      cases hi
    | some i =>
      simp only [Option.isSome_some]
      obtain ⟨c, hc, h1, h2⟩ := h.mpr ⟨i, ht⟩
      simp only [absPeers, List.any_map, List.any_eq_true, Function.comp, Bool.and_eq_true, beq_iff_eq]
      exact ⟨c, hc, by rw [h2], h1⟩
  · intro i hi
    obtain ⟨c, hc, _, hk, _⟩ := (gossip_addressed_to_queue_owner l p).1 i hi
    exact ⟨c, hc, by rw [hk]⟩

/-- … hence the abstract tick of a peer's queue emits its Gossip message exactly when `sendGossip` finds a connection
    (end-to-end: connection list -> lookup -> step of the protocol model, to which safety_any_schedule / converges apply) -/
theorem gossip_tick_uses_the_lookup (enc : String → Nat) (hinj : ∀ a b, enc a = enc b → a = b)
    (l : List Conn) (p : TPeer) (n : Node) (q : PeerQueue) (hp : n.peers = absPeers enc l)
    (hq : n.queues.find? (fun x => x.peer == enc p.key) = some q) :
    (gossipTick n (enc p.key)).out =
      (if (sendGossip l p).target.isSome then [(enc p.key, Msg.gossip q.xor q.clock q.queue)] else []) := by
  unfold gossipTick
  rw [hq]
  simp only [hp, (addressing_refines_gossip_tick_guard enc hinj l p).1]
  split <;> simp_all

/-- non-vacuity of the refinement: a naming exists (keys of a two-entry list), the peer table is its image -/
example : (absPeers (fun s => if s = "a()@h" then 1 else if s = "b()@h" then 2 else 0)
    [{ peer := ⟨"a", "", "h"⟩, connected := true, authenticated := false }]).any (fun q => q.key == 1 && q.connected) = true := by decide

/-- an empty query selects nothing (`get`: "make sure we're not returning the first random connection by accident") -/
theorem empty_query_selects_nothing (l : List Conn) : get l [] = none := rfl

/-- non-vacuity: three connections, the queue of the third; the first has the same DID, the second is a stale disconnected
    entry with the same key -/
example : sendGossip [{ peer := ⟨"a", "did:nuts:x", "a:1"⟩, connected := true, authenticated := true },
      { peer := ⟨"b", "did:nuts:x", "b:1"⟩, connected := false, authenticated := true },
      { peer := ⟨"b", "did:nuts:x", "b:1"⟩, connected := true, authenticated := true, sendOK := false }] ⟨"b", "did:nuts:x", "b:1"⟩
    = { target := some 2, cleared := false } := by decide

end AddrProps

/-! ### Deepening round 3: every method of the conversation manager releases `cMan.mutex` on every exit -/

namespace ConvLockProps
open Nuts.Proto.ConvLock

/-- regenerated (conversation.go, every method of `conversationManager`): the methods, and for each the executable lock check —
    mutex calls only as statements of the method body, `Lock` paired with a deferred `Unlock` (`RLock` / `RUnlock` in `check`),
    nothing held at any `return` nor at the end of the body -/
theorem fact_conversation_lock_discipline :
    Facts.C07.convLockEvents.all (fun m => methodOK m.2) = true ∧
    Facts.C07.convLockEvents.map (·.1) = ["check", "done", "evict", "hasActiveConversation", "resetTimeout", "start", "startConversation"] ∧
    (Facts.C07.convLockEvents.filter (fun m => m.2.any (fun e => isMutexEv (evOf e.2)))).map (·.1) =
      ["check", "done", "evict", "resetTimeout", "startConversation"] := by decide

/-- regenerated: the statements of the conversation manager that the model's conversation functions (Dag.lean `startConversation`,
    `hasActive`, `evict`, `convDone`, `resetTimeout`, `findConv`/`convCheck`) mirror — the id is stamped and the conversation built
    BEFORE the lock; only a `blockable` request asks `hasActiveConversation` and is refused (nil, nothing stored) or recorded as
    the peer's last conversation under `peer.Key()`; active = the peer's last conversation is still stored and not expired;
    evict deletes the expired ones; done deletes by id; resetTimeout only touches a stored conversation; check refuses an
    unknown id and otherwise delegates to the request's `checkResponse` -/
theorem fact_conversation_manager_flows :
    Facts.C07.convFlow_startConversation = ["assign:cid := newConversationID()", "call:msg.setConversationID(cid)",
      "assign:newConversation := &conversation{conversationID: cid, expiry: time.Now().Add(cMan.validity), conversationData: msg}",
      "call:cMan.mutex.Lock()", "defer:cMan.mutex.Unlock()", "if:_, ok := msg.(blockable); ok", "if:cMan.hasActiveConversation(peer)",
      "return:nil", "assign:cMan.lastPeerConversationID[peer.Key()] = cid", "assign:cMan.conversations[cid.String()] = newConversation",
      "return:newConversation"] ∧
    Facts.C07.convFlow_hasActiveConversation = ["if:lastPeerConv, ok := cMan.lastPeerConversationID[peer.Key()]; ok",
      "if:conversation, ok := cMan.conversations[lastPeerConv.String()]; ok", "if:conversation.expiry.After(time.Now())", "return:true", "return:false"] ∧
    Facts.C07.convFlow_evict = ["call:cMan.mutex.Lock()", "defer:cMan.mutex.Unlock()", "range:cMan.conversations",
      "if:v.expiry.Before(time.Now())", "call:delete(cMan.conversations, k)"] ∧
    Facts.C07.convFlow_done = ["call:cMan.mutex.Lock()", "defer:cMan.mutex.Unlock()", "call:delete(cMan.conversations, cid.String())"] ∧
    Facts.C07.convFlow_resetTimeout = ["call:cMan.mutex.Lock()", "defer:cMan.mutex.Unlock()",
      "if:conversation, exists := cMan.conversations[cid.String()]; exists", "assign:conversation.expiry = time.Now().Add(cMan.validity)"] ∧
    Facts.C07.convFlow_check = ["assign:cidBytes := envelope.conversationID()", "assign:cid := conversationID(cidBytes)",
      "call:cMan.mutex.RLock()", "defer:cMan.mutex.RUnlock()", "if:req, ok := cMan.conversations[cid.String()]; !ok",
      "return:nil,fmt.Errorf(\"unknown or expired conversation (id=%s)\", cid)", "else",
      "return:req,req.conversationData.checkResponse(envelope, data)"] := by decide

/-- **A refused request, an unknown conversation, a failed response check … never leave the conversation manager locked.**
    For every method of the real `conversationManager` (regenerated event list) and EVERY exit point of it — each `return`,
    however deeply nested, and the end of the body — the mutex counters (writer, reader) are zero once the deferred calls
    ran, given all mutex events before that point were executed; and all mutex events are unconditional statements of the
    method body, so they ARE executed on every path reaching that point. -/
theorem conversation_manager_releases_lock_on_every_exit :
    ∀ m ∈ Facts.C07.convLockEvents, ∀ pre post, m.2.map (fun x => (x.1, evOf x.2)) = pre ++ post →
      (post = [] ∨ ∃ d rest, post = (d, LEv.ret) :: rest) →
      heldAtExit (stateAfter {} pre) = (0, 0) ∧ ∀ x ∈ pre, isMutexEv x.2 = true → x.1 = 0 := by
  intro m hm pre post hsplit hexit
  have hall := fact_conversation_lock_discipline.1
  have hok : methodOK m.2 = true := (List.all_eq_true.mp hall) m hm
  obtain ⟨hb, hd⟩ := ok_every_exit _ _ hok pre post hsplit hexit
  exact ⟨by simpa [balanced] using hb, hd⟩

/-- **Why the deferred unlock matters**: a `startConversation` that locks, returns nil on the refusal path and unlocks only
    at the end of the accepting path (lock; if … return; unlock; return) fails the check, and its refusal exit holds the
    writer lock — the next `startConversation` / `check` / `done` of the node blocks forever. -/
theorem refusal_without_unlock_keeps_manager_locked :
    methodOK [(0, "Lock"), (2, "return"), (0, "Unlock"), (0, "return")] = false ∧
    heldAtExit (stateAfter {} [(0, LEv.lock false)]) = (1, 0) := by decide

/-- non-vacuity: `startConversation` is among the regenerated methods and has a nested refusal exit after Lock + defer -/
example : ("startConversation", [(0, "Lock"), (0, "defer Unlock"), (2, "return"), (0, "return")]) ∈ Facts.C07.convLockEvents := by decide
example : ([(0, "Lock"), (0, "defer Unlock"), (2, "return"), (0, "return")] : List (Nat × String)).map (fun x => (x.1, evOf x.2)) =
    [(0, LEv.lock false), (0, LEv.deferUnlock false)] ++ [(2, LEv.ret), (0, LEv.ret)] := by decide

end ConvLockProps

/-! ### Deepening round 3: refusals of the conversation manager end (model functions pinned by `fact_conversation_manager_flows`) -/

namespace ConvProps

/-- **A request is refused only for a reason that ends.** `startConversation` refuses (nil, nothing sent, nothing stored)
    only a `blockable` request, and only while the peer's last blocking conversation is still stored and not expired -/
theorem refusal_needs_live_blocking_conversation (cfg : Cfg) (n : Node) (peer : Nat) (data : ConvData)
    (h : startConversation cfg n peer data = none) :
    data.blockable cfg = true ∧ ∃ cid c, Nuts.alGet n.lastConv peer = some cid ∧ findConv n cid = some c ∧ c.expiry > n.now := by
  unfold startConversation at h
  split at h
  · rename_i hc
    simp only [Bool.and_eq_true] at hc
    refine ⟨hc.1, ?_⟩
    have ha := hc.2
    unfold hasActive at ha
    split at ha
    · simp at ha
    · rename_i cid hcid
      split at ha
      · simp at ha
      · rename_i c hcv
        exact ⟨cid, c, hcid, hcv, by simpa using ha⟩
  · simp at h

/-- `done` of the peer's last blocking conversation ends the refusals for that peer -/
theorem done_unblocks_peer (n : Node) (peer : Nat) (cid : Cid) (h : Nuts.alGet n.lastConv peer = some cid) :
    hasActive (convDone n cid) peer = false := by
  unfold hasActive
  have : Nuts.alGet (convDone n cid).lastConv peer = some cid := by simpa [convDone] using h
  rw [this]
  have hf : findConv (convDone n cid) cid = none := by
    simp [findConv, convDone, List.find?_eq_none]
  simp [hf]

/-- … the next request to that peer (blocking or not) is accepted -/
theorem after_done_request_is_accepted (cfg : Cfg) (n : Node) (peer : Nat) (cid : Cid) (data : ConvData)
    (h : Nuts.alGet n.lastConv peer = some cid) : (startConversation cfg (convDone n cid) peer data).isSome = true := by
  unfold startConversation
  simp [done_unblocks_peer n peer cid h]

/-- … and so does time: once the clock passed every stored expiry, no peer is blocked (with `maxValidity` > 0 from
    `fact_constants` this is a finite wait: the refusal of `sendRequest_empty` cannot persist) -/
theorem expiry_unblocks_peer (n : Node) (peer : Nat) (t : Nat) (h : ∀ c ∈ n.convs, c.expiry ≤ t) :
    hasActive { n with now := t } peer = false := by
  unfold hasActive
  split
  · rfl
  · split
    · rfl
    · rename_i c hc
      have hm : c ∈ n.convs := List.mem_of_find?_eq_some hc
      have := h c hm
      simp only [decide_eq_false_iff_not]
      omega

/-- non-vacuity: a live blocking conversation with peer 1 refuses the next range query to peer 1 -/
example : startConversation exCfg
    { id := 0, convs := [{ cid := (0, 0), expiry := 5, data := .rangeQuery 0 1 }], lastConv := [(1, (0, 0))] } 1 (.rangeQuery 2 3) = none := by decide

end ConvProps

end Nuts.C07.Props
