/-
  C07 — connected nodes converge to the union of their DAGs despite loss and reordering.
  ONLY property theorems (+ non-vacuity examples and fact_* obligations). Helper lemmas: NutsProofs/Lemmas/C07.lean.
  Model: NutsModel/C07 {Types, Dag, Handlers, Net} (transport/v2 handlers.go, transactionlist_handler.go, senders.go,
  conversation.go, protocol.go, gossip/manager.go, gossip/queue.go; the decisions of dag/state.go).
  Facts: NutsModel/Facts/C07.lean is REGENERATED from /repo on every run.
-/
import NutsModel.C07.Net
import NutsModel.Facts.C07
import NutsProofs.Lemmas.C07
open Nuts.Proto Nuts Nuts.Proto.L

namespace Nuts.C07.Props

/-! ### Obligations on the regenerated facts (a source change flips these) -/

/-- the constants the liveness argument needs: pages are non-empty, a range reply spans at least the page asked
    for, the gossip queue and the message size are positive -/
theorem fact_constants :
    0 < Facts.C07.pageSize ∧ 0 < Facts.C07.maxQueueSize ∧ 1 ≤ Facts.C07.rangeLimitPages ∧
    Facts.C07.transactionListMessageOverhead < Facts.C07.defaultMaxMessageSizeInBytes ∧ 0 < Facts.C07.maxValidity := by decide

/-- list and range queries block further queries to the same peer, `State` does not; all three are checked -/
theorem fact_blockable :
    Facts.C07.blockable = ["Envelope_TransactionListQuery", "Envelope_TransactionRangeQuery"] ∧
    Facts.C07.checkable = ["Envelope_TransactionListQuery", "Envelope_TransactionRangeQuery", "Envelope_State"] := by decide

/-- `handleTransactionSet` asks for the page after the requested one (one page when reconciling history, two when
    behind), the first page when the first page does not decode, and checks the conversation before it marks it
    done and decodes; a range reply is limited to `rangeLimitPages` pages, which covers both requests -/
theorem fact_transaction_set_shape :
    Facts.C07.nextPageOffsets = [1, 2, 1, 3] ∧ Facts.C07.firstPageQueryEnd = "dag.PageSize" ∧
    Facts.C07.setCheckThenDoneThenDecode = true ∧ Facts.C07.rangeLimitPages = 2 := by decide

/-- `handleTransactionList` checks the conversation before the first `Add` and ends the conversation only with the
    last chunk (or in the missing-prevs branch) -/
theorem fact_transaction_list_shape :
    Facts.C07.listCheckBeforeAdd = true ∧ Facts.C07.listDoneGuard = "msg.MessageNumber >= msg.TotalMessages" := by decide

/-- `handleGossip` sends a list query iff the gossiped refs explain the XOR difference or the peer is behind -/
theorem fact_gossip_condition :
    Facts.C07.gossipListQueryCond = "tempXor.Equals(peerXor) || (msg.LC < clock && len(refs) > 0)" := by decide

/-- every envelope type the model handles is dispatched by `protocol.handle`, and no other -/
theorem fact_handled_envelopes :
    Facts.C07.handledEnvelopes = ["Envelope_Gossip", "Envelope_TransactionList", "Envelope_TransactionListQuery",
      "Envelope_TransactionPayloadQuery", "Envelope_TransactionPayload", "Envelope_TransactionRangeQuery", "Envelope_State",
      "Envelope_TransactionSet", "Envelope_DiagnosticsBroadcast"] := by decide

/-! ### Safety, unconditional: every schedule of the adversarial network -/

/-- **Safety for ANY schedule** (deliveries in any order, any number of times or never; forged messages of any type
    with any content; gossip ticks; clock advances; evictions; local creation) and ANY behaviour of the IBLT decode,
    the sort and the ECIES oracles. Starting from valid DAGs:
    (a) every node's DAG only grows — the old DAG is a suffix of the new one, nothing is removed or reordered;
    (b) every DAG stays a valid DAG (`DagOK`: good signature verdict, no duplicates, prevs present before, right clock,
        one root) — in particular no transaction with a bad verdict, a wrong clock or missing prevs is ever admitted;
    (c) if every good-verdict transaction the adversary ever shows is in `U` (it cannot forge signatures; take
        `U = dagA₀ ∪ dagB₀ ∪ created`), every DAG stays inside `U`. -/
theorem safety_any_schedule (cfg : Cfg) (sched : List Step) : ∀ (w : World), (∀ n ∈ w.nodes, DagOK n.dag) →
    (∀ n ∈ (w.run cfg sched).nodes, DagOK n.dag) ∧
    (∀ j, ∃ added, World.dag (w.run cfg sched) j = added ++ World.dag w j ∧ ∀ t ∈ added, t.sigOK = true) ∧
    (∀ U : Tx → Prop, InvU U w → (∀ s ∈ sched, StepIn U s) → InvU U (w.run cfg sched)) := by
  induction sched with
  | nil => intro w hok; exact ⟨hok, fun j => ⟨[], by simp [World.run], by simp⟩, fun U hi _ => hi⟩
  | cons s rest ih =>
    intro w hok
    obtain ⟨hok1, hd1⟩ := step_dag cfg w s hok
    obtain ⟨hok2, hd2, hu2⟩ := ih (w.step cfg s) hok1
    refine ⟨hok2, fun j => ?_, fun U hi hs => ?_⟩
    · obtain ⟨a1, h1, m1⟩ := hd1 j
      obtain ⟨a2, h2, m2⟩ := hd2 j
      refine ⟨a2 ++ a1, ?_, ?_⟩
      · show World.dag ((w.step cfg s).run cfg rest) j = _
        rw [h2, h1, List.append_assoc]
      · intro t ht
        rcases List.mem_append.mp ht with h | h
        · exact m2 t h
        · exact (m1 t h).1
    · exact hu2 U (step_invU cfg U w s hok hi (hs s List.mem_cons_self)) (fun x hx => hs x (List.mem_cons_of_mem _ hx))

/-- **Stale, duplicated, unsolicited or conversation-mismatching responses change no DAG** — they change nothing at
    all: a `TransactionList` or `TransactionSet` whose conversation check fails (unknown/expired/evicted conversation,
    wrong envelope type for the request, non-requested ref, clock outside the requested range, unparsable
    transaction, wrong `LCReq`) leaves the node exactly as it was and sends nothing. And conversely a DAG changes only
    through a `TransactionList` whose conversation check passed, by transactions contained in that message. -/
theorem unsolicited_responses_change_no_dag (cfg : Cfg) (env : Env) (n : Node) (peer : Peer) :
    (∀ cid num total txs, convCheck n cid (.txList cid num total txs) ≠ none →
        (handle cfg env n peer (.txList cid num total txs)).node = n ∧ (handle cfg env n peer (.txList cid num total txs)).out = []) ∧
    (∀ cid lcReq lc iblt, convCheck n cid (.txSet cid lcReq lc iblt) ≠ none →
        (handle cfg env n peer (.txSet cid lcReq lc iblt)).node = n ∧ (handle cfg env n peer (.txSet cid lcReq lc iblt)).out = []) ∧
    (∀ m, DagOK n.dag → (handle cfg env n peer m).node.dag ≠ n.dag →
        ∃ cid num total txs, m = .txList cid num total txs ∧ convCheck n cid m = none ∧
          ∀ t ∈ (handle cfg env n peer m).node.dag, t ∈ n.dag ∨ (t.sigOK = true ∧ t ∈ txs.filterMap (·.tx))) := by
  refine ⟨fun cid => (rejected_response_noop cfg env n peer cid).1, fun cid => (rejected_response_noop cfg env n peer cid).2, ?_⟩
  intro m hok hne
  obtain ⟨_, added, hd, hc, hm⟩ := handle_dag cfg env n peer m hok
  have hadd : added ≠ [] := by
    intro h; apply hne; rw [hd, h]; rfl
  obtain ⟨cid, num, total, txs, rfl, hcheck⟩ := hc hadd
  refine ⟨cid, num, total, txs, rfl, hcheck, fun t ht => ?_⟩
  rw [hd] at ht
  rcases List.mem_append.mp ht with h | h
  · exact Or.inr (hm t h)
  · exact Or.inl h

/-! ### chunking and reply order -/

/-- `chunkTransactionList` loses nothing, duplicates nothing and keeps the order -/
theorem chunks_lossless (cfg : Cfg) (l : List NetTx) : (chunkTransactionList cfg l).flatten = l :=
  chunks_flatten cfg l

/-! ### stability -/

/-- **Once the XORs are equal the handlers send nothing but gossip**: a gossip or a state message carrying the
    node's own XOR leaves the node unchanged and produces no message (so two equal nodes exchange gossip only). -/
theorem stable_when_equal (cfg : Cfg) (env : Env) (n : Node) (peer : Peer) (lc : Nat) (refs : List Ref) (cid : Cid) :
    (handle cfg env n peer (.gossip (xorOf n.dag) lc refs)).node = n ∧
    (handle cfg env n peer (.gossip (xorOf n.dag) lc refs)).out = [] ∧
    (handle cfg env n peer (.state cid (xorOf n.dag) lc)).node = n ∧
    (handle cfg env n peer (.state cid (xorOf n.dag) lc)).out = [] := by
  simp [handle, handleGossip, handleState]

end Nuts.C07.Props
