/-
  C11 — status list positions stay unique when the node's public URL changes (deepening round 2026-09-28, seeded
  mutation C11-w8m2). `EAct.rebase` (a restart with another `url` setting) is a step of the `Entry` machine: pages keep
  the subject id they were stored with, the counter UPDATE addresses the LOADED row's id (fact `entryUpdateKey`).
-/
import NutsProofs.Props.C11
import NutsModel.Facts.C11
namespace Nuts.C11.Props
open Nuts Nuts.C11

/-- `slots_unique_across_url_changes`: for every schedule of Entry read/write steps, Revoke/Credential transactions, ticks
    AND changes of the configured base URL (any number, anywhere), no two `Entry` calls return the same (list, index), and
    every returned position lies on an existing page at or below that page's counter — so `Revoke`'s range check
    (`index > last_issued_index`) can never refuse an issued entry. -/
theorem slots_unique_across_url_changes (E : Env) (w0 : EWorld) (h0 : EInv E w0) (acts : List EAct) :
    (∀ (t1 t2 : Nat) (th1 th2 : EThread) l i, t1 ≠ t2 → (eRun E w0 acts).threads[t1]? = some th1 →
        (eRun E w0 acts).threads[t2]? = some th2 → th1.phase = .done l i → th2.phase ≠ .done l i) ∧
    (∀ (t : Nat) (th : EThread) l i, (eRun E w0 acts).threads[t]? = some th → th.phase = .done l i →
        ∃ r, r ∈ (eRun E w0 acts).node.pages ∧ r.id = l ∧ i ≤ r.last ∧ r.last ≤ E.maxIndex) := by
  have h := eRun_inv (E := E) acts h0
  refine ⟨h.uniq, ?_⟩
  intro t th l i ht hd
  obtain ⟨r, hr, hl, hi⟩ := h.done t th l i ht hd
  exact ⟨r, hr, hl, hi, h.le r hr⟩

/-- the configured URL is irrelevant for a page that exists: the write step of an `Entry` on a loaded row gives the same
    counter update whatever the node's base URL is at that moment (roll-over excepted, which creates a NEW page) -/
theorem entry_update_independent_of_base (E : Env) (now : Nat) (n : Node) (base : String) (issuer kid : String) (row : PageRow)
    (h : row.last + 1 ≤ E.maxIndex) :
    entryDecide E now { n with base := base } issuer kid (some row) = .update row.id (row.last + 1) ∧
    entryDecide E now n issuer kid (some row) = .update row.id (row.last + 1) := by
  have hn : ¬ (row.last + 1 > E.maxIndex) := by omega
  constructor <;> (unfold entryDecide; simp only [entryCur]; exact if_neg hn)

/-- non-vacuity: alice gets position 0 under https://n0, the base URL changes, she gets position 1 of the SAME (old) list -/
example :
    ((eRun exEnv { node := exNode "https://n0" }
        [.spawn "did:a", .read 0 none, .write 0, .rebase "https://n0:8443", .spawn "did:a",
         .read 1 (some (.sl "https://n0" "did:a" 1)), .write 1, .spawn "did:a", .read 2 (some (.sl "https://n0" "did:a" 1)), .write 2]).threads.map (·.phase)) =
      [.done (.sl "https://n0" "did:a" 1) 0, .done (.sl "https://n0" "did:a" 1) 1, .done (.sl "https://n0" "did:a" 1) 2] := by decide

/-- the counter UPDATE of `Entry` is keyed by the loaded record's `SubjectID` (model: `WOut.update cur.id …`), and it is the
    only Where/UpdateColumn of the method -/
theorem fact_entry_update_key :
    Nuts.Facts.C11.entryUpdateKey =
      ["UpdateColumn(\"last_issued_index\",credentialIssuer.LastIssuedIndex)", "Where(\"subject_id = ?\",credentialIssuer.SubjectID)"] := by
  decide

end Nuts.C11.Props
