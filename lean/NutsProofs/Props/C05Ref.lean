/-
  C05, deepening round 3 (2026-09-28) — the remaining burn-on-use handlers of auth/api/iam as THREADS of the schedule model:
  `validatePresentationNonce` including its burn-all branch, `RequestJWTByGet` / `RequestJWTByPost`; end-to-end corollaries
  (request contents → at most one honoured under EVERY interleaving).
-/
import NutsModel.C05.Forms
import NutsModel.C05.Today
import NutsModel.Facts.C05
import NutsProofs.Lemmas.C05Ref
import NutsProofs.Props.C05Forms

namespace Nuts.C05.Props
open Nuts.C05

/-- **Refinement (OpenID4VP nonce check, burn-all included)**: `validatePresentationNonce`, mirrored statement by statement
    (collect over ALL presentations, "burn them all" on any error, else GetAndDelete + state check), leaves the store exactly
    as the threads `responseThreads ps state` of the abstract layer leave it when they run one after the other under today's
    configuration — one Delete-only thread per collected nonce on the error path, ONE consuming thread otherwise — and every
    one of these threads ends in the outcome class of the handler's answer.  For all presentations, states, stores, instants,
    back-ends.  (`nonces[0]` on an empty list is unreachable from the caller, which refuses an empty vp_token.) -/
theorem validateNonce_refines_threads (strict incl : Bool) (ttl : Kind → Nat) (now : Nat) (st : Store) (ps : List Pres) (state : String)
    (hp : ∀ s, (validateNonce ⟨incl, now, ttl⟩ st ps state).1 ≠ .panic s) :
    soloStores (today strict incl) now st (responseThreads ps state) = (validateNonce ⟨incl, now, ttl⟩ st ps state).2 ∧
    ∀ o ∈ soloOutcomes (today strict incl) now st (responseThreads ps state), o = vpOutcome (validateNonce ⟨incl, now, ttl⟩ st ps state).1 :=
  validateNonce_eq_threads (today strict incl) (today_gad_locked strict incl) rfl ttl now st ps state hp

/-- non-vacuity: two presentations that disagree → two Delete-only threads, both nonces gone, nobody honoured;
    one presentation → one consuming thread -/
example :
    let st : Store := [(vpKey "n1", ⟨"s", 300⟩), (vpKey "n2", ⟨"s", 300⟩)]
    let ps : List Pres := [⟨.jwt, "n1", false, "", ""⟩, ⟨.ld, "", false, "n2", ""⟩]
    (responseThreads ps "s").length = 2 ∧ (validateNonce ⟨true, 0, todayTTL⟩ st ps "s").2 = [] ∧
    vpOutcome (validateNonce ⟨true, 0, todayTTL⟩ st ps "s").1 = some .missingParam ∧
    (responseThreads [⟨.jwt, "n1", false, "", ""⟩] "s") = [{ kind := .vpNonce, id := "n1", want := "s" }] ∧
    (validateNonce ⟨true, 0, todayTTL⟩ st [⟨.jwt, "n1", false, "", ""⟩] "s") = (.ok, [(vpKey "n2", ⟨"s", 300⟩)]) := by
  decide

/-- the threads of a list of authorization responses -/
def compileResponses (rs : List (List Pres × String)) : List Req :=
  (rs.flatMap (fun r => responseThreads r.1 r.2)).map Req.burn

/-- **End to end** (OpenID4VP response endpoint, all interleavings): any number of authorization responses with any
    presentations (agreeing, disagreeing, missing, broken — i.e. consuming AND burn-all requests mixed), their threads
    interleaved in EVERY way at the granularity of single store calls, clock ticks anywhere, any back-end: at most one is
    honoured per nonce. -/
theorem vp_response_at_most_once_all_schedules (strict incl : Bool) (st : Store) (rs : List (List Pres × String))
    (sched : List Ev) (n : String) :
    successes (run (today strict incl) sched (init st (compileResponses rs))) (vpKey n) ≤ 1 :=
  at_most_one_success_atomic (today strict incl) (Or.inr (Or.inl (today_gad_locked strict incl))) st _ sched (vpKey n) .vpNonce rfl

/-- **Refinement (request objects)**: `RequestJWTByGet` / `RequestJWTByPost` up to the signer answer and leave the store
    exactly as the thread `reqObjReq r v` does when it runs alone (lock, Get, Delete, unlock) under today's configuration —
    `v` being whatever the store holds for the id; the handler's two comparisons on the consumed value are the thread's `post`. -/
theorem handleReqObj_refines_thread (strict incl : Bool) (ttl : Kind → Nat) (now : Nat) (st : Store) (r : ReqObjFetch) (v : String)
    (hv : ∀ x, stGet incl st now (reqObjKey r.id) = some x → x = v) :
    ((run (today strict incl) soloSched { store := st, now := now, lock := none, ths := [.burn (reqObjReq r v) .start 0] }).ths[0]?.bind Thread.outcome)
        = reqObjOutcome r (handleReqObj ⟨incl, now, ttl⟩ st r).1 ∧
    (run (today strict incl) soloSched { store := st, now := now, lock := none, ths := [.burn (reqObjReq r v) .start 0] }).store
        = (handleReqObj ⟨incl, now, ttl⟩ st r).2 := by
  have h1 := solo_burn_run (today strict incl) (today_gad_locked strict incl) (reqObjReq r v) (by simp [reqObjReq]) rfl rfl rfl rfl st now
  have h2 := handleReqObj_eq_solo (today strict incl) ttl now st r v hv
  exact ⟨by rw [h1.1]; exact h2.1.symm, by rw [h1.2.1]; exact h2.2.symm⟩

/-- non-vacuity: the hypothesis on `v` is met by a store holding the object; a fetch with the wrong method consumes it;
    a fetch of an unknown id is the thread's `notFound`; and if the two fields of the value fit, the fetch is honoured
    (`String.splitOn` does not reduce in the kernel, so the field readers stay symbolic in the last part) -/
example :
    let st : Store := [(reqObjKey "r1", ⟨"a|get", 60⟩)]
    (handleReqObj ⟨true, 0, todayTTL⟩ st ⟨"r1", "a", true⟩).2 = [] ∧
    (∀ x, stGet true st 0 (reqObjKey "r1") = some x → x = "a|get") ∧
    reqObjOutcome ⟨"r9", "a", false⟩ (handleReqObj ⟨true, 0, todayTTL⟩ st ⟨"r9", "a", false⟩).1 = some .notFound := by
  refine ⟨by rw [handleReqObj_snd]; decide, ?_, by decide⟩
  intro x h
  have : stGet true [(reqObjKey "r1", (⟨"a|get", 60⟩ : Entry))] 0 (reqObjKey "r1") = some "a|get" := by decide
  rw [this] at h
  exact (Option.some.inj h).symm

example (v : String) (h1 : roClient v = "a") (h2 : roMethod v = "get") :
    handleReqObj ⟨true, 0, todayTTL⟩ [(reqObjKey "r1", ⟨v, 60⟩)] ⟨"r1", "a", false⟩ = (.ok, []) := by
  simp [handleReqObj, gadSeq, stGet, stFind, alive, stErase, h1, h2]

/-- **End to end** (request objects, all interleavings): any number of fetches (GET and POST, any subjects, any ids) against
    any stored objects, interleaved in EVERY way, any back-end: at most one is honoured per request object. -/
theorem request_object_at_most_once_all_schedules (strict incl : Bool) (st : Store) (rs : List (ReqObjFetch × String))
    (sched : List Ev) (id : String) :
    successes (run (today strict incl) sched (init st (rs.map (fun x => Req.burn (reqObjReq x.1 x.2))))) (reqObjKey id) ≤ 1 :=
  at_most_one_success_atomic (today strict incl) (Or.inr (Or.inl (today_gad_locked strict incl))) st _ sched (reqObjKey id) .reqObj rfl

/-! ### every endpoint = its threads -/

theorem today_mark_locked (strict incl : Bool) (m : MarkKind) : (today strict incl).mark m = .locked := by
  cases m
  · show todayMarkS2S = .locked
    decide
  · show todayMarkJti = .locked
    decide

/-- **Refinement, all endpoints at once**: for EVERY request of every modelled endpoint (token endpoint with any grant and any
    parameter subset, OpenID4VP authorization response, request-object fetch by GET / POST, landing page, DPoP validation),
    every store it meets, every instant and back-end, the request-level handler — mirrored statement by statement from the
    Go source — leaves the one-time stores exactly as its threads of the schedule model (`formThreads`: one `code` thread;
    one `s2s` mark thread per presentation the nonce loop reaches; one consuming or k Delete-only `vpNonce` threads; one
    `reqObj` / `redirect` / `jti` thread; none for a request refused before the store) leave them when they run one after the
    other under today's configuration.  So the thread programs the all-schedules theorems quantify over are the handlers'. -/
theorem every_endpoint_refines_its_threads (strict incl : Bool) (pk : Pkce) (now : Nat) (st : Store) (f : Form)
    (hp : ∀ s, (handleForm ⟨incl, now, todayTTL⟩ pk st f).1 ≠ .panic s) :
    threadsStore (today strict incl) now st (formThreads ⟨incl, now, todayTTL⟩ pk st f) = (handleForm ⟨incl, now, todayTTL⟩ pk st f).2 :=
  handleForm_eq_threads (today strict incl) (today_gad_locked strict incl) (today_mark_locked strict incl) (fun _ => rfl) pk now st f hp

/-- non-vacuity: an s2s envelope of three presentations whose second nonce is used: two mark threads (the loop stops at the
    used one), the first nonce stays registered; a code request without verifier: one Delete-only thread, the code is gone -/
example :
    let c : Sq := ⟨true, 0, todayTTL⟩
    let st : Store := [(s2sKey "x2", ⟨"true", 900⟩), (codeKey "c1", ⟨"clientA", 300⟩)]
    formThreads c ⟨"S256", fun _ => true⟩ st (.token { grantType := "vp_token-bearer", assertion := some ["x1", "x2", "x3"], submission := true, scope := true, clientId := some "a" })
      = [.mark { kind := .s2s, id := "x1" }, .mark { kind := .s2s, id := "x2" }] ∧
    (soloCalls (today false true) 0 st (formThreads c ⟨"S256", fun _ => true⟩ st (.token { grantType := "authorization_code", code := some "c1", clientId := some "clientA" }))).1
      = ["del:code/c1"] ∧
    (handleForm c ⟨"S256", fun _ => true⟩ st (.token { grantType := "authorization_code", code := some "c1", clientId := some "clientA" })).2
      = [(s2sKey "x2", ⟨"true", 900⟩)] := by
  decide

/-- the threads of a batch of requests of any endpoints (each compiled against the store it would meet alone) -/
def compileAll (c : Sq) (pk : Pkce) (st : Store) (fs : List Form) : List Req := fs.flatMap (formThreads c pk st)

/-- **End to end, all endpoints, all interleavings**: any batch of requests of any endpoints — token requests with codes,
    s2s envelopes, authorization responses (consuming and burn-all), request-object fetches, landing-page calls, DPoP
    validations, mixed — their threads interleaved in EVERY way at single-store-call granularity, clock ticks anywhere, any
    back-end: at most one request is honoured per burn-on-use secret of any kind. -/
theorem any_endpoints_at_most_once_all_schedules (strict incl : Bool) (c : Sq) (pk : Pkce) (st : Store) (fs : List Form)
    (sched : List Ev) (k : Key) (b : BurnKind) (hk : k.ns = .burn b) :
    successes (run (today strict incl) sched (init st (compileAll c pk st fs))) k ≤ 1 :=
  at_most_one_success_atomic (today strict incl) (Or.inr (Or.inl (today_gad_locked strict incl))) st _ sched k b hk

/-! ### the OpenID4VCI token endpoint as a thread -/

/-- **Refinement (pre-authorized code)**: vcr/issuer `HandleAccessTokenRequest` → `FindAndDeleteReference`, mirrored statement
    by statement in Vci.lean, leaves the pre-authorized-code store exactly as the thread `preAuthReq` leaves it when it runs
    alone (lock, Get, Delete, unlock) under today's configuration; the thread is honoured iff the handler answers 200, and
    ends `notFound` iff the code was not readable.  All codes, issuers, generated tokens, stores, instants, back-ends. -/
theorem handlePreAuth_refines_thread (strict incl : Bool) (ttl : Kind → Nat) (now : Nat) (s : VciSt) (issuer code tok cn : String) :
    let w := run (today strict incl) soloSched { store := s.codes, now := now, lock := none,
                                                 ths := [.burn (preAuthReq ⟨incl, now, ttl⟩ s issuer code tok cn) .start 0] }
    w.store = (handlePreAuth ⟨incl, now, ttl⟩ s issuer code tok cn).st.codes ∧
    ((w.ths[0]?.bind Thread.outcome) = some .ok ↔ (handlePreAuth ⟨incl, now, ttl⟩ s issuer code tok cn).ans = .ok) ∧
    ((w.ths[0]?.bind Thread.outcome) = some .notFound ↔ stGet incl s.codes now (preAuthKey code) = none) := by
  have h1 := solo_plain_run (today strict incl) (today_gad_locked strict incl) (preAuthReq ⟨incl, now, ttl⟩ s issuer code tok cn)
    (Or.inr rfl) rfl rfl rfl rfl s.codes now
  have h2 := handlePreAuth_eq_solo (today strict incl) ttl now s issuer code tok cn
  simp only [show (today strict incl).expInclusive = incl from rfl] at h2
  simp only at h1 ⊢
  rw [h1.1, h1.2.1]
  refine ⟨h2.1.symm, ?_, ?_⟩
  · rw [← h2.2.1]; simp
  · rw [← h2.2.2]; simp

/-- non-vacuity: a live code at the right issuer is honoured (thread `post` = true), at the wrong issuer it is consumed and refused -/
example :
    let s : VciSt := ⟨[(preAuthKey "c1", ⟨"f1", 900⟩)], [("f1", ⟨"own", 900⟩)], [], []⟩
    (preAuthReq ⟨true, 0, todayTTL⟩ s "own" "c1" "t" "n").post = true ∧
    (preAuthReq ⟨true, 0, todayTTL⟩ s "other" "c1" "t" "n").post = false ∧
    (handlePreAuth ⟨true, 0, todayTTL⟩ s "other" "c1" "t" "n").st.codes = [] := by
  decide

/-- **End to end** (OpenID4VCI token endpoint, all interleavings): any number of token requests with any codes at any
    issuers, interleaved in EVERY way at single-store-call granularity, any back-end: at most one is honoured per code. -/
theorem preauth_at_most_once_all_schedules (strict incl : Bool) (c : Sq) (s : VciSt) (rs : List (String × String × String × String))
    (sched : List Ev) (code : String) :
    successes (run (today strict incl) sched (init s.codes (rs.map (fun x => Req.burn (preAuthReq c s x.1 x.2.1 x.2.2.1 x.2.2.2)))))
      (preAuthKey code) ≤ 1 :=
  at_most_one_success_atomic (today strict incl) (Or.inr (Or.inl (today_gad_locked strict incl))) s.codes _ sched (preAuthKey code) .preAuth rfl

/-! ### burn-all under every schedule -/

/-- **Dead after burn-all, in EVERY schedule** (and: dead after any refused-before-the-store code request): once a Delete-only
    thread `j` — a burn-all thread of an authorization response, or a token request naming a code without verifier /
    client_id — has finished in a schedule `s1` (its Delete reached the store), the secret is absent from the store and every
    request `i` on that secret that had not yet passed its Get at that moment is refused in EVERY continuation `s2` — any
    other requests running concurrently, any shape of GetAndDelete, any back-end.  (Invariant `NInv` by induction over all
    schedules; generalises `code_dead_after_failed_attempt` from the deferred Delete of `code` to all kinds.) -/
theorem dead_after_burn_all_in_every_schedule (cfg : Cfg) (st : Store) (reqs : List Req) (s1 s2 : List Ev)
    (j : Nat) (r : BurnReq) (o : Outcome) (f : Nat)
    (hj : (run cfg s1 (init st reqs)).ths[j]? = some (Thread.burn r (.done o) f)) (hp : r.pre = false) (hdel : r.failDel = false)
    (i : Nat) (t : Thread) (hi : (run cfg s1 (init st reqs)).ths[i]? = some t) (hkey : t.key = r.key) (hidle : t.idle = true)
    (t' : Thread) (ht' : (run cfg s2 (run cfg s1 (init st reqs))).ths[i]? = some t') :
    stFind (run cfg s1 (init st reqs)).store r.key = none ∧ t'.took = false := by
  have hgone : stFind (run cfg s1 (init st reqs)).store r.key = none := by
    rcases NInv_run cfg s1 _ (NInv_init st reqs) j r (.done o) f hj hp hdel with h | ⟨_, h⟩ | ⟨_, _, h⟩
    · cases h
    · cases h
    · exact h
  exact ⟨hgone, dead_never_honoured cfg _ r.key r.kind rfl (stGet_none_of_find_none _ _ _ _ hgone) i t hi hkey hidle s2 t' ht'⟩

/-- non-vacuity: a disagreeing response names n1 (one of its burn-all threads, thread 0) while an honest response with n1
    (thread 1) has not started: after thread 0 finished, n1 is gone and thread 1 ends refused -/
example :
    let reqs : List Req := [.burn { kind := .vpNonce, id := "n1", want := "s", pre := false }, .burn { kind := .vpNonce, id := "n1", want := "s" }]
    let st : Store := [(vpKey "n1", ⟨"s", 300⟩)]
    let w1 := run todayMem [.step 0, .step 0] (init st reqs)
    w1.ths[0]? = some (Thread.burn { kind := .vpNonce, id := "n1", want := "s", pre := false } (.done .missingParam) 0) ∧
    (w1.ths[1]?.map Thread.idle) = some true ∧ w1.store = [] ∧
    ((run todayMem [.step 1, .step 1, .step 1] w1).ths[1]?.bind Thread.outcome) = some .notFound := by
  decide

/-! ### an honoured request = every one of its threads honoured -/

/-- **The link between the request level and the thread count**: whatever request of whatever modelled endpoint is answered
    200 (token endpoint with a code, s2s envelope, authorization response, request-object fetch, landing page, DPoP
    validation), EVERY thread it stands for ends `ok` when its threads run one after the other under today's configuration —
    so each honoured request is a success on each of its secrets in the sense the all-schedules theorems count
    (`successes … ≤ 1`).  All request contents, stores, instants, back-ends.  (An s2s envelope has one thread per
    presentation: `s2sLoop_ok_threads`; an envelope without presentations is refused before the loop by the real handler.) -/
theorem honoured_request_means_every_thread_honoured (strict incl : Bool) (pk : Pkce) (now : Nat) (st : Store) (f : Form)
    (hok : (handleForm ⟨incl, now, todayTTL⟩ pk st f).1 = .ok) :
    ∀ o ∈ threadsOutcomes (today strict incl) now st (formThreads ⟨incl, now, todayTTL⟩ pk st f), o = some .ok :=
  handleForm_ok_threads (today strict incl) (today_gad_locked strict incl) (today_mark_locked strict incl) (fun _ => rfl) pk now st f hok

/-- non-vacuity: an honoured s2s envelope of two presentations has two honoured mark threads; an honoured code request one -/
example :
    let c : Sq := ⟨true, 0, todayTTL⟩
    let pk : Pkce := ⟨"S256", fun _ => true⟩
    let st : Store := [(codeKey "c1", ⟨"clientA", 300⟩)]
    let f1 : Form := .token { grantType := "vp_token-bearer", assertion := some ["x1", "x2"], submission := true, scope := true, clientId := some "a" }
    let f2 : Form := .token { grantType := "authorization_code", code := some "c1", codeVerifier := some "v", clientId := some "clientA" }
    (handleForm c pk st f1).1 = .ok ∧ threadsOutcomes (today false true) 0 st (formThreads c pk st f1) = [some .ok, some .ok] ∧
    (handleForm c pk st f2).1 = .ok ∧ threadsOutcomes (today false true) 0 st (formThreads c pk st f2) = [some .ok] := by
  decide

/-- the store prefixes under which the harness recognises the one-time-store calls of the `calls` column are today's
    (regenerated `prefix_*` facts): a renamed store breaks this instead of silently emptying the column -/
theorem fact_call_column_prefixes :
    Kind.all.map (fun k => (String.intercalate "/" (todayPrefix k), k.name)) =
      [("oauth/code", "code"), ("oauth/requestobject", "reqobj"), ("oauth/nonce", "vpnonce"), ("user/redirect", "redirect"),
       ("openid4vci/preauthcode", "preauth"), ("s2s/nonce", "s2s"), ("nonceonce", "jti")] := by
  decide

end Nuts.C05.Props
