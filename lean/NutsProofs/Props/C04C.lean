/-
  C04 (deepening round 2026-09-28) — configuration text -> auth policy -> no bypass.
  ONLY property theorems (+ non-vacuity examples + obligations on the regenerated facts).
  Model: NutsModel/C04/Config.lean (core config loading, http/cmd flags, http.Config), composed with the guard layer.
-/
import NutsModel.C04.Config
import NutsModel.Facts.C04
import NutsProofs.Props.C04

namespace Nuts.C04.Props
open Nuts.C04

/-! ### Obligations on the regenerated facts -/

/-- file, then environment, then command line — the order `effective` resolves backwards -/
theorem fact_config_load_order : Facts.C04.configLoadOrder = ["loadFromFile", "loadFromEnv", "loadFromFlagSet"] := by decide

theorem fact_env_constants :
    Facts.C04.core_defaultEnvPrefix = "NUTS_" ∧ Facts.C04.core_defaultEnvDelimiter = "_" ∧ Facts.C04.core_defaultDelimiter = "."
    ∧ Facts.C04.core_configValueListSeparator = "," := by decide

theorem fact_env_key_and_flag_load :
    Facts.C04.envKeyExpr = "strings.Replace(strings.ToLower(strings.TrimPrefix(rawKey, defaultEnvPrefix)), defaultEnvDelimiter, defaultDelimiter, -1)"
    ∧ Facts.C04.flagLoadStmt = "return configMap.Load(posflag.Provider(flags, defaultDelimiter, configMap), nil)"
    ∧ Facts.C04.splitWithEscapingBody =
      "{ s = strings.ReplaceAll(s, escape+separator, \"\\x00\") tokens := strings.Split(s, separator) for i, token := range tokens { tokens[i] = strings.ReplaceAll(token, \"\\x00\", separator) } return tokens }"
    ∧ Facts.C04.injectBody = "{ return unmarshalRecursive([]string{strings.ToLower(e.Name())}, e.Config(), ngc.configMap) }"
    ∧ Facts.C04.httpModuleName = "HTTP" := by
  refine ⟨by rfl, by rfl, by rfl, by rfl, by decide⟩

/-- every koanf-tagged leaf of http.Config has a flag `http.<tag path>` and every flag of http/cmd names such a leaf:
    no configuration key of the auth settings can be set in one place and read in another -/
theorem fact_http_flags_match_config_tags :
    (Facts.C04.httpFlags.map (·.1)).all (fun f => Facts.C04.httpConfigTags.any (fun t => "http." ++ t.1 = f)) = true
    ∧ (Facts.C04.httpConfigTags.map (·.1)).all (fun t => Facts.C04.httpFlags.any (fun f => f.1 = "http." ++ t)) = true := by
  decide

/-- the keys the model reads are the tag paths of the fields it stands for, and the auth type defaults to "" (no auth)
    with no default keys file and no default audience -/
theorem fact_auth_config_keys :
    (Facts.C04.httpConfigTags.filter (fun t => ["Log", "Public.Address", "Internal.Address", "Internal.Auth.Type",
        "Internal.Auth.AuthorizedKeysPath", "Internal.Auth.Audience"].contains t.2))
      = [("log", "Log"), ("public.address", "Public.Address"), ("internal.address", "Internal.Address"), ("internal.auth.type", "Internal.Auth.Type"),
         ("internal.auth.authorizedkeyspath", "Internal.Auth.AuthorizedKeysPath"), ("internal.auth.audience", "Internal.Auth.Audience")]
    ∧ Facts.C04.httpFlags.filter (fun f => ["http.internal.auth.type", "http.internal.auth.audience", "http.internal.auth.authorizedkeyspath"].contains f.1)
      = [("http.internal.auth.type", "String", ""), ("http.internal.auth.audience", "String", ""), ("http.internal.auth.authorizedkeyspath", "String", "")] := by
  decide

/-! ### precedence -/

def nutsPrefix : Str := "NUTS_".toList
def authTypeKey : Str := httpKey "internal.auth.type"

/-- **command_line_wins**: a flag given on the command line decides the value, whatever the environment, the file and the defaults say -/
theorem command_line_wins (src : Sources) (key v : Str) (h : src.flags.find? (fun f => f.1 = key) = some (key, v)) :
    effective nutsPrefix src key = some (.str v) := by
  simp [effective, h]

/-- **environment_beats_file** -/
theorem environment_beats_file (src : Sources) (key : Str) (e : Str × Str)
    (hf : src.flags.find? (fun f => f.1 = key) = none)
    (he : src.env.find? (fun e => hasPrefix nutsPrefix e.1 && envKey nutsPrefix e.1 = key) = some e) :
    effective nutsPrefix src key = some (envValue e.2) := by
  simp [effective, hf, he]

/-- a key no source mentions and no flag registers decodes to the zero value -/
theorem unmentioned_key_is_empty (src : Sources) (key : Str)
    (hf : src.flags.find? (fun f => f.1 = key) = none)
    (he : src.env.find? (fun e => hasPrefix nutsPrefix e.1 && envKey nutsPrefix e.1 = key) = none)
    (hfile : src.file.find? (fun f => f.1 = key) = none) (hd : src.defaults.find? (fun d => d.1 = key) = none) :
    decodeStr (effective nutsPrefix src key) = .ok [] := by
  simp [effective, hf, he, hfile, hd, decodeStr]

example : envKey nutsPrefix "NUTS_HTTP_INTERNAL_AUTH_TYPE".toList = authTypeKey := by decide
example : envKey nutsPrefix "NUTS_http_Internal_AUTH_type".toList = authTypeKey := by decide
example : hasPrefix nutsPrefix "nuts_HTTP_INTERNAL_AUTH_TYPE".toList = false := by decide
example : envValue "token_v2".toList = .str "token_v2".toList := by decide
example : envValue " token_v2 ".toList = .str "token_v2".toList := by decide
example : envValue "token_v2,x".toList = .list ["token_v2".toList, "x".toList] := by decide
example : envValue "token_v2\\,x".toList = .str "token_v2,x".toList := by decide

/-! ### configuration text -> policy -/

/-- **policy_no_auth_only_if_type_is_empty**: for ALL sources, `Configure` leaves the internal interface without
    authentication only when the value that wins the precedence for `http.internal.auth.type` is the empty string (or no
    source names it). Any other value — a misspelling, a legacy name, a list — is token auth or an error, never "no auth". -/
theorem policy_no_auth_only_if_type_is_empty (src : Sources) (ok : Bool)
    (h : policyOf nutsPrefix src ok = .noAuth) :
    effective nutsPrefix src authTypeKey = some (.str []) ∨ effective nutsPrefix src authTypeKey = none := by
  unfold policyOf loadHttpConfig at h
  split at h
  · simp at h
  · next c hc =>
    split at hc
    · next a1 a2 a3 a4 a5 a6 h1 _ _ _ _ _ =>
      have hc' : c.authType = a1 := by
        have := hc; simp at this; rw [← this]
      have hs : c.authType = [] := by
        unfold configureAuth at h
        split at h
        · next h0 =>
          have := congrArg String.toList h0
          simpa using this
        · split at h
          · split at h <;> simp at h
          · simp at h
      rw [hc'] at hs
      subst hs
      -- decodeStr gave `ok []`: the effective value is `str []` or absent
      have h1' : decodeStr (effective nutsPrefix src authTypeKey) = .ok [] := h1
      cases he : effective nutsPrefix src authTypeKey with
      | none => exact Or.inr rfl
      | some v =>
        cases v with
        | list l => rw [he] at h1'; simp [decodeStr] at h1'
        | str s => rw [he] at h1'; simp [decodeStr] at h1'; rw [h1']; exact Or.inl rfl
    · simp at hc

/-- **token_auth_on_the_command_line_is_enforced**: `--http.internal.auth.type=token_v2` gives token auth or a start-up
    error for ALL environments and files — no other source can switch the guard off -/
theorem token_auth_on_the_command_line_is_enforced (src : Sources) (ok : Bool)
    (h : src.flags.find? (fun f => f.1 = authTypeKey) = some (authTypeKey, "token_v2".toList)) :
    policyOf nutsPrefix src ok = .tokenV2 ∨ policyOf nutsPrefix src ok = .error := by
  cases hp : policyOf nutsPrefix src ok with
  | tokenV2 => exact Or.inl rfl
  | error => exact Or.inr rfl
  | noAuth =>
    have := policy_no_auth_only_if_type_is_empty src ok hp
    rw [command_line_wins src authTypeKey _ h] at this
    rcases this with h1 | h1
    · exact absurd (by simp at h1) (by decide : ¬ ("token_v2".toList = ([] : Str)))
    · simp at h1

/-- whether the guard is on for a start-up outcome (an error: the node does not start) -/
def guardOnOf : AuthSetup → Option Bool
  | .tokenV2 => some true
  | .noAuth => some false
  | .error => none

/-- **config_text_to_no_bypass** (configuration text -> policy -> wire bytes -> handler): whenever the sources resolve to
    token auth, every request (any target, method, route table, authority verdicts) that runs a handler under /internal
    carried an accepted token, and the handler saw its user -/
theorem config_text_to_no_bypass (src : Sources) (ok : Bool) (hpol : policyOf nutsPrefix src ok = .tokenV2)
    (authOK : Str → Bool) (rs : List Route) (tok : Decision) (method : String) (target : Str) (i : Nat) (on : Bool)
    (hon : guardOnOf (policyOf nutsPrefix src ok) = some on)
    (hran : (serveConn authOK Facts.C04.authSelector Facts.C04.authPath on rs tok method target).ran = some i)
    (hint : ∀ r ∈ rs, r.id = i → underInternal r) :
    ∃ u, tok = .granted u ∧ (serveConn authOK Facts.C04.authSelector Facts.C04.authPath on rs tok method target).user = some u := by
  rw [hpol] at hon
  have : on = true := by simpa [guardOnOf] using hon.symm
  subst this
  exact no_bypass authOK rs tok method target i hran hint

/-- **config_text_to_listener_separation** (configuration text -> bind table -> listeners): for ALL sources whose winning
    values for `http.internal.address` and `http.public.address` are two distinct non-empty strings, `Configure` builds a
    bind table under which every registration under /internal, /status, /health, /metrics (any letter case) goes to the
    internal listener and nothing the public listener serves comes from such a registration -/
theorem config_text_to_listener_separation (src : Sources) (c : HttpCfg) (_hload : loadHttpConfig nutsPrefix src = .ok c)
    (hi : c.intAddr ≠ []) (hp : c.pubAddr ≠ []) (hne : c.pubAddr ≠ c.intAddr) (regs : List Registered) :
    ∃ binds, configureBinds Facts.C04.internalBinds (String.ofList c.pubAddr) (String.ofList c.intAddr) = some binds ∧
      (∀ g ∈ regs, getBindFromPath g.path ∈ Facts.C04.internalBinds → addrOf binds g.path = some (String.ofList c.intAddr)) ∧
      (∀ route ∈ routesAt binds regs (String.ofList c.pubAddr), ∃ g ∈ regs, g.route = route ∧ getBindFromPath g.path ∉ Facts.C04.internalBinds) := by
  have ne_of : ∀ l : Str, l ≠ [] → String.ofList l ≠ "" := by
    intro l hl h
    have := congrArg String.toList h
    exact hl (by simpa using this)
  have hne' : String.ofList c.pubAddr ≠ String.ofList c.intAddr := by
    intro h
    have := congrArg String.toList h
    exact hne (by simpa using this)
  have hb := configured_binds (String.ofList c.pubAddr) (String.ofList c.intAddr) (ne_of _ hp) (ne_of _ hi)
  exact ⟨_, hb, internal_never_public _ _ (ne_of _ hp) (ne_of _ hi) hne' _ hb regs⟩

/-- the addresses the theorem is about are the winning values of the two address keys (defaults 127.0.0.1:8081 / :8080 differ) -/
example : (loadHttpConfig nutsPrefix { file := [], env := [], flags := [], defaults := [(httpKey "internal.address", "127.0.0.1:8081".toList), (httpKey "public.address", ":8080".toList)] }).toOption.map
    (fun c => (c.intAddr, c.pubAddr)) = some ("127.0.0.1:8081".toList, ":8080".toList) := by decide

/-- non-vacuity: a file says no auth, the environment says token_v2 -> token auth; the command line says "" -> no auth -/
def exSrc (flags : List (Str × Str)) : Sources :=
  { file := [(authTypeKey, .str [])], env := [("NUTS_HTTP_INTERNAL_AUTH_TYPE".toList, "token_v2".toList)], flags := flags,
    defaults := [(authTypeKey, [])] }
example : policyOf nutsPrefix (exSrc []) true = .tokenV2 := by decide
example : policyOf nutsPrefix (exSrc [(authTypeKey, [])]) true = .noAuth := by decide
example : policyOf nutsPrefix (exSrc [(authTypeKey, "token".toList)]) true = .error := by decide
example : policyOf nutsPrefix { exSrc [] with env := [("NUTS_HTTP_INTERNAL_AUTH_TYPE".toList, "token_v2,".toList)] } true = .error := by decide

end Nuts.C04.Props
