/-
  C17 — JSON-LD documents, "verified over the exact bytes received / altering any protected byte": a member that
  encoding/json would read as another member (names equal under Unicode simple case folding) while the JSON-LD canonicalisation
  drops it as an undefined — hence unsigned — term is refused, at every nesting level.
  ONLY property theorems (+ non-vacuity examples + obligations on the regenerated facts).
-/
import NutsModel.C17.Fold
import NutsModel.Facts.C17
import NutsProofs.Lemmas.C17Fold
import NutsProofs.Props.C17

namespace Nuts.C17.Props
open Nuts.C17 Nuts.C17.Fold

/-! ### Obligations on the regenerated facts -/

set_option maxRecDepth 8000 in
/-- the guard as it stands in vcr/verifier/signature_verifier.go: names are folded with strings.Map(foldRune, ·), foldRune is the
    smallest rune of the unicode.SimpleFold orbit (encoding/json's and strings.EqualFold's folding — NOT strings.ToLower), the walk
    visits every object and array, and jsonldProof refuses before it unmarshals the proof -/
theorem fact_fold_guard :
    Facts.C17.ambiguousMemberFoldExpr = "strings.Map(foldRune, name)" ∧
    Facts.C17.foldRuneBody = "{ result := r for folded := unicode.SimpleFold(r); folded != r; folded = unicode.SimpleFold(folded) { if folded < result { result = folded } } return result }" ∧
    Facts.C17.ambiguousMemberBody = "{ switch v := value.(type) { case map[string]interface{}: names := make(map[string]struct{}, len(v)) for name, child := range v { folded := strings.Map(foldRune, name) if _, exists := names[folded]; exists { return name } names[folded] = struct{}{} if member := ambiguousMember(child); member != \"\" { return member } } case []interface{}: for _, child := range v { if member := ambiguousMember(child); member != \"\" { return member } } } return \"\" }" ∧
    Facts.C17.vcJsonLdErrConds.take 3 = ["err != nil", "member := caseVariantMember(signedDocument, documentToVerify); member != \"\"",
      "err = signedDocument.UnmarshalProofValue(&ldProof); err != nil"] := by
  refine ⟨by rfl, by rfl, by rfl, by decide⟩

set_option maxRecDepth 8000 in
/-- caseVariantMember ends in the walk over the whole document -/
theorem fact_caseVariantMember :
    Facts.C17.caseVariantMemberBody = "{ structType := reflect.TypeOf(decodedInto) for structType != nil && structType.Kind() == reflect.Pointer { structType = structType.Elem() } if structType != nil && structType.Kind() == reflect.Struct { for i := 0; i < structType.NumField(); i++ { name, _, _ := strings.Cut(structType.Field(i).Tag.Get(\"json\"), \",\") if name == \"\" || name == \"-\" { continue } for member := range document { if member != name && strings.EqualFold(member, name) { return member } } } } return ambiguousMember(map[string]interface{}(document)) }" := by
  rfl

/-! ### the fold -/

/-- the model's SimpleFold on ASCII + LONG S + KELVIN SIGN (other runes untouched: the harness generates names over exactly these) -/
abbrev sf : Nat → Nat := simpleFold id

/-- the three members of the `s` orbit and of the `k` orbit fold to ONE rune, whatever SimpleFold does elsewhere -/
theorem fold_s_k_orbits (other : Nat → Nat) :
    foldRune (simpleFold other) 0x17F = foldRune (simpleFold other) 115 ∧ foldRune (simpleFold other) 115 = foldRune (simpleFold other) 83 ∧
    foldRune (simpleFold other) 0x212A = foldRune (simpleFold other) 107 ∧ foldRune (simpleFold other) 107 = foldRune (simpleFold other) 75 := by
  refine ⟨rfl, rfl, rfl, rfl⟩

set_option maxRecDepth 100000 in
/-- ASCII: the fold of a rune below 128 is its upper-case letter (the smaller member of the orbit): it identifies exactly what
    lower-casing identifies, and nothing else below 128 -/
theorem fold_ascii : ∀ a, a < 128 → foldRune sf a = (if 97 ≤ a ∧ a ≤ 122 then a - 32 else a) := by decide

/-- strings.ToLower does NOT identify LONG S with s: a guard that folds with it misses the pair -/
theorem toLower_misses_long_s : toLowerRune 0x17F ≠ toLowerRune 115 ∧ foldRune sf 0x17F = foldRune sf 115 := by decide

example : foldName sf "encodedLiſt" = foldName sf "encodedList" ∧ foldName sf "Kind" = foldName sf "kind" ∧
    foldName sf "encodedList" ≠ foldName sf "encodedLisd" := by decide

/-! ### the guard -/

/-- THE statement: for EVERY folding function and every document, if ANY object at ANY depth holds two members (at different
    positions) whose names fold to the same string, ambiguousMember reports a member — whatever the iteration order -/
theorem ambiguousMember_refuses_every_conflated_pair (fold : String → String) (v : JVal) (ns pre mid post : List String) (a b : String)
    (hobj : ns ∈ objsVal v) (hns : ns = pre ++ a :: mid ++ b :: post) (hfold : fold a = fold b) :
    ambVal fold v ≠ none := by
  intro hnone
  have hfree := (ambVal_none fold v hnone ns hobj).2
  rw [hns] at hfree
  have h1 : (a :: (mid ++ b :: post)).Pairwise (fun x y => fold x ≠ fold y) := by
    have := List.pairwise_append.mp (by simpa [List.append_assoc] using hfree : (pre ++ (a :: (mid ++ b :: post))).Pairwise _)
    exact this.2.1
  exact (List.pairwise_cons.mp h1).1 b (by simp) hfold

/-- jsonldProof lets a document through to the proof only if no object of it holds a conflatable pair: what encoding/json reads as
    member X is then the one member spelt (up to folding) X, which is either signed or absent from what the node reads -/
theorem accept_vcJsonLdDoc (fold : String → String) (docOK sv : Bool) (doc : JVal) (rest : Outcome) (vs : List Verified)
    (h : vcJsonLdDoc fold docOK sv doc rest = .accept vs) :
    docOK = true ∧ sv = false ∧ rest = .accept vs ∧ ∀ ns ∈ objsVal doc, ns.Pairwise (fun a b => fold a ≠ fold b) := by
  unfold vcJsonLdDoc at h
  split at h; · cases h
  next h1 =>
  split at h; · cases h
  next h2 =>
  split at h
  · cases h
  · next hn =>
    exact ⟨by simpa using h1, by simpa using h2, h, fun ns hns => (ambVal_none fold doc hn ns hns).2⟩

/-- negation witness for the rule "fold with strings.ToLower": a credentialSubject with `encodedList` and `encodedLiſt` passes it -/
theorem toLower_guard_accepts_conflated_pair :
    let doc := JVal.obj (.cons "credentialSubject" (.obj (.cons "encodedList" .leaf (.cons "encodedLiſt" .leaf .nil))) .nil)
    let lower := fun (s : String) => String.ofList (s.toList.map (fun c => Char.ofNat (toLowerRune c.toNat)))
    ambVal lower doc = none ∧ ambVal (foldName sf) doc = some "encodedLiſt" := by decide

example : ∃ vs, vcJsonLdDoc (foldName sf) true false (.obj (.cons "title" .leaf (.cons "issuer" .leaf .nil))) (.accept []) = .accept vs := ⟨_, rfl⟩

end Nuts.C17.Props
