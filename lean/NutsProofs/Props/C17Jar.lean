/-
  C17 — jar.validate's key-set tail (auth/api/iam/jar.go): property theorems + non-vacuity examples + fact obligations.
  Model: NutsModel/C17/JarSet.lean. The client's published key set is a LIST; LookupKeyID and compareThumbprint are
  executable definitions (before: one opaque `clientKey` verdict computed by the harness).
-/
import NutsModel.C17.JarSet
import NutsModel.Facts.C17
import NutsProofs.Lemmas.C17Jar
import NutsProofs.Props.C17

namespace Nuts.C17.Props
open Nuts.C17 Nuts.C17.JarSet

/-- the regenerated tail of jar.validate: what the key callback records, how the client's key is looked up, the two exits after
    it in order with their OAuth2 error descriptions, compareThumbprint's exits and comparison -/
theorem fact_jar_keyset :
    Facts.C17.jarSignerKidAssign = ["signerKid = kid"] ∧
    Facts.C17.jarLookupStmt = "key, exists := configuration.JWKs.LookupKeyID(signerKid)" ∧
    Facts.C17.jarTailExits =
      [("err != nil", Exit.sigInvalid.show), ("err != nil", "invalid request parameter"),
       ("clientId != params.get(oauth.ClientIDParam)", Exit.clientIdClaim.show), ("err != nil", Exit.configUnavailable.show),
       ("!exists", Exit.notOwner.show), ("err := compareThumbprint(key, publicKey); err != nil", Exit.keyMismatch.show)] ∧
    Facts.C17.jarStmtKinds = ["decl", "decl", "assign:cryptoNuts.ParseJWT", "if", "assign:token.AsMap", "if", "assign:parseJWTClaims", "if",
       "assign:j.auth.IAMClient().OpenIDConfiguration", "if", "assign:configuration.JWKs.LookupKeyID", "if", "if", "return"] ∧
    Facts.C17.compareThumbprintErrConds = ["err != nil", "err != nil", "err != nil", "!bytes.Equal(thumbprintLeft, thumbprintRight)"] ∧
    Facts.C17.compareThumbprintCalls = ["configurationKey.Thumbprint", "jwk.FromRaw", "signerKey.Thumbprint", "bytes.Equal", "errors.New"] ∧
    Facts.C17.jarFinalReturn = "return params, nil" := by decide

/-- **accept_jarSet**: for ALL key sets (any length, duplicate kids, entries without thumbprint), environments and tokens: an
    accepted request object obeys ParseJWT's discipline, and the verification key — the one the DID resolver returned for the
    token's kid — is PUBLISHED by the client: the first entry of the client's key set carrying that kid has the key's thumbprint. -/
theorem accept_jarSet (E : Env) (J : SetEnv) (j : Jws) (vs : List Verified)
    (h : validate Facts.C17.supportedAlgs E J j = .accept vs) :
    Disciplined Facts.C17.supportedAlgs j vs (fun s v =>
      v.src = .resolver s.kid ∧ E.resolve s.kid = some v.key ∧ E.verifies v.key s.alg 0 = true ∧ E.fits v.key s.alg = true ∧
      J.clientIdMatches = true ∧
      ∃ pre e post t, J.keys = pre ++ e :: post ∧ (∀ x ∈ pre, x.kid ≠ s.kid) ∧ e.kid = s.kid ∧ e.tp = some t ∧ J.tpOf v.key = some t) := by
  obtain ⟨hp, hcid, _, v0, kid, e, hvs, hsrc0, hlk, hcmp⟩ := validate_accept h
  obtain ⟨s, v, hs, hv, hidx, halg, hal, hasym, hov, hsrc, hres, hver, hfit⟩ := accept_parseJWT E j vs hp
  have hvv : v0 = v := by rw [hvs] at hv; injection hv with hv _
  subst hvv
  have hk : kid = s.kid := by rw [hsrc] at hsrc0; injection hsrc0 with hk; exact hk.symm
  subst hk
  obtain ⟨pre, post, hl, hek, hpre⟩ := lookup_some hlk
  obtain ⟨t, het, htp⟩ := compare_true hcmp
  exact ⟨s, v0, hs, hv, hidx, halg, hal, hasym, hov, hsrc, hres, hver, hfit, hcid, pre, e, post, t, hl, hpre, hek, het, htp⟩

/-- **jarSet_unpublished_kid_rejected** (the clause seeded mutation C17-w8m2 removes): when NO entry of the client's key set carries
    the token's kid, the request object is refused — whatever the resolver, the signature verdicts and the rest of the set say -/
theorem jarSet_unpublished_kid_rejected (sup : List String) (E : Env) (J : SetEnv) (j : Jws) (s : Sig)
    (hs : j.sigs = [s]) (hno : ∀ e ∈ J.keys, e.kid ≠ s.kid) : validate sup E J j = .reject := by
  cases hv : validate sup E J j with
  | reject => rfl
  | accept vs =>
    exfalso
    obtain ⟨hp, _, _, v0, kid, e, hvs, hsrc0, hlk, _⟩ := validate_accept hv
    obtain ⟨s', k, hs', hv', _⟩ := parseJWT_accept hp
    rw [hs] at hs'; injection hs' with hs' _; subst hs'
    rw [hvs] at hv'; injection hv' with hv' _; subst hv'
    injection hsrc0 with hk; subst hk
    obtain ⟨pre, post, hl, hek, _⟩ := lookup_some hlk
    exact hno e (by rw [hl]; simp) hek

/-- **jarSet_first_entry_decides**: of several entries with the signer's kid only the FIRST counts (LookupKeyID) — entries behind it,
    and entries with other kids before it, never change the decision -/
theorem jarSet_first_entry_decides (sup : List String) (E : Env) (J : SetEnv) (j : Jws) (s : Sig) (pre post : List Entry) (e : Entry)
    (hs : j.sigs = [s]) (hk : J.keys = pre ++ e :: post) (hpre : ∀ x ∈ pre, x.kid ≠ s.kid) (he : e.kid = s.kid) :
    validate sup E J j = validate sup E { J with keys := [e] } j := by
  unfold validate validateExit
  cases hp : parseJWT sup E j with
  | reject => rfl
  | accept vs =>
    obtain ⟨s', k, hs', hv', _⟩ := parseJWT_accept hp
    rw [hs] at hs'; injection hs' with hs' _; subst hs'
    subst hv'
    simp only [hk, lookup_append_of_not_mem pre _ hpre, lookupKeyID, he, if_true]

/-- **jarValidateSet_refines**: with a key identified by its thumbprint the list model IS TokenPolicy.`jarValidate` with
    `clientKey kid` := thumbprint of the first entry carrying the kid — accept_jar and header_keys_ignored carry over -/
theorem jarValidateSet_refines (sup : List String) (E : Env) (c g : Bool) (keys : List Entry) (j : Jws) :
    validate sup E { clientIdMatches := c, configOK := g, keys := keys, tpOf := some } j =
      jarValidate sup E (SetEnv.abstract { clientIdMatches := c, configOK := g, keys := keys, tpOf := some }) j := by
  unfold validate validateExit jarValidate SetEnv.abstract
  cases parseJWT sup E j with
  | reject => rfl
  | accept vs =>
    cases c <;> cases g <;> simp only [Bool.not_true, Bool.not_false, if_true, if_false, Bool.false_eq_true] <;> try rfl
    match vs with
    | [] => rfl
    | _ :: _ :: _ => rfl
    | [v] =>
      obtain ⟨key, src, alg, idx, ov⟩ := v
      cases src <;> try rfl
      next kid =>
      show (match lookupKeyID kid keys with
            | none => (Exit.notOwner, Outcome.reject)
            | some e => if compareThumbprint e (some key) = true then (Exit.ok, Outcome.accept _) else (Exit.keyMismatch, Outcome.reject)).2 =
           (match (lookupKeyID kid keys).bind (·.tp) with
            | none => Outcome.reject
            | some ck => if ck = key then Outcome.accept _ else Outcome.reject)
      cases hl : lookupKeyID kid keys with
      | none => rfl
      | some e =>
        obtain ⟨ekid, etp⟩ := e
        simp only [Option.bind, compareThumbprint]
        cases etp with
        | none => simp
        | some t =>
          by_cases hq : t = key
          · simp [hq]
          · simp [hq]

/-- the exit taken classifies the outcome: `.ok` exactly on accept -/
theorem jarSet_exit_ok_iff (sup : List String) (E : Env) (J : SetEnv) (j : Jws) :
    (validateExit sup E J j).1 = .ok ↔ (validate sup E J j).accepted = true := by
  unfold validate validateExit
  split; · simp [Outcome.accepted]
  split; · simp [Outcome.accepted]
  split; · simp [Outcome.accepted]
  split
  · split
    · split
      · simp [Outcome.accepted]
      · split <;> simp [Outcome.accepted]
    · simp [Outcome.accepted]
  · simp [Outcome.accepted]

/-- negation for the rule of seeded mutation C17-w8m2 (scan all entries with the kid, remember the last mismatch, no "found"
    case): EVERY key set that does not list the signer's kid at all lets the signer through -/
theorem loopNoFound_accepts_every_unpublished_kid (kid : String) (tp : Option String) :
    ∀ keys : List Entry, (∀ e ∈ keys, e.kid ≠ kid) → loopNoFound kid tp keys false = true
  | [], _ => rfl
  | e :: r, h => by
    unfold loopNoFound
    rw [if_pos (h e (List.mem_cons_self ..))]
    exact loopNoFound_accepts_every_unpublished_kid kid tp r (fun x hx => h x (List.mem_cons_of_mem _ hx))

/-! non-vacuity -/
private def resolveOk (k : String) : Option Key := if k = "did:web:c#1" then some "TP-C" else if k = "did:web:m#1" then some "TP-M" else none
private def Eok : Env := { resolve := resolveOk, embeddedKey := fun _ => none, verifies := fun _ _ _ => true, verifiesSplit := fun _ _ _ => false }
private def tok (kid : String) : Jws := { parses := true, splitOK := true, sigs := [{ alg := "ES256", kid := kid, jwk := .absent, hdrs := [], typ := "" }] }
private def setC : List Entry := [⟨"other", some "TP-X"⟩, ⟨"did:web:c#1", some "TP-C"⟩, ⟨"did:web:c#1", some "TP-M"⟩]

/-- accepted: the client's own key, listed second; a duplicate kid behind it does not matter -/
example : ∃ vs, validate Facts.C17.supportedAlgs Eok ⟨true, true, setC, some⟩ (tok "did:web:c#1") = .accept vs :=
  ⟨[{ key := "TP-C", src := .resolver "did:web:c#1", alg := "ES256", idx := 0, overSigningInput := true }], by decide⟩
/-- refused with "client_id does not own signer key": mallory's kid is not in the set (hypotheses of jarSet_unpublished_kid_rejected hold) -/
example : validateExit Facts.C17.supportedAlgs Eok ⟨true, true, setC, some⟩ (tok "did:web:m#1") = (.notOwner, .reject) := by decide
example : ∀ e ∈ setC, e.kid ≠ "did:web:m#1" := by decide
/-- refused with "key mismatch": first entry with the kid holds another key, the right key only comes second -/
example : validateExit Facts.C17.supportedAlgs Eok ⟨true, true, [⟨"did:web:c#1", some "TP-M"⟩, ⟨"did:web:c#1", some "TP-C"⟩], some⟩ (tok "did:web:c#1")
    = (.keyMismatch, .reject) := by decide
/-- … where the mutated loop says yes -/
example : loopNoFound "did:web:c#1" (some "TP-C") [⟨"did:web:c#1", some "TP-M"⟩, ⟨"did:web:c#1", some "TP-C"⟩] false = true := by decide

end Nuts.C17.Props
