/-
  C06 — Only valid, signed, causally complete transactions enter the DAG, exactly once.
  ONLY property theorems (+ non-vacuity examples + fact obligations). Helper lemmas: NutsProofs/Lemmas/C06.lean.
  Model: NutsModel/C06/Admit.lean (parser.go, verifier.go, keys.go, state.go:Add, dag.go:add/addSingle, payloadstore.go,
  notifier.go:Save/Notify, network.go:CreateTransaction). Facts: NutsModel/Facts/C06.lean is REGENERATED from /repo on every run.
  Hashes, signature verdicts, base64 and DID resolution are parameters (`Env`, `b64`), never axioms.
-/
import NutsModel.C06.Admit
import NutsModel.C06.Cfg
import NutsModel.Facts.C06
import NutsProofs.Lemmas.C06
import NutsModel.C06.Framing
import NutsProofs.Lemmas.C06Framing
import NutsModel.C06.Shelf
import NutsProofs.Lemmas.C06Shelf
import NutsModel.C06.Create
import NutsProofs.Lemmas.C06Create
import NutsModel.C06.Late
import NutsProofs.Lemmas.C06Late

namespace Nuts.C06.Props
open Nuts Nuts.C06

/-! ### Obligations on the regenerated facts (a source change flips these) -/

/-- only asymmetric algorithms are allowed: no `none`, no HMAC, no RSA PKCS#1 v1.5 -/
theorem fact_allowed_algos : Facts.C06.allowedAlgos = ["ES256", "ES384", "ES512", "PS256", "PS384", "PS512"] := by decide

theorem fact_allowed_versions : Facts.C06.allowedVersion = [1, 2] := by decide

/-- header names the model reads -/
theorem fact_header_names :
    (Facts.C06.sigtHeader, Facts.C06.verHeader, Facts.C06.prevsHeader, Facts.C06.palHeader, Facts.C06.lcHeader)
      = ("sigt", "ver", "prevs", "pal", "lc") := by decide

/-- `ParseTransaction` runs exactly the steps of `Nuts.C06.parse`, in that order -/
theorem fact_parse_steps : Facts.C06.parseSteps =
    ["parseSigningAlgorithm", "parsePayload", "parseContentType", "parseSignatureParams", "parseSigningTime",
     "parseVersion", "parsePrevious", "parsePAL", "parseLamportClock"] := by decide

/-- zero signatures and more than one signature are both refused before any step runs -/
theorem fact_signature_count_checked :
    "len(message.Signatures()) == 0" ∈ Facts.C06.parseConds ∧ "len(message.Signatures()) > 1" ∈ Facts.C06.parseConds := by decide

/-- `parseLamportClock` refuses negative, too large and non-integral `lc` values (the model's `lcStrict`) -/
theorem fact_lc_strict : srcCfg.lcStrict = true := by decide

/-- an embedded `jwk` that is a private (EC/RSA/OKP) or symmetric key is refused -/
theorem fact_jwk_public_only : srcCfg.jwkPublicOnly = true := by decide

/-- `ParseTransaction` refuses bytes that are not a JWS serialization even where jws.Parse is tolerant (further
    segments, padded / standard-alphabet base64, line breaks) -/
theorem fact_strict_framing : srcCfg.strictFraming = true := by decide

/-- the prevs verifier: starts at −1, keeps the maximum, demands `clock = max + 1` -/
theorem fact_prev_verifier :
    Facts.C06.prevVerifierInit = ["-1"] ∧
    "int(previousTransaction.Clock()) >= highestLamportClock" ∈ Facts.C06.prevVerifierConds ∧
    "int(transaction.Clock()) != highestLamportClock + 1" ∈ Facts.C06.prevVerifierConds ∧
    "errors.Is(err, ErrTransactionNotFound)" ∈ Facts.C06.prevVerifierConds := by decide

/-- the node installs the prevs verifier, then the signature verifier -/
theorem fact_verifier_order :
    Facts.C06.stateVerifiers = ["dag.NewPrevTransactionsVerifier", "dag.NewTransactionSignatureVerifier"] := by decide

/-- embedded key first, otherwise the key resolver; the ECDSA algorithm must fit the key's curve (jws.Verify only checks the
    family: the signature verdicts `Env.sigJwk` / `Env.sigKey` are RFC 7518 verdicts — ES256+P-256, ES384+P-384, ES512+P-521); the resolver loop stops at the first result that is not exactly ErrNotFound -/
theorem fact_signature_verifier :
    Facts.C06.sigVerifierConds = ["transaction.SigningKey() != nil", "err != nil", "err != nil",
      "!jwx.AlgorithmFitsKey(jwa.SignatureAlgorithm(transaction.SigningAlgorithm()), signingKey)"] ∧
    Facts.C06.keyResolverConds = ["err == nil", "err != resolver.ErrNotFound", "err != nil", "err != nil", "vm == nil"] := by decide

/-- the closure `state.Add` hands to `s.db.Write` (= `writeBody` / `writeBodyP` of the model), statement by statement: presence
    re-check first, `txAdded` before anything is written, payload hash / writePayload / saveEvent(payload) / marker, THEN
    `graph.add` whose error — `errRootAlreadyExists` included — is returned as it is (⇒ rollback of what was written before it),
    saveEvent(tx), updateState; and the options of the call: the rollback handler reloads with a fresh context, unlock after
    commit, the notifications and the transaction counter only under `txAdded`, the write lock. -/
theorem fact_add_write_body :
    Facts.C06.body_addWrite =
      ["if s.graph.isPresent(tx, transaction.Ref())", "return nil", "txAdded = true", "if payload != nil", "emitPayloadEvent = true", "payloadHash := hash.SHA256Sum(payload)", "if !transaction.PayloadHash().Equals(payloadHash)", "return errors.New(\"tx.PayloadHash does not match hash of payload\")", "err := s.payloadStore.writePayload(tx, payloadHash, payload)", "if err != nil", "return err", "err := s.saveEvent(tx, payloadEvent)", "if err != nil", "return err", "err := markPayloadEventSaved(tx, transaction.Ref())", "if err != nil", "return err", "err := s.graph.add(tx, transaction)", "if err != nil", "return err", "err := s.saveEvent(tx, txEvent)", "if err != nil", "return err", "return s.updateState(tx, transaction)"] ∧
    Facts.C06.addWriteOptions =
      ["stoabs.OnRollback(func() { log.Logger().Warn(\"Reloading the XOR and IBLT trees due to a DB transaction Rollback\") s.loadState(context.Background()) })", "stoabs.AfterCommit(unlock)", "stoabs.AfterCommit(func() { if txAdded { s.notify(txEvent) if emitPayloadEvent { s.notify(payloadEvent) } } })", "stoabs.AfterCommit(func() { if txAdded { s.transactionCount.Inc() } })", "stoabs.WithWriteLock()"] := ⟨rfl, rfl⟩

/-- `jwx.AlgorithmFitsKey` as the model has it: the curve switch (regenerated curve names and `jwa` constants) is the model's
    table, its default is `true`; the type switch has exactly the clauses `KeyShape` distinguishes (exact source text); and
    the verifier's body, statement by statement: `signingKey` is assigned in BOTH branches (embedded / resolved) before the
    guard, the guard is applied to `signingKey`, and `jws.Verify` gets the same `signingKey`. -/
theorem fact_alg_fits_key :
    Facts.C06.algFitsCurves.zip Facts.C06.algFitsCurveAlgs = ecAlgOfCurve ∧
    Facts.C06.algFitsCurves.length = Facts.C06.algFitsCurveAlgs.length ∧
    Facts.C06.algFitsCurveDefault = "true" ∧
    Facts.C06.algFitsTypeCases =
      ["ed25519.PublicKey => return alg == jwa.EdDSA && len(k) == ed25519.PublicKeySize",
       "*ed25519.PublicKey => return k != nil && alg == jwa.EdDSA && len(*k) == ed25519.PublicKeySize",
       "jwk.OKPPublicKey => if k.Crv() == jwa.Ed25519 { return alg == jwa.EdDSA && len(k.X()) == ed25519.PublicKeySize }; return true",
       "*ecdsa.PublicKey => curve = k.Params().Name", "ecdsa.PublicKey => curve = k.Params().Name",
       "*ecdsa.PrivateKey => curve = k.Params().Name", "jwk.ECDSAPublicKey => curve = k.Crv().String()",
       "jwk.ECDSAPrivateKey => curve = k.Crv().String()", "default => return true"] ∧
    Facts.C06.body_sigVerifier =
      ["var signingKey crypto2.PublicKey", "if transaction.SigningKey() != nil", "err := transaction.SigningKey().Raw(&signingKey)",
       "if err != nil", "return err", "else",
       "pk, err := resolver.ResolvePublicKey(transaction.SigningKeyID(), transaction.Previous())", "if err != nil",
       "return fmt.Errorf(\"unable to verify transaction signature, can't resolve key by TX ref (kid=%s, tx=%s): %w\", transaction.SigningKeyID(), transaction.Ref().String(), err)",
       "signingKey = pk",
       "if !jwx.AlgorithmFitsKey(jwa.SignatureAlgorithm(transaction.SigningAlgorithm()), signingKey)",
       "return fmt.Errorf(\"signing algorithm %s does not fit the signing key (tx=%s)\", transaction.SigningAlgorithm(), transaction.Ref().String())",
       "_, err := jws.Verify(transaction.Data(), jws.WithKey(jwa.SignatureAlgorithm(transaction.SigningAlgorithm()), signingKey))",
       "return err"] := ⟨by decide, by decide, rfl, rfl, rfl⟩

/-- `state.Add` = one read transaction, then — only AFTER it — `addMutex` and one write transaction under the write lock
    whose first statement is the presence re-check. The mutex makes write + rollback handler one critical section, it does
    NOT cover the read transaction: two Adds of the same transaction can both pass phase 1 before either writes, so the
    re-check is not redundant; it is released by `AfterCommit(unlock)` or, on failure, by the deferred `unlock` AFTER db.Write
    returned, i.e. after the rollback handler reloaded the trees (go-stoabs releases its own write lock BEFORE it calls the
    rollback handlers: without the mutex a sibling Add could persist leaves that still contain the rolled-back transaction —
    harness op `rbwin`); the re-check is not redundant (dropping it is not an equivalent mutant: schedule [0,1,0,1] stores/counts/digests the ref twice;
    `concurrent_adds_serialise` is proved for exactly this step structure, and the schedule explorer parks threads before and
    right after the read transaction, never while they hold the mutex); inside: payload hash check, writePayload, saveEvent, graph.add, saveEvent, updateState -/
theorem fact_add_two_phases :
    Facts.C06.addPhases = ["s.db.Read", "s.addMutex.Lock", "s.db.Write"] ∧
    Facts.C06.addWriteFirst = ["s.graph.isPresent(tx, transaction.Ref()) -> return nil"] ∧
    "stoabs.WithWriteLock" ∈ Facts.C06.addWriteOpts ∧ "stoabs.OnRollback" ∈ Facts.C06.addWriteOpts ∧
    Facts.C06.addWriteCalls = ["s.graph.isPresent", "hash.SHA256Sum", "s.payloadStore.writePayload", "s.saveEvent",
                               "s.graph.add", "s.saveEvent", "s.updateState"] ∧
    "!transaction.PayloadHash().Equals(payloadHash)" ∈ Facts.C06.addWriteConds ∧
    "payload != nil" ∈ Facts.C06.addWriteConds ∧
    Facts.C06.addUnlocking = ["unlock := unlockOnce.Do(s.addMutex.Unlock)", "defer unlock()"] ∧
    Facts.C06.addWriteOptArgs = ["stoabs.AfterCommit(unlock)"] := by decide

/-- a rolled-back write reloads the volatile copies (XOR/IBLT trees, atomic clock) with a FRESH context: the reload must
    not fail because the caller's context — the reason for the rollback — is cancelled (the model's rollback = old state) -/
theorem fact_rollback_reloads : "s.loadState(context.Background())" ∈ Facts.C06.addRollbackStmts := by decide

/-- wiring (Network.Configure): the state gets the prevs verifier, then the signature verifier, whose key resolver looks
    documents up in the node's DID store as of the source transaction -/
theorem fact_state_wiring : Facts.C06.stateWiring =
    ["nutsKeyResolver := dag.SourceTXKeyResolver{Resolver: n.didStore}",
     "dag.NewState(dagStore, dag.NewPrevTransactionsVerifier(), dag.NewTransactionSignatureVerifier(nutsKeyResolver))"] := by decide

/-- `handleTransactionList` (model: `handleList`): every transaction of the message is parsed first and one failure refuses
    the message; a public transaction needs its payload; `Add` gets the payload of the SAME index; a missing prev ends the list -/
theorem fact_list_handler :
    Facts.C06.listHandlerCalls = ["subEnvelope.parseTransactions(data)", "p.state.Add(ctx, tx, msg.Transactions[i].Payload)"] ∧
    "len(tx.PAL()) == 0" ∈ Facts.C06.listHandlerConds ∧ "len(msg.Transactions[i].Payload) == 0" ∈ Facts.C06.listHandlerConds ∧
    "errors.Is(err, dag.ErrPreviousTransactionMissing)" ∈ Facts.C06.listHandlerConds ∧
    Facts.C06.parseTransactionsCalls = ["dag.ParseTransaction(transaction.Data)", "on-error:return"] := by decide

/-- `handleTransactionPayload` (model: `latePayload`): the transaction must be on the DAG and the bytes must hash to its
    declared payload hash before `WritePayload` (which does not check anything itself) -/
theorem fact_payload_handler :
    Facts.C06.payloadHandlerCalls = ["p.state.GetTransaction(ctx, ref)", "hash.SHA256Sum(msg.Data)",
                                     "p.state.WritePayload(ctx, tx, payloadHash, msg.Data)"] ∧
    "!tx.PayloadHash().Equals(payloadHash)" ∈ Facts.C06.payloadHandlerConds ∧
    "errors.Is(err, dag.ErrTransactionNotFound)" ∈ Facts.C06.payloadHandlerConds := by decide

/-- `CreateTransaction` (model: `additionalOK`, `createPrevsClock`, `dedup`): additional prevs need their payload; prevs = head
    then the additional prevs; clock = 1 + the highest prev clock; `NewTransaction` de-duplicates; the result goes through `Add` -/
theorem fact_create_transaction :
    Facts.C06.createTxCalls = ["n.isPayloadPresent(ctx, prev)", "n.state.Head(ctx)", "append(prevs, head)",
      "append(prevs, template.AdditionalPrevs)", "n.calculateLamportClock(ctx, prevs)",
      "dag.NewTransaction(payloadHash, template.Type, prevs, pal, lamportClock)",
      "dag.NewTransactionSigner(n.keyStore, template.KID, template.PublicKey)", "n.state.Add(ctx, transaction, template.Payload)"] ∧
    Facts.C06.calcClockConds = ["len(prevs) == 0", "err != nil", "tx.Clock() > clock", "return 0", "return 0", "return clock + 1"] ∧
    "dd.Equals(prev)" ∈ Facts.C06.newTransactionConds ∧ "!found" ∈ Facts.C06.newTransactionConds ∧
    "!head.Equals(hash.EmptyHash())" ∈ Facts.C06.createTxConds ∧ "!isPresent" ∈ Facts.C06.createTxConds := by decide

/-- `addSingle` refuses a second transaction without prevs once clock 0 is occupied; `dag.add` moves the head on a
    higher clock or on clock 0 -/
theorem fact_root_check :
    "len(transaction.Previous()) == 0" ∈ Facts.C06.addSingleConds ∧ "getRoots(lc) != nil" ∈ Facts.C06.addSingleConds ∧
    "transaction.Clock() > highestLC" ∈ Facts.C06.dagAddConds ∧ "transaction.Clock() == 0" ∈ Facts.C06.dagAddConds := by decide

/-! ### parsing -/

/-- Whatever `ParseTransaction` accepts is a well-formed RFC004 transaction: exactly one signature, an allowed
    algorithm, a hex payload hash, a MIME content type, exactly one of `kid`/`jwk`, numeric `sigt`, `ver` ∈ allowed,
    `prevs` an array of hex refs, `pal` (if any) an array of base64 strings, numeric `lc`. -/
theorem parse_sound (cfg : Cfg) (b64 : String → Bool) (h : Hdr) (tx : Tx)
    (hp : parse cfg b64 h = .ok tx) : WellFormed cfg b64 h tx :=
  parse_wellFormed hp

/-- a valid header whose `lc` is 1.5 (= 3·2⁻¹) -/
def lcWitness : Hdr :=
  { nSigs := 1, alg := "ES256", cty := "a/b", hasJwk := true, kid := none, payload := "", ref := 7,
    priv := [("sigt", .num 1 0), ("ver", .num 1 0), ("prevs", .arr []), ("lc", .num 3 (-1))] }

/-- accepted bytes are a JWS serialization: JSON, or exactly three canonical unpadded base64url segments (for the source as
    it is now, `fact_strict_framing`) — so a signed transaction cannot be re-framed into other bytes (other refs) by
    appending segments or re-encoding a segment -/
theorem accepted_bytes_are_a_jws_serialization (b64 : String → Bool) (h : Hdr) (tx : Tx)
    (hp : parse srcCfg b64 h = .ok tx) : h.framingStrict = true :=
  (parse_wellFormed hp).framing fact_strict_framing

/-- without that guard such bytes parse (the code before the repair; witnesses in harness/corpus/C06) -/
theorem lenient_framing_accepted_without_guard :
    ∃ h tx, h.framingStrict = false ∧ parse { srcCfg with strictFraming := false } (fun _ => true) h = .ok tx :=
  ⟨{ lcWitness with framingStrict := false, priv := [("sigt", .num 1 0), ("ver", .num 1 0), ("prevs", .arr []), ("lc", .num 0 0)] },
   { ref := 7, alg := "ES256", payloadHash := 0, cty := "a/b", jwk := true, kid := "", sigt := 1, ver := 1, prevs := [], pal := [], clock := 0 },
   rfl, by decide⟩

/-- an accepted transaction never embeds private key material (for the source as it is now, `fact_jwk_public_only`) -/
theorem embedded_key_is_public (b64 : String → Bool) (h : Hdr) (tx : Tx) (hp : parse srcCfg b64 h = .ok tx)
    (hj : h.hasJwk = true) : h.jwkPrivate = false :=
  (parse_wellFormed hp).jwkPublic fact_jwk_public_only hj

/-- without that guard a header embedding a private key parses (the code before the repair) -/
theorem embedded_private_key_accepted_without_guard :
    ∃ h tx, h.hasJwk = true ∧ h.jwkPrivate = true ∧ parse { srcCfg with jwkPublicOnly := false } (fun _ => true) h = .ok tx :=
  ⟨{ lcWitness with jwkPrivate := true, priv := [("sigt", .num 1 0), ("ver", .num 1 0), ("prevs", .arr []), ("lc", .num 0 0)] },
   { ref := 7, alg := "ES256", payloadHash := 0, cty := "a/b", jwk := true, kid := "", sigt := 1, ver := 1, prevs := [], pal := [], clock := 0 },
   rfl, rfl, by decide⟩

/-- **lc is exact** (for the source as it is now, `fact_lc_strict`): the admitted clock IS the declared `lc`
    header value, which is an integer in [0, 2^32). -/
theorem lc_exact (b64 : String → Bool) (h : Hdr) (tx : Tx) (hp : parse srcCfg b64 h = .ok tx) :
    ∃ m e, h.get srcCfg.lcH = some (.num m e) ∧ numEqNat m e tx.clock ∧ tx.clock < 2 ^ 32 := by
  obtain ⟨m, e, hg, hl⟩ := (parse_wellFormed hp).lc
  exact ⟨m, e, hg, lc_strict_exact fact_lc_strict hg hl⟩

/-- **The last occurrence of a header member decides** (jwx keeps the last one; duplicated members are where
    smuggling hides): for the raw member list `ms` of the protected header (document order, duplicates kept), whatever is
    accepted took its algorithm, clock, prevs, version and embedded-key flag from the LAST `alg` / `lc` / `prevs` / `ver` /
    `jwk` member — an allowed algorithm given as a JSON string, `lc` exactly the clock, and so on. -/
theorem last_member_decides (b64 : String → Bool) (nSigs : Nat) (ms : List (String × J)) (jwkOK jwkPrivate : Bool)
    (payload : String) (ref : Nat) (h : Hdr) (tx : Tx)
    (hh : hdrOfMembers nSigs ms jwkOK jwkPrivate payload ref = .ok h) (hp : parse srcCfg b64 h = .ok tx) :
    getLast ms "alg" = some (.str tx.alg) ∧ tx.alg ∈ Facts.C06.allowedAlgos ∧
    (∃ m e, getLast ms "lc" = some (.num m e) ∧ numEqNat m e tx.clock) ∧
    (∃ l, getLast ms "prevs" = some (.arr l) ∧ parsePrevEls "prevs" l = .ok tx.prevs) ∧
    (∃ m e, getLast ms "ver" = some (.num m e) ∧ tx.ver = toInt64 m e ∧ tx.ver ∈ Facts.C06.allowedVersion) ∧
    tx.jwk = (getLast ms "jwk").isSome := by
  unfold hdrOfMembers at hh
  split at hh
  · rename_i r hr
    simp only [Res.ok.injEq] at hh
    obtain ⟨p1, p2, p3⟩ := jwxMembers_spec hr
    have hget : ∀ k, isPrivName k = true → h.get k = getLast ms k := by
      intro k hk
      subst hh
      show getLast r.priv k = _
      rw [p1 k hk]
      cases getLast ms k <;> rfl
    have wf := parse_wellFormed hp
    have halg : h.alg = r.alg := by subst hh; rfl
    have hjwk : h.hasJwk = r.hasJwk := by subst hh; rfl
    refine ⟨?_, ?_, ?_, ?_, ?_, ?_⟩
    · have hin : r.alg ∈ Facts.C06.allowedAlgos := halg ▸ wf.alg.2
      rcases p2 with ⟨_, ha⟩ | ⟨s, g, ha⟩ | ⟨_, ha⟩
      · rw [ha] at hin; exact absurd hin (by decide)
      · rw [g, wf.alg.1, halg, ha]
      · rw [ha] at hin; exact absurd hin (by decide)
    · rw [wf.alg.1]; exact wf.alg.2
    · obtain ⟨m, e, hg, hn, _⟩ := lc_exact b64 h tx hp
      exact ⟨m, e, by rw [← hget "lc" (by decide)]; exact hg, hn⟩
    · obtain ⟨l, hg, hl⟩ := wf.prevs
      exact ⟨l, by rw [← hget "prevs" (by decide)]; exact hg, hl⟩
    · obtain ⟨m, e, hg, hv, hin⟩ := wf.ver
      exact ⟨m, e, by rw [← hget "ver" (by decide)]; exact hg, hv, hin⟩
    · rw [wf.keyRef.1, hjwk, p3]; rfl
  · cases hh
  · cases hh

/-- the statement `lc_exact` for an arbitrary configuration -/
def LcExactStmt (cfg : Cfg) : Prop :=
  ∀ (b64 : String → Bool) (h : Hdr) (tx : Tx), parse cfg b64 h = .ok tx →
    ∃ m e, h.get cfg.lcH = some (.num m e) ∧ numEqNat m e tx.clock

/-- **Candidate defect #15, as a theorem**: without the integrality/range guard (`lcStrict = false`, the code before the
    repair) `lc: 1.5` is accepted with clock 1 — `LcExactStmt` is false. The harness replays this witness
    (harness/corpus/C06) on `ParseTransaction`. -/
theorem lc_exact_fails_without_guard : ¬ LcExactStmt { srcCfg with lcStrict := false } := by
  intro h
  have hp : parse { srcCfg with lcStrict := false } (fun _ => true) lcWitness =
      .ok { ref := 7, alg := "ES256", payloadHash := 0, cty := "a/b", jwk := true, kid := "", sigt := 1, ver := 1,
            prevs := [], pal := [], clock := 1 } := by decide
  obtain ⟨m, e, hg, hn⟩ := h _ _ _ hp
  have hg' : lcWitness.get "lc" = some (.num 3 (-1)) := by decide
  have : (J.num m e) = .num 3 (-1) := by
    have := hg.symm.trans hg'
    exact Option.some.inj this
  cases this
  exact absurd hn (by decide)

/-- with the guard the same header is refused -/
example : parse srcCfg (fun _ => true) lcWitness = .err "invalid:lc" := by decide

/-! ### admission -/

/-- **Admission soundness.** If offering bytes (decoded header `hd`, optional payload) changes the state at all, then the
    bytes are a well-formed transaction `tx`, `Add` returned nil, and: `tx` was not present; all prevs are present and its
    clock is exactly one more than the highest prev clock (0 without prevs) — `prevsOK`, spelled out by
    `admitted_prevs_clock`; the signature verifies against the embedded key or the key its kid resolves to as of the prevs;
    a transaction without prevs enters only a DAG without root; a supplied payload hashes to the declared payload hash;
    exactly `tx` is added; counters, head, digest, payload shelf move as stated; new jobs / notifications concern `tx` only. -/
theorem admitted_sound (cfg : Cfg) (b64 : String → Bool) (env : Env) (subs : List Sub) (s : St) (hd : Hdr) (p : Option Nat)
    (hne : (offer cfg b64 env subs s hd p).1 ≠ s) :
    ∃ tx, parse cfg b64 hd = .ok tx ∧ WellFormed cfg b64 hd tx ∧ (offer cfg b64 env subs s hd p).2 = .ok () ∧
      Admitted env s tx p (offer cfg b64 env subs s hd p).1 := by
  unfold offer at hne ⊢
  split at hne
  · rename_i tx htx
    refine ⟨tx, htx, parse_wellFormed htx, ?_⟩
    rcases @add_cases env subs s tx p with h | h
    · exact (hne h).elim
    · exact h
  · exact (hne rfl).elim
  · exact (hne rfl).elim

/-- what `prevsOK` means: every prev is stored and strictly older, the clock is 0 without prevs and otherwise exactly
    one more than the clock of a prev that is maximal -/
theorem admitted_prevs_clock (env : Env) (s s' : St) (tx : Tx) (p : Option Nat) (h : Admitted env s tx p s') :
    (∀ r ∈ tx.prevs, ∃ u ∈ s.txs, u.ref = r ∧ u.clock < tx.clock) ∧ (tx.prevs = [] → tx.clock = 0) ∧
    (tx.prevs ≠ [] → ∃ u ∈ s.txs, u.ref ∈ tx.prevs ∧ tx.clock = u.clock + 1) :=
  verifyPrevs_spec h.prevsOK

/-- which key: the embedded one, else the key the kid denotes in the signer's document as of the first prev that has one;
    and the header algorithm FITS THAT KEY (`jwx.AlgorithmFitsKey` applied to the key that is then handed to `jws.Verify`) —
    for every `Env`, i.e. whatever a JWS library that only compares algorithm family and key type answers. -/
theorem admitted_alg_fits_key (env : Env) (s s' : St) (tx : Tx) (p : Option Nat) (h : Admitted env s tx p s') :
    (tx.jwk = true ∧ algorithmFitsKey tx.alg (env.jwkShape tx) = true ∧ env.sigJwk tx = true) ∨
    (tx.jwk = false ∧ ∃ k, resolveKey env tx.kid tx.prevs = .ok k ∧ algorithmFitsKey tx.alg (env.keyShape k) = true ∧
      env.sigKey tx k = true) := by
  have := h.sigOK
  unfold verifySig at this
  split at this
  · rename_i hj
    split at this
    · cases this
    · rename_i hf
      split at this
      · rename_i hs; exact Or.inl ⟨hj, by simpa using hf, hs⟩
      · cases this
  · rename_i hj
    split at this
    · rename_i k hk
      split at this
      · cases this
      · rename_i hf
        split at this
        · rename_i hs; exact Or.inr ⟨by simpa using hj, k, hk, by simpa using hf, hs⟩
        · cases this
    · cases this
    · cases this

theorem admitted_signature (env : Env) (s s' : St) (tx : Tx) (p : Option Nat) (h : Admitted env s tx p s') :
    (tx.jwk = true ∧ env.sigJwk tx = true) ∨
    (tx.jwk = false ∧ ∃ k, resolveKey env tx.kid tx.prevs = .ok k ∧ env.sigKey tx k = true) := by
  rcases admitted_alg_fits_key env s s' tx p h with ⟨a, _, c⟩ | ⟨a, k, hk, _, c⟩
  · exact Or.inl ⟨a, c⟩
  · exact Or.inr ⟨a, k, hk, c⟩

/-- **wire bytes → key fit** (admitted_sound ∘ admitted_alg_fits_key): whenever offering bytes changes the state at all, they
    parse to a transaction whose header algorithm fits the key that verified it — the embedded one, or the one its kid
    resolves to as of its prevs. -/
theorem offered_bytes_alg_fits_key (cfg : Cfg) (b64 : String → Bool) (env : Env) (subs : List Sub) (s : St) (hd : Hdr) (p : Option Nat)
    (hne : (offer cfg b64 env subs s hd p).1 ≠ s) :
    ∃ tx, parse cfg b64 hd = .ok tx ∧
      ((tx.jwk = true ∧ algorithmFitsKey tx.alg (env.jwkShape tx) = true ∧ env.sigJwk tx = true) ∨
       (tx.jwk = false ∧ ∃ k, resolveKey env tx.kid tx.prevs = .ok k ∧ algorithmFitsKey tx.alg (env.keyShape k) = true ∧
         env.sigKey tx k = true)) := by
  obtain ⟨tx, h1, _, _, h4⟩ := admitted_sound cfg b64 env subs s hd p hne
  exact ⟨tx, h1, admitted_alg_fits_key env s _ tx p h4⟩

/-- the curve switch of `AlgorithmFitsKey` is RFC 7518 §3.4: P-256 ⇒ ES256, P-384 ⇒ ES384, P-521 ⇒ ES512, nothing asked of other curves -/
theorem alg_fits_ec_iff (alg c : String) :
    algorithmFitsKey alg (.ec c) = true ↔
      (c = "P-256" → alg = "ES256") ∧ (c = "P-384" → alg = "ES384") ∧ (c = "P-521" → alg = "ES512") := by
  unfold algorithmFitsKey algorithmFitsCurve ecAlgOfCurve
  by_cases h1 : c = "P-256"
  · subst h1; simp [List.find?]
  · by_cases h2 : c = "P-384"
    · subst h2; simp [List.find?]
    · by_cases h3 : c = "P-521"
      · subst h3; simp [List.find?]
      · have e1 : ("P-256" = c) = False := by simp [eq_comm, h1]
        have e2 : ("P-384" = c) = False := by simp [eq_comm, h2]
        have e3 : ("P-521" = c) = False := by simp [eq_comm, h3]
        simp [List.find?, h1, h2, h3, e1, e2, e3]

/-- **a kid-referenced key of another curve never gets a transaction in**: when the key the kid resolves to does not fit
    the header algorithm, `Add` leaves the whole state as it was — whatever `jws.Verify` (`env.sigKey`) would have said. -/
theorem alg_must_fit_resolved_key (env : Env) (subs : List Sub) (s : St) (tx : Tx) (p : Option Nat) (k : Nat)
    (hj : tx.jwk = false) (hk : resolveKey env tx.kid tx.prevs = .ok k)
    (hf : algorithmFitsKey tx.alg (env.keyShape k) = false) :
    verifySig env tx = .err "signature" ∧ (add env subs s tx p).1 = s := by
  have hv : verifySig env tx = .err "signature" := by
    unfold verifySig
    simp [hj, hk, hf]
  refine ⟨hv, ?_⟩
  unfold add
  cases h1 : phase1 env s tx with
  | present => rfl
  | rejected e => rfl
  | panicked e => rfl
  | verified =>
    exfalso
    unfold phase1 at h1
    split at h1
    · cases h1
    · unfold verify at h1
      rw [hv] at h1
      cases hp : verifyPrevs s.txs tx <;> simp [hp] at h1

/-- non-vacuity + the negative witness for the POSITION of the guard: a P-384 key referred to by kid, header ES256, a JWS
    library that accepts it (family only). The code's verifier refuses; the same guard applied up front to the embedded key
    (absent here ⇒ `default: return true`) lets it through. -/
theorem fit_guard_must_see_the_resolved_key :
    ∃ (env : Env) (tx : Tx), tx.jwk = false ∧ resolveKey env tx.kid tx.prevs = .ok 4 ∧
      algorithmFitsKey tx.alg (env.keyShape 4) = false ∧ env.sigKey tx 4 = true ∧
      verifySig env tx = .err "signature" ∧ verifySigGuardFirst env tx = .ok () := by
  refine ⟨{ sha := id, sigJwk := fun _ => true, sigKey := fun _ _ => true, kidDid := fun _ => some "did:nuts:c",
            resolve := fun _ _ => .doc [("did:nuts:c#k1", 4)], keyShape := fun _ => .ec "P-384" },
          { ref := 9, alg := "ES256", payloadHash := 0, cty := "x/y", jwk := false, kid := "did:nuts:c#k1", sigt := 0, ver := 1,
            prevs := [1], pal := [], clock := 1 }, ?_⟩
  decide

example : algorithmFitsKey "ES384" (.ec "P-384") = true ∧ algorithmFitsKey "ES256" (.ec "P-384") = false ∧
    algorithmFitsKey "ES256" (.ec "P-224") = true ∧ algorithmFitsKey "EdDSA" (.ed 32) = true ∧ algorithmFitsKey "EdDSA" (.ed 31) = false ∧
    algorithmFitsKey "ES256" .other = true := by decide

/-- **Re-adding changes nothing**: durable and volatile state identical (all shelves, digest, counters, job shelves) and
    no notification (the ledger is part of the state). -/
theorem add_idempotent (env : Env) (subs : List Sub) (s : St) (tx : Tx) (p : Option Nat) (h : tx.ref ∈ refsOf s.txs) :
    add env subs s tx p = (s, .ok ()) :=
  add_present (present_iff.mpr h)

/-- **A rejected transaction leaves no trace**: on any error (or panic) result the whole state is unchanged —
    at the level of bytes offered (parse errors included). -/
theorem rejected_no_trace (cfg : Cfg) (b64 : String → Bool) (env : Env) (subs : List Sub) (s : St) (hd : Hdr) (p : Option Nat)
    (h : (offer cfg b64 env subs s hd p).2 ≠ .ok ()) : (offer cfg b64 env subs s hd p).1 = s := by
  unfold offer at h ⊢
  split
  · rename_i tx htx; simp only [htx] at h; exact add_not_ok h
  · rfl
  · rfl

/-- **A cancelled Add leaves no trace either**: when the caller's context is cancelled while the write transaction is
    open (stoabs rolls back before the commit), whatever the transaction and the state, nothing changes — shelves, digest,
    clocks, jobs, ledger — and a non-present, admissible transaction is reported as an error (`fact_rollback_reloads` ties
    the "volatile copies are reloaded" part to the source; the harness cancels inside a subscriber's Save). -/
theorem cancelled_add_no_trace (env : Env) (subs : List Sub) (s : St) (tx : Tx) (p : Option Nat) :
    (addCancelled env subs s tx p).1 = s ∧
    (tx.ref ∉ refsOf s.txs → (addCancelled env subs s tx p).2 ≠ .ok ()) := by
  unfold addCancelled phase2Cancelled
  refine ⟨?_, ?_⟩
  · split
    · rfl
    · rfl
    · rfl
    · split
      · rfl
      · split <;> rfl
  · intro hf
    have hp : s.present tx.ref = false := present_false_iff.mpr hf
    split
    · rename_i h; unfold phase1 at h; simp [hp] at h; split at h <;> cases h
    · intro h; cases h
    · intro h; cases h
    · simp only [hp, Bool.false_eq_true, if_false]
      split <;> (intro h; cases h)

/-- **The other doors.** A TransactionList (transport/v2 `handleTransactionList`) only ever changes the state through `Add`,
    so whatever it leaves behind is a valid DAG again; and a payload that arrives later (`handleTransactionPayload` →
    `WritePayload`) is stored only for a transaction that is on the DAG and only if it hashes to that transaction's
    declared payload hash — the payload store keeps "content hashes to its key". -/
theorem other_doors_keep_invariant (env : Env) (subs : List Sub) (s : St) (hi : Inv env s) :
    (∀ items, Inv env (handleList env subs s items).1) ∧
    (∀ ref p, Inv env (latePayload env subs s ref p).1 ∧
      ((latePayload env subs s ref p).2 = "ok" → ∃ tx ∈ s.txs, tx.ref = ref ∧ env.sha p = tx.payloadHash)) := by
  refine ⟨?_, ?_⟩
  · intro items
    induction items generalizing s with
    | nil => exact hi
    | cons it rest ih =>
      unfold handleList
      split
      · exact hi
      · split
        · rename_i s' _ h; exact ih s' (by have := @inv_add env subs s it.tx it.payload hi; rw [h] at this; exact this)
        · rename_i s' e h
          have : Inv env s' := by have := @inv_add env subs s it.tx it.payload hi; rw [h] at this; exact this
          split <;> exact this
        · rename_i s' e h
          have := @inv_add env subs s it.tx it.payload hi; rw [h] at this; exact this
  · intro ref p
    unfold latePayload
    split
    · exact ⟨hi, by intro h; simp at h⟩
    · rename_i tx hf
      have hm := findTx_some_ref (show findTx s.txs ref = some tx from hf)
      have hr : tx.ref ∈ refsOf s.txs := List.mem_map.mpr ⟨tx, hm.2, rfl⟩
      split
      · exact ⟨hi, by intro h; simp at h⟩
      · rename_i hsha
        have hsha' : env.sha p = tx.payloadHash := by simpa using hsha
        refine ⟨?_, fun _ => ⟨tx, hm.2, hm.1, hsha'⟩⟩
        have hn := @notify_spec .payload tx subs (saveEvent subs .payload tx s.jobs, s.ledger)
        refine { chain := hi.chain, count := hi.count, lcHigh := hi.lcHigh, lcAtomic := hi.lcAtomic, head := hi.head, xor := hi.xor,
                 payloads := ?_, jobsRefs := ?_, ledgerRefs := ?_ }
        · intro q hq
          simp only [putPayload] at hq
          cases hq with
          | head => exact hsha'
          | tail _ hq => exact hi.payloads q (List.mem_filter.mp hq).1
        · intro j hj
          rcases hn.1 j hj with h | h
          · rcases saveEvent_mem h with h | h
            · exact hi.jobsRefs j h
            · rw [h]; exact hr
          · rw [h]; exact hr
        · intro e he
          obtain ⟨addl, hadd, hall⟩ := hn.2
          simp only at hadd he
          rw [hadd] at he
          rcases List.mem_append.mp he with h | h
          · exact hi.ledgerRefs e h
          · rw [hall e h]; exact hr

/-! ### every reachable state is a valid DAG -/

structure Offer where
  hd : Hdr
  payload : Option Nat

def offerStep (cfg : Cfg) (b64 : String → Bool) (env : Env) (subs : List Sub) (s : St) (o : Offer) : St :=
  (offer cfg b64 env subs s o.hd o.payload).1

/-- **DAG invariant.** After ANY sequence of offers (valid, invalid, repeated, in any order) starting from the empty
    store: refs are unique; every stored transaction's prevs are stored and strictly older (so the graph is acyclic and
    prev-closed); its clock is 0 without prevs and otherwise one more than its highest prev; there is at most one root;
    every stored transaction's signature verified; every stored payload hashes to its key; count, highest clock (both
    copies), head and XOR digest are exactly what the stored set implies; jobs and notifications only concern stored
    transactions. -/
theorem dag_inv (cfg : Cfg) (b64 : String → Bool) (env : Env) (subs : List Sub) (os : List Offer) :
    let s := os.foldl (offerStep cfg b64 env subs) {}
    (refsOf s.txs).Nodup ∧
    (∀ t ∈ s.txs, (∀ r ∈ t.prevs, ∃ u ∈ s.txs, u.ref = r ∧ u.clock < t.clock) ∧ (t.prevs = [] → t.clock = 0) ∧
        (t.prevs ≠ [] → ∃ u ∈ s.txs, u.ref ∈ t.prevs ∧ t.clock = u.clock + 1) ∧ verifySig env t = .ok ()) ∧
    (∀ t ∈ s.txs, ∀ u ∈ s.txs, t.prevs = [] → u.prevs = [] → t = u) ∧
    (∀ q ∈ s.payloads, env.sha q.2 = q.1) ∧
    s.count = s.txs.length ∧ s.lcHigh = maxClock s.txs ∧ s.lcAtomic = s.lcHigh ∧ s.xor = xorAll s.txs ∧
    ((s.txs = [] ∧ s.head = 0) ∨ ∃ t ∈ s.txs, t.ref = s.head ∧ t.clock = s.lcHigh) ∧
    (∀ j ∈ s.jobs, j.ref ∈ refsOf s.txs) ∧ (∀ e ∈ s.ledger, e.ref ∈ refsOf s.txs) := by
  have hinv : ∀ (os : List Offer) (s : St), Inv env s → Inv env (os.foldl (offerStep cfg b64 env subs) s) := by
    intro os
    induction os with
    | nil => intro s h; exact h
    | cons o t ih =>
      intro s h
      simp only [List.foldl_cons]
      apply ih
      unfold offerStep offer
      split
      · exact inv_add h
      · exact h
      · exact h
  intro s
  have hi : Inv env s := hinv os {} (inv_empty env)
  refine ⟨chain_nodup hi.chain, ?_, chain_root_unique hi.chain, hi.payloads, hi.count, hi.lcHigh, hi.lcAtomic, hi.xor,
    hi.head, hi.jobsRefs, hi.ledgerRefs⟩
  intro t ht
  obtain ⟨a, b, c⟩ := chain_mem hi.chain t ht
  exact ⟨a, b, c, chain_sig hi.chain t ht⟩

/-- **Notified exactly once.** With the node's subscriber configuration (`SubsOK`: unique names; a persistent
    subscriber listens to one event type) — after ANY sequence of offers, every subscriber whose filter accepts the
    transaction event of a stored transaction has received exactly one transaction event for it; nobody has received
    an event about a ref that is not stored. Re-offers, rejected offers and other transactions never add one
    (`add_idempotent`, `rejected_no_trace`, `Admitted.ledger`). -/
theorem notified_exactly_once (cfg : Cfg) (b64 : String → Bool) (env : Env) (subs : List Sub) (hok : SubsOK subs) (os : List Offer) :
    let s := os.foldl (offerStep cfg b64 env subs) {}
    (∀ sub ∈ subs, ∀ t ∈ s.txs, sub.accepts .tx t = true → evCount s.ledger sub.name .tx t.ref = 1) ∧
    (∀ (n : String) (typ : EvType) (r : Nat), r ∉ refsOf s.txs → evCount s.ledger n typ r = 0) := by
  have hinv : ∀ (os : List Offer) (s : St), Inv env s →
      (∀ sub ∈ subs, ∀ t ∈ s.txs, sub.accepts .tx t = true → evCount s.ledger sub.name .tx t.ref = 1) →
      Inv env (os.foldl (offerStep cfg b64 env subs) s) ∧
      (∀ sub ∈ subs, ∀ t ∈ (os.foldl (offerStep cfg b64 env subs) s).txs, sub.accepts .tx t = true →
        evCount (os.foldl (offerStep cfg b64 env subs) s).ledger sub.name .tx t.ref = 1) := by
    intro os
    induction os with
    | nil => intro s h ho; exact ⟨h, ho⟩
    | cons o t ih =>
      intro s h ho
      simp only [List.foldl_cons]
      apply ih
      · unfold offerStep offer
        split
        · exact inv_add h
        · exact h
        · exact h
      · unfold offerStep offer
        split
        · exact once_add hok h ho
        · exact ho
        · exact ho
  intro s
  obtain ⟨hi, ho⟩ := hinv os {} (inv_empty env) (by intro _ _ t ht; cases ht)
  refine ⟨ho, ?_⟩
  intro n typ r hr
  apply evCount_zero
  intro e he hc
  exact hr (hc ▸ hi.ledgerRefs e he)

/-! ### concurrent submissions -/

/-- **Concurrent adds serialise.** For ANY number of concurrent `Add` calls (same, sibling, dependent, invalid
    transactions — anything) and ANY interleaving of their read-transaction / write-transaction steps (`sched` is an
    arbitrary list of thread ids; a finished thread's slot is a no-op), at EVERY point of the execution: the state equals
    the state after running the finished calls one after the other in some order (`order`: each finished thread exactly
    once), and every finished thread returned exactly what it returns in that sequential run. Threads that are between
    their two phases have changed nothing. -/
theorem concurrent_adds_serialise (env : Env) (subs : List Sub) (calls : List Call) (sched : List Nat) (s0 : St) :
    let w := run env subs calls sched { st := s0, pcs := List.replicate calls.length .start }
    ∃ order : List Nat, order.Nodup ∧ (∀ i : Nat, i ∈ order ↔ ∃ r, w.pcs[i]? = some (PC.done r)) ∧
      (seqRun env subs calls order s0).1 = w.st ∧
      (∀ (i : Nat) (r : Res Unit), (i, r) ∈ (seqRun env subs calls order s0).2 ↔ w.pcs[i]? = some (PC.done r)) :=
  (lin_run sched (lin_init calls.length)).ex

/-- hence, started from a valid DAG, every interleaving ends in a valid DAG: each ref stored once, counted once
    (`count = length`, refs `Nodup`), digest = XOR of the stored refs, notifications only for stored transactions -/
theorem concurrent_adds_keep_invariant (env : Env) (subs : List Sub) (calls : List Call) (sched : List Nat) (s0 : St)
    (h0 : Inv env s0) :
    let w := run env subs calls sched { st := s0, pcs := List.replicate calls.length .start }
    Inv env w.st ∧ (refsOf w.st.txs).Nodup ∧ w.st.count = w.st.txs.length ∧ w.st.xor = xorAll w.st.txs := by
  intro w
  obtain ⟨order, _, _, hst, _⟩ := concurrent_adds_serialise env subs calls sched s0
  have hi : Inv env w.st := by
    rw [← hst]
    exact inv_seqRun order (acc := (s0, [])) h0
  exact ⟨hi, chain_nodup hi.chain, hi.count, hi.xor⟩

/-! ### locally created transactions -/

/-- **A transaction built by the `CreateTransaction` rule is admissible**: prevs = head + additional prevs
    (de-duplicated), clock from `calculateLamportClock`; signed by a key that verifies; payload hash = hash of the
    payload. On the state it was built on, `Add` accepts it and stores it.
    `hnz`: no stored transaction has the all-zero ref (the code uses the empty hash for "no head"). -/
theorem created_tx_admissible (env : Env) (subs : List Sub) (s : St) (additional prevs : List Nat) (clock : Nat) (tx : Tx) (q : Nat)
    (hi : Inv env s) (hnz : ∀ t ∈ s.txs, t.ref ≠ 0)
    (hc : createPrevsClock s additional = .ok (prevs, clock)) (hp : tx.prevs = prevs) (hk : tx.clock = clock)
    (hfresh : tx.ref ∉ refsOf s.txs) (hsig : verifySig env tx = .ok ()) (hq : env.sha q = tx.payloadHash) :
    (add env subs s tx (some q)).2 = .ok () ∧ (add env subs s tx (some q)).1.txs = tx :: s.txs := by
  obtain ⟨hv, hr⟩ := create_verifies hi hnz hc tx hp hk
  exact add_success hfresh hv hsig hr (by intro x hx; cases hx; exact hq)

/-! ### non-vacuity: concrete instances meeting the hypotheses -/

namespace Ex

def env : Env :=
  { sha := fun p => p + 100, sigJwk := fun _ => true, sigKey := fun _ k => k == 1,
    kidDid := fun k => if k = "did:nuts:a#k1" then some "did:nuts:a" else none,
    resolve := fun d src => if d = "did:nuts:a" ∧ src = 11 then .doc [("did:nuts:a#k1", 1)] else .notFound }

def subs : List Sub :=
  [{ name := "gossip", persistent := false, wantTx := true, wantPayload := false, palOnly := false, outcome := .finished },
   { name := "nats", persistent := true, wantTx := false, wantPayload := true, palOnly := false, outcome := .finished }]

def mk (ref clock : Nat) (prevs : List Nat) (ph : Nat) (jwk : Bool) (kid : String) : Tx :=
  { ref := ref, alg := "ES256", payloadHash := ph, cty := "a/b", jwk := jwk, kid := kid, sigt := 1, ver := 2, prevs := prevs,
    pal := [], clock := clock }

def root : Tx := mk 11 0 [] 101 true ""
def child : Tx := mk 12 1 [11] 102 false "did:nuts:a#k1"
def sibling : Tx := mk 13 1 [11] 103 true ""
def root2 : Tx := mk 14 0 [] 104 true ""

def s1 : St := (add env subs {} root (some 1)).1
def s2 : St := (add env subs s1 child (some 2)).1

/-- the root and a kid-signed child are admitted; both are stored, counted, digested, notified -/
example : s2.txs = [child, root] ∧ s2.count = 2 ∧ s2.lcHigh = 1 ∧ s2.head = 12 ∧ s2.xor = 11 ^^^ 12 ∧
    s2.payloads = [(102, 2), (101, 1)] ∧ s2.jobs = [] ∧
    s2.ledger = [⟨"gossip", .tx, 11⟩, ⟨"nats", .payload, 11⟩, ⟨"gossip", .tx, 12⟩, ⟨"nats", .payload, 12⟩] := by decide

/-- `add_idempotent` applies (and a re-add with another payload argument is a no-op as well) -/
example : add env subs s2 root (some 9) = (s2, .ok ()) := by decide
/-- `rejected_no_trace` applies: second root, wrong clock, missing prev, wrong payload -/
example : add env subs s2 root2 (some 4) = (s2, .err "root-exists") := by decide
example : add env subs s2 (mk 15 3 [12] 105 true "") none = (s2, .err "clock") := by decide
example : add env subs s2 (mk 15 1 [99] 105 true "") none = (s2, .err "prev-missing") := by decide
example : add env subs s2 sibling (some 2) = (s2, .err "payload-hash") := by decide
/-- `cancelled_add_no_trace`: an admissible sibling whose Add is cancelled in the write transaction -/
example : addCancelled env subs s2 sibling (some 3) = (s2, .err "cancelled") := by decide
/-- `other_doors_keep_invariant`: a list whose second item misses its prev, and a late payload with wrong / right bytes -/
example : (handleList env subs s1 [⟨sibling, some 3⟩, ⟨mk 20 5 [99] 120 true "", some 20⟩, ⟨child, some 2⟩]).2 = "ok:missing-prevs" := by decide
example : (latePayload env subs s2 12 9).2 = "err:payload-mismatch" ∧ (latePayload env subs s2 12 2).2 = "ok" ∧
    (latePayload env subs s2 77 2).2 = "err:unknown-tx" := by decide
/-- a kid that resolves for no prev is refused -/
example : add env subs s2 (mk 16 2 [12] 105 false "did:nuts:a#k1") none = (s2, .err "did-not-found") := by decide

/-- `concurrent_adds_serialise` on a schedule where two threads add the same transaction and a third a sibling:
    both duplicates return nil, the transaction is stored once -/
example :
    let calls : List Call := [⟨sibling, some 3⟩, ⟨sibling, some 3⟩, ⟨child, some 2⟩]
    let w := run env subs calls [0, 1, 2, 1, 0, 2] { st := s1, pcs := List.replicate 3 .start }
    w.st.txs = [child, sibling, root] ∧ w.pcs = [.done (.ok ()), .done (.ok ()), .done (.ok ())] ∧ w.st.count = 3 := by decide

/-- competing roots: both pass phase 1, the second write is refused by the root check -/
example :
    let calls : List Call := [⟨root, some 1⟩, ⟨root2, some 4⟩]
    let w := run env subs calls [0, 1, 1, 0] { st := {}, pcs := List.replicate 2 .start }
    w.st.txs = [root2] ∧ w.pcs = [.done (.err "root-exists"), .done (.ok ())] := by decide

/-- `created_tx_admissible`: hypotheses are satisfiable on s2 (head = child, additional prev = root) -/
example : createPrevsClock s2 [11] = .ok ([12, 11], 2) := by decide
example : (add env subs s2 (mk 17 2 [12, 11] 105 true "") (some 5)).2 = .ok () := by decide

/-- `last_member_decides`: a header with duplicated `lc` and `alg` members — the last ones win -/
example :
    (hdrOfMembers 1 [("alg", .str "none"), ("lc", .num 7 0), ("alg", .str "ES256"), ("cty", .str "a/b"), ("jwk", .obj),
        ("sigt", .num 1 0), ("ver", .num 1 1), ("prevs", .arr []), ("lc", .num 5 0)] true false "" 7 >>=
      parse srcCfg (fun _ => true)) =
    .ok { ref := 7, alg := "ES256", payloadHash := 0, cty := "a/b", jwk := true, kid := "", sigt := 1, ver := 2,
          prevs := [], pal := [], clock := 5 } := by decide

/-- `notified_exactly_once`: the example subscriber set satisfies `SubsOK` -/
example : SubsOK subs := by
  refine ⟨by decide, ?_⟩
  intro sub hs hp
  simp [subs] at hs
  rcases hs with h | h <;> subst h <;> simp at hp ⊢

/-- `parse_sound` / `lc_exact`: a header that parses -/
example : parse srcCfg (fun _ => true)
    { nSigs := 1, alg := "ES256", cty := "a/b", hasJwk := true, kid := none, payload := "", ref := 7,
      priv := [("sigt", .num 1 0), ("ver", .num 1 1), ("prevs", .arr [.str ""]), ("lc", .num 5 0)] } =
    .ok { ref := 7, alg := "ES256", payloadHash := 0, cty := "a/b", jwk := true, kid := "", sigt := 1, ver := 2,
          prevs := [0], pal := [], clock := 5 } := by decide

end Ex


/-! ### Deepening round 2026-09-28 — the framing check on the BYTES (parser.go `isJWSSerialization`, NutsModel/C06/Framing.lean) -/

section FramingBytes
open Nuts.C06.Framing

/-- the body of `isJWSSerialization` is the one `Framing.isJWSSerialization` mirrors, statement by statement: trim with
    `unicode.IsSpace`, '{' ⇒ JSON; else split at '.', exactly 3 segments, each must decode with `RawURLEncoding` and re-encode to itself -/
theorem fact_framing_body :
    Facts.C06.framingStmts =
      ["trimmed := bytes.TrimLeftFunc(input, unicode.IsSpace)", "if len(trimmed) > 0 && trimmed[0] == '{'", "return true", "segments := bytes.Split(input, []byte{'.'})", "if len(segments) != 3", "return false", "range segments", "decoded, err := base64.RawURLEncoding.DecodeString(string(segment))", "if err != nil || base64.RawURLEncoding.EncodeToString(decoded) != string(segment)", "return false", "return true"] ∧
    (Facts.C06.framingSep, Facts.C06.framingSegments, Facts.C06.framingJsonByte) = (46, 3, 123) := by decide

/-- `ParseTransaction` on bytes: whatever it accepts passed `isJWSSerialization` computed on those bytes, and carries their hash as ref -/
theorem accepted_bytes_pass_framing (b64 : String → Bool) (sha : List Nat → Nat) (input : List Nat) (h : Hdr) (tx : Tx)
    (hp : parseBytes srcCfg b64 sha input h = .ok tx) : isJWSSerialization input = true ∧ tx.ref = sha input :=
  ⟨accepted_bytes_are_a_jws_serialization b64 _ tx hp, (parse_wellFormed hp).ref⟩

/-- an accepted compact serialization consists of exactly three segments over the base64url alphabet: no padding '=', no
    standard-alphabet '+' '/', no line breaks, no further '.' — everything `jws.Parse` tolerates beyond RFC 7515 is refused -/
theorem accepted_compact_is_three_canonical_segments (b64 : String → Bool) (sha : List Nat → Nat) (input : List Nat) (h : Hdr) (tx : Tx)
    (hp : parseBytes srcCfg b64 sha input h = .ok tx) (hj : jsonStart input = false) :
    ∃ s1 s2 s3, input = s1 ++ 46 :: (s2 ++ 46 :: s3) ∧
      (∀ s ∈ [s1, s2, s3], (∀ c ∈ s, isAlpha c = true) ∧ s.length % 4 ≠ 1 ∧ ∃ d, b64Decode s = some d ∧ b64Encode d = s) := by
  obtain ⟨s1, s2, s3, hs, c1, c2, c3⟩ := compact_of_isJWS (accepted_bytes_pass_framing b64 sha input h tx hp).1 hj
  refine ⟨s1, s2, s3, ?_, ?_⟩
  · have := join_split 46 input
    rw [hs] at this
    simpa [joinWith] using this.symm
  · intro s hs'
    simp at hs'
    rcases hs' with e | e | e <;> subst e
    · exact ⟨canonical_alpha c1, canonical_len c1, canonical_eq c1⟩
    · exact ⟨canonical_alpha c2, canonical_len c2, canonical_eq c2⟩
    · exact ⟨canonical_alpha c3, canonical_len c3, canonical_eq c3⟩

/-- ONE SIGNED TRANSACTION, ONE REFERENCE: two accepted compact inputs that carry the same header, payload and signature bytes
    are the same byte string, hence the same transaction reference (for any hash function).  This is what the framing guard is
    for: the DAG identifies a transaction by the hash of its bytes. -/
theorem one_signed_transaction_one_ref (b64 : String → Bool) (sha : List Nat → Nat) (a b : List Nat) (ha hb : Hdr) (ta tb : Tx)
    (pa : parseBytes srcCfg b64 sha a ha = .ok ta) (pb : parseBytes srcCfg b64 sha b hb = .ok tb)
    (ja : jsonStart a = false) (jb : jsonStart b = false)
    (same : decodedSegments a = decodedSegments b) : a = b ∧ ta.ref = tb.ref := by
  have fa := accepted_bytes_pass_framing b64 sha a ha ta pa
  have fb := accepted_bytes_pass_framing b64 sha b hb tb pb
  have e := compact_unique fa.1 ja fb.1 jb same
  exact ⟨e, by rw [fa.2, fb.2, e]⟩

/-- THE LIMIT OF THE GUARD (stated, not hidden): the JSON branch puts no demand on the bytes — whatever follows a '{' passes
    `isJWSSerialization`; `one_signed_transaction_one_ref` therefore speaks about compact inputs only (`jsonStart = false`). Whether a
    JSON-serialised copy of a signed transaction parses at all is decided by `jws.Parse` (contract), and if it does it is a transaction
    with ANOTHER ref (level note; C17 lists it as `C17:dagtx:json-serialisation-second-reference`). -/
theorem json_branch_puts_no_demand_on_the_bytes (rest : List Nat) : isJWSSerialization (123 :: rest) = true := json_any rest

/-- the guard refuses nothing honest: the compact serialization of ANY header / payload / signature bytes passes -/
theorem honest_compact_passes_framing (d1 d2 d3 : List Nat)
    (h1 : ∀ x ∈ d1, x < 256) (h2 : ∀ x ∈ d2, x < 256) (h3 : ∀ x ∈ d3, x < 256) :
    isJWSSerialization (b64Encode d1 ++ 46 :: (b64Encode d2 ++ 46 :: b64Encode d3)) = true ∧
    decodedSegments (b64Encode d1 ++ 46 :: (b64Encode d2 ++ 46 :: b64Encode d3)) = [some d1, some d2, some d3] := by
  refine ⟨compact_accepted d1 d2 d3 h1 h2 h3, ?_⟩
  unfold decodedSegments
  rw [splitOn_append _ (encode_no_dot d1), splitOn_append _ (encode_no_dot d2), splitOn_no_sep (encode_no_dot d3)]
  simp [decode_encode _ h1, decode_encode _ h2, decode_encode _ h3]

/-- without the re-encode comparison the decoder alone is NOT injective: "QQ" and "QR" (non-zero trailing bits), "QQ\n" (line
    break) all decode to the byte 'A' — three byte strings, three refs, one signed content (the defect repaired in 88f8bf0) -/
theorem decoder_alone_is_not_injective :
    b64Decode [81, 81] = some [65] ∧ b64Decode [81, 82] = some [65] ∧ b64Decode [81, 81, 10] = some [65] ∧
    canonical [81, 81] = true ∧ canonical [81, 82] = false ∧ canonical [81, 81, 10] = false := by decide

/-- non-vacuity: "e30.QQ.QQ" is accepted framing, "e30.QQ.QQ.x", "e30.QQ=.QQ", "e30.QQ" and "e30.Q.QQ" are not; " \t{" is JSON -/
example : isJWSSerialization [101, 51, 48, 46, 81, 81, 46, 81, 81] = true := by decide
example : isJWSSerialization [101, 51, 48, 46, 81, 81, 46, 81, 81, 46, 120] = false := by decide
example : isJWSSerialization [101, 51, 48, 46, 81, 81, 61, 46, 81, 81] = false := by decide
example : isJWSSerialization [101, 51, 48, 46, 81, 81] = false := by decide
example : isJWSSerialization [101, 51, 48, 46, 81, 46, 81, 81] = false := by decide
example : isJWSSerialization [32, 9, 0xC2, 0xA0, 0xE2, 0x80, 0x83, 123] = true := by decide
example : jsonStart [101, 51, 48, 46, 81, 81, 46, 81, 81] = false := by decide

end FramingBytes


/-! ### Deepening round 2026-09-28 — the bytes in the store (dag.go: clocks / documents / metadata shelves, NutsModel/C06/Shelf.lean) -/

section StoreBytes
open Nuts.C06.Shelf

/-- the functions of dag.go that `NutsModel/C06/Shelf.lean` mirrors, pinned statement by statement (exact source text): hash-list
    codec, clock index, root check, `addSingle`, `add` (head / lc_high / tx_num bookkeeping), the range scan with `stopAtNil = true`
    and the byte order of the sort, the widths of the big-endian counters -/
theorem fact_store_bodies :
    Facts.C06.dagBody_parseHashList =
      ["if len(input) == 0", "return nil", "num := (len(input) - (len(input) % hash.SHA256HashSize)) / hash.SHA256HashSize", "result := make([]hash.SHA256Hash, num)", "for i := 0; i < num; i++", "result[i] = hash.FromSlice(input[i*hash.SHA256HashSize : i*hash.SHA256HashSize+hash.SHA256HashSize])", "return result"] ∧
    Facts.C06.dagBody_appendHashList =
      ["newList := make([]byte, 0, len(list)+hash.SHA256HashSize)", "newList = append(newList, list...)", "newList = append(newList, h.Slice()...)", "return newList"] ∧
    Facts.C06.dagBody_indexClockValue =
      ["lc := tx.GetShelfWriter(clockShelf)", "clockKey := stoabs.Uint32Key(transaction.Clock())", "ref := transaction.Ref()", "currentRefs, err := lc.Get(clockKey)", "if err != nil && !errors.Is(err, stoabs.ErrKeyNotFound)", "return err", "range parseHashList(currentRefs)", "if ref.Equals(cRef)", "return nil", "err := lc.Put(clockKey, appendHashList(currentRefs, ref))", "if err != nil", "return err", "log.Logger(). WithField(core.LogFieldTransactionRef, ref). Tracef(\"Storing transaction logical clock (LC: %d)\", clockKey)", "return nil"] ∧
    Facts.C06.dagBody_getRoots =
      ["roots, err := lcBucket.Get(stoabs.Uint32Key(0))", "if err != nil", "return nil", "return parseHashList(roots)"] ∧
    Facts.C06.dagBody_addSingle =
      ["ref := transaction.Ref()", "refKey := stoabs.NewHashKey(ref)", "transactions := tx.GetShelfWriter(transactionsShelf)", "lc := tx.GetShelfWriter(clockShelf)", "if exists(transactions, ref)", "log.Logger(). WithField(core.LogFieldTransactionRef, ref). Trace(\"Transaction already exists, not adding it again.\")", "return nil", "if len(transaction.Previous()) == 0", "if getRoots(lc) != nil", "return errRootAlreadyExists", "err := indexClockValue(tx, transaction)", "if err != nil", "return fmt.Errorf(\"unable to calculate LC value for %s: %w\", ref, err)", "return transactions.Put(refKey, transaction.Data())"] ∧
    Facts.C06.dagBody_add =
      ["highestLC := d.getHighestClockValue(tx)", "headRef := hash.EmptyHash()", "range transactions", "if transaction != nil", "err := d.addSingle(tx, transaction)", "if err != nil", "return err", "if transaction.Clock() > highestLC || transaction.Clock() == 0", "highestLC = transaction.Clock()", "headRef = transaction.Ref()", "err := d.setHighestClockValue(tx, highestLC)", "if err != nil", "return err", "if !headRef.Equals(hash.EmptyHash())", "err := d.setHead(tx, headRef)", "if err != nil", "return err", "txCount := d.getNumberOfTransactions(tx) + uint64(len(transactions))", "return d.setNumberOfTransactions(tx, txCount)"] ∧
    Facts.C06.dagBody_visitBetweenLC =
      ["reader := tx.GetShelfReader(clockShelf)", "return reader.Range(stoabs.Uint32Key(startInclusive), stoabs.Uint32Key(endExclusive), func(_ stoabs.Key, value []byte) error { parsed := parseHashList(value) sort.Slice(parsed, func(i, j int) bool { return parsed[i].Compare(parsed[j]) <= 0 }) for _, next := range parsed { transaction, err := getTransaction(next, tx) if err != nil { return err } visitor(transaction) } return nil }, true)"] ∧
    Facts.C06.dagBody_setNumberOfTransactions =
      ["writer := tx.GetShelfWriter(metadataShelf)", "bytes := make([]byte, 8)", "binary.BigEndian.PutUint64(bytes[:], count)", "return writer.Put(stoabs.BytesKey(numberOfTransactionsKey), bytes)"] ∧
    Facts.C06.dagBody_setHighestClockValue =
      ["writer := tx.GetShelfWriter(metadataShelf)", "bytes := make([]byte, 4)", "binary.BigEndian.PutUint32(bytes[:], count)", "return writer.Put(stoabs.BytesKey(highestClockValue), bytes)"] ∧
    Facts.C06.dagBody_setHead =
      ["writer := tx.GetShelfWriter(metadataShelf)", "return writer.Put(stoabs.BytesKey(headRefKey), ref.Slice())"] ∧
    Facts.C06.dagBody_bytesToClock =
      ["return binary.BigEndian.Uint32(clockBytes)"] ∧
    Facts.C06.dagBody_bytesToCount =
      ["return binary.BigEndian.Uint64(clockBytes)"] := by
  exact ⟨rfl, rfl, rfl, rfl, rfl, rfl, rfl, rfl, rfl, rfl, rfl, rfl⟩

/-- shelf names, metadata keys and the hash size the model uses are the ones in the source -/
theorem fact_store_keys :
    (Facts.C06.dag_numberOfTransactionsKey, Facts.C06.dag_highestClockValue, Facts.C06.dag_headRefKey) =
      (numberOfTransactionsKey, highestClockValue, headRefKey) ∧
    (Facts.C06.dag_metadataShelf, Facts.C06.dag_transactionsShelf, Facts.C06.dag_clockShelf) = ("metadata", "documents", "clocks") ∧
    Facts.C06.sha256HashSize = hashSize := by decide

/-- BYTE-LEVEL `dag.add` REFINES `graphAdd`: on a store holding the abstract state `s`, adding a fresh transaction writes exactly
    the bytes that hold `graphAdd s tx` (clock index entry appended, `tx_num`+1 as 8 bytes, `lc_high` as 4 bytes, `head_ref` only
    when the clock is a new maximum or 0) and is refused exactly when `graphAdd` refuses (a second root, read off the bytes under key 0) -/
theorem store_bytes_refine_graph_add {st : Store} {s : St} (h : Refines st s) (tx : Tx)
    (hfresh : hashBytes tx.ref ∉ st.docs) (hr0 : tx.ref ≠ 0) (hr : tx.ref < 256 ^ hashSize)
    (hc : tx.clock < 256 ^ 4) (hh : s.lcHigh < 256 ^ 4) (hn : s.count + 1 < 256 ^ 8) :
    match graphAdd s tx with
    | .ok s' => ∃ st', dagAdd st (hashBytes tx.ref) tx.clock tx.prevs.isEmpty = .ok st' ∧ Refines st' s'
    | .err e => dagAdd st (hashBytes tx.ref) tx.clock tx.prevs.isEmpty = .err e
    | .panic _ => False :=
  dagAdd_refines h tx hfresh hr0 hr hc hh hn

/-- `parseHashList ∘ appendHashList`: appending one ref to a whole number of refs parses back to the old refs and the new one -/
theorem hash_list_append_parses {l h : List Nat} (hl : l.length % hashSize = 0) (hh : h.length = hashSize) :
    parseHashList (appendHashList l h) = parseHashList l ++ [h] := parseHashList_append hl hh

/-- THE CLOCKS SHELF DECODES TO THE DAG: under every clock value the bytes hold exactly the refs of the stored transactions with that
    clock, each once, in admission order; and `getRoots(lc) != nil` — the root-uniqueness check of `addSingle` — is true exactly when a
    stored transaction has clock 0 -/
theorem clock_shelf_decodes (txs : List Tx) (hn : (refsOf txs).Nodup) (hb : ∀ t ∈ txs, t.ref < 256 ^ hashSize) (c : Nat) :
    refsAt (buildClocks txs) c = ((txs.filter (fun t => t.clock = c)).reverse.map (fun t => hashBytes t.ref)) ∧
    rootsNonNil (buildClocks txs) = hasRoot txs :=
  ⟨refsAt_build txs (nodup_hashBytes hn hb) c, roots_build txs⟩

/-- FindBetweenLC READS EVERY STORED TRANSACTION, for ALL offer histories: the range scan of `visitBetweenLC` stops at the first
    missing clock value (`stopAtNil`) — but a reachable DAG skips none (every non-root transaction sits one above a stored prev), so
    over the bytes of the store the scan visits exactly the refs of the stored transactions with `a ≤ clock < b` -/
theorem find_between_lc_reads_every_stored_tx (cfg : Cfg) (b64 : String → Bool) (env : Env) (subs : List Sub) (os : List Offer) :
    let s := os.foldl (offerStep cfg b64 env subs) {}
    (∀ t ∈ s.txs, t.ref < 256 ^ hashSize) →
    ∀ a b h, h ∈ visitBetweenLC (buildClocks s.txs) a b ↔ ∃ t ∈ s.txs, hashBytes t.ref = h ∧ a ≤ t.clock ∧ t.clock < b := by
  intro s hb a b h
  obtain ⟨hn, hl, _⟩ := dag_inv cfg b64 env subs os
  refine mem_visit (nodup_hashBytes hn hb) (nogap_of_links ?_) a b h
  intro t ht
  obtain ⟨_, h0, h1, _⟩ := hl t ht
  by_cases hp : t.prevs = []
  · exact Or.inl (h0 hp)
  · obtain ⟨u, hu, _, hc⟩ := h1 hp
    exact Or.inr ⟨u, hu, hc⟩

/-- with a skipped clock value the scan is NOT complete (why the DAG invariant is needed): refs filed under clocks 0 and 2 only -/
theorem range_scan_stops_at_a_gap :
    let sh := indexClockValue (indexClockValue [] 0 (hashBytes 1)) 2 (hashBytes 2)
    refsAt sh 2 = [hashBytes 2] ∧ visitBetweenLC sh 0 3 = [hashBytes 1] := by decide

/-- big-endian counters and 32-byte refs read back as written (`bytesToClock`, `bytesToCount`, `hash.FromSlice`) -/
theorem counters_read_back (n v : Nat) : ofBe (be n v) = v % 256 ^ n ∧ (be n v).length = n := ⟨ofBe_be n v, be_length n v⟩

/-- non-vacuity: a root, a child and a grandchild through the byte-level `dagAdd`; the store refines the abstract state, the scan finds all -/
example : (buildStore [⟨3, "", 0, "", true, "", 0, 0, [2], [], 2⟩, ⟨2, "", 0, "", true, "", 0, 0, [1], [], 1⟩, ⟨1, "", 0, "", true, "", 0, 0, [], [], 0⟩]).md
    = [("tx_num", be 8 3), ("head_ref", hashBytes 3), ("lc_high", be 4 2)] := by decide
example : dagAdd (buildStore [⟨1, "", 0, "", true, "", 0, 0, [], [], 0⟩]) (hashBytes 5) 0 true = .err "root-exists" := by decide
example : visitBetweenLC (buildClocks [⟨3, "", 0, "", true, "", 0, 0, [2], [], 1⟩, ⟨2, "", 0, "", true, "", 0, 0, [1], [], 1⟩, ⟨1, "", 0, "", true, "", 0, 0, [], [], 0⟩]) 0 5
    = [hashBytes 1, hashBytes 2, hashBytes 3] := by decide
example : parseHashList (hashBytes 7 ++ [1, 2, 3]) = [hashBytes 7] ∧ parseHashListNonNil [1, 2, 3] = true ∧ parseHashList [1, 2, 3] = [] := by decide

end StoreBytes


/-! ### Deepening round 2026-09-28 — making a transaction (transaction.go `NewTransaction`, signing.go `Sign`, NutsModel/C06/Create.lean) -/

section Creation
open Nuts.C06.Create

/-- `NewTransaction`, `ValidatePayloadType` and `Sign` as `NutsModel/C06/Create.lean` mirrors them, pinned statement by statement
    (exact source text): the two refusals, the de-duplication loop, `version: currentVersion` (= 2), the pre-checks of `Sign`, the
    header map (`cty`, `crit` = sigt, ver, prevs, lc; `sigt` = Unix seconds; `prevs` as hex; `pal` only when non-nil; `jwk` xor `kid`),
    the payload = hex of the payload hash, and the final `ParseTransaction` -/
theorem fact_create_bodies :
    Facts.C06.body_NewTransaction =
      ["if !ValidatePayloadType(payloadType)", "return nil, errInvalidPayloadType", "range prevs", "if prev.Empty()", "return nil, errInvalidPrevs", "deduplicated := make([]hash.SHA256Hash, 0)", "range prevs", "found := false", "range deduplicated", "if dd.Equals(prev)", "found = true", "break", "if !found", "deduplicated = append(deduplicated, prev)", "result := transaction{ payload: payload, payloadType: payloadType, version: currentVersion, pal: pal, lamportClock: lamportClock, }", "if len(deduplicated) > 0", "result.prevs = deduplicated", "return &result, nil"] ∧
    Facts.C06.body_ValidatePayloadType = ["return strings.Contains(payloadType, \"/\")"] ∧
    Facts.C06.body_Sign =
      ["if signingTime.IsZero()", "return nil, errors.New(\"signing time is zero\")", "tx, ok := input.(Transaction)", "if ok && !tx.SigningTime().IsZero()", "return nil, errors.New(\"transaction is already signed\")", "var key jwk.Key", "var err error", "if d.key != nil", "key, err = jwk.FromRaw(d.key)", "if err != nil", "return nil, fmt.Errorf(errSigningTransactionFmt, err)", "_ = key.Set(jwk.KeyIDKey, d.kid)", "prevsAsString := make([]string, len(input.Previous()))", "range input.Previous()", "prevsAsString[i] = prev.String()", "normalizedMoment := signingTime.UTC()", "headerMap := map[string]interface{}{ jws.ContentTypeKey: input.PayloadType(), jws.CriticalKey: []string{signingTimeHeader, versionHeader, previousHeader, lamportClockHeader}, signingTimeHeader: normalizedMoment.Unix(), previousHeader: prevsAsString, versionHeader: input.Version(), lamportClockHeader: input.Clock(), }", "if input.PAL() != nil", "headerMap[palHeader] = input.PAL()", "if d.key != nil", "headerMap[jws.JWKKey] = key", "else", "headerMap[jws.KeyIDKey] = d.kid", "data, err := d.signer.SignJWS(ctx, []byte(input.PayloadHash().String()), headerMap, d.kid, false)", "if err != nil", "return nil, fmt.Errorf(errSigningTransactionFmt, err)", "signedTransaction, err := ParseTransaction([]byte(data))", "if err != nil", "return nil, fmt.Errorf(errSigningTransactionFmt, err)", "return signedTransaction, nil"] ∧
    Facts.C06.currentVersion = currentVersion ∧
    [Facts.C06.sigtHeader, Facts.C06.verHeader, Facts.C06.prevsHeader, Facts.C06.lcHeader] = critHeaders := by
  exact ⟨rfl, rfl, rfl, rfl, rfl⟩

/-- `NewTransaction`: what it accepts has a MIME-like payload type and no empty prev; the prevs it keeps are the given ones without
    repetition (each once), and nothing else -/
theorem new_transaction_sound {p : Nat} {pt : String} {prevs : List Nat} {pal : Option (List String)} {lc : Nat} {u : Unsigned}
    (h : newTransaction p pt prevs pal lc = .ok u) :
    containsSlash pt = true ∧ (∀ x ∈ prevs, x ≠ 0) ∧ u.prevs.Nodup ∧ (∀ x, x ∈ u.prevs ↔ x ∈ prevs) ∧
    u.payload = p ∧ u.payloadType = pt ∧ u.clock = lc ∧ u.version = 2 ∧ u.pal = pal := by
  obtain ⟨hc, hz, rfl⟩ := newTransaction_ok h
  refine ⟨hc, hz, dedup_nodup (by simp), ?_, rfl, rfl, rfl, rfl, rfl⟩
  intro x
  simp [dedup_mem]

/-- SIGN THEN PARSE (the last step of `Sign` is `ParseTransaction` of what was signed): for every input `NewTransaction` accepts,
    the header `Sign` builds parses — under the source's own configuration — to a transaction with exactly the de-duplicated prevs,
    the clock, payload hash, payload type, version 2 and signing time that went in -/
theorem signed_transaction_parses_back (b64 : String → Bool) {p : Nat} {pt : String} {prevs : List Nat} {pal : Option (List String)}
    {lc : Nat} {u : Unsigned} (hu : newTransaction p pt prevs pal lc = .ok u)
    (sigt : Int) (hs0 : -(2 : Int) ^ 63 ≤ sigt) (hs1 : sigt < (2 : Int) ^ 63)
    (alg : String) (ha : alg ∈ srcCfg.allowedAlgos) (key : KeyRef) (hk : ∀ id, key = .kid id → id ≠ "")
    (ref : Nat) (hp : p < 16 ^ 64) (hpr : ∀ x ∈ prevs, x < 16 ^ 64) (hlc : lc < 2 ^ 32)
    (hpal : ∀ l, pal = some l → ∀ s ∈ l, b64 s = true) :
    parse srcCfg b64 (signHdr u sigt alg key ref true) =
      .ok { ref := ref, alg := alg, payloadHash := p, cty := pt,
            jwk := (match key with | .jwk => true | .kid _ => false),
            kid := (match key with | .jwk => "" | .kid id => id),
            sigt := sigt, ver := 2, prevs := dedup prevs [], pal := pal.getD [], clock := lc } :=
  sign_then_parse b64 hu sigt hs0 hs1 alg ha key hk ref hp hpr hlc hpal

/-- REQUEST → CREATED → SIGNED → PARSED → ADMITTED: on any state reachable state (`Inv`), the transaction `CreateTransaction` makes —
    prevs = head + additional prevs and clock by `createPrevsClock`, built by `NewTransaction`, signed and re-parsed by `Sign` — is
    accepted by `Add` on that state and stored, provided its signature verifies and the payload hashes to the declared hash.
    (`created_tx_admissible` assumed the parsed prevs / clock; here they are derived from the header `Sign` builds.) -/
theorem created_signed_parsed_admitted (b64 : String → Bool) (env : Env) (subs : List Sub) (s : St) (additional prevs : List Nat)
    (clock p q : Nat) (pt : String) (pal : Option (List String)) (u : Unsigned)
    (hi : Inv env s) (hnz : ∀ t ∈ s.txs, t.ref ≠ 0)
    (hc : createPrevsClock s additional = .ok (prevs, clock))
    (hu : newTransaction p pt ((if s.head ≠ 0 then [s.head] else []) ++ additional) pal clock = .ok u)
    (sigt : Int) (hs0 : -(2 : Int) ^ 63 ≤ sigt) (hs1 : sigt < (2 : Int) ^ 63)
    (alg : String) (ha : alg ∈ srcCfg.allowedAlgos) (key : KeyRef) (hk : ∀ id, key = .kid id → id ≠ "")
    (ref : Nat) (hp : p < 16 ^ 64) (hpr : ∀ x ∈ (if s.head ≠ 0 then [s.head] else []) ++ additional, x < 16 ^ 64) (hlc : clock < 2 ^ 32)
    (hpal : ∀ l, pal = some l → ∀ x ∈ l, b64 x = true)
    (hfresh : ref ∉ refsOf s.txs) (hq : env.sha q = p) :
    ∃ tx, parse srcCfg b64 (signHdr u sigt alg key ref true) = .ok tx ∧ tx.prevs = prevs ∧ tx.clock = clock ∧
      (verifySig env tx = .ok () → (add env subs s tx (some q)).2 = .ok () ∧ (add env subs s tx (some q)).1.txs = tx :: s.txs) := by
  refine ⟨_, sign_then_parse b64 hu sigt hs0 hs1 alg ha key hk ref hp hpr hlc hpal, (create_prevs_eq hc).symm, rfl, ?_⟩
  intro hsig
  exact created_tx_admissible env subs s additional prevs clock _ q hi hnz hc (create_prevs_eq hc).symm rfl hfresh hsig hq

/-- `hash.ParseHex(h.String()) = h` for every 256-bit value (refs and payload hashes travel as hex in `prevs` and the JWS payload) -/
theorem hex_round_trip {n : Nat} (h : n < 16 ^ 64) : parseHex (hex64 n) = some n := parseHex_hex64 h

/-- non-vacuity: NewTransaction's three outcomes; Sign's pre-checks; a signed root and a signed child parse back -/
example : newTransaction 7 "application/did+json" [5, 9, 5] none 3 = .ok ⟨7, "application/did+json", [5, 9], none, 3, 2⟩ := by decide
example : newTransaction 7 "nomime" [5] none 3 = .err "invalid-payload-type" := by decide
example : newTransaction 7 "a/b" [5, 0] none 3 = .err "invalid-prevs" := by decide
example : signPrecheck true false = .err "signing-time-zero" ∧ signPrecheck false true = .err "already-signed" ∧ signPrecheck false false = .ok () := by decide
example : (parse srcCfg (fun _ => true) (signHdr ⟨7, "a/b", [5, 9], some ["QUJD"], 3, 2⟩ 1600000000 "ES256" (.kid "did:nuts:a#k1") 77 true)).isOk = true := by
  rw [sign_then_parse (fun _ => true) (p := 7) (pt := "a/b") (prevs := [5, 9]) (pal := some ["QUJD"]) (lc := 3) (by decide) 1600000000 (by decide) (by decide)
    "ES256" (by decide) (.kid "did:nuts:a#k1") (by intro id h; cases h; decide) 77 (by decide) (by decide) (by decide) (by intro l h s hs; rfl)]
  rfl

end Creation

section Round2
open Nuts.C06.Late Ex

/-! ### Deepening round 2: the `payloadEvents` shelf, `handleTransactionPayload` / `WritePayload`, `state.Verify` -/

/-- **The state with the marker shelf refines the state without it**: `Add` with the `payloadEvents` bookkeeping does to
    every other shelf, digest, job and notification exactly what `add` does, with the same result — every theorem above
    about `add` holds for the code with the marker. -/
theorem add_with_marker_refines_add (env : Env) (subs : List Sub) (sp : StP) (tx : Tx) (p : Option Nat) :
    (addP env subs sp tx p).1.st = (add env subs sp.st tx p).1 ∧ (addP env subs sp tx p).2 = (add env subs sp.st tx p).2 :=
  addP_st env subs sp tx p

/-- the marker moves only on admission, and then exactly when a payload came with the transaction -/
theorem marker_set_iff_admitted_with_payload (env : Env) (subs : List Sub) (sp : StP) (tx : Tx) (p : Option Nat) :
    (addP env subs sp tx p).1 = sp ∨
    ((addP env subs sp tx p).2 = .ok () ∧ Admitted env sp.st tx p (addP env subs sp tx p).1.st ∧
     (addP env subs sp tx p).1.pev = if p.isSome then markPayloadEventSaved sp.pev tx.ref else sp.pev) :=
  addP_cases env subs sp tx p

/-- the first late payload of a transaction (marker not set, ref not empty) is `latePayload` of the abstract layer -/
theorem first_late_payload_refines (env : Env) (subs : List Sub) (sp : StP) (ref p : Nat) (hr : ref ≠ 0)
    (hm : isPayloadEventSaved sp.pev ref = false) :
    (handlePayload env subs sp ref (some p)).1.st = (latePayload env subs sp.st ref p).1 ∧
    (handlePayload env subs sp ref (some p)).2 = (latePayload env subs sp.st ref p).2 := by
  unfold handlePayload latePayload
  simp only [hr, if_false]
  cases hf : sp.st.find ref with
  | none => exact ⟨rfl, rfl⟩
  | some tx =>
    simp only
    have href : tx.ref = ref := (findTx_some_ref hf).1
    by_cases hs : env.sha p ≠ tx.payloadHash
    · rw [if_pos hs, if_pos hs]; exact ⟨rfl, rfl⟩
    · have hs' : env.sha p = tx.payloadHash := by simpa using hs
      rw [if_neg hs, if_neg hs]
      simp only [writePayload, href, hm, Bool.false_eq_true, if_false, hs']
      exact ⟨trivial, trivial⟩

/-- **Re-delivering a payload changes nothing and notifies no-one.** Once a payload message for `ref` was accepted,
    ANY further payload message for that ref — same bytes, other bytes, no bytes — leaves the whole state (payload store,
    job shelves, receiver ledger, marker shelf) identical. -/
theorem payload_redelivery_changes_nothing (env : Env) (subs : List Sub) (sp : StP) (ref : Nat) (d d' : Option Nat)
    (h : (handlePayload env subs sp ref d).2 = "ok") :
    (handlePayload env subs (handlePayload env subs sp ref d).1 ref d').1 = (handlePayload env subs sp ref d).1 :=
  handlePayload_marked (handlePayload_ok h).2.2.2 d'

/-- **A payload that came with its transaction blocks every late payload for it**: after an admission with payload no
    payload message for that transaction changes anything or notifies anyone. -/
theorem payload_with_transaction_blocks_late_payload (env : Env) (subs : List Sub) (sp : StP) (tx : Tx) (q : Nat)
    (d : Option Nat) (h : (addP env subs sp tx (some q)).1 ≠ sp) :
    (handlePayload env subs (addP env subs sp tx (some q)).1 tx.ref d).1 = (addP env subs sp tx (some q)).1 := by
  rcases addP_cases env subs sp tx (some q) with h0 | ⟨_, _, hp⟩
  · exact (h h0).elim
  · apply handlePayload_marked
    rw [hp]
    exact mark_contains _ _

/-- **A refused payload message leaves no trace.** -/
theorem refused_payload_no_trace (env : Env) (subs : List Sub) (sp : StP) (ref : Nat) (d : Option Nat)
    (h : (handlePayload env subs sp ref d).2 ≠ "ok") : (handlePayload env subs sp ref d).1 = sp := by
  unfold handlePayload at h ⊢
  split
  · rfl
  · split
    · rfl
    · split
      · rfl
      · split
        · rfl
        · rename_i hr _ _ _ tx hf hs
          simp only [hr, hf, hs, if_false] at h
          exact (h rfl).elim

/-- **Marker invariant over ALL histories** of offers (with or without payload) and payload messages, from the empty store:
    every marker belongs to a stored transaction, and a payload for the hash that transaction declares is in the payload store
    (so "nothing to do" in `WritePayload` never hides a payload the node does not have). -/
theorem payload_marker_inv (cfg : Cfg) (b64 : String → Bool) (env : Env) (subs : List Sub) (ops : List Op) :
    PevInv (runOps cfg b64 env subs {} ops) :=
  pevInv_run cfg b64 env subs ops {} (by intro r hr; cases hr)

/-- **`state.Verify` accepts every reachable store.** After ANY sequence of offers, the loop of `Verify` over any list of
    stored transactions (in particular the range scan `findBetweenLC(0, MaxLamportClock)`, which by
    `find_between_lc_reads_every_stored_tx` returns all of them) ends without error: every stored transaction passes the prevs
    verifier and the signature verifier against the WHOLE store. -/
theorem verify_accepts_every_reachable_state (cfg : Cfg) (b64 : String → Bool) (env : Env) (subs : List Sub) (os : List Offer) :
    let s := os.foldl (offerStep cfg b64 env subs) {}
    ∀ scan : List Tx, (∀ t ∈ scan, t ∈ s.txs) → verifyEach env s scan = .ok () := by
  have hinv : ∀ (os : List Offer) (s : St), Inv env s → Inv env (os.foldl (offerStep cfg b64 env subs) s) := by
    intro os
    induction os with
    | nil => intro s h; exact h
    | cons o t ih =>
      intro s h
      simp only [List.foldl_cons]
      apply ih
      unfold offerStep offer
      split
      · exact inv_add h
      · exact h
      · exact h
  intro s scan hs
  have hi : Inv env s := hinv os {} (inv_empty env)
  exact verifyEach_ok_iff.mpr (fun t ht => verify_stored hi.chain (hs t ht))

/-- … and it is sound: a nil result means every scanned transaction passes both verifiers (first error wins otherwise) -/
theorem verify_ok_means_every_scanned_tx_verifies (env : Env) (s : St) (scan : List Tx) :
    verifyEach env s scan = .ok () ↔ ∀ t ∈ scan, verify env s t = .ok () := verifyEach_ok_iff


/-! non-vacuity: the sibling is private-like here (offered WITHOUT payload), the payload arrives later, twice -/
def sp2 : StP := { st := s2, pev := [12, 11] }
def sp3 : StP := (addP env subs sp2 sibling none).1
example : sp3.st.txs = [sibling, child, root] ∧ sp3.pev = [12, 11] := by decide
example : (handlePayload env subs sp3 13 (some 3)).2 = "ok" ∧ (handlePayload env subs sp3 13 (some 3)).1.pev = [13, 12, 11] ∧
    (handlePayload env subs sp3 13 (some 3)).1.st.ledger = sp3.st.ledger ++ [⟨"nats", .payload, 13⟩] := by decide
example : handlePayload env subs (handlePayload env subs sp3 13 (some 3)).1 13 (some 3) = ((handlePayload env subs sp3 13 (some 3)).1, "ok") := by
  decide
example : (handlePayload env subs sp3 13 (some 9)).2 = "err:payload-mismatch" ∧ (handlePayload env subs sp3 13 none).2 = "err:no-data" ∧
    (handlePayload env subs sp3 0 (some 3)).2 = "err:no-ref" ∧ (handlePayload env subs sp3 77 (some 3)).2 = "err:unknown-tx" := by decide
/-- admitted WITH its payload: the marker is set by `Add`, a late payload is a no-op -/
example : (addP env subs sp2 sibling (some 3)).1.pev = [13, 12, 11] ∧ (addP env subs sp2 sibling (some 3)).1 ≠ sp2 ∧
    handlePayload env subs (addP env subs sp2 sibling (some 3)).1 13 (some 3) = ((addP env subs sp2 sibling (some 3)).1, "ok") := by decide
example : isPayloadEventSaved sp3.pev 13 = false ∧ (13 : Nat) ≠ 0 := by decide
/-- `Verify`: the reachable store passes; a transaction written past the verifiers (wrong clock) is reported -/
example : verifyEach env s2 s2.txs = .ok () := by decide
example : verifyEach env { s2 with txs := mk 15 3 [12] 105 true "" :: s2.txs } (mk 15 3 [12] 105 true "" :: s2.txs) = .err "clock" := by decide

/-! ### Round 3: the transaction counter (last AfterCommit hook of `state.Add`) -/

/-- **the metric counts exactly the admissions**: one `Add` moves `nuts_dag_transactions_total` by exactly what it moves the
    stored `tx_num` by — +1 when the transaction got in, 0 for a present, refused, or rolled-back one. -/
theorem transaction_counter_counts_admissions (env : Env) (subs : List Sub) (s : St) (tx : Tx) (p : Option Nat) (n : Nat) :
    addCounter env subs s tx p n = n + ((add env subs s tx p).1.count - s.count) := by
  unfold addCounter add
  cases h1 : phase1 env s tx <;> simp only [Nat.sub_self, Nat.add_zero]
  unfold phase2
  split
  · simp
  · cases hw : writeBody env subs s tx p with
    | ok w =>
      have := writeBody_count hw
      simp only [afterCommit]
      omega
    | err e => simp
    | panic e => simp

/-- a call that leaves the state as it was (re-add, rejection, rollback) does not count -/
theorem transaction_counter_unchanged_unless_admitted (env : Env) (subs : List Sub) (s : St) (tx : Tx) (p : Option Nat) (n : Nat)
    (h : (add env subs s tx p).1 = s) : addCounter env subs s tx p n = n := by
  rw [transaction_counter_counts_admissions, h]; simp

example : addCounter env subs sp2.st sibling (some 3) 2 = 3 ∧ addCounter env subs sp3.st sibling (some 3) 3 = 3 := by decide

end Round2

end Nuts.C06.Props
