/-
  C20 — strict mode refuses every insecure configuration it documents.
  ONLY property theorems (+ non-vacuity examples + obligations on regenerated facts).
  Model: NutsModel/C20/Strict.lean (+ the C18 models of net/url and http/client); helper lemmas: NutsProofs/Lemmas/C20.lean.
  Facts: NutsModel/Facts/C20.lean is REGENERATED from /repo on every run.
-/
import NutsModel.C20.Strict
import NutsModel.Facts.C20
import NutsProofs.Lemmas.C20
import NutsModel.C20.Outbound
import NutsModel.C20.Sources
import NutsModel.C20.Engines
import NutsProofs.Lemmas.C20b

namespace Nuts.C20.Props
open Nuts Nuts.C18 Nuts.C20

abbrev tlds := Facts.C20.reservedTLDs
abbrev l2s := Facts.C20.reservedAddresses

/-! ### Obligations on the regenerated facts (decision-table rows; a source change flips these) -/

/-- strict mode is the default -/
theorem fact_default_strict : Facts.C20.defaultStrictmode = true := by decide

/-- `ParsePublicURL`: lenient = http or https, reserved names allowed; strict = https only, nothing reserved; and the
    order of the checks in `ParsePublicURLWithScheme` -/
theorem fact_parse_public_url :
    Facts.C20.parsePublicURLBody = ["if !strictmode", "return ParsePublicURLWithScheme(input, true, \"http\", \"https\")",
      "return ParsePublicURLWithScheme(input, false, \"https\")"] ∧
    Facts.C20.parsePublicURLChecks = ["err != nil", "parsed.Scheme == \"\" || parsed.Hostname() == \"\"",
      "len(allowedSchemes) > 0 && !slices.Contains(allowedSchemes, parsed.Scheme)",
      "net.ParseIP(parsed.Hostname()) != nil && !allowReserved", "!allowReserved && isReserved(parsed)"] := by decide

/-- the reserved names contain the RFC 2606 / RFC 6762 classics (the model takes the whole regenerated lists) -/
theorem fact_reserved_lists :
    (∀ t ∈ [[], [108, 111, 99, 97, 108, 104, 111, 115, 116], [108, 111, 99, 97, 108], [116, 101, 115, 116],
             [101, 120, 97, 109, 112, 108, 101], [105, 110, 118, 97, 108, 105, 100]], t ∈ tlds) ∧      -- "", localhost, local, test, example, invalid
    [101, 120, 97, 109, 112, 108, 101, 46, 99, 111, 109] ∈ l2s := by decide                             -- example.com

/-- the empty TLD entry is what makes hosts written with a trailing (root) dot reserved: `localhost.`, `1.2.3.4.` and
    `nuts.nl.` are refused in strict mode although `net.ParseIP` / the name lists do not match them -/
example : isReserved tlds l2s [108, 111, 99, 97, 108, 104, 111, 115, 116, 46] = .ok true ∧
    isReserved tlds l2s [49, 46, 50, 46, 51, 46, 52, 46] = .ok true ∧ isIP [49, 46, 50, 46, 51, 46, 52, 46] = false ∧
    parsePublicURL tlds l2s [104, 116, 116, 112, 115, 58, 47, 47, 49, 46, 50, 46, 51, 46, 52, 46] true = .err "reserved" ∧   -- https://1.2.3.4.
    parsePublicURL tlds l2s [104, 116, 116, 112, 115, 58, 47, 47, 110, 117, 116, 115, 46, 110, 108, 46] true = .err "reserved" := by   -- https://nuts.nl.
  refine ⟨?_, ?_, ?_, ?_, ?_⟩ <;> decide

/-- moved keys stop `Load`, whatever the mode (no strict-mode operand in the condition) -/
theorem fact_moved_keys : Facts.C20.loadConds.head? =
    some "ngc.LegacyTLS.TrustStoreFile != \"\" || ngc.LegacyTLS.CertKeyFile != \"\" || ngc.LegacyTLS.CertFile != \"\"" := by decide

/-- the command-line secret rule: flag name ends in `token` or `password`, and the flag was set -/
theorem fact_secret_flag_rule : Facts.C20.secretFlagConds.take 2 =
    ["strings.HasSuffix(flag.Name, \"token\") || strings.HasSuffix(flag.Name, \"password\")", "flag.Changed"] := by decide

/-- the strict-mode condition of every engine -/
theorem fact_engine_conditions :
    Facts.C20.strictCondsCrypto = ["Configure: config.Strictmode"] ∧
    Facts.C20.cryptoStorageCases = ["fs.StorageType", "vault.StorageType", "azure.StorageType", "external.StorageType", "\"\"", "default"] ∧
    Facts.C20.strictCondsStorage = ["initSQLDatabase: strictmode"] ∧
    Facts.C20.strictCondsNetwork.head? = some "Configure: config.Strictmode" ∧
    Facts.C20.strictCondsAuth = ["Configure: config.Strictmode && auth.config.Irma.SchemeManager != \"pbdf\""] ∧
    Facts.C20.strictCondsNotary = ["Configure: n.config.hasContractValidator(dummy.ContractFormat) && !n.config.StrictMode"] ∧
    Facts.C20.jsonldLoaderCalls = ["NewContextLoader(!serverConfig.Strictmode, j.config.Contexts)"] ∧
    Facts.C20.clientStrictAssignments = ["serverConfig.Strictmode"] := by decide

/-- every `http.Client` of http/client refuses non-https redirects in strict mode; `Do` refuses a non-https first request -/
theorem fact_http_client :
    Facts.C20.clientCheckRedirects = ["checkRedirect", "checkRedirect", "checkRedirect"] ∧
    Facts.C20.strictCondsHTTPClient = ["checkRedirect: StrictMode && req.URL.Scheme != \"https\"", "Do: StrictMode && req.URL.Scheme != \"https\""] ∧
    Facts.C20.checkRedirectConds = ["StrictMode && req.URL.Scheme != \"https\"", "len(via) >= maxRedirects"] ∧
    Facts.C20.maxRedirectsConst = some 10 := by decide

/-- `auth.Configure` hands the configured strict mode to the IAM client (`auth.strictMode`, passed to `iam.NewClient`) -/
theorem fact_iam_strictmode : Facts.C20.authStrictModeAssignments = ["config.Strictmode"] ∧
    Facts.C20.iamNewClientArgs.contains "auth.strictMode" = true := by decide

/-- `client.StrictMode = serverConfig.Strictmode` is unconditional: a top-level statement with no `return` before it, in a
    function the HTTP engine's `Configure` calls first thing — no other option (cache size, …) can skip it; the model's
    `Running.clientStrict` therefore depends on `strict` alone -/
theorem fact_client_strict_unconditional : Facts.C20.clientStrictAssignmentUnconditional = true ∧
    Facts.C20.clientStrictAssignments = ["serverConfig.Strictmode"] := by decide

/-- the redirect check is one package-level function that reads `client.StrictMode` when a redirect arrives — not a
    value captured when the client was built (clients are built before the HTTP engine, configured last, sets the flag) -/
theorem fact_redirect_check_reads_global : Facts.C20.checkRedirectReadsGlobalAtCallTime = true := by decide

/-- inventory: the only places outside http/client that build a raw net/http client (CLI client, `status` command,
    external key-store API, PKI CRL / deny-list download); every other outbound HTTP user goes through the three
    http/client constructors (whose users are listed). A new raw client anywhere in the node flips this fact. -/
theorem fact_outbound_inventory :
    Facts.C20.rawHTTPClientSites = ["core/http_client.go:http.Client{}", "core/status/cmd.go:http.Get",
      "crypto/storage/external/client.go:http.Client{}", "pki/denylist.go:http.Client{}", "pki/validator.go:http.Client{}"] ∧
    Facts.C20.strictClientUsers = ["auth/client/iam/openid4vp.go:client.NewWithCache", "discovery/api/server/client/http.go:client.New",
      "discovery/module.go:client.New", "vcr/openid4vci/identifiers.go:client.NewWithTLSConfig", "vcr/vcr.go:client.NewWithCache",
      "vcr/vcr.go:client.NewWithTLSConfig", "vcr/vcr.go:client.NewWithTLSConfig", "vdr/didweb/web.go:client.NewWithCache"] := by decide

/-- IAM client: every function that validates an endpoint URL does so with the client's strict flag; the request
    builders that do not validate themselves are the shared helpers and the credential request (stopped by the HTTP client) -/
theorem fact_iam_call_sites :
    Facts.C20.iamURLCheckers = ["OAuthAuthorizationServerMetadata", "ClientMetadata", "OpenIdCredentialIssuerMetadata", "OpenIDConfiguration",
      "VerifiableCredentials", "PostError", "PostAuthorizationResponse", "PresentationDefinition", "RequestObjectByGet", "RequestObjectByPost", "AccessToken",
      "RequestRFC021AccessToken"] ∧
    Facts.C20.iamRequestBuilders.filter (fun f => !Facts.C20.iamURLCheckers.contains f) =
      ["postFormExpectRedirect", "doGet"] := by decide

/-- inventory of the IAM client's exported methods: every OpenID4VP-client method that takes an endpoint validates it
    UNCONDITIONALLY (top-level statement before any branch) or hands it to an inner method that does; the inner methods
    without a check of their own are only reached through checking outer methods -/
theorem fact_iam_method_inventory : Facts.C20.iamMethodInventory =
    ["http.OAuthAuthorizationServerMetadata:unconditional", "http.ClientMetadata:unconditional", "http.PresentationDefinition:none",
     "http.RequestObjectByGet:none", "http.RequestObjectByPost:none", "http.AccessToken:none", "http.PostError:none",
     "http.PostAuthorizationResponse:none", "http.OpenIdCredentialIssuerMetadata:unconditional", "http.OpenIDConfiguration:unconditional",
     "http.KeyProvider:none", "http.VerifiableCredentials:unconditional",
     "vp.ClientMetadata:delegates:ClientMetadata", "vp.PostError:unconditional", "vp.PostAuthorizationResponse:unconditional",
     "vp.PresentationDefinition:unconditional", "vp.AuthorizationServerMetadata:delegates:OAuthAuthorizationServerMetadata",
     "vp.OpenIDConfiguration:delegates:OpenIDConfiguration", "vp.RequestObjectByGet:unconditional", "vp.RequestObjectByPost:unconditional",
     "vp.AccessToken:unconditional", "vp.RequestRFC021AccessToken:unconditional",
     "vp.OpenIdCredentialIssuerMetadata:delegates:OpenIdCredentialIssuerMetadata", "vp.VerifiableCredentials:delegates:VerifiableCredentials"] := by decide

/-- the same secret-flag rule guards both configuration loaders (server and CLI client); the dummy means refuses every
    operation in strict mode; IRMA's production mode is the node's strict mode -/
theorem fact_misc_sites :
    Facts.C20.flagSetLoaders = ["core/client_config.go", "core/server_config.go"] ∧
    Facts.C20.strictCondsDummy = ["VerifyVP: d.InStrictMode", "SigningSessionStatus: d.InStrictMode", "StartSigningSession: d.InStrictMode"] ∧
    Facts.C20.irmaProductionExprs = ["n.config.StrictMode"] := by decide

/-- the strict-mode context filter compares with `==`; the notary matches validator names with `strings.EqualFold`,
    never rewrites the configured list, and registers the dummy means only under `… && !StrictMode` (fact_engine_conditions) -/
theorem fact_filter_and_validator_comparisons :
    Facts.C20.contextFilterConds = ["allowedURL == u"] ∧
    Facts.C20.hasContractValidatorConds = ["strings.EqualFold(cv, curr)"] ∧
    Facts.C20.notaryValidatorListRewrites = [] := by decide

/-- engines are configured in this relative order (the model's `start` follows it) -/
theorem fact_engine_order :
    Facts.C20.engineOrder.filter (fun e => ["storageInstance", "cryptoInstance", "vdrInstance", "networkInstance", "authInstance", "httpServerInstance"].contains e) =
      ["storageInstance", "cryptoInstance", "vdrInstance", "networkInstance", "authInstance", "httpServerInstance"] := by decide

/-- exactly these registered flags fall under the secret rule … -/
theorem fact_secret_flags : Facts.C20.registeredFlagsB.filter isSecretFlag =
    [[99, 114, 121, 112, 116, 111, 46, 118, 97, 117, 108, 116, 46, 116, 111, 107, 101, 110],                                  -- crypto.vault.token
     [115, 116, 111, 114, 97, 103, 101, 46, 114, 101, 100, 105, 115, 46, 112, 97, 115, 115, 119, 111, 114, 100],              -- storage.redis.password
     [115, 116, 111, 114, 97, 103, 101, 46, 114, 101, 100, 105, 115, 46, 115, 101, 110, 116, 105, 110, 101, 108, 46, 112, 97, 115, 115, 119, 111, 114, 100],   -- storage.redis.sentinel.password
     [115, 116, 111, 114, 97, 103, 101, 46, 115, 101, 115, 115, 105, 111, 110, 46, 114, 101, 100, 105, 115, 46, 112, 97, 115, 115, 119, 111, 114, 100]]        -- storage.session.redis.password
    := by decide

/-- … every flag name was resolved by the extractor (no `?` entries) -/
theorem fact_flags_resolved : Facts.C20.registeredFlagsB.all (fun f => f.head? ≠ some 63) = true := by decide

/-- stated limit (not claimed): the code's own list of redacted (secret) keys; `storage.sql.connection` — a DSN that can
    carry a password — is redacted when the configuration is printed but is NOT covered by the command-line rule -/
theorem fact_redacted_keys : Facts.C20.redactedConfigKeys =
    ["crypto.vault.token", "storage.redis.password", "storage.redis.sentinel.password", "storage.sql.connection"] := by decide

/-- non-vacuity: a fully secure strict configuration starts; the same with one insecure setting does not; the all-insecure
    configuration starts with strict mode off -/
def secureCfg : Config :=
  { strict := true, url := [104, 116, 116, 112, 115, 58, 47, 47, 110, 117, 116, 115, 46, 110, 108], tls := true, nuts := true, web := true,
    cryptoStorage := .explicit, sqlExplicit := true, dummy := true, irmaPbdf := true, movedKey := false }
def sloppyCfg : Config :=
  { strict := false, url := [104, 116, 116, 112, 58, 47, 47, 49, 46, 50, 46, 51, 46, 52], tls := false, nuts := true, web := true,
    cryptoStorage := .implicit, sqlExplicit := false, dummy := true, irmaPbdf := false, movedKey := false }


/-! ### strict mode refuses every documented insecure setting, whatever the other options are -/

/-- **strict_refuses.** With strict mode on, each documented insecure setting — public URL not https / an IP address / a
    reserved host, network TLS off (network enabled), implicit key storage, implicit SQL database, non-production IRMA
    scheme — makes start-up fail, for EVERY value of all the other options (including arbitrary URL bytes, moved keys,
    command-line flags): no combination masks the refusal. -/
theorem strict_refuses (c : Config) (hs : c.strict = true) (i : Insecure) (hi : hasInsecure tlds l2s i c = true) :
    (start tlds l2s c).isRefuse = true :=
  strict_refuses_aux tlds l2s c hs i hi

/-- … and when the setting is the ONLY reason to refuse, the node says so: the reason is the documented one -/
theorem strict_refuses_with_reason (c : Config) (hs : c.strict = true) (i : Insecure)
    (hi : hasInsecure tlds l2s i c = true) (honly : ∀ j, j ≠ i → hasInsecure tlds l2s j c = false)
    (hf : c.cliFlags.any isSecretFlag = false) (hk : c.movedKey = false) (hc : c.cryptoStorage ≠ .invalid)
    (hm : c.nuts = true ∨ c.web = true)
    (hu : c.url ≠ [] ∧ ∃ u, parseURL c.url = .ok u ∧ u.scheme ≠ [] ∧ hostname u.host ≠ []) :
    ∃ e, start tlds l2s c = .refuse e (reasonOf i) :=
  strict_reason_aux tlds l2s c hs i hi honly hf hk hc hm hu

/-- **the strict-mode decision table.** For every well-formed configuration (URL parses with scheme and host, a DID method
    enabled, known crypto backend or none, no moved keys / command-line secrets) strict-mode start-up is exactly this
    decision list over the seven insecure settings: refused iff at least one is present, with the first one's reason. -/
theorem strict_decision_table (c : Config) (hs : c.strict = true)
    (hf : c.cliFlags.any isSecretFlag = false) (hk : c.movedKey = false) (hc : c.cryptoStorage ≠ .invalid)
    (hm : c.nuts = true ∨ c.web = true)
    (hu : c.url ≠ [] ∧ ∃ u, parseURL c.url = .ok u ∧ u.scheme ≠ [] ∧ hostname u.host ≠ []) :
    start tlds l2s c =
      if hasInsecure tlds l2s .sqlImplicit c then .refuse "storage" "sql-implicit" else
      if hasInsecure tlds l2s .cryptoImplicit c then .refuse "crypto" "crypto-implicit" else
      if hasInsecure tlds l2s .urlNotHttps c then .refuse "vdr" "url:scheme" else
      if hasInsecure tlds l2s .urlIP c then .refuse "vdr" "url:ip" else
      if hasInsecure tlds l2s .urlReserved c then .refuse "vdr" "url:reserved" else
      if hasInsecure tlds l2s .tlsOff c then .refuse "network" "tls-off" else
      if hasInsecure tlds l2s .irmaNonProduction c then .refuse "auth" "irma-scheme" else
      .ok { dummyMeans := false, unlistedRemoteContexts := false, clientStrict := true } :=
  start_strict_formula tlds l2s c hs hf hk hc hm hu

/-- per-action settings in strict mode: a node that did start has no dummy signing means, fetches no JSON-LD context
    outside the allow-list, and its HTTP clients are in strict mode -/
theorem strict_running (c : Config) (hs : c.strict = true) (r : Running) (h : start tlds l2s c = .ok r) :
    r.dummyMeans = false ∧ r.unlistedRemoteContexts = false ∧ r.clientStrict = true := by
  have := start_ok_running tlds l2s c r h
  subst this; simp [hs]

/-- interpretation made explicit: with `didmethods` lacking `nuts` the network engine is disabled and "TLS off" is not
    an insecure setting of that configuration (there is no network TLS to switch off) -/
theorem tls_off_network_disabled (c : Config) (hn : c.nuts = false) :
    networkConfigure c = none ∧ hasInsecure tlds l2s .tlsOff c = false := by
  simp [networkConfigure, hasInsecure, hn]

/-! ### … and accepts them with strict mode off -/

/-- **lenient_accepts.** With strict mode off, ANY combination of the insecure settings is accepted: the node starts
    provided only that the configuration is well-formed (URL parses as http/https with a host, a DID method is enabled,
    crypto.storage is a known backend or empty, no moved keys / command-line secrets) — plain http, IP addresses,
    reserved hosts, TLS off, implicit storage, dummy means and a demo IRMA scheme included. -/
theorem lenient_accepts (c : Config) (hs : c.strict = false) (h : Bytes)
    (hu : c.url ≠ [] ∧ parsePublicURL tlds l2s c.url false = .ok h) (hm : c.nuts = true ∨ c.web = true)
    (hc : c.cryptoStorage ≠ .invalid) (hk : c.movedKey = false) (hf : c.cliFlags.any isSecretFlag = false) :
    start tlds l2s c = .ok { dummyMeans := c.dummy, unlistedRemoteContexts := true, clientStrict := false } :=
  lenient_accepts_aux tlds l2s c hs h hu hm hc hk hf

/-- lenient URL parsing accepts what strict mode refuses: http, an IP address, localhost -/
example : parsePublicURL tlds l2s [104, 116, 116, 112, 58, 47, 47, 110, 117, 116, 115, 46, 110, 108] false = .ok [110, 117, 116, 115, 46, 110, 108] ∧   -- http://nuts.nl
    parsePublicURL tlds l2s [104, 116, 116, 112, 58, 47, 47, 110, 117, 116, 115, 46, 110, 108] true = .err "scheme" ∧
    parsePublicURL tlds l2s [104, 116, 116, 112, 115, 58, 47, 47, 49, 46, 50, 46, 51, 46, 52] false = .ok [49, 46, 50, 46, 51, 46, 52] ∧                    -- https://1.2.3.4
    parsePublicURL tlds l2s [104, 116, 116, 112, 115, 58, 47, 47, 49, 46, 50, 46, 51, 46, 52] true = .err "ip" ∧
    parsePublicURL tlds l2s [104, 116, 116, 112, 115, 58, 47, 47, 108, 111, 99, 97, 108, 104, 111, 115, 116] true = .err "reserved" ∧                       -- https://localhost
    parsePublicURL tlds l2s [104, 116, 116, 112, 115, 58, 47, 47, 110, 117, 116, 115, 46, 110, 108] true = .ok [110, 117, 116, 115, 46, 110, 108] := by      -- https://nuts.nl
  refine ⟨?_, ?_, ?_, ?_, ?_, ?_⟩ <;> decide

example : start tlds l2s secureCfg = .ok { dummyMeans := false, unlistedRemoteContexts := false, clientStrict := true } ∧
    start tlds l2s { secureCfg with tls := false } = .refuse "network" "tls-off" ∧
    start tlds l2s { secureCfg with sqlExplicit := false } = .refuse "storage" "sql-implicit" ∧
    start tlds l2s sloppyCfg = .ok { dummyMeans := true, unlistedRemoteContexts := true, clientStrict := false } ∧
    start tlds l2s { sloppyCfg with strict := true } = .refuse "storage" "sql-implicit" := by
  refine ⟨?_, ?_, ?_, ?_, ?_⟩ <;> decide

/-! ### remote JSON-LD contexts and test-only means, in detail -/

/-- **remote_contexts_exact.** In strict mode a context URL that is not, byte for byte, an entry of the allow-list never
    gets past the filter (so it is never fetched) — for every allow-list and every URL; with strict mode off every URL passes. -/
theorem remote_contexts_exact (allow : List Bytes) (u : Bytes) :
    (u ∉ allow → contextPasses true allow u = false) ∧ (u ∈ allow → contextPasses true allow u = true) ∧
    contextPasses false allow u = true := by
  refine ⟨?_, ?_, ?_⟩ <;> simp [contextPasses]

/-- why the comparison is pinned: under a prefix rule `https://schema.org.attacker.example/ctx` would pass a list that
    contains `https://schema.org`, under equality it does not -/
theorem remote_context_prefix_witness :
    let allow : List Bytes := [[104, 116, 116, 112, 115, 58, 47, 47, 115, 99, 104, 101, 109, 97, 46, 111, 114, 103]]            -- https://schema.org
    let u : Bytes := [104, 116, 116, 112, 115, 58, 47, 47, 115, 99, 104, 101, 109, 97, 46, 111, 114, 103, 46, 97, 116, 116, 97, 99, 107, 101, 114,
                      46, 101, 120, 97, 109, 112, 108, 101, 47, 99, 116, 120]                                                    -- https://schema.org.attacker.example/ctx
    contextPassesPrefix allow u = true ∧ contextPasses true allow u = false := by decide

/-- the dummy means is recognised in every spelling (`Dummy`, `DUMMY`, …), and a strict node offers it in none of them -/
theorem dummy_any_spelling (c : Config) (hs : c.strict = true) (r : Running) (h : start tlds l2s c = .ok r) :
    r.dummyMeans = false ∧
    hasValidator [100, 117, 109, 109, 121] [[68, 85, 77, 77, 89]] = true ∧ hasValidator [100, 117, 109, 109, 121] [[68, 117, 109, 109, 121]] = true := by
  refine ⟨(strict_running c hs r h).1, by decide, by decide⟩

/-! ### moved keys and command-line secrets: either mode -/

/-- **moved_keys_refused.** A moved key stops start-up in either mode, before any engine is configured -/
theorem moved_keys_refused (c : Config) (hk : c.movedKey = true) :
    start tlds l2s c = .refuse "load" "moved-keys" ∨ start tlds l2s c = .refuse "load" "cli-secret" := by
  unfold start load
  by_cases hf : c.cliFlags.any isSecretFlag = true
  · right; simp [hf]
  · left; simp [hf, hk]

/-- **cli_secrets_refused.** Any flag under the secret rule set on the command line stops start-up in either mode -/
theorem cli_secrets_refused (c : Config) (f : Bytes) (hf : f ∈ c.cliFlags) (hsec : isSecretFlag f = true) :
    start tlds l2s c = .refuse "load" "cli-secret" := by
  have : c.cliFlags.any isSecretFlag = true := List.any_eq_true.mpr ⟨f, hf, hsec⟩
  simp [start, load, this]

/-- non-vacuity: the strict and the lenient node both refuse `--crypto.vault.token` and a moved key -/
example : start tlds l2s { secureCfg with cliFlags := [[99, 114, 121, 112, 116, 111, 46, 118, 97, 117, 108, 116, 46, 116, 111, 107, 101, 110]] }
      = .refuse "load" "cli-secret" ∧
    start tlds l2s { sloppyCfg with movedKey := true } = .refuse "load" "moved-keys" := by
  refine ⟨?_, ?_⟩ <;> decide

/-! ### outbound requests -/

/-- **outbound_https_only.** In strict mode every request a http/client client makes — the first one and every redirect
    hop, whatever the servers answer — is https (policy read off the regenerated facts) -/
theorem outbound_https_only (srv : Nat → Req → Option Resp) (first : Req) :
    ∀ r ∈ (strictDo (clientPolicy true 10) true srv first).1, r.scheme = sHttps :=
  outbound_https_aux srv first

/-- a client built by an engine BEFORE strict mode was switched on (real start-up order) is strict once the node runs:
    it does not follow https -> http; with the flag captured at construction it would (the reason the fact matters) -/
theorem early_client_strict (c : Config) (hs : c.strict = true) :
    earlyClientFollowsHttp Facts.C20.checkRedirectReadsGlobalAtCallTime c = false ∧ earlyClientFollowsHttp false c = true := by
  simp [earlyClientFollowsHttp, hs, fact_redirect_check_reads_global]

/-- **IAM endpoints.** On a strict node the IAM client refuses — as an endpoint, before any request — every endpoint URL
    that is not https, names an IP address or a reserved host (all URL bytes) -/
theorem iam_endpoints_strict (c : Config) (hs : c.strict = true) (endpoint : Bytes) (u : URL) (hp : parseURL endpoint = .ok u)
    (hbad : u.scheme ≠ sHttpsB ∨ isIP (hostname u.host) = true ∨ isReserved tlds l2s (hostname u.host) = .ok true) :
    iamEndpoint tlds l2s (Facts.C20.authStrictModeAssignments == ["config.Strictmode"]) c endpoint = "refused-endpoint" := by
  obtain ⟨e, he⟩ := parsePublicURL_strict_err tlds l2s endpoint u hp hbad
  have : iamStrict (Facts.C20.authStrictModeAssignments == ["config.Strictmode"]) c = true := by
    have h := fact_iam_strictmode.1
    simp [iamStrict, hs, h]
  simp [iamEndpoint, this, he]

/-- every outbound call of the IAM client on a strict node: an endpoint that is not https, names an IP address or a
    reserved host is refused as an endpoint, whatever the method (checked per the inventory), before any request -/
theorem iam_calls_strict (c : Config) (hs : c.strict = true) (needsSubject : Bool) (endpoint : Bytes) (u : URL)
    (hp : parseURL endpoint = .ok u)
    (hbad : u.scheme ≠ sHttpsB ∨ isIP (hostname u.host) = true ∨ isReserved tlds l2s (hostname u.host) = .ok true) :
    iamCall tlds l2s (Facts.C20.authStrictModeAssignments == ["config.Strictmode"]) c true needsSubject endpoint = "refused-endpoint" := by
  have h := iam_endpoints_strict c hs endpoint u hp hbad
  unfold iamCall
  simp only [Bool.and_true, h]
  simp

/-- without the assignment (the code before the repair) the check ran lenient: an https://127.0.0.1 endpoint was contacted
    by a strict node, and a plain-http endpoint was stopped only by the HTTP client -/
theorem iam_endpoint_witness :
    iamEndpoint tlds l2s false secureCfg [104, 116, 116, 112, 115, 58, 47, 47, 49, 50, 55, 46, 48, 46, 48, 46, 49, 47] = "sent" ∧      -- https://127.0.0.1/
    iamEndpoint tlds l2s false secureCfg [104, 116, 116, 112, 58, 47, 47, 99, 47] = "refused-client" ∧                                   -- http://c/
    iamEndpoint tlds l2s true secureCfg [104, 116, 116, 112, 115, 58, 47, 47, 49, 50, 55, 46, 48, 46, 48, 46, 49, 47] = "refused-endpoint" := by
  refine ⟨?_, ?_, ?_⟩ <;> decide

/-- with strict mode off the same client does follow a redirect to plain http (lenient accepts) -/
theorem lenient_follows_http :
    let srv : Nat → Req → Option Resp := fun hop _ =>
      if hop = 0 then some { status := 302, loc := [104, 116, 116, 112, 58, 47, 47, 98, 47] } else some { status := 200 }   -- http://b/
    ∃ r ∈ (strictDo (clientPolicy true 10) false srv { scheme := sHttps, host := [97], path := [47] }).1, r.scheme = sHttp := by
  refine ⟨{ scheme := sHttp, host := [98], path := [47] }, ?_, rfl⟩
  decide

/-! ### each refusal depends only on its own options -/

/-- no option of another engine can change an engine's verdict -/
theorem refusals_independent (c c' : Config) (hs : c.strict = c'.strict) :
    (c.sqlExplicit = c'.sqlExplicit → storageConfigure c = storageConfigure c') ∧
    (c.cryptoStorage = c'.cryptoStorage → cryptoConfigure c = cryptoConfigure c') ∧
    (c.url = c'.url → c.nuts = c'.nuts → c.web = c'.web → vdrConfigure tlds l2s c = vdrConfigure tlds l2s c') ∧
    (c.tls = c'.tls → c.nuts = c'.nuts → networkConfigure c = networkConfigure c') ∧
    (c.irmaPbdf = c'.irmaPbdf → authConfigure c = authConfigure c') := by
  refine ⟨?_, ?_, ?_, ?_, ?_⟩
  · intro h; simp [storageConfigure, hs, h]
  · intro h; simp [cryptoConfigure, hs, h]
  · intro h1 h2 h3; simp [vdrConfigure, hs, h1, h2, h3]
  · intro h1 h2; simp [networkConfigure, hs, h1, h2]
  · intro h; simp [authConfigure, hs, h]

/-! ### Deepening round 2026-09-28 — the response cap of http/client (byte level; model NutsModel/C20/Outbound.lean) -/

/-- the cap, the reader limit and the size comparison are REGENERATED as Lean definitions from `limitedReadAll`; `Do`
    reads the final body through it and hands out the bytes read -/
theorem fact_response_cap :
    Facts.C20.maxResponseSize = 1048576 ∧ Facts.C20.responseReadLimit = Facts.C20.maxResponseSize + 1 ∧
    (∀ n, Facts.C20.responseTooLarge n = decide (n > Facts.C20.maxResponseSize)) ∧
    Facts.C20.limitedReadAllShape =
      ["result, err := io.ReadAll(io.LimitReader(reader, DefaultMaxHttpResponseSize+1))", "if len(result) > DefaultMaxHttpResponseSize {",
       "return nil, fmt.Errorf(\"data to read exceeds max. safety limit of %d bytes\", DefaultMaxHttpResponseSize)", "}", "return result, err"] ∧
    Facts.C20.clientDoShape =
      ["if StrictMode && req.URL.Scheme != \"https\" {", "return nil, errors.New(\"strictmode is enabled, but request is not over HTTPS\")", "}",
       "req.Header.Set(\"User-Agent\", core.UserAgent())", "result, err := s.client.Do(req)", "if err != nil {", "return nil, err", "}",
       "if result.Body != nil {", "body, err := limitedReadAll(result.Body)", "if err != nil {", "return nil, err", "}",
       "result.Body = io.NopCloser(bytes.NewReader(body))", "}", "return result, nil"] :=
  ⟨by decide, rfl, fun _ => rfl, by decide, by decide⟩

theorem facts_cap_params : Facts.C20.responseReadLimit = 1048576 + 1 ∧ Facts.C20.responseTooLarge = fun n => decide (n > 1048576) :=
  ⟨by decide, by funext n; simp [Facts.C20.responseTooLarge, Facts.C20.maxResponseSize]⟩

/-- **response_cap_exact.** `limitedReadAll` with the regenerated cap / limit / comparison, for EVERY body the server sends:
    a body of at most 1 MiB is handed out complete, a longer one is an error — never a silently truncated body -/
theorem response_cap_exact (wire : Bytes) :
    limitedReadAll Facts.C20.responseReadLimit Facts.C20.responseTooLarge wire =
      if wire.length ≤ 1048576 then .ok wire else .err "http:toolarge" := by
  rw [facts_cap_params.1, facts_cap_params.2]; exact limitedReadAll_exact 1048576 wire

theorem response_never_truncated (wire r : Bytes)
    (h : limitedReadAll Facts.C20.responseReadLimit Facts.C20.responseTooLarge wire = .ok r) : r = wire ∧ r.length ≤ 1048576 := by
  rw [response_cap_exact] at h
  by_cases hl : wire.length ≤ 1048576
  · simp [hl] at h; subst h; exact ⟨rfl, hl⟩
  · simp [hl] at h

example : limitedReadAll Facts.C20.responseReadLimit Facts.C20.responseTooLarge [1, 2, 3] = .ok [1, 2, 3] := by
  rw [response_cap_exact]; rfl

/-- why the reader limit must be cap + 1: with `LimitReader(reader, cap)` a body one byte over the cap would be handed
    out truncated and WITHOUT an error (witness with cap = 2) -/
theorem reader_limit_witness :
    limitedReadAll 2 (fun n => decide (n > 2)) [1, 2, 3] = .ok [1, 2] ∧
    limitedReadAll (2 + 1) (fun n => decide (n > 2)) [1, 2, 3] = .err "http:toolarge" := by decide

/-- **do_bytes_refines.** The byte-level `Do` (regenerated cap) refines C18's abstract `strictDo`: same requests, and the
    outcome is the abstract outcome where "body above 1 MiB" is C18's `Body.big` — for every policy, mode, server and request -/
theorem do_bytes_refines (pol : Policy) (strict : Bool) (srv : Nat → Req → Option (Resp × Bytes)) (req : Req) :
    strictDo pol strict (absSrv 1048576 srv) req =
      ((strictDoBytes pol strict Facts.C20.responseReadLimit Facts.C20.responseTooLarge srv req).1,
       absRes 1048576 (strictDoBytes pol strict Facts.C20.responseReadLimit Facts.C20.responseTooLarge srv req).2) := by
  rw [facts_cap_params.1, facts_cap_params.2]; exact strictDoBytes_refines 1048576 pol strict srv req

/-- **do_body_bounded.** Whatever the servers answer, in either mode: a response `Do` returns carries at most 1 MiB and
    exactly the bytes the answering server sent -/
theorem do_body_bounded (pol : Policy) (strict : Bool) (srv : Nat → Req → Option (Resp × Bytes)) (req : Req)
    (reqs : List Req) (resp : Resp) (body : Bytes)
    (h : strictDoBytes pol strict Facts.C20.responseReadLimit Facts.C20.responseTooLarge srv req = (reqs, .ok (resp, body))) :
    body.length ≤ 1048576 ∧ clientLoopB pol strict srv req (pol.maxRedirects + 2) [] req = (reqs, .ok (resp, body)) := by
  rw [facts_cap_params.1, facts_cap_params.2] at h; exact strictDoBytes_ok 1048576 pol strict srv req reqs resp body h

/-- **outbound_https_only_bytes.** `outbound_https_only` carried down the refinement: the byte-level strict client makes
    https requests only -/
theorem outbound_https_only_bytes (srv : Nat → Req → Option (Resp × Bytes)) (first : Req) :
    ∀ r ∈ (strictDoBytes (clientPolicy true 10) true Facts.C20.responseReadLimit Facts.C20.responseTooLarge srv first).1,
      r.scheme = sHttps := by
  have h := do_bytes_refines (clientPolicy true 10) true srv first
  have h1 := congrArg Prod.fst h
  simp only at h1
  rw [← h1]
  exact outbound_https_aux (absSrv 1048576 srv) first

example : (strictDoBytes (clientPolicy true 10) true Facts.C20.responseReadLimit Facts.C20.responseTooLarge
    (fun _ _ => some ({ status := 200 }, [1, 2, 3])) { scheme := sHttps, host := [110, 108], path := [47] }).2 =
      .ok ({ status := 200 }, [1, 2, 3]) := by decide

/-! ### Deepening round 2026-09-28 — where the options come from (model NutsModel/C20/Sources.lean) -/

/-- the loader's constants, read off the source -/
def rules : EnvRules := { pre := Facts.C20.envPrefix, envDelim := 95, delim := 46, sep := 44, esc := 92 }
abbrev srcOrder : List Source := sourceOrderOf Facts.C20.loadSourceOrder
abbrev kStrict : Bytes := resolveStrict.sStrictmodeKey
abbrev loadOrder : List LoadStep := loadStepsOf Facts.C20.loadSourceOrder Facts.C20.loadSteps

set_option maxRecDepth 4096 in
/-- prefix NUTS_, "_" -> ".", list separator "," escaped by a backslash; sources are loaded file, environment, command
    line; the flag provider gets the map (flags that were not given do not overwrite); shapes of the callbacks -/
theorem fact_config_sources :
    Facts.C20.envPrefix = [78, 85, 84, 83, 95] ∧ Facts.C20.envDelimiter = [rules.envDelim] ∧ Facts.C20.keyDelimiter = [rules.delim] ∧
    Facts.C20.listSeparator = [rules.sep] ∧ Facts.C20.listEscape = [rules.esc] ∧
    Facts.C20.loadSourceOrder = ["loadFromFile", "loadFromEnv", "loadFromFlagSet"] ∧ srcOrder = [.file, .env, .cli] ∧
    Facts.C20.flagProviderCalls = ["posflag.Provider(flags, defaultDelimiter, configMap)"] ∧
    Facts.C20.envKeyExpr = "strings.Replace(strings.ToLower(strings.TrimPrefix(rawKey, defaultEnvPrefix)), defaultEnvDelimiter, defaultDelimiter, -1)" ∧
    Facts.C20.envValueShape.drop 1 = ["values := splitWithEscaping(rawValue, configValueListSeparator, \"\\\\\")",
      "for i, value := range values { values[i] = strings.TrimSpace(value) }", "if len(values) == 1 {", "return key, values[0]", "}", "return key, values"] ∧
    Facts.C20.splitWithEscapingShape = ["s = strings.ReplaceAll(s, escape+separator, \"\\x00\")", "tokens := strings.Split(s, separator)",
      "for i, token := range tokens { tokens[i] = strings.ReplaceAll(token, \"\\x00\", separator) }", "return tokens"] :=
  ⟨by decide, by decide, by decide, by decide, by decide, by decide, by decide, by decide, by decide, by decide, by decide⟩

/-- the checks of `ServerConfig.Load` in source order, and the logger formats it accepts -/
theorem fact_load_steps :
    loadOrder = [.configFile, .env, .cliSecret, .unmarshal, .movedKeys, .verbosity, .loggerFormat] ∧
    Facts.C20.loadSteps.length = 6 ∧ Facts.C20.loggerFormats = [[116, 101, 120, 116], [106, 115, 111, 110]] := by decide

/-- **source_precedence.** For every key, environment and value: the command line wins over the environment wins over the
    config file (order regenerated from `loadConfigMap`) -/
theorem source_precedence (key : Bytes) (src : Sources) :
    resolveRaw rules srcOrder key src =
      match src.cli with
      | some v => some v
      | none => match envLookup rules key src.env with
        | some v => some v
        | none => src.file := by
  rw [fact_config_sources.2.2.2.2.2.2.1]; exact resolveRaw_precedence rules key src

/-- **strict_only_off_when_told.** Strict mode (default regenerated: on) resolves to OFF only if one of the three sources
    carries a value for `strictmode` that converts to false — all files, environments (any spelling, any value) and flags -/
theorem strict_only_off_when_told (src : Sources)
    (h : resolveStrict rules srcOrder Facts.C20.defaultStrictmode src = .ok false) :
    ∃ s r, sourceValue rules kStrict src s = some r ∧ toBool r = .ok false := by
  unfold resolveStrict at h
  cases hr : resolveRaw rules srcOrder kStrict src with
  | none => rw [hr] at h; simp [fact_default_strict] at h
  | some r =>
    rw [hr] at h
    rw [fact_config_sources.2.2.2.2.2.2.1] at hr
    obtain ⟨s, hs⟩ := resolveRaw_some_source rules kStrict src r hr
    exact ⟨s, r, hs, h⟩

/-- **command_line_strict_wins.** `--strictmode` on the command line cannot be undone by the environment or the file -/
theorem command_line_strict_wins (src : Sources) (hc : src.cli = some (.b true)) :
    resolveStrict rules srcOrder Facts.C20.defaultStrictmode src = .ok true := by
  unfold resolveStrict
  rw [source_precedence, hc]; rfl

/-- **sources_to_decision** (configuration text -> decision). If no source carries a `strictmode` value that converts to
    false, then the node whose strict mode was resolved from those sources refuses EVERY documented insecure setting,
    whatever all other options are -/
theorem sources_to_decision (src : Sources) (c : Config)
    (hres : resolveStrict rules srcOrder Facts.C20.defaultStrictmode src = .ok c.strict)
    (hnf : ∀ s r, sourceValue rules kStrict src s = some r → toBool r ≠ .ok false)
    (i : Insecure) (hi : hasInsecure tlds l2s i c = true) : (start tlds l2s c).isRefuse = true := by
  have hs : c.strict = true := by
    cases hcs : c.strict with
    | true => rfl
    | false =>
      rw [hcs] at hres
      obtain ⟨s, r, h1, h2⟩ := strict_only_off_when_told src hres
      exact absurd h2 (hnf s r h1)
  exact strict_refuses c hs i hi

/-- non-vacuity: an environment that says "true" in an odd spelling, a file that says false -/
example : resolveStrict rules srcOrder Facts.C20.defaultStrictmode
    { file := some (.b false), env := [([78, 85, 84, 83, 95, 83, 116, 114, 105, 99, 116, 77, 111, 100, 101], [32, 84, 82, 85, 69, 32])] } = .ok true := by decide
/-- and the environment switching strict mode off, with a trimmed value -/
example : resolveStrict rules srcOrder Facts.C20.defaultStrictmode
    { env := [([78, 85, 84, 83, 95, 83, 84, 82, 73, 67, 84, 77, 79, 68, 69], [32, 102, 97, 108, 115, 101, 32])] } = .ok false := by decide
/-- a name without the exact prefix is not a source -/
example : resolveStrict rules srcOrder Facts.C20.defaultStrictmode
    { env := [([110, 117, 116, 115, 95, 115, 116, 114, 105, 99, 116, 109, 111, 100, 101], [102, 97, 108, 115, 101])] } = .ok true := by decide

/-- **env_key_normal.** Every environment name maps to a key without "_" and without ASCII upper-case letters -/
theorem env_key_normal (raw : Bytes) (c : Nat) (h : c ∈ envKey rules.pre rules.envDelim rules.delim raw) :
    c ≠ 95 ∧ ¬ (65 ≤ c ∧ c ≤ 90) := envKey_normal rules.pre raw c h

/-- NUTS_NETWORK_CERTFILE is the moved key network.certfile -/
example : envKey rules.pre rules.envDelim rules.delim [78, 85, 84, 83, 95, 78, 69, 84, 87, 79, 82, 75, 95, 67, 69, 82, 84, 70, 73, 76, 69] =
    [110, 101, 116, 119, 111, 114, 107, 46, 99, 101, 114, 116, 102, 105, 108, 101] := by decide

/-- **env_list_plain.** A value without backslash (and NUL) is split at every comma -/
theorem env_list_plain (s : Bytes) (h1 : 92 ∉ s) (h0 : 0 ∉ s) : splitWithEscaping rules.sep rules.esc s = splitOn 44 s :=
  splitWithEscaping_plain 44 92 s h1 h0

/-- `a\,b,c` is the list ["a,b", "c"]; `" false "` is the string "false" -/
example : envValue rules.sep rules.esc [97, 92, 44, 98, 44, 99] = .l [[97, 44, 98], [99]] ∧
    envValue rules.sep rules.esc [32, 102, 97, 108, 115, 101, 32] = .s [102, 97, 108, 115, 101] := by decide

/-- **load_check_order.** `Load` with the regenerated step order, every input: an unreadable config file, then a secret on
    the command line, then a value of the wrong type, then a moved key, then the log settings -/
theorem load_check_order (i : LoadIn) :
    loadFull loadOrder Facts.C20.loggerFormats i =
      if i.badConfigFile then some "config-file" else
      if i.cliFlags.any isSecretFlag then some "cli-secret" else
      if i.unmarshalFails then some "unmarshal" else
      if i.movedKey then some "moved-keys" else
      if !i.verbosityOk then some "verbosity" else
      if !Facts.C20.loggerFormats.contains i.loggerFormat then some "loggerformat" else none := by
  rw [fact_load_steps.1]; exact loadFull_order _ i

/-- **load_full_refines_load.** The complete `Load` refines the abstract `load` of the start-up model: with a readable
    file, well-typed values and valid log settings they refuse the same configurations for the same reason -/
theorem load_full_refines_load (c : Config) :
    loadFull loadOrder Facts.C20.loggerFormats { cliFlags := c.cliFlags, movedKey := c.movedKey } = (load c).map (·.2) := by
  rw [load_check_order]
  unfold load
  cases (c.cliFlags.any isSecretFlag) <;> cases c.movedKey <;> simp <;> decide

/-! ### Deepening round 2026-09-28 — crypto back-end names and the TLS file options (model NutsModel/C20/Engines.lean) -/

/-- the names `crypto.Configure`'s switch accepts (case list + the StorageType constants of the back-end packages), and
    `TLSConfig.Enabled` regenerated as a definition: certificate OR key configured (the trust store does not count) -/
theorem fact_crypto_backends_tls_enabled :
    Facts.C20.cryptoBackendNames = [[102, 115], [118, 97, 117, 108, 116, 107, 118],
      [97, 122, 117, 114, 101, 45, 107, 101, 121, 118, 97, 117, 108, 116], [101, 120, 116, 101, 114, 110, 97, 108]] ∧
    Facts.C20.tlsEnabled = fun a b _ => decide (a > 0 ∨ b > 0) := ⟨by decide, rfl⟩

/-- **crypto_backend_exact.** In strict mode the crypto engine accepts a `crypto.storage` value iff it is, byte for byte,
    one of the back-end names of the switch (no case folding, no trimming; the empty name is the implicit back-end) -/
theorem crypto_backend_exact (c : Config) (hs : c.strict = true) (v : Bytes) :
    cryptoConfigure { c with cryptoStorage := classifyStorage Facts.C20.cryptoBackendNames v } = none ↔
      v ∈ Facts.C20.cryptoBackendNames := by
  unfold cryptoConfigure classifyStorage
  by_cases h : v ∈ Facts.C20.cryptoBackendNames
  · simp [h]
  · by_cases he : v = []
    · subst he; simp [h, hs]
    · simp [h, he]

example : classifyStorage Facts.C20.cryptoBackendNames [70, 83] = .invalid ∧ classifyStorage Facts.C20.cryptoBackendNames [102, 115] = .explicit ∧
    classifyStorage Facts.C20.cryptoBackendNames [] = .implicit := by decide

/-- **start_files_refines.** Start-up over the three tls.* file options (regenerated `Enabled`) refines `start` whenever
    the TLS settings are complete or absent: `tls` of the abstract model IS `TLSConfig.Enabled()` -/
theorem start_files_refines (c : Config) (f : TLSFiles) (hc : f.consistent = true) :
    startFiles Facts.C20.tlsEnabled tlds l2s c f = start tlds l2s { c with tls := Facts.C20.tlsEnabled f.certLen f.keyLen f.trustLen } := by
  rw [fact_crypto_backends_tls_enabled.2]; exact startFiles_refines tlds l2s c f hc

/-- **tls_never_half.** Every configuration, either mode: a node that starts has either the complete TLS material
    (certificate, key, trust store, all valid) or no certificate and no key at all — and the latter, on a strict node, only
    with the network engine disabled. A trust store alone does not count as TLS -/
theorem tls_never_half (c : Config) (f : TLSFiles) (r : Running) (h : startFiles Facts.C20.tlsEnabled tlds l2s c f = .ok r) :
    (f.certLen > 0 ∧ f.keyLen > 0 ∧ f.trustLen > 0 ∧ f.valid = true) ∨ (f.certLen = 0 ∧ f.keyLen = 0 ∧ (c.strict = true → c.nuts = false)) := by
  rw [fact_crypto_backends_tls_enabled.2] at h; exact startFiles_ok tlds l2s c f r h

/-- a strict node with only a trust store configured is refused as "TLS off"; the same files start a lenient node -/
example : startFiles Facts.C20.tlsEnabled tlds l2s secureCfg { certLen := 0, keyLen := 0, trustLen := 9 } = .refuse "network" "tls-off" ∧
    (startFiles Facts.C20.tlsEnabled tlds l2s { secureCfg with strict := false } { certLen := 0, keyLen := 0, trustLen := 9 }).isRefuse = false ∧
    startFiles Facts.C20.tlsEnabled tlds l2s { secureCfg with strict := false } { certLen := 9, keyLen := 0, trustLen := 9 } = .refuse "vcr" "tls-cert" := by
  decide

end Nuts.C20.Props
