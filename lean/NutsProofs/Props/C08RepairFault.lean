/-
  C08 — the repair loop when its own write transactions fail (NutsModel/C08/RepairFault.lean): the in-memory digests are
  repaired all the same, the store is untouched; what is lost is durability (witness).
-/
import NutsProofs.Props.C08
import NutsModel.C08.RepairFault

namespace Nuts.C08.Props
open Nuts Nuts.C08

variable {n : Nat}

/-- the regenerated order inside `writeWithoutLock`: `Updates()`, then `ResetUpdates()`, then the writer — the dirty set
    is forgotten before any Put can fail; and `checkPage` only logs the error of its write transaction -/
theorem fact_repair_fault :
    Facts.C08.writeWithoutLockHead = ["dirties, orphaned := store.tree.Updates()", "store.tree.ResetUpdates()",
      "writer := tx.GetShelfWriter(store.bucketName)"] ∧
    Facts.C08.checkPageWriteOptions = [] ∧
    Facts.C08.checkPageAfterWrite = ["if err != nil { log.Logger().WithError(err).Warnf(\"Failed to run xorTreeRepair check.\") }",
      "if lcEnd > currentLC { f.currentPage = 0 } else { f.currentPage++ }"] := by decide

/-- **Unchanged on fault + same memory.** A `checkPage` whose write transaction fails leaves the store exactly as it was
    and leaves the SAME in-memory state (trees, clock, page counter, circuit) as the `checkPage` that committed. -/
theorem failed_repair_keeps_disk_same_memory (c : Cfg) (lcSeen : Nat) (s : State n) :
    (checkPageFailWith c lcSeen s).disk = s.disk ∧ (checkPageFailWith c lcSeen s).mem = (checkPageWith c lcSeen s).mem := by
  unfold checkPageFailWith checkPageWith
  by_cases hc : s.mem.circuit < 2
  · simp only [hc, if_true, and_self]
  · simp only [hc, if_false]
    cases s.disk.findBetweenLC (s.mem.repairPage * c.pageSize) (s.mem.repairPage * c.pageSize + c.pageSize) with
    | ok txs =>
      simp only []
      by_cases he : xorOps.empty (xorOps.sub (pageXor c.pageSize s.mem.xorTree s.mem.repairPage) (calcXor c.pageSize txs)) = true
      · simp only [he, if_true, and_self]
      · simp only [he, Bool.false_eq_true, if_false, persist, and_self]
    | err e => exact ⟨rfl, rfl⟩
    | panic e => exact ⟨rfl, rfl⟩

/-- the in-memory effect of `checkPage` depends on the store only through the transactions and clock shelves -/
theorem checkPageWith_mem_congr (c : Cfg) (lcSeen : Nat) (a b : State n) (hm : a.mem = b.mem)
    (ht : a.disk.txs = b.disk.txs) (hc : a.disk.clocks = b.disk.clocks) :
    (checkPageWith c lcSeen a).mem = (checkPageWith c lcSeen b).mem := by
  have hf : ∀ x y, a.disk.findBetweenLC x y = b.disk.findBetweenLC x y := by
    intro x y; unfold Disk.findBetweenLC Disk.getTx; rw [ht, hc]
  unfold checkPageWith
  rw [hm]
  by_cases hcirc : b.mem.circuit < 2
  · simp only [hcirc, if_true, hm]
  · simp only [hcirc, if_false]
    rw [hf]
    cases b.disk.findBetweenLC (b.mem.repairPage * c.pageSize) (b.mem.repairPage * c.pageSize + c.pageSize) with
    | ok txs =>
      simp only []
      by_cases he : xorOps.empty (xorOps.sub (pageXor c.pageSize b.mem.xorTree b.mem.repairPage) (calcXor c.pageSize txs)) = true
      · simp only [he, if_true, hm]
      · simp only [he, Bool.false_eq_true, if_false, persist]
    | err e => simp only [hm]
    | panic e => simp only [hm]

theorem checkPageWith_clocks (c : Cfg) (lc : Nat) (s : State n) : (checkPageWith c lc s).disk.clocks = s.disk.clocks := by
  unfold checkPageWith
  split
  · rfl
  · simp only
    split
    · split <;> rfl
    · rfl

/-- `k` runs of `checkPage`, the write transaction of every one of them failing -/
def checkFailN : Nat → State NB → State NB
  | 0, s => s
  | k + 1, s => checkFailN k (checkPageFail cfg s)

theorem checkFailN_tracks (k : Nat) : ∀ (a b : State NB), a.mem = b.mem → a.disk.txs = b.disk.txs → a.disk.clocks = b.disk.clocks →
    (checkFailN k a).mem = (checkN k b).mem ∧ (checkFailN k a).disk = a.disk := by
  induction k with
  | zero => intro a b hm _ _; exact ⟨hm, rfl⟩
  | succ k ih =>
    intro a b hm ht hc
    have f := failed_repair_keeps_disk_same_memory cfg a.mem.lcHigh a
    have m : (checkPageFail cfg a).mem = (checkPage cfg b).mem := by
      unfold checkPageFail checkPage
      rw [f.2, ← hm]
      exact checkPageWith_mem_congr cfg a.mem.lcHigh a b hm ht hc
    have d : (checkPageFail cfg a).disk = a.disk := f.1
    have r := ih (checkPageFail cfg a) (checkPage cfg b) m
      (by rw [d, ht]; exact (checkPageWith_txs cfg _ b).symm)
      (by rw [d, hc]; exact (checkPageWith_clocks cfg _ b).symm)
    exact ⟨r.1, by rw [show checkFailN (k + 1) a = checkFailN k (checkPageFail cfg a) from rfl, r.2, d]⟩

/-- **The repair restores the digests even when none of its write transactions commits.** Corrupt the persisted XOR
    leaf of any existing page, restart, signal twice, let the loop check pages `0 … p` with EVERY write transaction
    failing: `XOR(c)` and `IBLT(c)` for every requested clock are the folds over the stored set again; the store still
    holds what it held (the corrupted leaf included — see the witness below). -/
theorem repair_restores_memory_even_if_commits_fail {s : State NB} (r : Reachable s) (hne : s.disk.txs ≠ []) (p : Nat)
    (hp : p ≤ maxClock s.disk.txs / cfg.pageSize) (v : BitVec 256) :
    let s1 := signalIncorrect (signalIncorrect (restart cfg (corruptDisk s (keyOf cfg.pageSize p) v)))
    (∀ req, xorAt (checkFailN (p + 1) s1) req =
      (specUpTo xorOps cfg.pageSize (refClocks s.disk.txs) req, specClock cfg.pageSize s.disk.txs req)) ∧
    (∀ req, ibltAt (checkFailN (p + 1) s1) req =
      (specUpTo (ibltOps NB) cfg.pageSize (keyClocks s.disk.txs) req, specClock cfg.pageSize s.disk.txs req)) ∧
    (checkFailN (p + 1) s1).disk = s1.disk := by
  intro s1
  have g := repair_restores r hne p hp v
  have t := checkFailN_tracks (p + 1) s1 s1 rfl rfl rfl
  refine ⟨fun req => ?_, fun req => ?_, t.2⟩
  · have := g.2.2.xor req
    unfold xorAt at this ⊢
    rw [t.1]; exact this
  · have := g.2.2.iblt req
    unfold ibltAt at this ⊢
    rw [t.1]; exact this

/-- a failing repair on a healthy state is the same as a committing one (there is nothing to write) -/
theorem failed_repair_idle_on_healthy_state {s : State NB} (r : Reachable s) (lcSeen : Nat) :
    checkPageFailWith cfg lcSeen s = checkPageWith cfg lcSeen s := by
  have f := failed_repair_keeps_disk_same_memory cfg lcSeen s
  have c := (reachable_inv r).checkPageWith cfg_good lcSeen
  cases hA : checkPageFailWith cfg lcSeen s with
  | mk dA mA =>
    cases hB : checkPageWith cfg lcSeen s with
    | mk dB mB =>
      rw [hA] at f; rw [hB] at f c
      simp only at f c
      rw [f.1, f.2, c.2.1]

/-! ### non-vacuity and the durability witness -/

def exS1 : State NB := (add cfg (State.init cfg) exRoot {}).1
def exBroken : State NB := signalIncorrect (signalIncorrect (restart cfg (corruptDisk exS1 (keyOf cfg.pageSize 0) 5#256)))

/-- the hypotheses are met; the corrupted state answers wrongly; one failing check repairs the answer -/
example : exS1.disk.txs ≠ [] ∧ (xorAt exBroken 0).1 ≠ (xorAt exS1 0).1 ∧
    (xorAt (checkFailN 1 exBroken) 0).1 = (xorAt exS1 0).1 := by decide

/-- **What a failing repair loses: durability.** After the failing check the in-memory page is right and its dirty mark
    is gone, so later checks find nothing to write; the corrupted leaf is still in the store and is back after the next
    restart (until the loop is triggered again or an `Add` on that page rewrites the leaf). The committing check heals
    the store. -/
theorem failed_repair_is_not_durable_witness :
    (xorAt (restart cfg (checkFailN 1 exBroken)) 0).1 ≠ (xorAt exS1 0).1 ∧
    (xorAt (restart cfg (checkFailN 3 exBroken)) 0).1 ≠ (xorAt exS1 0).1 ∧
    (xorAt (restart cfg (checkN 1 exBroken)) 0).1 = (xorAt exS1 0).1 := by decide

/-- an `Add` on the page after the failing check writes the (repaired in memory) leaf: the store is healed without
    another repair — after a restart `XOR(c)` is the fold over the two stored transactions -/
theorem add_after_failed_repair_heals_store_witness :
    let s2 := (add cfg (checkFailN 1 exBroken) exChild {}).1
    s2.disk.txs = [exRoot, exChild] ∧
    (xorAt (restart cfg s2) 1).1 = exRoot.ref ^^^ exChild.ref ∧ (xorAt s2 1).1 = exRoot.ref ^^^ exChild.ref ∧
    -- while a rolled-back Add reloads the damaged leaf into memory
    (xorAt (add cfg (checkFailN 1 exBroken) exChild { commitFails := true }).1 0).1 ≠ exRoot.ref := by decide

end Nuts.C08.Props
