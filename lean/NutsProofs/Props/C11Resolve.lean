/-
  C11 — the node's own answers for credentials of its credential store: vcr.Resolve / vcr.Search (deepening round 3).
  A credential the node holds a revocation for is never presented as valid by Resolve (for every resolveTime, trust setting,
  validity period) and never part of a Search result (for every query result order, allowUntrusted, resolveTime).
-/
import NutsModel.C11.Resolve
import NutsModel.Facts.C11
import NutsProofs.Props.C11ValidAt
namespace Nuts.C11.Props
open Nuts Nuts.C11

/-- refinement: with `allowUntrusted = true` the trust-aware Verify is the `verifyAt` of the validAt layer -/
theorem verify_trust_at_refines (E : Env) (i : Bool) (w : World) (c : Cred) (nutsType rf trusted : Bool)
    (validAt : Option Int) (now : Int) (period : Int → Bool) :
    verifyTrustAt E i w c nutsType rf true trusted validAt now period = verifyAt E i w c nutsType rf validAt now period := by
  unfold verifyTrustAt verifyAt
  generalize verifyFullF E i w c nutsType rf = r
  obtain ⟨v, w'⟩ := r
  cases v <;> simp

theorem verifyTrustAt_revoked_iff (E : Env) (i : Bool) (w : World) (c : Cred) (nutsType rf au tr : Bool)
    (validAt : Option Int) (now : Int) (period : Int → Bool) :
    (verifyTrustAt E i w c nutsType rf au tr validAt now period).1 = .revoked ↔ (verifyFullF E i w c nutsType rf).1 = .revoked := by
  unfold verifyTrustAt
  generalize verifyFullF E i w c nutsType rf = r
  obtain ⟨v, w'⟩ := r
  cases v with
  | ok => simp only; split <;> (try split) <;> simp
  | revoked => simp
  | err e => simp

theorem verifyTrustAt_ok_imp (E : Env) (i : Bool) (w : World) (c : Cred) (nutsType rf au tr : Bool)
    (validAt : Option Int) (now : Int) (period : Int → Bool)
    (h : (verifyTrustAt E i w c nutsType rf au tr validAt now period).1 = .ok) : (verifyFullF E i w c nutsType rf).1 = .ok := by
  unfold verifyTrustAt at h
  generalize verifyFullF E i w c nutsType rf = r at h ⊢
  obtain ⟨v, w'⟩ := r
  cases v with
  | ok => rfl
  | revoked => simp at h
  | err e => simp at h

theorem verifyTrustAt_snd (E : Env) (i : Bool) (w : World) (c : Cred) (nutsType rf au tr : Bool)
    (validAt : Option Int) (now : Int) (period : Int → Bool) :
    (verifyTrustAt E i w c nutsType rf au tr validAt now period).2 = (verifyFullF E i w c nutsType rf).2 := by
  unfold verifyTrustAt
  generalize verifyFullF E i w c nutsType rf = r
  obtain ⟨v, w'⟩ := r
  cases v with
  | ok => simp only; split <;> (try split) <;> rfl
  | revoked => rfl
  | err e => rfl

/-- a verification only moves the world along primitive transitions (the verifier's list cache) -/
theorem verifyFullF_path {E : Env} {K : KeyEnv} (hE : EnvOK E) (i : Bool) {w : World} (hw : WInv E w) (c : Cred)
    (nutsType rf : Bool) : WPath E K w (verifyFullF E i w c nutsType rf).2 := by
  have hv : WPath E K w (verify E i w c).2 := by
    have := step_path (K := K) hE hw (.verify i c)
    simpa [step] using this
  have hs : WPath E K w (verifyWithStore E i w c rf).2 := by
    unfold verifyWithStore
    split
    · split
      · exact .refl _
      · exact hv
    · exact hv
  unfold verifyFullF
  split
  · split
    · exact hs
    · exact .refl _
    · exact .refl _
  · split
    · exact .refl _
    · exact hs

theorem credRevoked_mono {n n' : Node} (h : NMono n n') (c : Cred) (hr : n.credRevoked c = true) : n'.credRevoked c = true := by
  unfold Node.credRevoked at *
  cases hc : c.id with
  | none => simp [hc] at hr
  | some id =>
    simp only [hc] at hr ⊢
    simp only [Node.isRevoked, List.any_eq_true] at hr ⊢
    obtain ⟨r, hm, hs⟩ := hr
    exact ⟨r, h.net r hm, hs⟩

theorem verifyFullF_ok_not_revoked (E : Env) (i : Bool) (w : World) (c : Cred) (nutsType rf : Bool)
    (h : (verifyFullF E i w c nutsType rf).1 = .ok) : (w.get i).credRevoked c = false := by
  cases hr : (w.get i).credRevoked c with
  | false => rfl
  | true =>
    exfalso
    have hid : ∃ id, c.id = some id := by
      unfold Node.credRevoked at hr
      cases hc : c.id with
      | none => simp [hc] at hr
      | some id => exact ⟨id, rfl⟩
    obtain ⟨id, hid⟩ := hid
    have hvs : (verifyWithStore E i w c rf).1 ≠ .ok := by
      unfold verifyWithStore
      simp only [hid]
      split
      · simp
      · simp [verify, hr]
    unfold verifyFullF at h
    split at h
    · split at h
      · exact hvs h
      · simp at h
      · simp at h
    · simp only [hid] at h
      exact hvs h

theorem classifyResolve_cred (b : Bool) (v : Verdict) (h : classifyResolve b v = .cred) : v = .ok := by
  cases v with
  | ok => rfl
  | revoked => cases b <;> simp [classifyResolve] at h
  | err e => by_cases he : (e == "untrusted") = true <;> simp [classifyResolve, he] at h

/-- `resolve_never_presents_revoked_as_valid`: for every store content, every world in which the node holds a revocation for
    the stored credential, every resolveTime, clock, trust verdict and validity period: `Resolve` answers
    (credential, ErrRevoked) — never the plain credential. -/
theorem resolve_never_presents_revoked_as_valid (E : Env) (i : Bool) (w : World) (store : List Stored) (id : String) (s : Stored)
    (hf : findStored store id = some s) (hnt : s.nutsType = false)
    (hrev : (w.get i).credRevoked s.cred = true) (resolveTime : Option Int) (now : Int) :
    (resolve E i w store id false resolveTime now).1 = .credAnd "revoked" := by
  have hid : s.cred.id.isSome = true := by
    unfold Node.credRevoked at hrev
    cases hc : s.cred.id with
    | none => simp [hc] at hrev
    | some _ => rfl
  have h1 := received_revocation_refused_at_every_valid_at E i w s.cred hrev hid resolveTime now s.period
  rw [verifyAt_revoked_iff] at h1
  have h2 := (verifyTrustAt_revoked_iff E i w s.cred false false false s.trusted resolveTime now s.period).2 h1
  unfold resolve
  simp only [hf, hnt, h2, hrev, classifyResolve, if_true]

/-- `resolve_valid_only_if_not_revoked`: whenever `Resolve` hands out the plain credential, the node holds no revocation for
    it — whatever validator, resolveTime, trust; and a store read fault never yields the plain credential. -/
theorem resolve_valid_only_if_not_revoked (E : Env) (i : Bool) (w : World) (store : List Stored) (id : String) (rf : Bool)
    (resolveTime : Option Int) (now : Int) (h : (resolve E i w store id rf resolveTime now).1 = .cred) :
    ∃ s, findStored store id = some s ∧ (w.get i).credRevoked s.cred = false ∧ rf = false := by
  unfold resolve at h
  split at h
  · simp at h
  · rename_i s hf
    refine ⟨s, by assumption, ?_⟩
    simp only at h
    have hok := classifyResolve_cred _ _ h
    have hf' := verifyTrustAt_ok_imp _ _ _ _ _ _ _ _ _ _ _ hok
    refine ⟨verifyFullF_ok_not_revoked E i w s.cred s.nutsType rf hf', ?_⟩
    cases rf with
    | false => rfl
    | true => exact absurd hf' (store_read_fault_never_accepts E i w s.cred s.nutsType)

/-- every `Resolve` answer that is not the plain credential for a revoked credential says "revoked" — also through the
    status list, where the wrapped error takes the `default` branch of the `==` switch -/
theorem resolve_revoked_says_revoked (E : Env) (i : Bool) (w : World) (store : List Stored) (id : String) (s : Stored) (rf : Bool)
    (hf : findStored store id = some s) (resolveTime : Option Int) (now : Int)
    (hv : (verifyFullF E i w s.cred s.nutsType rf).1 = .revoked) :
    (resolve E i w store id rf resolveTime now).1.saysRevoked = true := by
  have h2 := (verifyTrustAt_revoked_iff E i w s.cred s.nutsType rf false s.trusted resolveTime now s.period).2 hv
  unfold resolve
  simp only [hf, h2, classifyResolve]
  split <;> rfl

/-- `search_omits_revoked`: for every list of found documents (any order, any length), every allowUntrusted / resolveTime /
    clock and every starting world satisfying the world invariant: no credential the node holds a revocation for is part of
    the Search result, and the result is a sub-list of the found documents. -/
theorem search_omits_revoked (E : Env) (K : KeyEnv) (hE : EnvOK E) (i : Bool) (au rf : Bool) (resolveTime : Option Int) (now : Int) :
    ∀ (docs : List Stored) (w : World), WInv E w →
      (∀ s, s ∈ (search E i w docs au rf resolveTime now).1 → (w.get i).credRevoked s.cred = false) ∧
      List.Sublist (search E i w docs au rf resolveTime now).1 docs := by
  intro docs
  induction docs with
  | nil => intro w _; exact ⟨fun s hs => by simp [search] at hs, by simp [search]⟩
  | cons d rest ih =>
    intro w hw
    have hp : WPath E K w (verifyTrustAt E i w d.cred d.nutsType rf au d.trusted resolveTime now d.period).2 := by
      rw [verifyTrustAt_snd]; exact verifyFullF_path hE i hw _ _ _
    obtain ⟨hw', hmono⟩ := hp.nodes hw
    obtain ⟨ih1, ih2⟩ := ih _ hw'
    have tail : ∀ s, s ∈ (search E i (verifyTrustAt E i w d.cred d.nutsType rf au d.trusted resolveTime now d.period).2 rest au rf resolveTime now).1 →
        (w.get i).credRevoked s.cred = false := by
      intro s hs
      have := ih1 s hs
      cases hr : (w.get i).credRevoked s.cred with
      | false => rfl
      | true => rw [credRevoked_mono (hmono i) s.cred hr] at this; exact absurd this (by simp)
    unfold search
    simp only
    by_cases hok : (verifyTrustAt E i w d.cred d.nutsType rf au d.trusted resolveTime now d.period).1 = .ok
    · rw [if_pos hok]
      refine ⟨fun s hs => ?_, List.Sublist.cons_cons _ ih2⟩
      rcases List.mem_cons.1 hs with rfl | hs
      · exact verifyFullF_ok_not_revoked E i w _ _ rf (verifyTrustAt_ok_imp _ _ _ _ _ _ _ _ _ _ _ hok)
      · exact tail s hs
    · rw [if_neg hok]
      exact ⟨tail, List.Sublist.cons _ ih2⟩

/-- end to end over histories: once a revocation was accepted at some point of a history, every later `Resolve` of a stored
    credential with that id — for any resolveTime (before or after the revocation's date), any trust setting — answers
    (credential, ErrRevoked), also when the credential was stored after the revocation arrived. -/
theorem resolve_after_revocation_in_history (E : Env) (K : KeyEnv) (hE : EnvOK E) (w0 : World) (h0 : WInv E w0) (i : Bool)
    (r : Revocation) (before after : List Act) (n' : Node)
    (hacc : registerRevocation K ((run E K w0 before).get i) r = .ok n')
    (store : List Stored) (s : Stored) (hf : findStored store r.subject = some s) (hc : s.cred.id = some r.subject)
    (hnt : s.nutsType = false) (resolveTime : Option Int) (now : Int) :
    (resolve E i (run E K w0 (before ++ [.register i r] ++ after)) store r.subject false resolveTime now).1 = .credAnd "revoked" := by
  have h := revoked_forever_network_at_every_valid_at E K hE w0 h0 i r s.cred before after n' hacc hc none 0 (fun _ => true)
  rw [verifyAt_revoked_iff] at h
  have hrev : ((run E K w0 (before ++ [.register i r] ++ after)).get i).credRevoked s.cred = true := by
    cases hr : ((run E K w0 (before ++ [.register i r] ++ after)).get i).credRevoked s.cred with
    | true => rfl
    | false =>
      -- not in the store: then only the status list could have said revoked, but then the revocation would be missing
      exfalso
      have hw1 := ((run_path (K := K) hE before h0).nodes h0).1
      have hrun : run E K w0 (before ++ [.register i r] ++ after) = run E K ((run E K w0 before).set i n') after := by
        simp only [run, List.foldl_append, List.foldl_cons, List.foldl_nil, step]
        rw [show registerRevocation K ((List.foldl (step E K) w0 before).get i) r = .ok n' from hacc]
      have hp : WPrim E K (run E K w0 before) ((run E K w0 before).set i n') := WPrim.register _ i r n' hacc
      have hmem : r ∈ (((run E K w0 before).set i n').get i).netRevs := by
        rw [get_set_same]
        obtain ⟨rfl, _⟩ := registerRevocation_ok hacc
        simp
      have := (((run_path (K := K) hE after (hp.nodes hw1).1).nodes (hp.nodes hw1).1).2 i).net r hmem
      rw [← hrun] at this
      have : ((run E K w0 (before ++ [.register i r] ++ after)).get i).credRevoked s.cred = true := by
        simp only [Node.credRevoked, hc, Node.isRevoked, List.any_eq_true]; exact ⟨r, this, by simp⟩
      rw [hr] at this; exact absurd this (by simp)
  exact resolve_never_presents_revoked_as_valid E i _ store r.subject s hf hnt hrev resolveTime now

set_option maxRecDepth 1000000 in
/-- the regenerated source of the two call sites: Resolve's statement chain (Verify with allowUntrusted = false,
    checkSignature = false, resolveTime), its `switch err` with `==` cases, Search's Verify call and what it does with the
    verdict, and the wrapped error of the status list verifier -/
theorem fact_resolve_and_search_sites :
    Nuts.Facts.C11.vcrResolveChain =
      ["stmt:credential,err := c.find(ID)", "err != nil",
       "err = c.verifier.Verify(credential,false,false,resolveTime); err != nil", "return &credential,nil"] ∧
    Nuts.Facts.C11.vcrResolveSwitch =
      ["switch err", "case types.ErrRevoked => return &credential,types.ErrRevoked",
       "case types.ErrUntrusted => return &credential,types.ErrUntrusted", "default => return nil,err"] ∧
    Nuts.Facts.C11.vcrSearchVerifySites.drop 3 =
      ["if err = c.verifier.Verify(foundCredential,allowUntrusted,false,resolveTime); err == nil {VCs = append(VCs,foundCredential)}",
       "return VCs,nil"] ∧
    Nuts.Facts.C11.statusListErrRevoked = "fmt.Errorf(\"status list: %w\",types.ErrRevoked)" := by decide

/-! non-vacuity -/
def exStoredB : Stored := { cred := { id := some "did:nuts:B#1", issuer := "did:nuts:B", statuses := none }, trusted := true,
                            period := fun t => decide (-60 ≤ t) }
def exStoredB2 : Stored := { cred := { id := some "did:nuts:B#2", issuer := "did:nuts:B", statuses := none }, trusted := true }

-- revocation first, credential stored later; asked about a moment long before: (credential, ErrRevoked)
example : (resolve exEnv false (run exEnv exKeys exWorld [.register false exRevByB]) [exStoredB2, exStoredB] "did:nuts:B#1" false (some (-30)) 0).1
    = .credAnd "revoked" := by decide
-- without the revocation the same call hands out the credential; an untrusted issuer gives (credential, ErrUntrusted)
example : (resolve exEnv false exWorld [exStoredB2, exStoredB] "did:nuts:B#1" false (some (-30)) 0).1 = .cred := by decide
example : (resolve exEnv false exWorld [{ exStoredB with trusted := false }] "did:nuts:B#1" false none 0).1 = .credAnd "untrusted" := by decide
example : (resolve exEnv false exWorld [exStoredB] "did:nuts:B#1" false (some (-100000)) 0).1 = .err "not-valid-at-time" := by decide
example : (resolve exEnv false exWorld [exStoredB] "did:nuts:B#9" false none 0).1 = .notFound := by decide
-- Search: the revoked credential is dropped, the other one stays
example : ((search exEnv false (run exEnv exKeys exWorld [.register false exRevByB]) [exStoredB, exStoredB2] false false (some (-30)) 0).1.map (·.cred.id))
    = [some "did:nuts:B#2"] := by decide
example : ((search exEnv false exWorld [exStoredB, exStoredB2] false false (some (-30)) 0).1.map (·.cred.id))
    = [some "did:nuts:B#1", some "did:nuts:B#2"] := by decide

end Nuts.C11.Props
