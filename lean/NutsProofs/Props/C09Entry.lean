/-
  C09 — entry layer (deepening round 2026-09-28): DAG event -> subscription filter of `ambassador.Start` ->
  `handleNetworkEvent` -> `callback`, with store faults.  Property theorems + non-vacuity examples + fact obligations.
  Model: NutsModel/C09/Entry.lean over NutsModel/C09/Ambassador.lean.
-/
import NutsModel.C09.Entry
import NutsModel.C09.SeenSet
import NutsModel.Facts.C09
import NutsModel.Facts.C10
import NutsProofs.Lemmas.C09

namespace Nuts.C09.Props
open Nuts Nuts.C10 Nuts.C09

/-! ### obligations on the regenerated facts -/

/-- `Start` subscribes `handleNetworkEvent` under the name "vdr" with exactly one selection filter, which is the
    conjunction of exactly the two equalities `selectionFilter` evaluates; the notifier applies filters before the
    receiver -/
theorem fact_start_subscription :
    Facts.C09.startSubscription = "\"vdr\" -> n.handleNetworkEvent" ∧
    Facts.C09.startSubscribeOptions = ["n.networkClient.WithPersistency", "network.WithSelectionFilter"] ∧
    Facts.C09.startFilterConjuncts =
      [("event.Type", "==", "dag.PayloadEventType"), ("event.Transaction.PayloadType()", "==", "DIDDocumentType")] ∧
    Facts.C09.notifierFiltersBeforeReceiver = true := by decide

/-- the filter and `checkTransactionIntegrity` compare the payload type with the SAME constant, whose value is the
    did:nuts transaction content type -/
theorem fact_did_document_type :
    Facts.C09.didDocumentType = "application/did+json" ∧
    Facts.C09.integrityPayloadTypeTest = "transaction.PayloadType() != DIDDocumentType" ∧
    Facts.C09.payloadEventType ≠ "transaction" := by decide

/-- `handleNetworkEvent`: (true, nil) on success; an error is wrapped into `dag.EventFatal` exactly when it is not a
    `stoabs.ErrDatabase`; database errors are returned bare (retried) -/
theorem fact_network_event_classification :
    Facts.C09.networkEventFatalUnlessDatabaseError = true ∧
    Facts.C09.handleNetworkEventShape =
      ["if err := n.callback(event.Transaction, event.Payload); err != nil",
       "  if !errors.As(err, new(stoabs.ErrDatabase))",
       "    return false, dag.EventFatal{Err: err}",
       "  return false, err",
       "return true, nil"] := by decide

/-- the head of `handleUpdateDIDDocument`'s loop over the prevs: an error of the version lookup that is not not-found
    RETURNS (the update is refused / deferred); only "no version" moves on to the next prev -/
theorem fact_update_lookup_error_branch :
    Facts.C09.updateLookupLoopHead =
      ["version, metadata, err := n.didStore.Resolve(proposedDIDDocument.ID, &resolver.ResolveMetadata{AllowDeactivated: true, SourceTransaction: &ref})",
       "err != nil && !errors.Is(err, resolver.ErrNotFound) => return error",
       "version == nil => continue"] := by rfl

/-- `basicServiceValidator`'s seen-set of service types is looked up and recorded under the SAME key, the raw type string
    (what `validateSvcs` hard-codes: `knownTypes.contains s.type` / `s.type :: knownTypes`) -/
theorem fact_service_type_seen_set_keys :
    Facts.C09.serviceTypeLookupKey = "service.Type" ∧ Facts.C09.serviceTypeRecordKey = "service.Type" ∧
    (serviceTypeKey Facts.C09.serviceTypeLookupKey).isSome = true ∧
    (serviceTypeKey Facts.C09.serviceTypeRecordKey).isSome = true := by decide

/-- the entry configuration the source describes today -/
def entryCfg : EntryCfg :=
  { payloadEventType := Facts.C09.payloadEventType, didDocumentType := Facts.C09.didDocumentType }

/-! ### the subscription refines `callback` -/

/-- **Filtered events are inert.** An event whose type is not the payload event type, or whose transaction does not
    carry the did+json content type, never reaches the receiver and leaves the store untouched — whatever it carries. -/
theorem filtered_event_inert (e : EntryCfg) (b : Bool) (c : Cfg) (s : Store) (ev : DagEvent) (f : Option AddFault)
    (h : selectionFilter e ev = false) : notify e b c s ev f = (s, none) := by
  unfold notify; simp [h]

/-- **Refinement.** For an event that passes the filter (no store fault) the subscription does exactly what `callback`
    does: same store afterwards, `finished` iff `callback` accepted, and every refusal is FATAL (never retried). -/
theorem notify_refines_callback (e : EntryCfg) (c : Cfg) (s : Store) (ev : DagEvent)
    (h : selectionFilter e ev = true) :
    notify e true c s ev none =
      (match callback c s ev.tx ev.payload with
       | .ok s' => (s', some .finished)
       | .err x => (s, some (.fatal x))
       | .panic x => (s, some (.panic x))) := by
  unfold notify handleNetworkEvent callbackF
  simp only [h, if_true]
  cases callback c s ev.tx ev.payload <;> simp [isDatabaseErr]

theorem callbackF_ok_iff (c : Cfg) (s s' : Store) (tx : Tx) (pd : Option NDoc) (f : Option AddFault) :
    callbackF c s tx pd f = .ok s' ↔ faultHit c s tx pd f = false ∧ callback c s tx pd = .ok s' := by
  cases f with
  | none => simp [callbackF, faultHit]
  | some ft =>
    cases hs : ft.site with
    | add =>
      simp only [callbackF, faultHit, hs]
      cases callback c s tx pd with
      | ok _ => simp
      | err x => by_cases hx : isStoreErr x = true <;> simp [hx]
      | panic _ => simp
    | lookup ks fb =>
      simp only [callbackF, hs]
      by_cases hh : faultHit c s tx pd (some ft) = true
      · simp [hh]
      · have hh' : faultHit c s tx pd (some ft) = false := Bool.eq_false_iff.mpr hh
        simp [hh']

theorem handleNetworkEvent_fst (b : Bool) (c : Cfg) (s : Store) (ev : DagEvent) (f : Option AddFault) :
    (handleNetworkEvent b c s ev f).1 = (match callbackF c s ev.tx ev.payload f with | .ok s' => s' | _ => s) := by
  unfold handleNetworkEvent
  cases callbackF c s ev.tx ev.payload f with
  | ok _ => rfl
  | err x => by_cases hb : (b && !isDatabaseErr f x) = true <;> simp [hb]
  | panic _ => rfl

theorem handleNetworkEvent_finished (b : Bool) (c : Cfg) (s : Store) (ev : DagEvent) (f : Option AddFault) :
    (handleNetworkEvent b c s ev f).2 = .finished ↔ ∃ s', callbackF c s ev.tx ev.payload f = .ok s' := by
  unfold handleNetworkEvent
  cases callbackF c s ev.tx ev.payload f with
  | ok _ => simp
  | err x => by_cases hb : (b && !isDatabaseErr f x) = true <;> simp [hb]
  | panic _ => simp

/-- **finished ⇔ accepted.** The notifier is told `finished` exactly for events that pass the filter and whose
    transaction `callback` accepts with a working store (so `callback_accepts_iff` describes them). -/
theorem finished_iff_accepted (e : EntryCfg) (b : Bool) (c : Cfg) (s : Store) (ev : DagEvent) (f : Option AddFault) :
    (notify e b c s ev f).2 = some .finished ↔
      selectionFilter e ev = true ∧ faultHit c s ev.tx ev.payload f = false ∧ ∃ s', callback c s ev.tx ev.payload = .ok s' := by
  unfold notify
  by_cases hf : selectionFilter e ev = true
  · simp only [hf, if_true, Option.some.injEq, true_and]
    rw [handleNetworkEvent_finished]
    constructor
    · rintro ⟨s', h⟩
      obtain ⟨h1, h2⟩ := (callbackF_ok_iff c s s' ev.tx ev.payload f).mp h
      exact ⟨h1, s', h2⟩
    · rintro ⟨h1, s', h2⟩
      exact ⟨s', (callbackF_ok_iff c s s' ev.tx ev.payload f).mpr ⟨h1, h2⟩⟩
  · have hf' : selectionFilter e ev = false := Bool.eq_false_iff.mpr hf
    simp [hf']

/-- **The store changes only by an accepted, unfaulted, unfiltered event** — and then to exactly the store `callback`
    answers. Contrapositive: filtered, rejected, panicking and store-faulted deliveries all leave the store (hence
    `Resolve`, the key resolver and all later decisions) as it was. -/
theorem notify_changes_only_if_accepted (e : EntryCfg) (b : Bool) (c : Cfg) (s : Store) (ev : DagEvent) (f : Option AddFault)
    (h : (notify e b c s ev f).1 ≠ s) :
    selectionFilter e ev = true ∧ faultHit c s ev.tx ev.payload f = false ∧
      callback c s ev.tx ev.payload = .ok (notify e b c s ev f).1 := by
  unfold notify at h ⊢
  by_cases hf : selectionFilter e ev = true
  · simp only [hf, if_true] at h ⊢
    rw [handleNetworkEvent_fst] at h ⊢
    cases hcb : callbackF c s ev.tx ev.payload f with
    | ok s' =>
      obtain ⟨h1, h2⟩ := (callbackF_ok_iff c s s' ev.tx ev.payload f).mp hcb
      exact ⟨trivial, h1, h2⟩
    | err x => rw [hcb] at h; exact absurd rfl h
    | panic x => rw [hcb] at h; exact absurd rfl h
  · have hf' : selectionFilter e ev = false := Bool.eq_false_iff.mpr hf
    simp [hf'] at h

/-- **A failing store is retried, not dropped; nothing else is.** With the source's classification, an event that
    `callback` would accept but whose `didStore.Add` fails with a database error is answered `retry` (store unchanged);
    with a non-database store error it is `fatal`; and without a fault NO answer is ever `retry`. -/
theorem store_fault_classification (e : EntryCfg) (c : Cfg) (s s' : Store) (ev : DagEvent) (n : String)
    (hf : selectionFilter e ev = true) (hcb : callback c s ev.tx ev.payload = .ok s') :
    notify e true c s ev (some { name := n, isDb := true }) = (s, some (.retry ("store:fault:" ++ n))) ∧
    notify e true c s ev (some { name := n, isDb := false }) = (s, some (.fatal ("store:fault:" ++ n))) ∧
    (∀ ev' x, (notify e true c s ev' none).2 ≠ some (.retry x)) := by
  refine ⟨?_, ?_, ?_⟩
  · unfold notify handleNetworkEvent callbackF
    simp [hf, hcb, isDatabaseErr, faultErr]
  · unfold notify handleNetworkEvent callbackF
    simp [hf, hcb, isDatabaseErr, faultErr]
  · intro ev' x
    unfold notify handleNetworkEvent callbackF
    by_cases hf' : selectionFilter e ev' = true
    · simp only [hf', if_true]
      cases callback c s ev'.tx ev'.payload <;> simp [isDatabaseErr]
    · have : selectionFilter e ev' = false := Bool.eq_false_iff.mpr hf'
      simp [this]

/-- **Behind the subscription the payload-type test of `checkTransactionIntegrity` cannot fire** (it is what protects
    the REPROCESS entry, which has no filter): a coherent event that passes the filter has `typeOK`. -/
theorem filter_subsumes_type_check (e : EntryCfg) (ev : DagEvent) (hc : ev.coherent e)
    (hf : selectionFilter e ev = true) :
    ev.tx.typeOK = true ∧ checkTransactionIntegrity ev.tx ≠ .err "integrity:payload-type" := by
  unfold selectionFilter at hf
  unfold DagEvent.coherent at hc
  have h2 : (ev.payloadType == e.didDocumentType) = true := by
    cases h : (ev.payloadType == e.didDocumentType) <;> simp [h] at hf ⊢
  have ht : ev.tx.typeOK = true := by rw [hc, h2]
  refine ⟨ht, ?_⟩
  by_cases h1 : ev.tx.payloadHashEmpty = true <;> by_cases h3 : ev.tx.sigTimeZero = true <;>
    simp [checkTransactionIntegrity, ht, h1, h3]

/-! ### all event streams -/

theorem notify_eq_reprocessOne_of_passed (e : EntryCfg) (b : Bool) (c : Cfg) (s : Store) (ev : DagEvent)
    (h : selectionFilter e ev = true) :
    (notify e b c s ev none).1 = reprocessOne c s ev.tx ev.payload := by
  unfold notify handleNetworkEvent callbackF reprocessOne
  simp only [h, if_true]
  cases callback c s ev.tx ev.payload with
  | ok s' => rfl
  | err x => by_cases hb : (b && !isDatabaseErr none x) = true <;> simp [hb]
  | panic x => rfl

/-- one event either leaves the store alone or does exactly what `callback` (as `reprocessOne`) does -/
theorem notify_step (e : EntryCfg) (b : Bool) (c : Cfg) (s : Store) (ev : DagEvent) (f : Option AddFault) :
    (notify e b c s ev f).1 = s ∨
    (selectionFilter e ev = true ∧ faultHit c s ev.tx ev.payload f = false ∧
      (notify e b c s ev f).1 = reprocessOne c s ev.tx ev.payload) := by
  by_cases hne : (notify e b c s ev f).1 = s
  · exact Or.inl hne
  · obtain ⟨h1, h2, h3⟩ := notify_changes_only_if_accepted e b c s ev f hne
    refine Or.inr ⟨h1, h2, ?_⟩
    unfold reprocessOne
    rw [h3]

/-- **All event streams: resolvable only if accepted.** After ANY stream of DAG events — any length, any event types and
    payload types, store faults (failing `Add`, failing version lookups, database or other errors) at any deliveries —
    over ANY store, every event in every DID's list was there before or is the (transaction, document) of an event of
    the stream that passed the selection filter, executed no failing store call, and was accepted by `callback` in the
    state reached at that moment (so it satisfies `callback_accepts_iff`). -/
theorem event_stream_resolvable_only_if_accepted (e : EntryCfg) (b : Bool) (c : Cfg) :
    ∀ (l : List (DagEvent × Option AddFault)) (s : Store) (id : String) (x : Event),
      x ∈ ((notifyAll e b c s l).get id).events →
      x ∈ (s.get id).events ∨
      ∃ pre ev f post d s', l = pre ++ (ev, f) :: post ∧ selectionFilter e ev = true ∧
        faultHit c (notifyAll e b c s pre) ev.tx ev.payload f = false ∧ ev.payload = some d ∧
        x = eventOf ev.tx d ∧ d.id = id ∧ callback c (notifyAll e b c s pre) ev.tx (some d) = .ok s' := by
  intro l
  induction l with
  | nil => intro s id x h; exact Or.inl h
  | cons p ps ih =>
    intro s id x h
    obtain ⟨ev, f⟩ := p
    simp only [notifyAll] at h
    rcases ih _ id x h with h1 | ⟨pre, ev', f', post, d, s', hl, hsel, hhit, hpd, hx, hid, hok⟩
    · rcases notify_step e b c s ev f with hs | ⟨hsel, hhit, hs⟩
      · rw [hs] at h1; exact Or.inl h1
      · rw [hs] at h1
        rcases reprocessOne_events c s ev.tx ev.payload id x h1 with h2 | ⟨d, s', hpd, hok, hx, hid⟩
        · exact Or.inl h2
        · exact Or.inr ⟨[], ev, f, ps, d, s', rfl, hsel, hhit, hpd, hx, hid, hok⟩
    · refine Or.inr ⟨(ev, f) :: pre, ev', f', post, d, s', by rw [hl]; rfl, hsel, ?_, hpd, hx, hid, ?_⟩
      · simpa [notifyAll] using hhit
      · simpa [notifyAll] using hok

/-! ### failing version lookups (`didStore.Resolve` in `handleUpdateDIDDocument`) -/

/-- **A version that cannot be looked up is never skipped.** An update that reaches `handleUpdateDIDDocument` while
    the lookup of the version named by its k-th prev fails (k within the prevs; wherever in the list, whatever the other
    prevs name, whether or not a version was already found) is NOT accepted: the store stays as it was, the answer is
    the lookup error — `retry` for a database error (the notifier delivers it again), `fatal` otherwise — and in no
    case `finished`. In particular the "authorised under EVERY named version" check
    (`accepted_update_authorised_under_every_named_version`) cannot be thinned out by store errors. -/
theorem lookup_fault_never_accepts (e : EntryCfg) (c : Cfg) (s : Store) (ev : DagEvent) (d : NDoc)
    (n : String) (db : Bool) (ks : List Nat) (fb : Bool) (k : Nat)
    (hf : selectionFilter e ev = true) (hr : reachesUpdate c ev.tx ev.payload = some d)
    (hk : k ∈ ks) (hlen : k < ev.tx.prevs.length) :
    notify e true c s ev (some { name := n, isDb := db, site := .lookup ks fb }) =
      (s, some (if db then .retry ("update:resolve:fault:" ++ n) else .fatal ("update:resolve:fault:" ++ n))) := by
  have hhit : faultHit c s ev.tx ev.payload (some { name := n, isDb := db, site := .lookup ks fb }) = true := by
    simp only [faultHit, hr, lookupHit]
    have : ks.any (fun k => decide (k < ev.tx.prevs.length)) = true :=
      List.any_eq_true.mpr ⟨k, hk, by simpa using hlen⟩
    simp [this]
  unfold notify handleNetworkEvent
  simp only [hf, if_true, callbackF, hhit]
  cases db <;> simp [isDatabaseErr, faultErr]

/-- the same for the fallback lookup: when no prev names a version and the latest-version lookup fails -/
theorem fallback_lookup_fault_never_accepts (e : EntryCfg) (c : Cfg) (s : Store) (ev : DagEvent) (d : NDoc)
    (n : String) (db : Bool) (ks : List Nat)
    (hf : selectionFilter e ev = true) (hr : reachesUpdate c ev.tx ev.payload = some d)
    (hfb : fallbackUsed s d.id ev.tx.prevs = true) :
    (notify e true c s ev (some { name := n, isDb := db, site := .lookup ks true })).1 = s ∧
    (notify e true c s ev (some { name := n, isDb := db, site := .lookup ks true })).2 ≠ some .finished := by
  have hhit : faultHit c s ev.tx ev.payload (some { name := n, isDb := db, site := .lookup ks true }) = true := by
    simp [faultHit, hr, lookupHit, hfb]
  constructor
  · apply Classical.byContradiction
    intro hne
    obtain ⟨_, h2, _⟩ := notify_changes_only_if_accepted e true c s ev _ hne
    rw [hhit] at h2; cases h2
  · intro hfin
    obtain ⟨_, h2, _⟩ := (finished_iff_accepted e true c s ev _).mp hfin
    rw [hhit] at h2; cases h2

/-- a lookup fault that is not executed (position beyond the prevs, delivery refused earlier, creation) changes nothing -/
theorem lookup_fault_not_hit (c : Cfg) (s : Store) (tx : Tx) (pd : Option NDoc) (f : AddFault) (ks : List Nat) (fb : Bool)
    (hs : f.site = .lookup ks fb) (h : faultHit c s tx pd (some f) = false) :
    callbackF c s tx pd (some f) = callback c s tx pd := by
  simp [callbackF, hs, h]

/-- `reachesUpdate` is exactly "callback hands the document to handleUpdateDIDDocument" -/
theorem callback_of_reachesUpdate (c : Cfg) (s : Store) (tx : Tx) (pd : Option NDoc) (d : NDoc)
    (h : reachesUpdate c tx pd = some d) : callback c s tx pd = handleUpdate c s tx d := by
  unfold reachesUpdate at h
  unfold callback
  cases hi : checkTransactionIntegrity tx with
  | ok u =>
    rw [hi] at h
    cases pd with
    | none => simp at h
    | some d' =>
      simp only [] at h ⊢
      cases hv : validate c.thumb c.vmNilJwkErr c.validators d' with
      | ok u' =>
        rw [hv] at h
        cases he : tx.embedded with
        | none => rw [he] at h; simp only [Option.some.injEq] at h; subst h; rfl
        | some k => rw [he] at h; simp at h
      | err x => rw [hv] at h; simp at h
      | panic x => rw [hv] at h; simp at h
  | err x => rw [hi] at h; simp at h
  | panic x => rw [hi] at h; simp at h

/-! ### the seen-set of service types -/

/-- **Same key on both sides ⇒ the rule is exact.** Looked up and recorded under one key function, the seen-set lets a
    list of types pass iff no two of them have the same key (and none collides with what was seen before). -/
theorem seenSet_same_key (key : String → String) :
    ∀ (ts seen : List String),
      seenSetRejects key key ts seen = false ↔ (ts.map key).Nodup ∧ ∀ t ∈ ts, key t ∉ seen := by
  intro ts
  induction ts with
  | nil => intro seen; simp [seenSetRejects]
  | cons t ts ih =>
    intro seen
    unfold seenSetRejects
    by_cases h : seen.contains (key t) = true
    · simp only [h, if_true]
      have hm : key t ∈ seen := by simpa using h
      constructor
      · intro hf; cases hf
      · rintro ⟨_, h2⟩; exact absurd hm (h2 t List.mem_cons_self)
    · have hn : key t ∉ seen := by simpa using h
      rw [if_neg h, ih (key t :: seen)]
      simp only [List.map_cons, List.nodup_cons, List.mem_map, List.mem_cons]
      constructor
      · rintro ⟨hnd, hall⟩
        refine ⟨⟨?_, hnd⟩, ?_⟩
        · rintro ⟨u, hu, hku⟩
          exact (hall u hu) (Or.inl hku)
        · intro u hu
          rcases hu with rfl | hu
          · exact hn
          · intro hmem; exact (hall u hu) (Or.inr hmem)
      · rintro ⟨⟨hnot, hnd⟩, hall⟩
        refine ⟨hnd, ?_⟩
        intro u hu hor
        rcases hor with heq | hmem
        · exact hnot ⟨u, hu, heq⟩
        · exact (hall u (Or.inr hu)) hmem

/-- **Different keys ⇒ the rule leaks.** If the looked-up key of some type differs from its recorded key, that very type
    may occur twice (why `fact_service_type_seen_set_keys` is an obligation and not a remark). -/
theorem seenSet_key_mismatch_misses (look rec : String → String) (t : String) (h : look t ≠ rec t) :
    seenSetRejects look rec [t, t] [] = false := by
  simp [seenSetRejects, h]

/-- the model's service validator applies exactly this seen-set with the identity key: whatever it lets pass has
    pairwise different type strings (also relative to the types seen before) -/
theorem validateSvcs_ok_seenSet (owner : String) :
    ∀ (ss : List NSvc) (ids types : List String),
      validateSvcs (fun _ => true) owner ss ids types = .ok () →
      seenSetRejects (fun t => t) (fun t => t) (ss.map (·.type)) types = false := by
  intro ss
  induction ss with
  | nil => intro ids types _; rfl
  | cons sv ss ih =>
    intro ids types h
    unfold validateSvcs at h
    simp only [List.map_cons, seenSetRejects]
    split at h
    · cases h
    · by_cases hc : types.contains sv.type = true
      · have hm : sv.type ∈ types := by simpa using hc
        simp [hm] at h
      · have hm : ¬ sv.type ∈ types := by simpa using hc
        rw [if_neg hc]
        simp [hm] at h
        exact ih _ _ h

/-- accepted ⇒ at most one service per type STRING (end to end: `validate` is what `callback` runs) -/
theorem validateSvcs_ok_types_nodup (owner : String) (ss : List NSvc)
    (h : validateSvcs (fun _ => true) owner ss [] [] = .ok ()) : (ss.map (·.type)).Nodup := by
  have h1 := validateSvcs_ok_seenSet owner ss [] [] h
  have h2 := (seenSet_same_key (fun t => t) (ss.map (·.type)) []).mp h1
  simpa [Function.comp_def] using h2.1

example : seenSetRejects (fun t => t) (fun t => t) ["NutsComm ", "NutsComm "] [] = true := by decide
example : seenSetRejects (fun t => t) (fun t => t) ["NutsComm", "NutsComm "] [] = false := by decide

/-! ### non-vacuity -/

private def tx0 : Tx := { ref := 1, clock := 0, sigTime := 5, prevs := [], payloadHash := "h", embedded := some "k", signer := "k" }
private def evOf (t p : String) : DagEvent := { evType := t, payloadType := p, tx := { tx0 with typeOK := p == "application/did+json" }, payload := none }

example : selectionFilter entryCfg (evOf "payload" "application/did+json") = true := by decide
example : (evOf "payload" "application/did+json").coherent entryCfg := by unfold DagEvent.coherent; decide
example : selectionFilter entryCfg (evOf "transaction" "application/did+json") = false := by decide
example : selectionFilter entryCfg (evOf "payload" "application/vc+json") = false := by decide
example : selectionFilter entryCfg (evOf "payload" "application/DID+json") = false := by decide

/-! the removed-key scenario with a failing lookup: X lists key a in tx 100, tx 110 replaces it by key b; the holder of a
    signs an update naming [100, 110]. Fault-free it is refused; with the lookup of 110's version failing it is
    refused/deferred as well (the mutated loop that skips a failed lookup would accept it). -/
private def cfgE : Cfg :=
  { thumb := fun k => k, didThumb := fun k => "D" ++ k, maxDepth := Facts.C09.maxControllerDepth,
    validators := Facts.C09.networkValidators, vmNilJwkErr := Facts.C09.verifyThumbprintGuardsNilJwk,
    findKeyNilJwkErr := Facts.C09.findKeyGuardsNilJwk, store := cfgOf (fun _ l => l) Facts.C10.mergeSortedFields }
private def vmE (k : String) : NVM := { id := "did:nuts:Da#" ++ k, pfx := "did:nuts:Da", frag := k, key := .key k }
private def docE (keys : List String) : NDoc :=
  { id := "did:nuts:Da", idID := "Da", vms := keys.map vmE, capInv := keys.map vmE }
private def txCreate : Tx := { ref := 100, clock := 0, sigTime := 10, prevs := [], payloadHash := "p100", embedded := some "a", signer := "a" }
private def txUpd (ref : Nat) (prevs : List Nat) (k : String) : Tx :=
  { ref := ref, clock := 1, sigTime := 20, prevs := prevs, payloadHash := s!"p{ref}",
    kid := { holder := "did:nuts:Da", id := "did:nuts:Da#" ++ k }, signer := k }
private def evE (tx : Tx) (d : NDoc) : DagEvent :=
  { evType := "payload", payloadType := "application/did+json", tx := tx, payload := some d }
private def sE : Store :=
  notifyAll entryCfg true cfgE {} [(evE txCreate (docE ["a"]), none), (evE (txUpd 110 [100] "a") (docE ["b"]), none)]
private def evTakeover : DagEvent := evE (txUpd 120 [100, 110] "a") (docE ["a", "c"])

example : (reachesUpdate cfgE evTakeover.tx evTakeover.payload).isSome = true := by decide
example : ((notify entryCfg true cfgE sE evTakeover none).2.map Ack.render) = some "err:update:not-signed-by-controller" := by decide
example : ((notify entryCfg true cfgE sE evTakeover (some { name := "db", isDb := true, site := .lookup [1] false })).2.map Ack.render)
    = some "retry:err:update:resolve:fault:db" := by decide
example : ((notify entryCfg true cfgE sE evTakeover (some { name := "other", isDb := false, site := .lookup [0] false })).2.map Ack.render)
    = some "err:update:resolve:fault:other" := by decide
-- a position beyond the prevs is never executed
example : ((notify entryCfg true cfgE sE evTakeover (some { name := "db", isDb := true, site := .lookup [2] false })).2.map Ack.render)
    = some "err:update:not-signed-by-controller" := by decide
-- the legitimate update by key b, and the same with a database error at Add
example : ((notify entryCfg true cfgE sE (evE (txUpd 130 [110] "b") (docE ["b", "c"])) none).2.map Ack.render) = some "ok" := by decide
example : ((notify entryCfg true cfgE sE (evE (txUpd 130 [110] "b") (docE ["b", "c"])) (some { name := "db", isDb := true })).2.map Ack.render)
    = some "retry:err:store:fault:db" := by decide

end Nuts.C09.Props
