/-
  C09 — entry layer (deepening round 2026-09-28): DAG event -> subscription filter of `ambassador.Start` ->
  `handleNetworkEvent` -> `callback`, with store faults.  Property theorems + non-vacuity examples + fact obligations.
  Model: NutsModel/C09/Entry.lean over NutsModel/C09/Ambassador.lean.
-/
import NutsModel.C09.Entry
import NutsModel.Facts.C09
import NutsProofs.Lemmas.C09

namespace Nuts.C09.Props
open Nuts Nuts.C10 Nuts.C09

/-! ### obligations on the regenerated facts -/

/-- `Start` subscribes `handleNetworkEvent` under the name "vdr" with exactly one selection filter, which is the
    conjunction of exactly the two equalities `selectionFilter` evaluates; the notifier applies filters before the
    receiver -/
theorem fact_start_subscription :
    Facts.C09.startSubscription = "\"vdr\" -> n.handleNetworkEvent" ∧
    Facts.C09.startSubscribeOptions = ["n.networkClient.WithPersistency", "network.WithSelectionFilter"] ∧
    Facts.C09.startFilterConjuncts =
      [("event.Type", "dag.PayloadEventType"), ("event.Transaction.PayloadType()", "DIDDocumentType")] ∧
    Facts.C09.notifierFiltersBeforeReceiver = true := by decide

/-- the filter and `checkTransactionIntegrity` compare the payload type with the SAME constant, whose value is the
    did:nuts transaction content type -/
theorem fact_did_document_type :
    Facts.C09.didDocumentType = "application/did+json" ∧
    Facts.C09.integrityPayloadTypeTest = "transaction.PayloadType() != DIDDocumentType" ∧
    Facts.C09.payloadEventType ≠ "transaction" := by decide

/-- `handleNetworkEvent`: (true, nil) on success; an error is wrapped into `dag.EventFatal` exactly when it is not a
    `stoabs.ErrDatabase`; database errors are returned bare (retried) -/
theorem fact_network_event_classification :
    Facts.C09.networkEventFatalUnlessDatabaseError = true ∧
    Facts.C09.handleNetworkEventShape =
      ["if err := n.callback(event.Transaction, event.Payload); err != nil",
       "  if !errors.As(err, new(stoabs.ErrDatabase))",
       "    return false, dag.EventFatal{Err: err}",
       "  return false, err",
       "return true, nil"] := by decide

/-- the entry configuration the source describes today -/
def entryCfg : EntryCfg :=
  { payloadEventType := Facts.C09.payloadEventType, didDocumentType := Facts.C09.didDocumentType }

/-! ### the subscription refines `callback` -/

/-- **Filtered events are inert.** An event whose type is not the payload event type, or whose transaction does not
    carry the did+json content type, never reaches the receiver and leaves the store untouched — whatever it carries. -/
theorem filtered_event_inert (e : EntryCfg) (b : Bool) (c : Cfg) (s : Store) (ev : DagEvent) (f : Option AddFault)
    (h : selectionFilter e ev = false) : notify e b c s ev f = (s, none) := by
  unfold notify; simp [h]

/-- **Refinement.** For an event that passes the filter (no store fault) the subscription does exactly what `callback`
    does: same store afterwards, `finished` iff `callback` accepted, and every refusal is FATAL (never retried). -/
theorem notify_refines_callback (e : EntryCfg) (c : Cfg) (s : Store) (ev : DagEvent)
    (h : selectionFilter e ev = true) :
    notify e true c s ev none =
      (match callback c s ev.tx ev.payload with
       | .ok s' => (s', some .finished)
       | .err x => (s, some (.fatal x))
       | .panic x => (s, some (.panic x))) := by
  unfold notify handleNetworkEvent callbackF
  simp only [h, if_true]
  cases callback c s ev.tx ev.payload <;> simp [isDatabaseErr]

theorem callbackF_ok_iff (c : Cfg) (s s' : Store) (tx : Tx) (pd : Option NDoc) (f : Option AddFault) :
    callbackF c s tx pd f = .ok s' ↔ f = none ∧ callback c s tx pd = .ok s' := by
  cases f with
  | none => simp [callbackF]
  | some ft =>
    simp only [callbackF]
    cases callback c s tx pd with
    | ok _ => simp
    | err x => by_cases hx : isStoreErr x = true <;> simp [hx]
    | panic _ => simp

theorem handleNetworkEvent_fst (b : Bool) (c : Cfg) (s : Store) (ev : DagEvent) (f : Option AddFault) :
    (handleNetworkEvent b c s ev f).1 = (match callbackF c s ev.tx ev.payload f with | .ok s' => s' | _ => s) := by
  unfold handleNetworkEvent
  cases callbackF c s ev.tx ev.payload f with
  | ok _ => rfl
  | err x => by_cases hb : (b && !isDatabaseErr f x) = true <;> simp [hb]
  | panic _ => rfl

theorem handleNetworkEvent_finished (b : Bool) (c : Cfg) (s : Store) (ev : DagEvent) (f : Option AddFault) :
    (handleNetworkEvent b c s ev f).2 = .finished ↔ ∃ s', callbackF c s ev.tx ev.payload f = .ok s' := by
  unfold handleNetworkEvent
  cases callbackF c s ev.tx ev.payload f with
  | ok _ => simp
  | err x => by_cases hb : (b && !isDatabaseErr f x) = true <;> simp [hb]
  | panic _ => simp

/-- **finished ⇔ accepted.** The notifier is told `finished` exactly for events that pass the filter and whose
    transaction `callback` accepts with a working store (so `callback_accepts_iff` describes them). -/
theorem finished_iff_accepted (e : EntryCfg) (b : Bool) (c : Cfg) (s : Store) (ev : DagEvent) (f : Option AddFault) :
    (notify e b c s ev f).2 = some .finished ↔
      selectionFilter e ev = true ∧ f = none ∧ ∃ s', callback c s ev.tx ev.payload = .ok s' := by
  unfold notify
  by_cases hf : selectionFilter e ev = true
  · simp only [hf, if_true, Option.some.injEq, true_and]
    rw [handleNetworkEvent_finished]
    constructor
    · rintro ⟨s', h⟩
      obtain ⟨h1, h2⟩ := (callbackF_ok_iff c s s' ev.tx ev.payload f).mp h
      exact ⟨h1, s', h2⟩
    · rintro ⟨h1, s', h2⟩
      exact ⟨s', (callbackF_ok_iff c s s' ev.tx ev.payload f).mpr ⟨h1, h2⟩⟩
  · have hf' : selectionFilter e ev = false := Bool.eq_false_iff.mpr hf
    simp [hf']

/-- **The store changes only by an accepted, unfaulted, unfiltered event** — and then to exactly the store `callback`
    answers. Contrapositive: filtered, rejected, panicking and store-faulted deliveries all leave the store (hence
    `Resolve`, the key resolver and all later decisions) as it was. -/
theorem notify_changes_only_if_accepted (e : EntryCfg) (b : Bool) (c : Cfg) (s : Store) (ev : DagEvent) (f : Option AddFault)
    (h : (notify e b c s ev f).1 ≠ s) :
    selectionFilter e ev = true ∧ f = none ∧ callback c s ev.tx ev.payload = .ok (notify e b c s ev f).1 := by
  unfold notify at h ⊢
  by_cases hf : selectionFilter e ev = true
  · simp only [hf, if_true] at h ⊢
    rw [handleNetworkEvent_fst] at h ⊢
    cases hcb : callbackF c s ev.tx ev.payload f with
    | ok s' =>
      obtain ⟨h1, h2⟩ := (callbackF_ok_iff c s s' ev.tx ev.payload f).mp hcb
      exact ⟨trivial, h1, h2⟩
    | err x => rw [hcb] at h; exact absurd rfl h
    | panic x => rw [hcb] at h; exact absurd rfl h
  · have hf' : selectionFilter e ev = false := Bool.eq_false_iff.mpr hf
    simp [hf'] at h

/-- **A failing store is retried, not dropped; nothing else is.** With the source's classification, an event that
    `callback` would accept but whose `didStore.Add` fails with a database error is answered `retry` (store unchanged);
    with a non-database store error it is `fatal`; and without a fault NO answer is ever `retry`. -/
theorem store_fault_classification (e : EntryCfg) (c : Cfg) (s s' : Store) (ev : DagEvent) (n : String)
    (hf : selectionFilter e ev = true) (hcb : callback c s ev.tx ev.payload = .ok s') :
    notify e true c s ev (some ⟨n, true⟩) = (s, some (.retry (faultErr ⟨n, true⟩))) ∧
    notify e true c s ev (some ⟨n, false⟩) = (s, some (.fatal (faultErr ⟨n, false⟩))) ∧
    (∀ ev' x, (notify e true c s ev' none).2 ≠ some (.retry x)) := by
  refine ⟨?_, ?_, ?_⟩
  · unfold notify handleNetworkEvent callbackF
    simp [hf, hcb, isDatabaseErr]
  · unfold notify handleNetworkEvent callbackF
    simp [hf, hcb, isDatabaseErr]
  · intro ev' x
    unfold notify handleNetworkEvent callbackF
    by_cases hf' : selectionFilter e ev' = true
    · simp only [hf', if_true]
      cases callback c s ev'.tx ev'.payload <;> simp [isDatabaseErr]
    · have : selectionFilter e ev' = false := Bool.eq_false_iff.mpr hf'
      simp [this]

/-- **Behind the subscription the payload-type test of `checkTransactionIntegrity` cannot fire** (it is what protects
    the REPROCESS entry, which has no filter): a coherent event that passes the filter has `typeOK`. -/
theorem filter_subsumes_type_check (e : EntryCfg) (ev : DagEvent) (hc : ev.coherent e)
    (hf : selectionFilter e ev = true) :
    ev.tx.typeOK = true ∧ checkTransactionIntegrity ev.tx ≠ .err "integrity:payload-type" := by
  unfold selectionFilter at hf
  unfold DagEvent.coherent at hc
  have h2 : (ev.payloadType == e.didDocumentType) = true := by
    cases h : (ev.payloadType == e.didDocumentType) <;> simp [h] at hf ⊢
  have ht : ev.tx.typeOK = true := by rw [hc, h2]
  refine ⟨ht, ?_⟩
  by_cases h1 : ev.tx.payloadHashEmpty = true <;> by_cases h3 : ev.tx.sigTimeZero = true <;>
    simp [checkTransactionIntegrity, ht, h1, h3]

/-! ### all event streams -/

theorem notify_eq_reprocessOne_of_passed (e : EntryCfg) (b : Bool) (c : Cfg) (s : Store) (ev : DagEvent)
    (h : selectionFilter e ev = true) :
    (notify e b c s ev none).1 = reprocessOne c s ev.tx ev.payload := by
  unfold notify handleNetworkEvent callbackF reprocessOne
  simp only [h, if_true]
  cases callback c s ev.tx ev.payload with
  | ok s' => rfl
  | err x => by_cases hb : (b && !isDatabaseErr none x) = true <;> simp [hb]
  | panic x => rfl

theorem notify_skip (e : EntryCfg) (b : Bool) (c : Cfg) (s : Store) (ev : DagEvent) (f : Option AddFault)
    (h : (selectionFilter e ev && f.isNone) = false) : (notify e b c s ev f).1 = s := by
  apply Classical.byContradiction
  intro hne
  obtain ⟨h1, h2, _⟩ := notify_changes_only_if_accepted e b c s ev f hne
  simp [h1, h2] at h

/-- **Any event stream = `callback` over the events that pass.** Whatever the DAG publishes to the subscription — any
    length, any event types and payload types, store faults at any deliveries — the store afterwards is the store that
    results from running `callback` over exactly the events that pass the filter with a working store, in order. -/
theorem event_stream_is_callback_of_passed (e : EntryCfg) (b : Bool) (c : Cfg) :
    ∀ (l : List (DagEvent × Option AddFault)) (s : Store),
      notifyAll e b c s l = reprocess c s (passed e l) := by
  intro l
  induction l with
  | nil => intro s; rfl
  | cons p ps ih =>
    intro s
    unfold notifyAll passed
    by_cases hp : (selectionFilter e p.1 && p.2.isNone) = true
    · simp only [hp, if_true]
      have hsel : selectionFilter e p.1 = true := by
        cases h : selectionFilter e p.1 <;> simp [h] at hp ⊢
      have hnone : p.2 = none := by
        cases h : p.2 <;> simp [h] at hp ⊢
      rw [hnone, notify_eq_reprocessOne_of_passed e b c s p.1 hsel, ih]
      rfl
    · have hp' : (selectionFilter e p.1 && p.2.isNone) = false := Bool.eq_false_iff.mpr hp
      rw [notify_skip e b c s p.1 p.2 hp', ih]
      simp [hp']

/-- **All event streams: resolvable only if accepted.** After ANY stream of DAG events (with any store faults) over
    ANY store, every event in every DID's list was there before or is the (transaction, document) of an event of the
    stream that passed the selection filter, met a working store and was accepted by `callback` in the state reached at
    that moment (so it satisfies `callback_accepts_iff`). -/
theorem event_stream_resolvable_only_if_accepted (e : EntryCfg) (b : Bool) (c : Cfg)
    (l : List (DagEvent × Option AddFault)) (s : Store) (id : String) (x : Event)
    (h : x ∈ ((notifyAll e b c s l).get id).events) :
    x ∈ (s.get id).events ∨
    ∃ pre tx d post s', passed e l = pre ++ (tx, some d) :: post ∧ x = eventOf tx d ∧ d.id = id ∧
      callback c (reprocess c s pre) tx (some d) = .ok s' := by
  rw [event_stream_is_callback_of_passed] at h
  exact reprocess_events c (passed e l) s id x h

/-- every pair of `passed` comes from an event of the stream that passed the filter without a fault -/
theorem passed_mem (e : EntryCfg) (l : List (DagEvent × Option AddFault)) (p : Tx × Option NDoc)
    (h : p ∈ passed e l) : ∃ ev, (ev, none) ∈ l ∧ selectionFilter e ev = true ∧ p = (ev.tx, ev.payload) := by
  induction l with
  | nil => simp [passed] at h
  | cons q qs ih =>
    unfold passed at h
    by_cases hq : (selectionFilter e q.1 && q.2.isNone) = true
    · simp only [hq, if_true] at h
      have hsel : selectionFilter e q.1 = true := by
        cases hh : selectionFilter e q.1 <;> simp [hh] at hq ⊢
      have hnone : q.2 = none := by
        cases hh : q.2 <;> simp [hh] at hq ⊢
      rcases List.mem_cons.mp h with h0 | h1
      · refine ⟨q.1, ?_, hsel, h0⟩
        have : q = (q.1, none) := by rw [← hnone]
        rw [← this]; exact List.mem_cons_self
      · obtain ⟨ev, hm, hs, hp⟩ := ih h1
        exact ⟨ev, List.mem_cons_of_mem _ hm, hs, hp⟩
    · have hq' : (selectionFilter e q.1 && q.2.isNone) = false := Bool.eq_false_iff.mpr hq
      simp only [hq'] at h
      obtain ⟨ev, hm, hs, hp⟩ := ih (by simpa using h)
      exact ⟨ev, List.mem_cons_of_mem _ hm, hs, hp⟩

/-! ### non-vacuity -/

private def tx0 : Tx := { ref := 1, clock := 0, sigTime := 5, prevs := [], payloadHash := "h", embedded := some "k", signer := "k" }
private def evOf (t p : String) : DagEvent := { evType := t, payloadType := p, tx := { tx0 with typeOK := p == "application/did+json" }, payload := none }

example : selectionFilter entryCfg (evOf "payload" "application/did+json") = true := by decide
example : (evOf "payload" "application/did+json").coherent entryCfg := by unfold DagEvent.coherent; decide
example : selectionFilter entryCfg (evOf "transaction" "application/did+json") = false := by decide
example : selectionFilter entryCfg (evOf "payload" "application/vc+json") = false := by decide
example : selectionFilter entryCfg (evOf "payload" "application/DID+json") = false := by decide
example : (passed entryCfg [(evOf "payload" "application/did+json", none), (evOf "transaction" "application/did+json", none),
    (evOf "payload" "application/did+json", some ⟨"x", true⟩)]).length = 1 := by decide

end Nuts.C09.Props
