/-
  C01 — deepening round 3 (2026-09-28): the S2S token endpoint's use of the presenter = subject rule and of the presentation dates
  (NutsModel/C01/Iam.lean), composed with the verifier model.
-/
import NutsModel.C01.Iam
import NutsModel.Facts.C01
import NutsProofs.Lemmas.C01
import NutsProofs.Props.C01Subject
namespace Nuts.C01.Props
open Nuts.C01

/-- `PresenterIsCredentialSubject` returns a DID exactly when the signer resolves, the credentials share ONE subject (every credential,
    not some) and that subject is the signer -/
theorem presenterIsCredentialSubject_some_iff (E : Env) (vp : Pres) (s : String) :
    presenterIsCredentialSubject E vp = .ok (some s) ↔
      presentationSigner E vp = some s ∧ resolveSubjectDID vp.vcs "" = some s := by
  unfold presenterIsCredentialSubject
  cases hp : presentationSigner E vp with
  | none => simp
  | some x =>
    cases hr : resolveSubjectDID vp.vcs "" with
    | none => simp
    | some d =>
      by_cases hd : d = x
      · subst hd; simp
      · have hb : (d != x) = true := by simpa using hd
        constructor
        · intro h; simp [hb] at h
        · rintro ⟨h1, h2⟩; injection h1 with h1; injection h2 with h2; exact absurd (h2.trans h1.symm) hd

/-- what one accepted presentation guarantees: the returned DID is the presentation's signer and the subject of EVERY credential it
    carries, and it is the expected subject when one was expected -/
theorem validated_signer_is_subject_of_every_credential (E : Env) (vp : Pres) (expected d : String)
    (h : validatePresentationSigner E vp expected = .ok d) :
    presentationSigner E vp = some d ∧ (∀ c ∈ vp.vcs, subjectDID c = some d) ∧ (expected ≠ "" → d = expected) := by
  unfold validatePresentationSigner at h
  by_cases hl : vp.vcs.length = 0
  · have hnil : vp.vcs = [] := List.length_eq_zero_iff.mp hl
    simp only [hl, beq_self_eq_true, if_true] at h
    cases hp : presentationSigner E vp with
    | none => rw [hp] at h; cases h
    | some s =>
      rw [hp] at h
      simp only at h
      by_cases hc : (expected != "" && s != expected) = true
      · rw [if_pos hc] at h; cases h
      · rw [if_neg hc] at h
        injection h with h; subst h
        refine ⟨rfl, (by intro c hc'; rw [hnil] at hc'; cases hc'), ?_⟩
        intro hne
        simp only [Bool.and_eq_true, bne_iff_ne, ne_eq, not_and, Decidable.not_not] at hc
        exact hc hne
  · have hl' : (vp.vcs.length == 0) = false := by simp [hl]
    simp only [hl'] at h
    cases hq : presenterIsCredentialSubject E vp with
    | err e => rw [hq] at h; cases h
    | panic p => rw [hq] at h; cases h
    | ok o =>
      rw [hq] at h
      cases o with
      | none => cases h
      | some s =>
        simp only at h
        obtain ⟨hs, hr⟩ := (presenterIsCredentialSubject_some_iff E vp s).mp hq
        by_cases hc : (expected != "" && s != expected) = true
        · rw [if_pos hc] at h; cases h
        · rw [if_neg hc] at h
          injection h with h; subst h
          refine ⟨hs, ?_, ?_⟩
          · rcases resolveSubjectDID_all hr with ⟨hnil, _⟩ | ⟨_, hall⟩
            · rw [hnil] at hl; exact absurd rfl hl
            · exact hall
          · intro hne
            simp only [Bool.and_eq_true, bne_iff_ne, ne_eq, not_and, Decidable.not_not] at hc
            exact hc hne

/-- what the dates check guarantees: both dates are reported (non-nil, taken from the signed proof / token) and are at most
    `maxValidity` apart -/
theorem s2s_validity_is_bounded (mv : Time) (vp : Pres) (h : validateS2SMaxValidity mv vp = .ok ()) :
    ∃ c e, presentationIssuanceDate vp = .ok (some c) ∧ presentationExpirationDate vp = .ok (some e) ∧ e - c ≤ mv := by
  unfold validateS2SMaxValidity at h
  cases hi : presentationIssuanceDate vp with
  | panic p => rw [hi] at h; cases h
  | err e => rw [hi] at h; cases h
  | ok created =>
    cases he : presentationExpirationDate vp with
    | panic p => rw [hi, he] at h; cases h
    | err e => rw [hi, he] at h; cases h
    | ok expires =>
      rw [hi, he] at h
      cases created with
      | none => cases h
      | some c =>
        cases expires with
        | none => cases h
        | some e =>
          simp only at h
          by_cases hgt : e - c > mv
          · rw [if_pos hgt] at h; cases h
          · exact ⟨c, e, rfl, rfl, Int.not_lt.mp hgt⟩

/-- THE ENVELOPE (all lists of presentations, any length): when the first loop of the S2S token handler accepts, ONE DID is the signer
    of every presentation and the subject of every credential in every presentation, and every presentation's signed validity is
    bounded.  `hDid` is go-did's parser contract (a parsed signer DID is not the empty DID). -/
theorem s2s_envelope_is_by_one_subject (mv : Time) (E : Env) (hDid : ∀ vp s, presentationSigner E vp = some s → s ≠ "")
    (vps : List Pres) (acc d : String) (h : s2sPresentations mv E vps acc = .ok d) :
    (vps = [] → d = acc) ∧ (acc ≠ "" → d = acc) ∧
    ∀ vp ∈ vps, presentationSigner E vp = some d ∧ (∀ c ∈ vp.vcs, subjectDID c = some d) ∧
      ∃ c e, presentationIssuanceDate vp = .ok (some c) ∧ presentationExpirationDate vp = .ok (some e) ∧ e - c ≤ mv := by
  induction vps generalizing acc with
  | nil =>
    simp only [s2sPresentations] at h
    injection h with h
    exact ⟨fun _ => h.symm, fun _ => h.symm, by intro vp hvp; cases hvp⟩
  | cons vp rest ih =>
    unfold s2sPresentations at h
    cases hv : validateS2SMaxValidity mv vp with
    | err e => rw [hv] at h; cases h
    | panic p => rw [hv] at h; cases h
    | ok u =>
      cases u
      rw [hv] at h
      simp only at h
      cases hs : validatePresentationSigner E vp acc with
      | err e => rw [hs] at h; cases h
      | panic p => rw [hs] at h; cases h
      | ok d1 =>
        rw [hs] at h
        simp only at h
        obtain ⟨hsig, hall, hexp⟩ := validated_signer_is_subject_of_every_credential E vp acc d1 hs
        have hne : d1 ≠ "" := hDid vp d1 hsig
        obtain ⟨_, hkeep, hrest⟩ := ih d1 h
        have hd : d = d1 := hkeep hne
        subst hd
        refine ⟨(by intro e; cases e), fun ha => hexp ha, ?_⟩
        intro vp' hvp'
        cases hvp' with
        | head => exact ⟨hsig, hall, s2s_validity_is_bounded mv vp hv⟩
        | tail _ hm => exact hrest vp' hm

/-- a presentation that carries a credential about somebody else stops the S2S handler (composition of the loop with the ∀ of the
    subject rule) -/
theorem s2s_refuses_foreign_credential (mv : Time) (E : Env) (hDid : ∀ vp s, presentationSigner E vp = some s → s ≠ "")
    (vps : List Pres) (vp : Pres) (c : Cred) (hvp : vp ∈ vps) (hc : c ∈ vp.vcs) (d : String)
    (hother : subjectDID c ≠ presentationSigner E vp) : s2sPresentations mv E vps "" ≠ .ok d := by
  intro h
  obtain ⟨_, _, hall⟩ := s2s_envelope_is_by_one_subject mv E hDid vps "" d h
  obtain ⟨hs, hsub, _⟩ := hall vp hvp
  exact hother ((hsub c hc).trans hs.symm)

-- non-vacuity
example : s2sPresentations 5000 exE2 [exVP] "" = .err "missing-date" := by decide
example : validatePresentationSigner exE2 exVP "" = .ok "did:x:i" := by decide
example : validatePresentationSigner exE2 exVP "did:x:other" = .err "not-same" := by decide
example : validatePresentationSigner exE2 { exVP with vcs := [exC, { exC with subjects := some [.did "did:x:victim"] }] } "" = .err "resolve" := by decide
example : validatePresentationSigner exE2 { exVP with vcs := [{ exC with subjects := some [.did "did:x:victim"] }] } "" = .err "not-subject" := by decide

def flowValidatePresentationSignerSrc : List String :=
  [ "if len(presentation.VerifiableCredential) == 0", "signerDID,err := credential.PresentationSigner(presentation)", "if err != nil",
    "return nil,err", "if !expectedCredentialSubjectDID.Empty() && !signerDID.Equals(expectedCredentialSubjectDID)",
    "return nil,errors.New(\"not all presentations have the same credential subject ID\")", "return signerDID,nil",
    "subjectDID,err := credential.PresenterIsCredentialSubject(presentation)", "if err != nil", "return nil,err", "if subjectDID == nil",
    "return nil,errors.New(\"presentation signer is not credential subject\")",
    "if !expectedCredentialSubjectDID.Empty() && !subjectDID.Equals(expectedCredentialSubjectDID)",
    "return nil,errors.New(\"not all presentations have the same credential subject ID\")", "return subjectDID,nil" ]
def flowMaxValiditySrc : List String :=
  [ "created := credential.PresentationIssuanceDate(presentation)", "expires := credential.PresentationExpirationDate(presentation)",
    "if created == nil || expires == nil", "return oauth.OAuth2Error{}", "if expires.Sub(*created) > s2sMaxPresentationValidity",
    "return oauth.OAuth2Error{}", "return nil" ]
def s2sFirstLoopSrc : List String :=
  [ "var credentialSubjectID did.DID values=0",
    "if err := validateS2SPresentationMaxValidity(presentation); err != nil", "err := validateS2SPresentationMaxValidity(presentation)",
    "return nil,err",
    "if subjectDID,err := validatePresentationSigner(presentation,credentialSubjectID); err != nil",
    "subjectDID,err := validatePresentationSigner(presentation,credentialSubjectID)",
    "return nil,oauthError(oauth.InvalidRequest,err.Error())", "credentialSubjectID = *subjectDID",
    "if err := r.validatePresentationAudience(presentation,subject); err != nil", "err := r.validatePresentationAudience(presentation,subject)",
    "return nil,err" ]
def flowPresenterIsCredentialSubjectSrc : List String :=
  [ "signerDID,err := PresentationSigner(vp)", "if err != nil", "return nil,err",
    "credentialSubjectID,err := ResolveSubjectDID(vp.VerifiableCredential)", "if err != nil", "return nil,err",
    "if !credentialSubjectID.Equals(*signerDID)", "return nil,nil", "return signerDID,nil" ]
def flowResolveSubjectDIDSrc : List String :=
  [ "range credentials", "sid,err := credential.SubjectDID()", "if err != nil", "return nil,err",
    "if !subjectID.Empty() && !subjectID.Equals(*sid)", "return nil,errors.New(\"not all VCs have the same credentialSubject.id\")",
    "subjectID = *sid", "return &subjectID,nil" ]

/-- regenerated from the source: the complete control flow of the two IAM validators and of the two util.go functions behind them, the
    order and subject threading of the handler's first loop (starting from the EMPTY DID), the 5 s constant, and that the handler's only
    VerifyVP call checks the credentials' signatures (verifyVCs = true) at the current time -/
theorem fact_s2s_presentation_checks :
    Nuts.Facts.C01.flow_validatePresentationSigner = flowValidatePresentationSignerSrc ∧
    Nuts.Facts.C01.flow_validateS2SPresentationMaxValidity = flowMaxValiditySrc ∧
    Nuts.Facts.C01.s2sFirstLoop = s2sFirstLoopSrc ∧
    Nuts.Facts.C01.flow_PresenterIsCredentialSubject = flowPresenterIsCredentialSubjectSrc ∧
    Nuts.Facts.C01.flow_ResolveSubjectDID = flowResolveSubjectDIDSrc ∧
    Nuts.Facts.C01.s2sMaxValidityMs = 5000 ∧
    Nuts.Facts.C01.s2sVerifyVPCalls = ["r.vcr.Verifier().VerifyVP(presentation,true,true,nil)"] := ⟨rfl, rfl, rfl, rfl, rfl, rfl, rfl⟩

end Nuts.C01.Props
