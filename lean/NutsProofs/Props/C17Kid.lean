/-
  C17 — "the verification key is taken only from where the protocol says — the resolved DID document … never kid of another
  party", on the CHARACTERS of kid and issuer: which kid is handed to the DID key resolver, and what passes the kid ↔ issuer test.
  ONLY property theorems (+ non-vacuity examples + obligations on the regenerated facts).
-/
import NutsModel.C17.Kid
import NutsModel.Facts.C17
import NutsProofs.Lemmas.C17Kid
import NutsProofs.Props.C17

namespace Nuts.C17.Props
open Nuts.C17 Nuts.C17.Kid

/-- resolveSigningKey and the kid ↔ issuer test of jwtSignature, verbatim -/
theorem fact_resolveSigningKey :
    Facts.C17.resolveSigningKeyBody = "{ if kid == \"\" { kid = issuer } if strings.HasPrefix(kid, \"did:jwk:\") && !strings.Contains(kid, \"#\") { kid += \"#0\" } return sv.keyResolver.ResolveKeyByID(kid, metadata, resolver.NutsSigningKeyType) }" ∧
    Facts.C17.vcJwtKidIssuerTest = "keyID != \"\" && strings.Split(keyID, \"#\")[0] != issuer" := by
  refine ⟨by rfl, by rfl⟩

/-- `strings.Split(kid, "#")[0] == issuer`, exactly: the kid is the issuer's DID itself or that DID followed by `#fragment`. A DID that
    extends, abbreviates or resembles the issuer's (`…alice2`, `…alice.attacker.net`, `…alice:sub`, `…alice%23x`) never passes -/
theorem kid_issuer_test_exact {kid issuer : List Char} (h : didPart kid = issuer) :
    kid = issuer ∨ ∃ rest, kid = issuer ++ '#' :: rest := didPart_eq h

/-- and conversely every such kid passes (non-vacuity), when the issuer holds no `#` -/
theorem kid_issuer_test_complete (issuer rest : List Char) (hi : '#' ∉ issuer) :
    didPart issuer = issuer ∧ didPart (issuer ++ '#' :: rest) = issuer :=
  ⟨didPart_no_hash issuer hi, didPart_append_hash issuer rest hi⟩

/-- the kid handed to the resolver names the ISSUER's DID whenever the kid ↔ issuer test passes (absent kid; did:jwk `#0` completion) -/
theorem resolved_kid_is_issuers (kid issuer : List Char) (hi : '#' ∉ issuer) (h : kid = [] ∨ didPart kid = issuer) :
    didPart (normKid kid issuer) = issuer := normKid_is_issuers kid issuer hi h

example : normKidS "" "did:jwk:abc" = "did:jwk:abc#0" ∧ normKidS "did:jwk:abc" "did:jwk:abc" = "did:jwk:abc#0" ∧
    normKidS "did:jwk:abc#1" "did:jwk:abc" = "did:jwk:abc#1" ∧ normKidS "" "did:web:x" = "did:web:x" ∧
    normKidS "did:web:x#k" "did:web:x" = "did:web:x#k" ∧ normKidS "did:jwk" "x" = "did:jwk" := by decide
example : didPartS "did:web:x2#k" ≠ "did:web:x" ∧ didPartS "did:web:x#k#l" = "did:web:x" ∧ didPartS "#k" = "" := by decide

/-- without did:jwk the refined function IS the abstract one (TokenPolicy.vcJwtSignature with `didOf` = Split(·, "#")[0]) -/
theorem vcJwtSignatureK_refines (sup : List String) (E : Env) (issuer : String) (j : Jws)
    (hnojwk : ∀ kid, normKidS kid issuer = (if kid = "" then issuer else kid)) :
    vcJwtSignatureK sup E issuer j = vcJwtSignature sup E issuer didPartS j := by
  unfold vcJwtSignatureK vcJwtSignature
  simp only [hnojwk]
  generalize parseJWT sup _ j = o
  cases o with
  | reject => rfl
  | accept vs => rcases j.sigs with _ | ⟨s, _ | ⟨s2, r⟩⟩ <;> rfl

/-- VC / VP in JWT format, on the characters: ParseJWT's discipline with the key the resolver returns for `normKid kid issuer`, and the
    kid is absent, the issuer's DID, or that DID plus a fragment -/
theorem accept_vcJwtK (E : Env) (issuer : String) (j : Jws) (vs : List Verified)
    (h : vcJwtSignatureK Facts.C17.supportedAlgs E issuer j = .accept vs) :
    Disciplined Facts.C17.supportedAlgs j vs (fun s v =>
      E.resolve (normKidS s.kid issuer) = some v.key ∧ E.verifies v.key s.alg 0 = true ∧ E.fits v.key s.alg = true ∧
      (s.kid = "" ∨ didPartS s.kid = issuer)) := by
  unfold vcJwtSignatureK at h
  simp only at h
  split at h; · cases h
  next vs' hp =>
  obtain ⟨s, v, hs, hv, hidx, halg, hal, hasym, hov, _, hres, hver, hfit⟩ := accept_parseJWT _ j vs' hp
  rw [hs] at h
  simp only at h
  split at h; · cases h
  next hk =>
  injection h with h
  subst h
  refine ⟨s, v, hs, hv, hidx, halg, hal, hasym, hov, hres, hver, hfit, ?_⟩
  by_cases hkid : s.kid = ""
  · exact Or.inl hkid
  · right
    simp only [Bool.and_eq_true, decide_eq_true_eq, not_and] at hk
    have := hk (by simpa using hkid)
    simpa using this

/-- ExtractProtectedHeaders never hands out the headers of one signature among several, and what it hands out for a token ParseJWT accepts
    are the protected headers of the very signature that is verified (did:x509: the `x5c` the resolver reads is covered by that signature) -/
theorem xph_single_signature (e : Bool) (j : Jws) (s : Sig) (h : extractProtectedHeaders e j = .headers (some s)) :
    e = false ∧ j.parses = true ∧ j.sigs = [s] := by
  unfold extractProtectedHeaders at h
  split at h; · cases h
  next he =>
  split at h; · cases h
  next hp =>
  split at h
  · next s' hs => injection h with h; injection h with h; subst h; exact ⟨by simpa using he, by simpa using hp, hs⟩
  · cases h

theorem xph_agrees_with_parseJWT (E : Env) (j : Jws) (vs : List Verified) (h : parseJWT Facts.C17.supportedAlgs E j = .accept vs) :
    ∃ s, j.sigs = [s] ∧ extractProtectedHeaders false j = .headers (some s) := by
  obtain ⟨s, v, hs, _⟩ := accept_parseJWT E j vs h
  have hp : j.parses = true := by
    unfold parseJWT at h
    split at h
    · cases h
    · next hp => simpa using hp
  exact ⟨s, hs, by simp [extractProtectedHeaders, hp, hs]⟩

example : extractProtectedHeaders false { parses := true, sigs := [], splitOK := true } = .err ∧
    extractProtectedHeaders false { parses := false, sigs := [], splitOK := false } = .headers none := by decide

/-- ExtractProtectedHeaders as regenerated: parse errors ignored, `!= 1` signatures an error, the headers of signature 0 -/
theorem fact_extractProtectedHeaders :
    Facts.C17.extractProtectedHeadersBody = "{ headers := make(map[string]interface{}) if jwt != \"\" { message, _ := jws.ParseString(jwt) if message != nil { if len(message.Signatures()) != 1 { return nil, ErrorInvalidNumberOfSignatures } var err error headers, err = message.Signatures()[0].ProtectedHeaders().AsMap(context.Background()) if err != nil { return nil, err } } } return headers, nil }" := by
  rfl

def exEnvJwk : Env where
  resolve := fun k => if k = "did:jwk:abc#0" then some "K" else none
  embeddedKey := fun _ => none
  verifies := fun _ _ _ => true
  verifiesSplit := fun _ _ _ => false

example : (vcJwtSignatureK ["ES256"] exEnvJwk "did:jwk:abc"
    { parses := true, sigs := [{ alg := "ES256", kid := "", jwk := .absent, hdrs := [], typ := "" }], splitOK := true }).accepted = true := by decide

end Nuts.C17.Props
