/-
  C09 — deepening round 2: the change-log side of the node's own publishing path (`Manager.Commit`, `onUpdate`,
  `onCreate`, `Deactivate`, key naming of `NewDocument`) and its composition with the receiving ambassador.
  Model: NutsModel/C09/Commit.lean. Property theorems + non-vacuity + fact obligations.
-/
import NutsModel.C09.Commit
import NutsModel.Facts.C09
import NutsModel.Facts.C10
import NutsProofs.Lemmas.C09
import NutsProofs.Props.C09Manager

namespace Nuts.C09.Props
open Nuts Nuts.C10 Nuts.C09

/-! ### obligations on the regenerated facts -/

/-- `Commit` switches on `change.Type`: created -> onCreate, deactivated -> onDeactivate (= `m.Deactivate`), updated ->
    onUpdate, default -> error; the three constants are the strings the SQL layer writes -/
theorem fact_commit_dispatch :
    Facts.C09.commitSwitch =
      [("orm.DIDChangeCreated", "m.onCreate(ctx, change)"), ("orm.DIDChangeDeactivated", "m.onDeactivate(ctx, change)"),
       ("orm.DIDChangeUpdated", "m.onUpdate(ctx, change)"), ("default", "fmt.Errorf(\"unknown event type: %s\", change.Type)")] ∧
    Facts.C09.onDeactivateIs = "m.Deactivate(ctx, event.DID())" ∧
    Facts.C09.changeTypeConstants = [("DIDChangeCreated", "created"), ("DIDChangeUpdated", "updated"), ("DIDChangeDeactivated", "deactivated")] := by
  refine ⟨by rfl, by rfl, by rfl⟩

/-- `onUpdate`: resolver lookup (AllowDeactivated), `IsDeactivated(document)` => `return nil`, THEN the proposal is parsed,
    validated by `ManagedDocumentValidator`, and the same tail as `Update` (key choice, controller metadata, template,
    network); no `withJSONLDContext`, no `m.store.Add` -/
theorem fact_on_update_steps :
    Facts.C09.onUpdateCalls =
      ["m.resolver.Resolve(id, resolverMetadata)", "resolver.IsDeactivated(*currentDIDDocument)",
       "event.DIDDocumentVersion.ToDIDDocument()", "ManagedDocumentValidator(serviceResolver)",
       "m.resolveControllerWithKey(ctx, *currentDIDDocument)", "m.resolver.Resolve(controller.ID, nil)",
       "network.TransactionTemplate(DIDDocumentType, payload, kid)", "m.networkClient.CreateTransaction(ctx, networkTransaction)"] ∧
    Facts.C09.onUpdateDeactivatedTest = "resolver.IsDeactivated(*currentDIDDocument) => return nil" ∧
    Facts.C09.onUpdatePrevs = Facts.C09.managerUpdatePrevs ∧
    Facts.C09.onUpdateTemplate = Facts.C09.managerUpdateTemplate := by
  refine ⟨by rfl, by rfl, by rfl, by rfl⟩

/-- `onCreate`: no validator call, no store call; kid and attached key come from `VerificationMethod[0]`, prevs are an
    empty slice -/
theorem fact_on_create_template :
    Facts.C09.onCreateCalls =
      ["event.DIDDocumentVersion.ToDIDDocument()", "didDocument.VerificationMethod[0].PublicKey()",
       "network.TransactionTemplate(DIDDocumentType, payload, didDocument.VerificationMethod[0].ID.String())",
       "m.networkClient.CreateTransaction(transactionContext, networkTx)"] ∧
    Facts.C09.onCreateTemplate =
      "network.TransactionTemplate(DIDDocumentType, payload, didDocument.VerificationMethod[0].ID.String()).WithAttachKey(publicKey).WithAdditionalPrevs(refs)" ∧
    Facts.C09.onCreateRefs = "make([]hash.SHA256Hash, 0)" := by
  refine ⟨by rfl, by rfl, by rfl⟩

/-- `getKIDName`: method, id string from the naming function, fragment = the JWK's assigned key id; `DIDKIDNamingFunc`
    names with `nutsCrypto.Thumbprint` — the SAME function `handleCreateDIDDocument` compares the DID with;
    `NewDocument` asks the key store with `DIDKIDNamingFunc` and builds the method from the parsed kid -/
theorem fact_kid_naming :
    Facts.C09.kidAssembly = [("kid.Method", "MethodName"), ("kid.ID", "idString"), ("kid.Fragment", "jwKey.KeyID()")] ∧
    Facts.C09.didKIDNamingIdFunc = "nutsCrypto.Thumbprint" ∧
    Facts.C09.createThumbprintFunc = "nutsCrypto.Thumbprint" ∧
    Facts.C09.didSubKIDNamingId = "owningDID.ID" ∧
    Facts.C09.newDocumentNaming = "m.keyStore.New(ctx, DIDKIDNamingFunc)" ∧
    Facts.C09.newDocumentVM = "did.NewVerificationMethod(*keyID, ssi.JsonWebKey2020, keyID.DID, publicKey)" ∧
    Facts.C09.methodName = "nuts" := by
  refine ⟨by rfl, by rfl, by rfl, by rfl, by rfl, by rfl, by rfl⟩

/-! ### `Update` and `onUpdate` share their tail -/

/-- `Manager.Update` = store lookup, metadata deactivation test, then the shared tail -/
theorem managerUpdate_eq_tail (c : Cfg) (s : Store) (has : String → Bool) (svcOk : Bool) (id : String) (next : NDoc) :
    managerUpdate c s has svcOk id next =
      (match resolve s id (some { allowDeactivated := true }) with
       | .err e => .err ("mgr:resolve:" ++ e)
       | .panic x => .panic x
       | .ok (cur, curMeta) => if curMeta.deactivated then .err "mgr:deactivated" else publishTail c s has svcOk cur curMeta next) := by
  unfold managerUpdate publishTail
  rfl

/-- what the shared tail publishes (statement of `managerUpdate_sound`, for any current version handed in) -/
theorem publishTail_sound (c : Cfg) (s : Store) (has : String → Bool) (svcOk : Bool) (cur : Doc) (curMeta : Meta) (next : NDoc)
    (p : Published) (h : publishTail c s has svcOk cur curMeta next = .ok p) :
    ∃ ctrls ctrl ctrlDoc ctrlMeta,
      validate c.thumb c.vmNilJwkErr c.validators next = .ok () ∧ svcOk = true ∧
      managerControllers c.maxDepth s cur = .ok ctrls ∧ ctrl ∈ ctrls ∧ isDeactivated ctrl = false ∧
      (∃ e ∈ ctrl.f .capInv, e.id = p.kid) ∧ has p.kid = true ∧
      resolve s ctrl.id none = .ok (ctrlDoc, ctrlMeta) ∧
      p.prevs = curMeta.sourceTx ++ ctrlMeta.sourceTx ∧ p.doc = next := by
  unfold publishTail at h
  cases hv : validate c.thumb c.vmNilJwkErr c.validators next with
  | err e => rw [hv] at h; cases h
  | panic x => rw [hv] at h; cases h
  | ok u =>
    rw [hv] at h
    simp only [] at h
    cases hs : svcOk with
    | false => simp [hs] at h
    | true =>
      simp only [hs, Bool.not_true, Bool.false_eq_true, if_false] at h
      cases hc : managerControllers c.maxDepth s cur with
      | err e => rw [hc] at h; cases h
      | panic x => rw [hc] at h; cases h
      | ok ctrls =>
        rw [hc] at h
        simp only [] at h
        by_cases he : ctrls.isEmpty = true
        · simp [he] at h
        · have he' : ctrls.isEmpty = false := by simpa using he
          simp only [he', Bool.false_eq_true, if_false] at h
          cases hk : firstOwnedKey has ctrls with
          | none => rw [hk] at h; cases h
          | some ck =>
            obtain ⟨ctrl, kid⟩ := ck
            rw [hk] at h
            simp only [] at h
            cases hrr : resolverResolve c.maxDepth s none ctrl.id with
            | err e => rw [hrr] at h; cases h
            | panic x => rw [hrr] at h; cases h
            | ok d0 =>
              rw [hrr] at h
              simp only [] at h
              cases hm : resolve s ctrl.id none with
              | err e => rw [hm] at h; cases h
              | panic x => rw [hm] at h; cases h
              | ok dm =>
                obtain ⟨ctrlDoc, ctrlMeta⟩ := dm
                rw [hm] at h
                simp only [Res.ok.injEq] at h
                subst h
                obtain ⟨hmem, hentry, hhas⟩ := firstOwnedKey_sound has ctrls ctrl kid hk
                have hact := (ctrlsWith_mem _ cur ctrls hc ctrl hmem).1
                cases u
                exact ⟨ctrls, ctrl, ctrlDoc, ctrlMeta, by first | rfl | assumption, by first | rfl | assumption, by first | rfl | assumption,
                  hmem, hact, hentry, hhas, by first | rfl | assumption, rfl, rfl⟩

/-- **What `onUpdate` publishes.** An update template leaves `onUpdate` only if the latest version of the DID is not a
    deactivated DOCUMENT, the proposal parses and passes the network validator rules and the managed-service check, the
    kid is a capabilityInvocation entry of an ACTIVE controller of the latest version whose key this node holds, and
    the prevs are the latest version's source transactions followed by that controller's. -/
theorem managerOnUpdate_sound (c : Cfg) (s : Store) (has : String → Bool) (svcOk : Bool) (id : String) (next : Option NDoc) (p : Published)
    (h : managerOnUpdate c s has svcOk id next = .ok (.update p)) :
    ∃ cur curMeta d ctrls ctrl ctrlDoc ctrlMeta,
      resolve s id (some { allowDeactivated := true }) = .ok (cur, curMeta) ∧ isDeactivated cur = false ∧ next = some d ∧
      validate c.thumb c.vmNilJwkErr c.validators d = .ok () ∧ svcOk = true ∧
      managerControllers c.maxDepth s cur = .ok ctrls ∧ ctrl ∈ ctrls ∧ isDeactivated ctrl = false ∧
      (∃ e ∈ ctrl.f .capInv, e.id = p.kid) ∧ has p.kid = true ∧
      resolve s ctrl.id none = .ok (ctrlDoc, ctrlMeta) ∧
      p.prevs = curMeta.sourceTx ++ ctrlMeta.sourceTx ∧ p.doc = d := by
  unfold managerOnUpdate at h
  cases hr : resolve s id (some { allowDeactivated := true }) with
  | err e => rw [hr] at h; cases h
  | panic x => rw [hr] at h; cases h
  | ok cm =>
    obtain ⟨cur, curMeta⟩ := cm
    rw [hr] at h
    simp only [] at h
    cases hd : isDeactivated cur with
    | true => simp [hd] at h
    | false =>
      simp only [hd, Bool.false_eq_true, if_false] at h
      cases next with
      | none => cases h
      | some d =>
        simp only [] at h
        cases ht : publishTail c s has svcOk cur curMeta d with
        | err e => rw [ht] at h; cases h
        | panic x => rw [ht] at h; cases h
        | ok p' =>
          rw [ht] at h
          simp only [Res.ok.injEq, Template.update.injEq] at h
          subst h
          obtain ⟨ctrls, ctrl, ctrlDoc, ctrlMeta, h1, h2, h3, h4, h5, h6, h7, h8, h9, h10⟩ :=
            publishTail_sound c s has svcOk cur curMeta d p' ht
          exact ⟨cur, curMeta, d, ctrls, ctrl, ctrlDoc, ctrlMeta, rfl, hd, rfl, h1, h2, h3, h4, h5, h6, h7, h8, h9, h10⟩

/-- **A deactivated document is never updated through the change log**: `onUpdate` publishes nothing and reports no
    error, whatever the proposal and the key store are -/
theorem managerOnUpdate_deactivated_publishes_nothing (c : Cfg) (s : Store) (has : String → Bool) (svcOk : Bool) (id : String)
    (next : Option NDoc) (cur : Doc) (m : Meta)
    (hr : resolve s id (some { allowDeactivated := true }) = .ok (cur, m)) (hd : isDeactivated cur = true) :
    managerOnUpdate c s has svcOk id next = .ok .nothing := by
  unfold managerOnUpdate
  rw [hr]
  simp [hd]

/-- **The two update paths agree.** Whenever the store's `Deactivated` flag of the latest version says what
    `IsDeactivated` says of the document (always so for unconflicted DIDs) and the document is active, the change-log
    path publishes EXACTLY the template `Manager.Update` publishes for the same proposal, and fails with the same error. -/
theorem onUpdate_agrees_with_update (c : Cfg) (s : Store) (has : String → Bool) (svcOk : Bool) (id : String) (d : NDoc)
    (cur : Doc) (m : Meta) (hr : resolve s id (some { allowDeactivated := true }) = .ok (cur, m))
    (hflag : m.deactivated = false) (hdoc : isDeactivated cur = false) :
    managerOnUpdate c s has svcOk id (some d) =
      (match managerUpdate c s has svcOk id d with
       | .ok p => .ok (.update p)
       | .err e => .err e
       | .panic x => .panic x) := by
  rw [managerUpdate_eq_tail]
  unfold managerOnUpdate
  rw [hr]
  simp only [hflag, hdoc, Bool.false_eq_true, if_false]
  cases publishTail c s has svcOk cur m d <;> rfl

/-- ... and where they differ: with the flag set but an active-looking document (a conflicted DID one of whose branches
    is deactivated) `Update` refuses while `onUpdate` goes on; with the document deactivated `onUpdate` is silent -/
theorem update_refuses_on_flag (c : Cfg) (s : Store) (has : String → Bool) (svcOk : Bool) (id : String) (d : NDoc)
    (cur : Doc) (m : Meta) (hr : resolve s id (some { allowDeactivated := true }) = .ok (cur, m)) (hflag : m.deactivated = true) :
    managerUpdate c s has svcOk id d = .err "mgr:deactivated" :=
  managerUpdate_deactivated_refused c s has svcOk id d cur m hr hflag

/-! ### `onCreate` and the receiving ambassador -/

/-- the creation template names `VerificationMethod[0]` and attaches ITS key; the payload is the proposal, unvalidated -/
theorem managerOnCreate_sound (next : Option NDoc) (kid : String) (k : Key) (d : NDoc)
    (h : managerOnCreate next = .ok (.create kid k d)) :
    next = some d ∧ d.vmNull = false ∧ ∃ v rest, d.vms = v :: rest ∧ v.id = kid ∧ v.key = .key k ∧ v.pkUnsupported = false := by
  unfold managerOnCreate at h
  cases next with
  | none => cases h
  | some d' =>
    simp only [] at h
    cases hn : d'.vmNull with
    | true => simp [hn] at h
    | false =>
      simp only [hn, Bool.false_eq_true, if_false] at h
      cases hv : d'.vms with
      | nil => rw [hv] at h; cases h
      | cons v rest =>
        rw [hv] at h
        simp only [] at h
        unfold vmPublicKey at h
        cases hp : v.pkUnsupported with
        | true => simp [hp] at h
        | false =>
          simp only [hp, Bool.false_eq_true, if_false] at h
          cases hk : v.key with
          | none => rw [hk] at h; cases h
          | bad => rw [hk] at h; cases h
          | key k' =>
            rw [hk] at h
            simp only [Res.ok.injEq, Template.create.injEq] at h
            obtain ⟨rfl, rfl, rfl⟩ := h
            exact ⟨rfl, hn, v, rest, hv, rfl, hk, hp⟩

/-- `onCreate` never produces an update template, `onUpdate` never a creation -/
theorem commit_template_kind (c : Cfg) (s : Store) (has : String → Bool) (svcOk : Bool) (t : ChangeType) (id : String)
    (next : Option NDoc) (dnext : NDoc) (tp : Template) (h : managerCommit c s has svcOk t id next dnext = .ok tp) :
    (t = .created ∧ ∃ kid k d, tp = .create kid k d) ∨
    (t = .deactivated ∧ ∃ p, tp = .update p ∧ managerUpdate c s has svcOk id dnext = .ok p) ∨
    (t = .updated ∧ ((∃ p, tp = .update p) ∨ tp = .nothing)) := by
  cases t with
  | created =>
    left
    refine ⟨rfl, ?_⟩
    simp only [managerCommit] at h
    unfold managerOnCreate at h
    cases next with
    | none => cases h
    | some d =>
      simp only [] at h
      split at h
      · cases h
      · split at h
        · cases h
        · split at h
          · simp only [Res.ok.injEq] at h
            exact ⟨_, _, _, h.symm⟩
          · cases h
          · cases h
  | deactivated =>
    right; left
    refine ⟨rfl, ?_⟩
    simp only [managerCommit] at h
    cases hu : managerUpdate c s has svcOk id dnext with
    | ok p => rw [hu] at h; simp only [Res.ok.injEq] at h; exact ⟨p, h.symm, rfl⟩
    | err e => rw [hu] at h; cases h
    | panic x => rw [hu] at h; cases h
  | updated =>
    right; right
    refine ⟨rfl, ?_⟩
    simp only [managerCommit] at h
    cases tp with
    | update p => exact Or.inl ⟨p, rfl⟩
    | nothing => exact Or.inr rfl
    | create kid k d =>
      exfalso
      unfold managerOnUpdate at h
      split at h
      · cases h
      · cases h
      · split at h
        · cases h
        · split at h
          · cases h
          · split at h <;> cases h
  | other => simp [managerCommit] at h

/-- **What this node creates, as the receiving ambassadors judge it.** The transaction made from `onCreate`'s template
    (attached key embedded, signed with it) passes the DAG verifier, and the ambassador accepts it IFF the document —
    which `onCreate` did not validate — passes the network validator and its DID is the thumbprint of the key of
    `VerificationMethod[0]` (and the store takes it). -/
theorem created_template_accepted_iff (c : Cfg) (s s' : Store) (next : Option NDoc) (kid : String) (k : Key) (d : NDoc)
    (ref clock sigTime : Nat) (prevs : List Nat) (ph : String)
    (h : managerOnCreate next = .ok (.create kid k d)) :
    deliver c s (createdTx k ref clock sigTime prevs ph) (some d) = .ok s' ↔
      (validate c.thumb c.vmNilJwkErr c.validators d = .ok () ∧ d.idID = c.didThumb k ∧
       storeAdd c s (createdTx k ref clock sigTime prevs ph) d = .ok s') := by
  unfold deliver verifySig callback checkTransactionIntegrity handleCreate
  simp only [createdTx, Bool.not_true, Bool.false_eq_true, if_false, if_true]
  cases hv : validate c.thumb c.vmNilJwkErr c.validators d with
  | err e => simp
  | panic x => simp
  | ok u =>
    cases u
    by_cases hid : d.idID = c.didThumb k
    · simp [hid]
    · simp [hid]

/-- the verification method named by `getKIDName` satisfies the Nuts verification-method rules of the document that
    owns the id string (used by `NewDocument` with the key's own thumbprint and by `didSubKIDNamingFunc` with the owning
    DID): fragment present, id prefixed by the owner, fragment = thumbprint of the key -/
theorem namedVM_passes_validator (thumb : Key → String) (nilErr : Bool) (on : Rule → Bool) (idString : String) (k : Key)
    (known : List String) (hne : thumb k ≠ "") (hnew : known.contains (getKIDName thumb idString k) = false) :
    validateVMs thumb nilErr on ("did:nuts:" ++ idString) [namedVM thumb idString k] known = .ok () := by
  have hn : ¬ getKIDName thumb idString k ∈ known := by simpa using hnew
  simp [validateVMs, namedVM, entryIdErr, hne, hn]

/-- **A DID created by this node is accepted by every ambassador.** For every key the key store generates (non-empty
    thumbprint), `NewDocument`'s document goes through `onCreate` unchanged with kid `did:nuts:<thumb>#<thumb>` and the
    key attached, and the resulting transaction is accepted by the DAG verifier and the ambassador of ANY node — the
    only thing that can still refuse it is that node's store. -/
theorem newDocument_accepted (c : Cfg) (s : Store) (k : Key) (ref clock sigTime : Nat) (prevs : List Nat) (ph : String)
    (hv : c.validators = Facts.C09.networkValidators) (hne : c.thumb k ≠ "") :
    managerOnCreate (some (newDocument c k)) = .ok (.create (didKIDName c k) k (newDocument c k)) ∧
    deliver c s (createdTx k ref clock sigTime prevs ph) (some (newDocument c k)) =
      storeAdd c s (createdTx k ref clock sigTime prevs ph) (newDocument c k) := by
  constructor
  · simp [managerOnCreate, newDocument, vmPublicKey, namedVM, didKIDName]
  · have hval : validate c.thumb c.vmNilJwkErr c.validators (newDocument c k) = .ok () := by
      rw [hv]
      simp [validate, Facts.C09.networkValidators, validateList, runValidator, validateNil, validateW3C, firstBadRel, vmW3COk,
        newDocument, namedVM, validateVMs, validateSvcs, entryIdErr, hne, getKIDName]
    unfold deliver verifySig callback checkTransactionIntegrity handleCreate
    simp only [createdTx, Bool.not_true, Bool.false_eq_true, if_false, if_true, hval]
    simp [newDocument]

/-- the document `Deactivate` proposes is a deactivated document: no controller, no capabilityInvocation -/
theorem deactivationDoc_is_deactivated (id idID : String) (ctxs : List String) :
    isDeactivated (deactivationDoc id idID ctxs).toDoc = true := by
  simp [isDeactivated, deactivationDoc, NDoc.toDoc]

/-! ### non-vacuity -/
private def cfgK : Cfg :=
  { thumb := fun k => k, didThumb := fun k => "D" ++ k, maxDepth := Facts.C09.maxControllerDepth,
    validators := Facts.C09.networkValidators, vmNilJwkErr := Facts.C09.verifyThumbprintGuardsNilJwk,
    findKeyNilJwkErr := Facts.C09.findKeyGuardsNilJwk, store := cfgOf (fun _ l => l) Facts.C10.mergeSortedFields }
private def vmK (k : String) : NVM := { id := "did:nuts:Da#" ++ k, pfx := "did:nuts:Da", frag := k, key := .key k }
private def docK (keys : List String) : NDoc :=
  { id := "did:nuts:Da", idID := "Da", vms := keys.map vmK, capInv := keys.map vmK }
private def sK : Store := (step cfgK {} (createdTx "a" 100 0 10 [] "p100") (some (newDocument cfgK "a"))).1
private def sK2 : Store :=
  (step cfgK sK { ref := 200, clock := 1, sigTime := 20, prevs := [100], payloadHash := "p200",
                  kid := { holder := "did:nuts:Da", id := "did:nuts:Da#a" }, signer := "a" } (some (deactivationDoc "did:nuts:Da" "Da" []))).1
private def showT (r : Res Template) : String :=
  match r with
  | .ok (.update p) => s!"update {p.kid} {p.prevs}"
  | .ok (.create kid k _) => s!"create {kid} {k}"
  | .ok .nothing => "nothing"
  | .err e => e | .panic x => x

/-- the node's own creation is stored by an (empty) receiving node: `newDocument_accepted` is not vacuous -/
example : (step cfgK {} (createdTx "a" 100 0 10 [] "p100") (some (newDocument cfgK "a"))).2 = "ok" := by decide
example : showT (managerCommit cfgK sK (fun _ => true) true .created "did:nuts:Da" (some (newDocument cfgK "a")) default)
    = "create did:nuts:Da#a a" := by decide
example : showT (managerCommit cfgK sK (fun _ => true) true .updated "did:nuts:Da" (some (docK ["a", "b"])) default)
    = "update did:nuts:Da#a [100, 100]" := by decide
example : showT (managerCommit cfgK sK (fun _ => true) true .deactivated "did:nuts:Da" none (deactivationDoc "did:nuts:Da" "Da" []))
    = "update did:nuts:Da#a [100, 100]" := by decide
example : showT (managerCommit cfgK sK (fun _ => true) true .other "did:nuts:Da" none default) = "mgr:unknown-event-type" := by decide
/-- after the deactivation was received: `onUpdate` is silent, `Update` (hence `Deactivate`) refuses -/
example : showT (managerCommit cfgK sK2 (fun _ => true) true .updated "did:nuts:Da" (some (docK ["a"])) default) = "nothing" := by decide
example : showT (managerCommit cfgK sK2 (fun _ => true) true .deactivated "did:nuts:Da" none (deactivationDoc "did:nuts:Da" "Da" []))
    = "mgr:deactivated" := by decide
example : showT (managerOnCreate (some (docK []))) = "onCreate:VerificationMethod[0]" := by decide
/-- a creation whose first method is not the DID's key is published by `onCreate` and refused by the ambassador -/
example : showT (managerOnCreate (some (docK ["b", "a"]))) = "create did:nuts:Da#b b" ∧
    (step cfgK {} (createdTx "b" 100 0 10 [] "p100") (some (docK ["b", "a"]))).2 = "err:create:thumbprint-mismatch" := by decide

end Nuts.C09.Props
