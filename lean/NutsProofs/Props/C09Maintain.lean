/-
  C09 — deepening round 3: `Manager.RemoveVerificationMethod` (with go-did's `Document.RemoveVerificationMethod`) and
  `Manager.IsCommitted`, and their composition with the receiving ambassador ("updates signed by removed keys").
  Model: NutsModel/C09/Maintain.lean. Property theorems + non-vacuity + fact obligations.
-/
import NutsModel.C09.Maintain
import NutsModel.Facts.C09
import NutsModel.Facts.C10
import NutsProofs.Lemmas.C09
import NutsProofs.Props.C09
import NutsProofs.Props.C09Manager

namespace Nuts.C09.Props
open Nuts Nuts.C10 Nuts.C09

/-! ### obligations on the regenerated facts -/

/-- `Manager.RemoveVerificationMethod`: resolve through `m.resolver` with deactivated documents allowed, remember the
    length, go-did's removal, "same length => return nil", else `m.Update(ctx, id, *doc)` -/
theorem fact_remove_vm_steps :
    Facts.C09.removeVMSteps =
      ["m.resolver.Resolve(id, &resolver.ResolveMetadata{AllowDeactivated: true})",
       "lenBefore := len(doc.VerificationMethod)",
       "doc.RemoveVerificationMethod(keyID)",
       "if lenBefore == len(doc.VerificationMethod) => return nil",
       "return m.Update(ctx, id, *doc)"] := by decide

/-- go-did `Document.RemoveVerificationMethod` filters `verificationMethod` and all five relationships, each by
    `!x.ID.Equals(id)` (the model's `keepVM`) -/
theorem fact_godid_remove_vm :
    Facts.C09.removeVerificationMethodFields =
      ["VerificationMethod.remove", "AssertionMethod.Remove", "Authentication.Remove", "CapabilityDelegation.Remove",
       "CapabilityInvocation.Remove", "KeyAgreement.Remove"] ∧
    Facts.C09.removeLoopTests = ["!vm.ID.Equals(id)", "!r.ID.Equals(id)"] := by decide

/-- `Manager.IsCommitted`: store lookup with deactivated allowed; ErrNotFound => (false, nil); other errors returned;
    answer = `meta.Hash.Equals(changeHash)` with the hash of the raw document -/
theorem fact_is_committed :
    Facts.C09.isCommittedSteps =
      ["m.store.Resolve(change.DID(), &resolver.ResolveMetadata{AllowDeactivated: true})",
       "if errors.Is(err, resolver.ErrNotFound) => return false, nil",
       "return false, err",
       "changeHash := hash.SHA256Sum([]byte(change.DIDDocumentVersion.Raw))",
       "return meta.Hash.Equals(changeHash), nil"] := by decide

/-- wave 9: `verifyThumbprint` compares TEXT with TEXT — the base64url encoding of the calculated thumbprint against the id
    fragment as it stands; nothing is decoded (a lenient decoder maps 4 spellings, and spellings with CR/LF, to the same bytes) -/
theorem fact_thumbprint_id_comparison_is_textual :
    Facts.C09.thumbprintIdComparison =
      ["if base64.RawURLEncoding.EncodeToString(thumbprint) != method.ID.Fragment => return errors.New(\"key thumbprint does not match ID\")"] := by
  rfl

/-- **Another spelling of the same bytes is not the thumbprint**: whatever decoder `dec` one has in mind, a fragment that
    decodes to the same bytes as the thumbprint text but is a different string is refused by the key-id rule -/
theorem noncanonical_thumbprint_spelling_refused (thumb : Key → String) (ne : Bool) (owner : String) (v : NVM) (k : Key)
    (dec : String → List Nat) (vs : List NVM) (known : List String)
    (hk : v.key = .key k) (_hdec : dec v.frag = dec (thumb k)) (hne : v.frag ≠ thumb k)
    (hid : entryIdErr true true true owner v.id v.pfx v.frag known = none) :
    validateVMs thumb ne allOn owner (v :: vs) known = .err "validate:vm:thumbprint" := by
  unfold validateVMs
  simp only [allOn, hid, hk]
  simp [Ne.symm hne]

example : validateVMs (fun k => k) true allOn "did:nuts:A"
    [{ id := "did:nuts:A#abcB", pfx := "did:nuts:A", frag := "abcB", key := .key "abcA" }] [] = .err "validate:vm:thumbprint" := by decide

/-! ### go-did's removal -/

theorem keepVM_iff (kid : String) (v : NVM) : keepVM kid v = true ↔ v.id ≠ kid := by
  unfold keepVM; simp

/-- **The removed method is gone everywhere**: after the removal no entry of `verificationMethod` or of any of the five
    relationships carries the id -/
theorem removeVM_absent (d : NDoc) (kid : String) :
    let r := ndocRemoveVM d kid
    (∀ v ∈ r.vms, v.id ≠ kid) ∧ (∀ v ∈ r.auth, v.id ≠ kid) ∧ (∀ v ∈ r.assertion, v.id ≠ kid) ∧
    (∀ v ∈ r.keyAgr, v.id ≠ kid) ∧ (∀ v ∈ r.capInv, v.id ≠ kid) ∧ (∀ v ∈ r.capDel, v.id ≠ kid) := by
  simp only [ndocRemoveVM]
  refine ⟨?_, ?_, ?_, ?_, ?_, ?_⟩ <;>
    (intro v hv; exact (keepVM_iff kid v).mp (List.mem_filter.mp hv).2)

/-- **Nothing else is touched**: every entry with another id stays, in its place; identity, controllers, contexts and
    services are the same -/
theorem removeVM_keeps_others (d : NDoc) (kid : String) :
    let r := ndocRemoveVM d kid
    (∀ v ∈ d.vms, v.id ≠ kid → v ∈ r.vms) ∧ (∀ v ∈ d.capInv, v.id ≠ kid → v ∈ r.capInv) ∧
    (∀ v ∈ d.auth, v.id ≠ kid → v ∈ r.auth) ∧ (∀ v ∈ d.assertion, v.id ≠ kid → v ∈ r.assertion) ∧
    (∀ v ∈ d.keyAgr, v.id ≠ kid → v ∈ r.keyAgr) ∧ (∀ v ∈ d.capDel, v.id ≠ kid → v ∈ r.capDel) ∧
    r.id = d.id ∧ r.controllers = d.controllers ∧ r.services = d.services ∧ r.contexts = d.contexts := by
  intro r
  refine ⟨?_, ?_, ?_, ?_, ?_, ?_, rfl, rfl, rfl, rfl⟩ <;>
    (intro v hv hne; exact List.mem_filter.mpr ⟨hv, (keepVM_iff kid v).mpr hne⟩)

/-- removing a method that is not listed changes nothing in `verificationMethod` (the "do not update" test) -/
theorem removeVM_length_eq_iff (d : NDoc) (kid : String) :
    d.vms.length = (ndocRemoveVM d kid).vms.length ↔ ∀ v ∈ d.vms, v.id ≠ kid := by
  simp only [ndocRemoveVM]
  constructor
  · intro h v hv
    have : d.vms.filter (keepVM kid) = d.vms := by
      apply List.filter_eq_self.mpr
      have hl := List.length_filter_eq_length_iff (p := keepVM kid) (l := d.vms)
      exact hl.mp h.symm
    exact (keepVM_iff kid v).mp (List.filter_eq_self.mp this v hv)
  · intro h
    have : d.vms.filter (keepVM kid) = d.vms :=
      List.filter_eq_self.mpr (fun v hv => (keepVM_iff kid v).mpr (h v hv))
    rw [this]

/-! ### the removal keeps a well-formed document well-formed -/

theorem validateVMs_filter (thumb : Key → String) (ne : Bool) (on : Rule → Bool) (owner : String) (p : NVM → Bool) :
    ∀ (vs : List NVM) (known known' : List String), (∀ x, x ∈ known' → x ∈ known) →
      validateVMs thumb ne on owner vs known = .ok () → validateVMs thumb ne on owner (vs.filter p) known' = .ok () := by
  intro vs
  induction vs with
  | nil => intro known known' _ _; simp [validateVMs]
  | cons v vs ih =>
    intro known known' hsub h
    unfold validateVMs at h
    cases he : entryIdErr (on .vmFragment) (on .vmUnique) (on .vmPrefix) owner v.id v.pfx v.frag known with
    | some e => rw [he] at h; cases h
    | none =>
      rw [he] at h
      simp only [] at h
      cases hk : v.key with
      | bad => rw [hk] at h; cases h
      | none => rw [hk] at h; simp only [] at h; split at h <;> cases h
      | key k =>
        rw [hk] at h
        simp only [] at h
        split at h
        · cases h
        · rename_i hth
          have hsub' : ∀ x, x ∈ v.id :: known' → x ∈ v.id :: known := by
            intro x hx
            rcases List.mem_cons.mp hx with rfl | hx
            · exact List.mem_cons_self
            · exact List.mem_cons_of_mem _ (hsub x hx)
          by_cases hp : p v = true
          · rw [List.filter_cons_of_pos hp]
            unfold validateVMs
            have he' : entryIdErr (on .vmFragment) (on .vmUnique) (on .vmPrefix) owner v.id v.pfx v.frag known' = none := by
              unfold entryIdErr at he ⊢
              split at he
              · cases he
              · rename_i h1
                split at he
                · cases he
                · rename_i h2
                  split at he
                  · cases he
                  · rename_i h3
                    rw [if_neg h1, if_neg ?_, if_neg h3]
                    intro hc
                    apply h2
                    simp only [Bool.and_eq_true] at hc ⊢
                    refine ⟨hc.1, ?_⟩
                    have := hc.2
                    simp only [List.contains_iff_mem] at this ⊢
                    exact hsub _ this
            rw [he', hk]
            simp only []
            rw [if_neg hth]
            exact ih (v.id :: known) (v.id :: known') hsub' h
          · rw [List.filter_cons_of_neg hp]
            exact ih (v.id :: known) known' (fun x hx => List.mem_cons_of_mem _ (hsub x hx)) h

theorem all_filter {α : Type} (p q : α → Bool) (l : List α) (h : l.all q = true) : (l.filter p).all q = true := by
  rw [List.all_eq_true] at h ⊢
  intro x hx
  exact h x (List.mem_filter.mp hx).1

theorem runValidator_removeVM (thumb : Key → String) (ne : Bool) (d : NDoc) (kid : String) (v : Validator)
    (h : runValidator thumb ne allOn d v = .ok ()) : runValidator thumb ne allOn (ndocRemoveVM d kid) v = .ok () := by
  cases v with
  | nilEntry => exact h
  | nutsService => exact h
  | nutsVM =>
    simp only [runValidator, ndocRemoveVM] at h ⊢
    exact validateVMs_filter thumb ne allOn d.id (keepVM kid) d.vms [] [] (fun _ hx => hx) h
  | w3c =>
    simp only [runValidator] at h ⊢
    obtain ⟨h1, h2, h3, h4, h5, h6⟩ := (validateW3C_ok_iff d).mp h
    apply (validateW3C_ok_iff _).mpr
    refine ⟨h1, h2, h3, ?_, ?_, h6⟩
    · intro v hv; exact h4 v (List.mem_filter.mp hv).1
    · intro v hv
      apply h5 v
      simp only [ndocRemoveVM, List.mem_append, List.mem_filter] at hv ⊢
      rcases hv with (((hv | hv) | hv) | hv) | hv
      · exact Or.inl (Or.inl (Or.inl (Or.inl hv.1)))
      · exact Or.inl (Or.inl (Or.inl (Or.inr hv.1)))
      · exact Or.inl (Or.inl (Or.inr hv.1))
      · exact Or.inl (Or.inr hv.1)
      · exact Or.inr hv.1

/-- **Removal preserves well-formedness**: whatever list of validators is composed, a document they accept is still
    accepted after go-did's `RemoveVerificationMethod` — so `RemoveVerificationMethod` on a well-formed stored version never
    fails in the validator of `Manager.Update`, and what it publishes passes the receiving ambassador's validator -/
theorem removeVM_preserves_validity (thumb : Key → String) (ne : Bool) (vals : List Validator) (d : NDoc) (kid : String)
    (h : validate thumb ne vals d = .ok ()) : validate thumb ne vals (ndocRemoveVM d kid) = .ok () := by
  unfold validate at h ⊢
  change validateList thumb ne allOn d vals = .ok () at h
  change validateList thumb ne allOn (ndocRemoveVM d kid) vals = .ok ()
  induction vals with
  | nil => rfl
  | cons v vs ih =>
    unfold validateList at h ⊢
    cases hv : runValidator thumb ne allOn d v with
    | err e => rw [hv] at h; cases h
    | panic x => rw [hv] at h; cases h
    | ok u =>
      cases u
      rw [hv] at h
      rw [runValidator_removeVM thumb ne d kid v hv]
      exact ih h

/-! ### `Manager.RemoveVerificationMethod` -/

/-- **What `RemoveVerificationMethod` publishes**: only when the method was listed; the published document is the
    resolved one without the method (in `verificationMethod` and in every relationship — in particular it is no longer a
    capabilityInvocation key), and everything `managerUpdate_sound` says holds for it -/
theorem managerRemoveVM_sound (c : Cfg) (s : Store) (has : String → Bool) (svcOk : Bool) (id : String) (cur : NDoc) (kid : String)
    (p : Published) (h : managerRemoveVM c s has svcOk id cur kid = .ok (some p)) :
    (∃ v ∈ cur.vms, v.id = kid) ∧
    managerUpdate c s has svcOk id (ndocRemoveVM cur kid) = .ok p ∧ p.doc = ndocRemoveVM cur kid ∧
    (∀ v ∈ p.doc.vms, v.id ≠ kid) ∧ (∀ v ∈ p.doc.capInv, v.id ≠ kid) ∧
    validate c.thumb c.vmNilJwkErr c.validators p.doc = .ok () := by
  unfold managerRemoveVM at h
  cases hr : resolverResolve c.maxDepth s (some { allowDeactivated := true }) id with
  | err e => rw [hr] at h; cases h
  | panic x => rw [hr] at h; cases h
  | ok d0 =>
    rw [hr] at h
    simp only [] at h
    by_cases hl : (cur.vms.length == (ndocRemoveVM cur kid).vms.length) = true
    · rw [if_pos hl] at h; cases h
    · rw [if_neg hl] at h
      cases hu : managerUpdate c s has svcOk id (ndocRemoveVM cur kid) with
      | err e => rw [hu] at h; cases h
      | panic x => rw [hu] at h; cases h
      | ok q =>
        rw [hu] at h
        simp only [Res.ok.injEq, Option.some.injEq] at h
        subst h
        obtain ⟨_, _, _, _, _, _, _, _, hv, _, _, _, _, _, _, _, _, hdoc⟩ := managerUpdate_sound c s has svcOk id _ q hu
        have habs := removeVM_absent cur kid
        simp only [] at habs
        refine ⟨?_, rfl, hdoc, ?_, ?_, ?_⟩
        · have hne : ¬ (cur.vms.length = (ndocRemoveVM cur kid).vms.length) := by simpa using hl
          apply Classical.byContradiction
          intro hno
          apply hne
          apply (removeVM_length_eq_iff cur kid).mpr
          intro v hv he
          exact hno ⟨v, hv, he⟩
        · rw [hdoc]; exact habs.1
        · rw [hdoc]; exact habs.2.2.2.2.1
        · rw [hdoc]; exact hv

/-- **"Do not update if nothing has changed"**: a key id that is not a verification method of the resolved document
    publishes nothing (whatever the key store holds), and the call is not an error -/
theorem managerRemoveVM_noop (c : Cfg) (s : Store) (has : String → Bool) (svcOk : Bool) (id : String) (cur : NDoc) (kid : String)
    (d0 : Doc) (hr : resolverResolve c.maxDepth s (some { allowDeactivated := true }) id = .ok d0)
    (hno : ∀ v ∈ cur.vms, v.id ≠ kid) :
    managerRemoveVM c s has svcOk id cur kid = .ok none := by
  unfold managerRemoveVM
  rw [hr]
  simp only []
  have := (removeVM_length_eq_iff cur kid).mpr hno
  rw [if_pos (by simpa using this)]

/-- an unknown DID: the lookup error is returned, nothing is published -/
theorem managerRemoveVM_unknown (c : Cfg) (s : Store) (has : String → Bool) (svcOk : Bool) (id : String) (cur : NDoc) (kid e : String)
    (hr : resolverResolve c.maxDepth s (some { allowDeactivated := true }) id = .err e) :
    managerRemoveVM c s has svcOk id cur kid = .err ("mgr:resolve:" ++ e) := by
  unfold managerRemoveVM; rw [hr]

/-- **End to end — "updates signed by removed keys"**: once the version `RemoveVerificationMethod` published is the one a
    transaction's prevs name (self-controlled DID), an update whose `kid` resolves to a key that the original document
    listed for capability invocation only under the removed id is refused by the receiving ambassador -/
theorem removed_method_no_longer_authorises (c : Cfg) (s : Store) (tx : Tx) (d d0 : NDoc) (kid : String) (k : Key)
    (hcur : currentVersion s d.id tx.prevs = .ok (ndocRemoveVM d0 kid).toDoc)
    (hk : resolvePublicKey c.maxDepth s tx.kid tx.prevs = .ok k)
    (hown : ∀ r ∈ d0.controllers, r = d0.id)
    (honly : ∀ v ∈ d0.capInv, ∀ k', KeyInfo.ofBody v.key.body = .key k' → c.thumb k' = c.thumb k → v.id = kid) :
    ∀ s', handleUpdate c s tx d ≠ .ok s' := by
  apply removed_key_rejected_self_controlled c s tx d _ k hcur hk
  · intro r hr
    simp only [controllersOf, NDoc.toDoc, ndocRemoveVM, List.map_map, List.mem_map] at hr ⊢
    obtain ⟨a, ha, rfl⟩ := hr
    exact hown a ha
  · intro e he k' hk' hth
    simp only [NDoc.toDoc, ndocRemoveVM, List.mem_map] at he
    obtain ⟨v, hv, rfl⟩ := he
    have hm := List.mem_filter.mp hv
    have hid := honly v hm.1 k' (by simpa [vmEntry] using hk') hth
    exact (keepVM_iff kid v).mp hm.2 hid

/-! ### `Manager.IsCommitted` -/

/-- **Committed = the latest stored version (deactivated or not) carries the change's hash** -/
theorem isCommitted_true_iff (s : Store) (id : String) (h : Hash) :
    managerIsCommitted s id h = .ok true ↔
      ∃ d m, resolve s id (some { allowDeactivated := true }) = .ok (d, m) ∧ m.hash = h := by
  unfold managerIsCommitted
  cases hr : resolve s id (some { allowDeactivated := true }) with
  | ok dm =>
    obtain ⟨d, m⟩ := dm
    simp only [Res.ok.injEq, beq_iff_eq, Prod.mk.injEq]
    constructor
    · intro hh; exact ⟨d, m, ⟨rfl, rfl⟩, hh⟩
    · rintro ⟨_, _, ⟨_, rfl⟩, hh⟩; exact hh
  | err e =>
    constructor
    · intro hh; simp only [] at hh; split at hh <;> cases hh
    · rintro ⟨_, _, hh, _⟩; cases hh
  | panic x =>
    constructor
    · intro hh; cases hh
    · rintro ⟨_, _, hh, _⟩; cases hh

/-- a DID the store does not know is "not committed", not an error; every other store error is handed up unchanged -/
theorem isCommitted_errors (s : Store) (id : String) (h : Hash) (e : String)
    (hr : resolve s id (some { allowDeactivated := true }) = .err e) :
    (e = eNotFound → managerIsCommitted s id h = .ok false) ∧ (e ≠ eNotFound → managerIsCommitted s id h = .err e) := by
  unfold managerIsCommitted
  rw [hr]
  constructor
  · intro he; simp [he]
  · intro he; simp [he]

/-- `IsCommitted` never answers for another version than the one `Manager.Update` would build on: both read the same
    store entry (`resolve … AllowDeactivated`) -/
theorem isCommitted_reads_what_update_reads (c : Cfg) (s : Store) (has : String → Bool) (svcOk : Bool) (id : String) (next : NDoc)
    (p : Published) (h : Hash) (hu : managerUpdate c s has svcOk id next = .ok p) :
    ∃ cur curMeta, resolve s id (some { allowDeactivated := true }) = .ok (cur, curMeta) ∧
      managerIsCommitted s id h = .ok (curMeta.hash == h) ∧ (∀ x ∈ curMeta.sourceTx, x ∈ p.prevs) := by
  obtain ⟨cur, curMeta, _, _, _, _, hr, _, _, _, _, _, _, _, _, _, hp, _⟩ := managerUpdate_sound c s has svcOk id next p hu
  refine ⟨cur, curMeta, hr, ?_, ?_⟩
  · unfold managerIsCommitted; rw [hr]
  · intro x hx; rw [hp]; exact List.mem_append_left _ hx

/-! ### the manager's own `store.Add` at the end of `Update` -/

/-- after a successful `store.Add` the store holds the transaction (by ref) -/
theorem add_then_contains (cfg : C10.Cfg) (s s1 : Store) (e : Event) (h : add cfg s e = .ok s1) :
    contains (s1.get e.doc.id).events e = true := by
  obtain ⟨_, hcase⟩ := add_get cfg s s1 e h
  rcases hcase with ⟨hnone, heq⟩ | hsome
  · rw [heq]
    unfold addDid at hnone
    by_cases hc : contains (s.get e.doc.id).events e = true
    · exact hc
    · rw [if_neg hc] at hnone
      simp only [] at hnone
      split at hnone
      · cases hnone
      · cases hnone
      · split at hnone <;> cases hnone
  · unfold addDid at hsome
    by_cases hc : contains (s.get e.doc.id).events e = true
    · rw [if_pos hc] at hsome; cases hsome
    · rw [if_neg hc] at hsome
      simp only [] at hsome
      split at hsome
      · cases hsome
      · cases hsome
      · split at hsome
        · cases hsome
        · simp only [Res.ok.injEq, Option.some.injEq] at hsome
          rw [← hsome]
          simp only []
          unfold contains
          rw [List.any_eq_true]
          exact ⟨e, (insert_perm e _).mem_iff.mpr List.mem_cons_self, by simp⟩

/-- **The manager's own write is the ambassador's write**: whenever the receiving ambassador accepts the published
    transaction, the state it reaches is the one `Manager.Update`'s own `store.Add` reaches from the same store -/
theorem own_add_is_the_ambassadors_add (c : Cfg) (s s' : Store) (tx : Tx) (p : Published)
    (h : callback c s tx (some p.doc) = .ok s') : managerOwnAdd c s tx p = .ok s' := by
  obtain ⟨d, hd, hadd⟩ := callback_ok_add c s s' tx _ h
  cases hd
  unfold managerOwnAdd; rw [hadd]

/-- **Own updates come back as duplicates**: after `Manager.Update` wrote its transaction itself, the delivery of that
    transaction through the network changes nothing — whether the ambassador accepts it (same event, by ref) or refuses it
    (`rejected_inert`) -/
theorem own_update_redelivery_inert (c : Cfg) (s s1 : Store) (tx : Tx) (p : Published)
    (hown : managerOwnAdd c s tx p = .ok s1) :
    ∀ s2, callback c s1 tx (some p.doc) = .ok s2 → s2 = s1 := by
  intro s2 h
  have hadd : add c.store s (eventOf tx p.doc) = .ok s1 := by
    unfold managerOwnAdd at hown
    cases ha : add c.store s (eventOf tx p.doc) with
    | ok x => rw [ha] at hown; simpa using hown
    | err e => rw [ha] at hown; cases hown
    | panic x => rw [ha] at hown; cases hown
  have hc := add_then_contains c.store s s1 _ hadd
  have hr := reprocessOne_known c s1 tx p.doc hc
  unfold reprocessOne at hr
  rw [h] at hr
  exact hr

/-- and then `IsCommitted` is decided by the hash the store derived for the latest version -/
theorem own_add_then_isCommitted (c : Cfg) (s s1 : Store) (tx : Tx) (p : Published) (d : Doc) (m : Meta)
    (_hown : managerOwnAdd c s tx p = .ok s1)
    (hr : resolve s1 p.doc.id (some { allowDeactivated := true }) = .ok (d, m)) (h : Hash) :
    managerIsCommitted s1 p.doc.id h = .ok (m.hash == h) := by
  unfold managerIsCommitted; rw [hr]

/-! ### non-vacuity -/

private def kv (i : String) : NVM := { id := "did:nuts:A#" ++ i, pfx := "did:nuts:A", frag := i, key := .key i }
private def dA : NDoc := { id := "did:nuts:A", idID := "A", vms := [kv "k1", kv "k2"], capInv := [kv "k1", kv "k2"], auth := [kv "k1"] }

example : (ndocRemoveVM dA "did:nuts:A#k1").vms = [kv "k2"] ∧ (ndocRemoveVM dA "did:nuts:A#k1").capInv = [kv "k2"] ∧
    (ndocRemoveVM dA "did:nuts:A#k1").auth = [] := by decide
example : validate (fun k => k) true [.nilEntry, .w3c, .nutsVM, .nutsService] dA = .ok () := by decide
example : validate (fun k => k) true [.nilEntry, .w3c, .nutsVM, .nutsService] (ndocRemoveVM dA "did:nuts:A#k1") = .ok () := by decide
example : dA.vms.length ≠ (ndocRemoveVM dA "did:nuts:A#k1").vms.length := by decide
example : dA.vms.length = (ndocRemoveVM dA "did:nuts:A#k9").vms.length := by decide
example : managerIsCommitted {} "did:nuts:A" "h" = .ok false := by decide

end Nuts.C09.Props
