/-
  C08 — DAG digests, indexes, head and counters equal what the stored set implies.
  Property theorems over NutsModel/C08 (tree.go, xor.go, iblt.go, treestore.go, dag.go, state.go, consistency.go).
-/
import NutsModel.C08.Spec
import NutsModel.C08.Metric
import NutsModel.Facts.C08
import NutsProofs.Lemmas.C08Tree
import NutsProofs.Lemmas.C08Data
import NutsProofs.Lemmas.C08Inv
import NutsProofs.Lemmas.C08Repair
import NutsProofs.Lemmas.C08Order
import NutsProofs.Lemmas.C08Codec
import NutsProofs.Lemmas.C08Delete
import NutsProofs.Lemmas.C08Drop

namespace Nuts.C08.Props
open Nuts.C08

variable {R G : Type}

/-! ### regenerated facts the model relies on -/

theorem fact_page_size : Facts.C08.pageSize = 512 ∧ Facts.C08.pageSize % 2 = 0 := by decide
theorem fact_iblt_buckets : Facts.C08.ibltNumBuckets = 1024 ∧ Facts.C08.ibltK = 6 ∧ Facts.C08.bucketBytes = 4 + 8 + 32 := by decide
theorem fact_shelves : Facts.C08.xorShelf = "xorBucket" ∧ Facts.C08.ibltShelf = "ibltBucket" := by decide
/-- `tree.Load` with no leaves resets the tree (the `OnRollback` reload of an empty DAG must discard the trees) -/
theorem fact_load_empty_resets : Facts.C08.loadEmptyResets = true := by decide
/-- the `OnRollback` hook of `state.Add` reloads with a context of its own, not the (possibly cancelled) caller's -/
theorem fact_rollback_reload_context : Facts.C08.rollbackReloadContexts = ["context.Background()"] := by decide
/-- `state.Add` holds `addMutex` from before its write transaction until after the commit (first `AfterCommit`) or, on
    failure, until its rollback handler has reloaded the trees (`defer`): write transaction + handler are one atomic step,
    which is what the model's `add` is. (go-stoabs releases its own write lock before it calls the handlers.) -/
theorem fact_add_critical_section :
    Facts.C08.addMutexCalls = ["s.addMutex.Lock"] ∧ Facts.C08.addFirstAfterCommit = ["unlock"] ∧
    "unlock()" ∈ Facts.C08.addDefers := by decide
/-- `addMutex` is held from before `db.Write` (taken at the top level of `Add`, not inside the write closure) until after
    the commit or — on failure — until `Add` returns (`defer`), i.e. after ALL rollback handlers have run; the only
    rollback handler is the reload (no handler that releases the mutex in front of it) -/
theorem fact_add_mutex_spans_rollback_reload :
    Facts.C08.addMutexShape = ["Lock:top-level:before-db.Write", "defer:top-level:unlock()"] ∧
    Facts.C08.addRollbackHandlers = ["func:s.loadState"] := by decide
/-- the steps of `Add`'s write function and of `dag.add`, in the order the model's `putFails` counts their store writes:
    writePayload (1 put), save payload event, markPayloadEventSaved (1), graph.add (addSingle: clock index + transaction,
    lc_high, head_ref when it changes, tx_num), save transaction event, updateState (IBLT leaf, XOR leaf) -/
theorem fact_add_write_steps :
    Facts.C08.addWriteSteps = ["s.graph.isPresent", "s.payloadStore.writePayload", "s.saveEvent", "markPayloadEventSaved",
      "s.graph.add", "s.saveEvent", "s.updateState"] ∧
    Facts.C08.dagAddSteps = ["d.getHighestClockValue", "d.addSingle", "d.setHighestClockValue", "d.setHead",
      "d.getNumberOfTransactions", "d.setNumberOfTransactions"] := by decide
/-- `state.Add` runs under the write lock with a rollback hook -/
theorem fact_add_tx_options :
    "stoabs.OnRollback" ∈ Facts.C08.addTxOptions ∧ "stoabs.WithWriteLock" ∈ Facts.C08.addTxOptions := by decide
/-- the comparisons in tree.go / state.go / dag.go are the ones the model mirrors -/
theorem fact_comparisons :
    Facts.C08.condsZeroTo = ["clock < current.splitLC", "current.right != nil", "next == nil"] ∧
    Facts.C08.condsGetNextNode = ["n.isLeaf()", "clock < n.splitLC", "n.right == nil"] ∧
    Facts.C08.condsUpdatePath = ["for clock >= t.treeSize", "for next != nil"] ∧
    Facts.C08.condsNewBranch = ["stop - start > t.leafSize"] ∧
    Facts.C08.condsXOR = ["reqClock < currentClock", "pageClock < currentClock"] ∧
    Facts.C08.condsIBLT = Facts.C08.condsXOR ∧
    "transaction.Clock() > highestLC || transaction.Clock() == 0" ∈ Facts.C08.condsDagAdd := by decide
/-- `updateState` writes both trees; `loadState` reloads the clock and both trees; `treeStore.write` inserts and persists;
    `checkPage` replaces and persists -/
theorem fact_call_structure :
    Facts.C08.updateStateCalls = ["s.lamportClockHigh.Load", "s.lamportClockHigh.CompareAndSwap", "s.ibltTree.write", "s.xorTree.write"] ∧
    Facts.C08.loadStateCalls = ["s.db.Read", "s.lamportClockHigh.Store", "s.graph.getHighestClockValue", "s.xorTree.read", "s.ibltTree.read"] ∧
    Facts.C08.treeStoreWriteCalls = ["store.mutex.Lock", "store.mutex.Unlock", "store.tree.Insert", "store.writeWithoutLock"] ∧
    Facts.C08.checkPageTreeCalls = ["f.state.xorTree.getZeroTo", "f.state.xorTree.getZeroTo", "f.state.xorTree.tree.Replace", "f.state.xorTree.writeWithoutLock"] := by
  decide

/-- wiring: `Network.Configure` loads the state (`state.Configure` → `loadState`), `Network.Start` starts it
    (`state.Start` → `xorTreeRepair.start` → `checkPage` on every tick); the signals reach the circuit; both trees are set
    up on their own shelves with the same page size; `Diagnostics` reports the root of the XOR tree, the atomic highest
    clock and (through `statistics`) the stored transaction count -/
theorem fact_wiring :
    "n.state.Configure" ∈ Facts.C08.networkConfigureStateCalls ∧ "n.state.Start" ∈ Facts.C08.networkStartStateCalls ∧
    Facts.C08.stateConfigureCalls = ["s.loadState"] ∧ Facts.C08.stateStartRepairCalls = ["s.xorTreeRepair.start"] ∧
    "f.checkPage" ∈ Facts.C08.repairLoopCalls ∧
    Facts.C08.signalCalls = ["s.xorTreeRepair.incrementCount", "s.xorTreeRepair.stateOK"] ∧
    Facts.C08.newStateTreeStores = ["newTreeStore(xorShelf, tree.New(tree.NewXor(), PageSize))",
      "newTreeStore(ibltShelf, tree.New(tree.NewIblt(IbltNumBuckets), PageSize))"] := by decide
theorem fact_check_page_conditions :
    Facts.C08.condsCheckPage = ["f.circuitState < circuitRed", "err != nil", "lcStart != 0", "!xorTillEnd.Empty()",
      "err != nil", "err != nil", "err != nil", "lcEnd > currentLC"] := by decide
/-- `checkPage` talks to the store through exactly one `db.Write`, and the scan (`findBetweenLC`), the two `getZeroTo`
    reads, `Replace` and `writeWithoutLock` are all inside that transaction's function; `tree.Replace` marks the replaced
    leaf dirty under its own key (`current.splitLC`), which is the key `Load` reads it back under -/
theorem fact_check_page_is_one_write_transaction :
    Facts.C08.checkPageDbCalls = ["f.state.graph.db.Write"] ∧
    Facts.C08.checkPageWriteBody = ["f.state.graph.findBetweenLC", "f.state.xorTree.getZeroTo", "f.state.xorTree.getZeroTo",
      "f.state.xorTree.tree.Replace", "f.state.xorTree.writeWithoutLock"] ∧
    Facts.C08.replaceDirtyKeys = ["current.splitLC"] ∧ Facts.C08.updatePathDirtyKeys = ["current.splitLC"] := by decide
theorem fact_diagnostics :
    "core.GenericDiagnosticResult{Title: \"dag_xor\", Outcome: s.xorTree.getRoot().(*tree.Xor).Hash()}" ∈ Facts.C08.diagnosticsEntries ∧
    "core.GenericDiagnosticResult{Title: \"dag_lc_high\", Outcome: s.lamportClockHigh.Load()}" ∈ Facts.C08.diagnosticsEntries ∧
    Facts.C08.statisticsCountSource = ["uint(d.getNumberOfTransactions(tx))"] := by decide

/-! ### the two Data implementations are commutative groups -/

theorem xor_data_lawful : Lawful xorOps := xor_lawful
theorem iblt_data_lawful (n : Nat) : Lawful (ibltOps n) := iblt_lawful n

/-! ### the tree invariant -/

/-- `New` establishes the invariant ("ranges nest, left spine complete, every node's data is the sum of the leaves
    below it") -/
theorem tree_inv_new (o : Ops R G) (ls : Nat) (hls : 0 < ls) : TInv o (Tree.new o ls) := TInv.new o hls

/-- `Insert` (any reference, any clock — including clocks that make the tree grow by `reRoot` and create new branches)
    keeps the invariant, and the sum of the leaves on any set `q` of pages gains the reference exactly when the
    clock's page is in `q`. -/
theorem tree_inv_insert {o : Ops R G} (L : Lawful o) (t : Tree G) (i : TInv o t) (r : R) (clock : Nat) :
    TInv o (t.insert o r clock) ∧ (t.insert o r clock).leafSize = t.leafSize ∧
    ∀ q : Nat → Bool, fsum o t.leafSize q (t.insert o r clock).root.leaves =
      if q (clock / t.leafSize) then o.ins (fsum o t.leafSize q t.root.leaves) r
      else fsum o t.leafSize q t.root.leaves := insert_spec L t i r clock

/-- what `Root()` and `ZeroTo(c)` return, for EVERY `c`, is determined by the leaves: the sum of all leaves, and the
    sum of the leaves on pages up to the page of `c` -/
theorem observables_of_inv {o : Ops R G} (L : Lawful o) (t : Tree G) (i : TInv o t) :
    t.rootData o = fsum o t.leafSize (fun _ => true) t.root.leaves ∧
    ∀ c, (t.zeroTo o c).1 = fsum o t.leafSize (fun p => decide (p ≤ c / t.leafSize)) t.root.leaves :=
  ⟨Tree.root_data L t i, Tree.zeroTo_data L t i⟩

theorem specAll_append_one {o : Ops R G} (l : List (R × Nat)) (rc : R × Nat) :
    specAll o (l ++ [rc]) = o.ins (specAll o l) rc.1 := by
  simp [specAll, List.foldl_append]

/-- **The tree is the fold.** After inserting ANY list of (reference, clock) pairs into a new tree — any clocks, any
    order, crossing any page and tree-growth boundaries — `Root()` is the digest of all references and `ZeroTo(c)`,
    for EVERY `c`, is the digest of the references whose clock lies on a page up to `c`'s page. Generic in the data:
    holds for XOR and for the IBLT. -/
theorem tree_is_fold {o : Ops R G} (L : Lawful o) (ls : Nat) (hls : 0 < ls) (l : List (R × Nat)) :
    let t := l.foldl (fun t rc => t.insert o rc.1 rc.2) (Tree.new o ls)
    TInv o t ∧ t.rootData o = specAll o l ∧ ∀ c, (t.zeroTo o c).1 = specUpTo o ls l c := by
  intro t
  have key : ∀ (l l0 : List (R × Nat)) (t0 : Tree G), TInv o t0 → t0.leafSize = ls →
      (∀ q : Nat → Bool, fsum o ls q t0.root.leaves = specAll o (l0.filter (fun rc => q (rc.2 / ls)))) →
      TInv o (l.foldl (fun t rc => t.insert o rc.1 rc.2) t0) ∧
      (l.foldl (fun t rc => t.insert o rc.1 rc.2) t0).leafSize = ls ∧
      (∀ q : Nat → Bool, fsum o ls q (l.foldl (fun t rc => t.insert o rc.1 rc.2) t0).root.leaves =
        specAll o ((l0 ++ l).filter (fun rc => q (rc.2 / ls)))) := by
    intro l
    induction l with
    | nil => intro l0 t0 i e h; simpa using ⟨i, e, h⟩
    | cons rc l ih =>
      intro l0 t0 i e h
      have s := tree_inv_insert L t0 i rc.1 rc.2
      have := ih (l0 ++ [rc]) (t0.insert o rc.1 rc.2) s.1 (by rw [s.2.1, e]) (by
        intro q
        have := s.2.2 q
        rw [e] at this
        rw [this, h q, List.filter_append]
        by_cases hq : q (rc.2 / ls) = true
        · simp [hq, specAll_append_one]
        · simp [hq])
      simpa [List.append_assoc] using this
  have base : ∀ q : Nat → Bool, fsum o ls q (Tree.new o ls).root.leaves = specAll o (([] : List (R × Nat)).filter (fun rc => q (rc.2 / ls))) := by
    intro q
    simp only [Tree.new, Node.leaves, fsum, List.filter_nil, specAll, List.foldl_nil]
    by_cases hq : q (ls / 2 / ls) = true <;> simp [hq, gsum, L.add_zero]
  have r := key l [] (Tree.new o ls) (TInv.new o hls) rfl base
  simp only [List.nil_append] at r
  obtain ⟨i, e, h⟩ := r
  have ob := observables_of_inv L t i
  have e' : t.leafSize = ls := e
  refine ⟨i, ?_, fun c => ?_⟩
  · rw [ob.1, e', h, List.filter_eq_self.mpr (fun _ _ => rfl)]
  · rw [ob.2 c, e', h]; rfl

/-- instantiated for the XOR digest -/
theorem xor_tree_is_fold (ls : Nat) (hls : 0 < ls) (l : List (Ref × Nat)) (c : Nat) :
    ((l.foldl (fun t rc => t.insert xorOps rc.1 rc.2) (Tree.new xorOps ls)).zeroTo xorOps c).1 = specUpTo xorOps ls l c :=
  (tree_is_fold xor_lawful ls hls l).2.2 c

/-- instantiated for the IBLT (bucket indices and key hashes of each reference are arbitrary data) -/
theorem iblt_tree_is_fold (n ls : Nat) (hls : 0 < ls) (l : List (IKey × Nat)) (c : Nat) :
    ((l.foldl (fun t rc => t.insert (ibltOps n) rc.1 rc.2) (Tree.new (ibltOps n) ls)).zeroTo (ibltOps n) c).1 =
      specUpTo (ibltOps n) ls l c :=
  (tree_is_fold (iblt_lawful n) ls hls l).2.2 c

/-- non-vacuity: a concrete tree of leaf size 2 that grew twice (clocks 0, 5, 3) -/
example : let t := [((1 : BitVec 256), 0), (2, 5), (4, 3)].foldl (fun t rc => t.insert xorOps rc.1 rc.2) (Tree.new xorOps 2)
    t.treeSize = 8 ∧ (t.zeroTo xorOps 1).1 = 1 ∧ (t.zeroTo xorOps 3).1 = 5 ∧ (t.zeroTo xorOps 4).1 = 7 ∧ t.rootData xorOps = 7 := by
  decide

/-! ### contiguous trees: Load, Replace, the clock returned by ZeroTo -/

/-- **Load establishes the invariant.** From the persisted leaves of the pages `0 … m-1` (`m ≥ 1`, even leaf size)
    `Load` — into any tree object — builds a tree that satisfies the invariant and holds exactly those leaves, with
    nothing marked dirty. (Contiguity of the persisted pages is not assumed at the state level: it is derived from
    `clocks_downward_closed`.) -/
theorem tree_inv_load {o : Ops R G} (L : Lawful o) {ls : Nat} (hls : 0 < ls) (heven : ls % 2 = 0) (b : Bool) (t0 : Tree G)
    (m : Nat) (val : Nat → G) (hm : 1 ≤ m) :
    TInv o (Tree.load o b t0 (pl ls 0 m val)) ∧ (Tree.load o b t0 (pl ls 0 m val)).root.leaves = pl ls 0 m val ∧
    (Tree.load o b t0 (pl ls 0 m val)).leafSize = ls ∧ (Tree.load o b t0 (pl ls 0 m val)).dirty = [] := by
  have h := Holds.load L hls heven b t0 m val hm
  exact ⟨h.1.inv, h.1.leaves, h.1.ls_eq, h.2.1⟩

/-- **Replace keeps the invariant** and sets exactly the addressed page: on a tree holding pages `0 … m-1`,
    `Replace(clock, x)` with `clock` on an existing page makes that page's leaf `x`, recomputes every sum above it
    (`rebuild`), marks that leaf dirty and touches no other leaf. -/
theorem tree_inv_replace {o : Ops R G} (L : Lawful o) {ls : Nat} {t : Tree G} {m : Nat} {val : Nat → G}
    (H : Holds o ls t m val) (clock : Nat) (x : G) (hP : clock / ls < m) :
    TInv o (t.replace o clock x) ∧ (t.replace o clock x).root.leaves = pl ls 0 m (upd val (clock / ls) x) ∧
    (t.replace o clock x).dirty = t.dirty ++ [keyOf ls (clock / ls)] := by
  have h := H.replace L clock x hP
  exact ⟨h.1.inv, h.1.leaves, h.2.1⟩

/-- the clock `ZeroTo(c)` returns on a tree holding the pages `0 … m-1`: the last clock of `c`'s page, capped by the
    last clock of the last page -/
theorem zeroTo_clock_of_contiguous {o : Ops R G} {ls : Nat} {t : Tree G} {m : Nat} {val : Nat → G}
    (H : Holds o ls t m val) (c : Nat) : (t.zeroTo o c).2 = ls * (min (c / ls) (m - 1) + 1) - 1 := by
  obtain ⟨h, sh, _⟩ := H.shape
  have := zeroTo_clock (o := o) H.ls_pos c h 0 m t.root (t.root.data o) sh (Nat.zero_le _)
  simpa [Tree.zeroTo] using this

/-- non-vacuity: a three-page tree loaded from its leaves, and a page of it replaced -/
example : Holds xorOps 2 (Tree.load xorOps true (Tree.new xorOps 2) (pl 2 0 3 (fun p => BitVec.ofNat 256 (p + 1)))) 3
    (fun p => BitVec.ofNat 256 (p + 1)) :=
  (Holds.load xor_lawful (by decide) (by decide) true _ 3 _ (by decide)).1
example : ((Tree.load xorOps true (Tree.new xorOps 2) (pl 2 0 3 (fun p => BitVec.ofNat 256 (p + 1)))).replace xorOps 3 9).root.leaves =
    [(1, 1), (3, 9), (5, 3)] := by decide

/-! ### the state layer -/

/-- the model instantiated with what the source says today -/
def cfg : Cfg := { pageSize := Facts.C08.pageSize, loadEmptyResets := Facts.C08.loadEmptyResets }
abbrev NB : Nat := Facts.C08.ibltNumBuckets

theorem cfg_good : Good cfg := ⟨by decide, by decide, by decide⟩

/-- the states the node can be in: start from the empty store; `Add` calls with ANY transaction, payload and outcome of
    the commit (concurrent calls are serialised by the write lock, in any order); process stop + restart at any point;
    the repair loop's signals and page checks at any point -/
inductive Reachable : State NB → Prop
  | init : Reachable (State.init cfg)
  | add {s} (tx : Tx) (opt : AddOpts) : Reachable s → Reachable (add cfg s tx opt).1
  | restart {s} : Reachable s → Reachable (restart cfg s)
  | signalIncorrect {s} : Reachable s → Reachable (signalIncorrect s)
  | signalCorrect {s} : Reachable s → Reachable (signalCorrect s)
  | checkPage {s} : Reachable s → Reachable (checkPage cfg s)
  | checkPageWith {s} (lcSeen : Nat) : Reachable s → Reachable (checkPageWith cfg lcSeen s)

theorem reachable_inv {s : State NB} (r : Reachable s) : SInv cfg s := by
  induction r with
  | init => exact SInv.init cfg
  | add tx opt _ ih => exact (ih.add cfg_good tx opt).1
  | restart _ ih => exact ih.restart cfg_good
  | signalIncorrect _ ih => exact ⟨ih.g, ih.lc, ih.x, ih.i⟩
  | signalCorrect _ ih => exact ⟨ih.g, ih.lc, ih.x, ih.i⟩
  | checkPage _ ih => exact (ih.checkPage cfg_good).1
  | checkPageWith lcSeen _ ih => exact (ih.checkPageWith cfg_good lcSeen).1

/-- what is observable of a state: XOR and IBLT for a requested clock, the clock-ordered listing of any window, count,
    highest clock (memory and disk), head -/
structure Observables (s : State NB) (S : List Tx) : Prop where
  xor : ∀ req, xorAt s req = (specUpTo xorOps cfg.pageSize (refClocks S) req, specClock cfg.pageSize S req)
  iblt : ∀ req, ibltAt s req = (specUpTo (ibltOps NB) cfg.pageSize (keyClocks S) req, specClock cfg.pageSize S req)
  listing : ∀ a b, listing s a b = .ok (specListing S a b)
  count : s.disk.count = S.length
  lcMem : s.mem.lcHigh = maxClock S
  lcDisk : s.disk.lcHigh = maxClock S
  head : (S = [] ∧ s.disk.head = none) ∨ (∃ t ∈ S, s.disk.head = some t.ref ∧ t.clock = maxClock S)

theorem observables_of_sinv {s : State NB} (h : SInv cfg s) : Observables s s.disk.txs := by
  have hM : ∀ t ∈ s.disk.txs, t.clock ≤ maxClock s.disk.txs := fun t ht => le_maxClock ht
  refine ⟨fun req => ?_, fun req => ?_, fun a b => listing_eq_spec h.g a b, h.g.count, by rw [h.lc, h.g.lc], h.g.lc, h.g.head⟩
  · have := digest_at xor_lawful cfg_good.pos h.x
      (by intro e; have : s.disk.txs = [] := by simpa [refClocks] using e
          rw [this]; rfl)
      (by intro rc hrc; simp only [refClocks, List.mem_map] at hrc; obtain ⟨t, ht, rfl⟩ := hrc; exact hM t ht) req
    unfold xorAt specClock
    rw [h.lc, h.g.lc]
    exact this
  · have := digest_at (iblt_lawful NB) cfg_good.pos h.i
      (by intro e; have : s.disk.txs = [] := by simpa [keyClocks] using e
          rw [this]; rfl)
      (by intro rc hrc; simp only [keyClocks, List.mem_map] at hrc; obtain ⟨t, ht, rfl⟩ := hrc; exact hM t ht) req
    unfold ibltAt specClock
    rw [h.lc, h.g.lc]
    exact this

/-- **Refinement.** In every reachable state, for EVERY requested clock, `XOR(c)` and `IBLT(c)` (digest and clock) are
    the plain folds over the set of stored transactions; `FindBetweenLC(a, b)` for EVERY window is the stored
    transactions with clock in `[a, b)` ordered by (clock, ref bytes); the count is the set's size, the highest clock
    (atomic copy and disk) is its maximum, and the head is a stored transaction with the highest clock. -/
theorem state_refines_spec {s : State NB} (r : Reachable s) : Observables s s.disk.txs :=
  observables_of_sinv (reachable_inv r)

/-- the stored set only ever grows by exactly the transaction an `Add` call reported as stored -/
theorem stored_set_changes_only_on_success {s : State NB} (r : Reachable s) (tx : Tx) (opt : AddOpts) :
    ((add cfg s tx opt).2 ≠ .ok () → (add cfg s tx opt).1.disk = s.disk) ∧
    ((add cfg s tx opt).2 = .ok () →
      ((add cfg s tx opt).1 = s ∧ s.disk.isPresent tx.ref = true) ∨
      ((add cfg s tx opt).1.disk.txs = s.disk.txs ++ [tx] ∧ s.disk.isPresent tx.ref = false)) :=
  ((reachable_inv r).add cfg_good tx opt).2

/-- **Rejected writes are no-ops.** An `Add` that reports an error — missing prev, wrong clock, second root, payload
    mismatch, commit failure — leaves the disk untouched and every observable (for every requested clock) as it was,
    although the rollback hook rebuilt the in-memory trees. -/
theorem add_rejected_noop {s : State NB} (r : Reachable s) (tx : Tx) (opt : AddOpts)
    (herr : (add cfg s tx opt).2 ≠ .ok ()) :
    (add cfg s tx opt).1.disk = s.disk ∧ Observables (add cfg s tx opt).1 s.disk.txs := by
  have a := (reachable_inv r).add cfg_good tx opt
  have hd := a.2.1 herr
  have o := observables_of_sinv a.1
  rw [hd] at o
  exact ⟨hd, o⟩

/-- **Rollback restores.** Whenever the write transaction of an `Add` fails at commit — wherever in the history,
    including the very first write — the disk is untouched and all observables are those of the stored set. -/
theorem rollback_restores {s : State NB} (r : Reachable s) (tx : Tx) (opt : AddOpts) (hf : opt.commitFails = true) :
    (add cfg s tx opt).1.disk = s.disk ∧ Observables (add cfg s tx opt).1 s.disk.txs := by
  have a := (reachable_inv r).add cfg_good tx opt
  have hd : (add cfg s tx opt).1.disk = s.disk := by
    by_cases hok : (add cfg s tx opt).2 = .ok ()
    · rcases a.2.2 hok with ⟨e, _⟩ | ⟨_, hp⟩
      · rw [e]
      · -- a commit failure is never reported as success
        exfalso
        revert hok
        unfold Nuts.C08.add
        simp only [hp, Bool.false_eq_true, if_false]
        cases s.disk.verifyPrevs tx with
        | err e => simp
        | panic e => simp
        | ok u =>
          simp only []
          by_cases hpay : (opt.payload == some false) = true
          · simp [hpay]
          · simp only [hpay, Bool.false_eq_true, if_false]
            by_cases hp0 : putFailsIn opt.putFails 0 (if opt.payload.isSome then 1 else 0) = true
            · simp [hp0]
            simp only [hp0, Bool.false_eq_true, if_false]
            by_cases hsp : (opt.payload.isSome && opt.savePayloadEventFails) = true
            · simp [hsp]
            · simp only [hsp, Bool.false_eq_true, if_false]
              by_cases hp0' : putFailsIn opt.putFails (if opt.payload.isSome then 1 else 0)
                  ((if opt.payload.isSome then 1 else 0) + (if opt.payload.isSome then 1 else 0)) = true
              · simp [hp0']
              simp only [hp0', Bool.false_eq_true, if_false]
              cases s.disk.graphAdd tx with
              | err e => simp
              | panic e => simp
              | ok d =>
                simp only []
                generalize (if opt.payload.isSome then 1 else 0) + (if opt.payload.isSome then 1 else 0) + 4 +
                  (if (decide (tx.clock > s.disk.lcHigh) || tx.clock == 0) = true then 1 else 0) = ng
                by_cases hp1 : putFailsIn opt.putFails
                    ((if opt.payload.isSome then 1 else 0) + (if opt.payload.isSome then 1 else 0)) ng = true
                · simp [hp1]
                by_cases hst : opt.saveTxEventFails = true
                · simp [hp1, hst]
                by_cases hp2 : putFailsIn opt.putFails ng (ng + 1) = true
                · simp [hp1, hst, hp2]
                by_cases hp3 : putFailsIn opt.putFails (ng + 1) (ng + 2) = true
                · simp [hp1, hst, hp2, hp3]
                · simp [hp1, hst, hp2, hp3, hf]
    · exact a.2.1 hok
  have o := observables_of_sinv a.1
  rw [hd] at o
  exact ⟨hd, o⟩

/-- **Restart equivalence.** Stopping the process and starting it on the same file (new trees loaded from the persisted
    leaves) gives the same observables. The proof needs page contiguity, which is derived (`clocks_downward_closed`). -/
theorem restart_equiv {s : State NB} (r : Reachable s) :
    (restart cfg s).disk = s.disk ∧ Observables (restart cfg s) s.disk.txs ∧ Observables s s.disk.txs :=
  ⟨rfl, observables_of_sinv ((reachable_inv r).restart cfg_good), observables_of_sinv (reachable_inv r)⟩

/-- clocks of stored transactions are downward closed — a consequence of the prev verifier (clock = 1 + highest prev
    clock, prevs present); it is what makes the pages contiguous and `Load` correct -/
theorem clocks_downward_closed {s : State NB} (r : Reachable s) :
    ∀ t ∈ s.disk.txs, t.clock ≠ 0 → ∃ t' ∈ s.disk.txs, t'.clock + 1 = t.clock :=
  (reachable_inv r).g.closed

/-- non-vacuity: concrete calls on the real configuration — an admitted root, a rejected child (its prev is missing),
    a commit failure on the very first write, and an admitted child -/
def exRoot : Tx := { ref := 7, clock := 0, prevs := [] }
def exChild : Tx := { ref := 9, clock := 1, prevs := [7] }
example : (add cfg (State.init cfg : State NB) exRoot {}).2 = .ok () := by decide
example : (add cfg (State.init cfg : State NB) exChild {}).2 = .err "missing-prev" := by decide
example : (add cfg (State.init cfg : State NB) exRoot { commitFails := true }).2 = .err "commit-failed" := by decide
example : (add cfg (add cfg (State.init cfg : State NB) exRoot {}).1 exChild {}).2 = .ok () := by decide
example : Reachable (restart cfg (add cfg (add cfg (State.init cfg) exRoot {}).1 exChild { commitFails := true }).1) :=
  .restart (.add _ _ (.add _ _ .init))

/-- **`Diagnostics()`** reports what the stored set implies: `dag_xor` is the digest of all stored refs, `dag_lc_high`
    the highest clock, `transaction_count` the number of stored transactions. -/
theorem diagnostics_spec {s : State NB} (r : Reachable s) :
    diagnostics s = (specAll xorOps (refClocks s.disk.txs), maxClock s.disk.txs, s.disk.txs.length) := by
  have h := reachable_inv r
  have hi := h.x.inv xor_lawful cfg_good.pos
  unfold diagnostics
  rw [Tree.root_data xor_lawful _ hi.1, hi.2.1, hi.2.2, List.filter_eq_self.mpr (fun _ _ => rfl), h.lc, h.g.lc, h.g.count]

/-- a failing notifier `Save` (payload event before `graph.add`, transaction event after it) is one more rolled-back
    write: error reported, disk untouched, observables unchanged -/
theorem save_failure_is_rolled_back {s : State NB} (r : Reachable s) (tx : Tx) (opt : AddOpts)
    (hp : s.disk.isPresent tx.ref = false) (hv : s.disk.verifyPrevs tx = .ok ()) (hpay : opt.payload = some true)
    (hs : opt.savePayloadEventFails = true) (hnp : opt.putFails = none) :
    (add cfg s tx opt).2 = .err "save-failed" ∧ (add cfg s tx opt).1.disk = s.disk ∧
    Observables (add cfg s tx opt).1 s.disk.txs := by
  have herr : (add cfg s tx opt).2 = .err "save-failed" := by
    unfold Nuts.C08.add
    simp [hp, hv, hpay, hs, hnp, putFailsIn]
  have := add_rejected_noop r tx opt (by rw [herr]; intro e; cases e)
  exact ⟨herr, this.1, this.2⟩

example : (add cfg (State.init cfg : State NB) exRoot { saveTxEventFails := true }).2 = .err "save-failed" := by decide
example : (add cfg (State.init cfg : State NB) exRoot { payload := some true, savePayloadEventFails := true }).2 =
    .err "save-failed" := by decide

/-- **Any failure point inside `updateState`.** `updateState` is not atomic in memory (raise the atomic clock, insert
    into the IBLT tree, put its leaf, insert into the XOR tree, put its leaf). Whichever of its store writes fails, once
    the rollback handler has run every observable — for every requested clock — is what the unchanged stored set
    implies: the in-memory state equals the last committed state. -/
theorem partial_update_is_rolled_back {s : State NB} (r : Reachable s) (tx : Tx) (stage : Nat) :
    (rollback cfg (partialUpdate s tx stage)).disk = s.disk ∧
    Observables (rollback cfg (partialUpdate s tx stage)) s.disk.txs := by
  have h := (reachable_inv r).rollback_partial cfg_good tx stage
  have o := observables_of_sinv h.1
  rw [h.2] at o
  exact ⟨h.2, o⟩

/-- a store fault at the k-th `Put` of the write transaction, wherever k falls (payload, clock index, transaction,
    payload-event mark, metadata, IBLT leaf, XOR leaf — or beyond the last put, where nothing fails): the invariant holds afterwards, and if
    an error is reported the disk is untouched and the observables are unchanged -/
theorem store_fault_at_any_put {s : State NB} (r : Reachable s) (tx : Tx) (opt : AddOpts) (k : Nat)
    (_hk : opt.putFails = some k) :
    SInv cfg (add cfg s tx opt).1 ∧
    ((add cfg s tx opt).2 ≠ .ok () → (add cfg s tx opt).1.disk = s.disk ∧ Observables (add cfg s tx opt).1 s.disk.txs) :=
  ⟨((reachable_inv r).add cfg_good tx opt).1, fun herr => add_rejected_noop r tx opt herr⟩

/-- non-vacuity: the root's puts are clock index, transaction, lc_high, head_ref, tx_num, IBLT leaf, XOR leaf — the 6th
    and 7th fail inside `updateState`, an 8th does not exist -/
example : (add cfg (State.init cfg : State NB) exRoot { putFails := some 6 }).2 = .err "put-failed" := by decide
example : (add cfg (State.init cfg : State NB) exRoot { putFails := some 7 }).2 = .err "put-failed" := by decide
example : (add cfg (State.init cfg : State NB) exRoot { putFails := some 8 }).2 = .ok () := by decide
example : (xorAt (add cfg (State.init cfg : State NB) exRoot { putFails := some 7 }).1 0).1 = 0 := by decide

/-! ### repair -/

/-- **The repair loop never disturbs a healthy state**: whatever the circuit state and the page it is at, `checkPage`
    changes neither the disk nor the trees. -/
theorem repair_idle_on_healthy_state {s : State NB} (r : Reachable s) :
    (checkPage cfg s).disk = s.disk ∧ (checkPage cfg s).mem.xorTree = s.mem.xorTree ∧
    (checkPage cfg s).mem.ibltTree = s.mem.ibltTree ∧ (checkPage cfg s).mem.lcHigh = s.mem.lcHigh :=
  ((reachable_inv r).checkPage cfg_good).2

/-- **The repair is atomic with respect to `Add`.** The scan of the page, the recomputation, the comparison, `Replace`
    and the persist happen inside one write transaction (`fact_check_page_is_one_write_transaction`), so an `Add` — with
    any outcome — that slips in after `checkPage` read the atomic clock but before that transaction is simply seen by
    it: the state stays healthy, the disk and both trees are exactly what the `Add` left. -/
theorem repair_atomic_wrt_add {s : State NB} (r : Reachable s) (tx : Tx) (opt : AddOpts) :
    let s1 := (add cfg s tx opt).1
    let s2 := checkPageWith cfg s.mem.lcHigh s1
    s2.disk = s1.disk ∧ s2.mem.xorTree = s1.mem.xorTree ∧ s2.mem.ibltTree = s1.mem.ibltTree ∧
    Observables s2 s1.disk.txs := by
  intro s1 s2
  have h1 : SInv cfg s1 := ((reachable_inv r).add cfg_good tx opt).1
  have c := h1.checkPageWith cfg_good s.mem.lcHigh
  have o := observables_of_sinv c.1
  rw [c.2.1] at o
  exact ⟨c.2.1, c.2.2.1, c.2.2.2, o⟩

/-- **Repair is local.** In a state whose XOR pages hold arbitrary values `val` (tree and shelf in sync — a corrupted
    leaf that was loaded from disk), `checkPage` with the circuit red, at an existing page `p`, sets page `p` — in
    memory and on disk — to the value recomputed from the stored transactions and leaves every other page's leaf,
    the IBLT tree and shelf, the stored transactions, the clock index and the metadata untouched. -/
theorem repair_local {s : State NB} {val : Nat → BitVec 256} (h : XInv cfg s val) (red : ¬ s.mem.circuit < 2)
    (hp : s.mem.repairPage ≤ maxClock s.disk.txs / cfg.pageSize) :
    XInv cfg (checkPage cfg s) (upd val s.mem.repairPage (xorSpec cfg s s.mem.repairPage)) ∧
    (checkPage cfg s).disk.txs = s.disk.txs ∧ (checkPage cfg s).disk.clocks = s.disk.clocks ∧
    (checkPage cfg s).disk.count = s.disk.count ∧ (checkPage cfg s).disk.lcHigh = s.disk.lcHigh ∧
    (checkPage cfg s).disk.head = s.disk.head ∧ (checkPage cfg s).disk.ibltLeaves = s.disk.ibltLeaves ∧
    (checkPage cfg s).mem.ibltTree = s.mem.ibltTree ∧ (checkPage cfg s).mem.lcHigh = s.mem.lcHigh :=
  h.checkPage cfg_good red hp

/-- `k` runs of `checkPage` -/
def checkN : Nat → State NB → State NB
  | 0, s => s
  | k + 1, s => checkN k (checkPage cfg s)

theorem next_page {s : State NB} {val : Nat → BitVec 256} (h : XInv cfg s val) (red : ¬ s.mem.circuit < 2)
    (hp : s.mem.repairPage < maxClock s.disk.txs / cfg.pageSize) :
    (checkPage cfg s).mem.repairPage = s.mem.repairPage + 1 ∧ (checkPage cfg s).mem.circuit = s.mem.circuit := by
  obtain ⟨txs, hf, _⟩ := calc_root cfg_good.pos h.g s.mem.repairPage
  have hn : nextPage cfg s = s.mem.repairPage + 1 := by
    unfold nextPage
    have h1 : (s.mem.repairPage + 1) * cfg.pageSize ≤ maxClock s.disk.txs := by
      have := (Nat.le_div_iff_mul_le cfg_good.pos).mp (show s.mem.repairPage + 1 ≤ maxClock s.disk.txs / cfg.pageSize by omega)
      exact this
    rw [Nat.add_mul, Nat.one_mul] at h1
    have : ¬ (s.mem.repairPage * cfg.pageSize + cfg.pageSize > s.mem.lcHigh) := by rw [h.lc, h.g.lc]; omega
    simp [this]
  by_cases he : xorOps.empty (xorOps.sub (pageXor cfg.pageSize s.mem.xorTree s.mem.repairPage) (calcXor cfg.pageSize txs)) = true
  · rw [checkPage_nochange red hf he]; exact ⟨hn, rfl⟩
  · rw [checkPage_replace red hf he]; exact ⟨hn, rfl⟩

/-- running the repair loop from page 0 over the first `k` pages: those pages hold the recomputed values, the others
    are as they were -/
theorem repair_prefix : ∀ (k : Nat) (s : State NB) (val : Nat → BitVec 256) (j : Nat), XInv cfg s val →
    ¬ s.mem.circuit < 2 → s.mem.repairPage = j → j + k ≤ maxClock s.disk.txs / cfg.pageSize + 1 →
    XInv cfg (checkN k s) (fun q => if j ≤ q ∧ q < j + k then xorSpec cfg s q else val q) ∧
    (checkN k s).disk.txs = s.disk.txs := by
  intro k
  induction k with
  | zero =>
    intro s val j h _ _ _
    have : (fun q => if j ≤ q ∧ q < j + 0 then xorSpec cfg s q else val q) = val := by
      funext q; have : ¬ (j ≤ q ∧ q < j + 0) := by omega
      rw [if_neg this]
    rw [this]; exact ⟨h, rfl⟩
  | succ k ih =>
    intro s val j h red hj hle
    subst hj
    have step := repair_local h red (by omega)
    obtain ⟨hx, htx, _⟩ := step
    have hspec : xorSpec cfg (checkPage cfg s) = xorSpec cfg s := by unfold xorSpec; rw [htx]
    by_cases hk : k = 0
    · subst hk
      refine ⟨?_, htx⟩
      show XInv cfg (checkPage cfg s) _
      have : (fun q => if s.mem.repairPage ≤ q ∧ q < s.mem.repairPage + (0 + 1) then xorSpec cfg s q else val q) =
          upd val s.mem.repairPage (xorSpec cfg s s.mem.repairPage) := by
        funext q; unfold upd
        by_cases e : q = s.mem.repairPage
        · rw [if_pos (by omega : s.mem.repairPage ≤ q ∧ q < s.mem.repairPage + (0 + 1)), if_pos e, e]
        · rw [if_neg (by omega : ¬ (s.mem.repairPage ≤ q ∧ q < s.mem.repairPage + (0 + 1))), if_neg e]
      rw [this]; exact hx
    · have np := next_page h red (by omega)
      have := ih (checkPage cfg s) _ (s.mem.repairPage + 1) hx (by rw [np.2]; exact red) np.1 (by rw [htx]; omega)
      obtain ⟨i1, i2⟩ := this
      refine ⟨?_, by rw [← htx]; exact i2⟩
      show XInv cfg (checkN k (checkPage cfg s)) _
      have e : (fun q => if s.mem.repairPage + 1 ≤ q ∧ q < s.mem.repairPage + 1 + k then xorSpec cfg (checkPage cfg s) q
            else upd val s.mem.repairPage (xorSpec cfg s s.mem.repairPage) q) =
          (fun q => if s.mem.repairPage ≤ q ∧ q < s.mem.repairPage + (k + 1) then xorSpec cfg s q else val q) := by
        funext q
        rw [hspec]; unfold upd
        by_cases e1 : q = s.mem.repairPage
        · rw [if_neg (by omega : ¬ (s.mem.repairPage + 1 ≤ q ∧ q < s.mem.repairPage + 1 + k)), if_pos e1,
            if_pos (by omega : s.mem.repairPage ≤ q ∧ q < s.mem.repairPage + (k + 1)), e1]
        · by_cases e2 : s.mem.repairPage + 1 ≤ q ∧ q < s.mem.repairPage + 1 + k
          · rw [if_pos e2, if_pos (by omega : s.mem.repairPage ≤ q ∧ q < s.mem.repairPage + (k + 1))]
          · rw [if_neg e2, if_neg e1, if_neg (by omega : ¬ (s.mem.repairPage ≤ q ∧ q < s.mem.repairPage + (k + 1)))]
      rw [e] at i1
      exact i1

/-- **A corrupted page is restored by the repair procedure.** Take any reachable state with stored transactions,
    overwrite the persisted XOR leaf of any existing page `p` with any value, restart (the corrupted leaf is now in the
    tree), signal "incorrect state" twice and let the repair loop check pages `0 … p`: the state is healthy again —
    every observable, for every requested clock, is what the stored set implies — and the stored set is unchanged. -/
theorem repair_restores {s : State NB} (r : Reachable s) (hne : s.disk.txs ≠ []) (p : Nat)
    (hp : p ≤ maxClock s.disk.txs / cfg.pageSize) (v : BitVec 256) :
    let s1 := signalIncorrect (signalIncorrect (restart cfg (corruptDisk s (keyOf cfg.pageSize p) v)))
    SInv cfg (checkN (p + 1) s1) ∧ (checkN (p + 1) s1).disk.txs = s.disk.txs ∧
    Observables (checkN (p + 1) s1) s.disk.txs := by
  intro s1
  have c := (reachable_inv r).corrupt_restart cfg_good hne p hp v
  obtain ⟨hx, htx⟩ := c
  have hx1 : XInv cfg s1 (upd (xorSpec cfg s) p v) := ⟨hx.g, hx.lc, hx.ne, hx.sync, hx.i⟩
  have htx1 : s1.disk.txs = s.disk.txs := htx
  have red : ¬ s1.mem.circuit < 2 := by
    show ¬ ((restart cfg (corruptDisk s (keyOf cfg.pageSize p) v)).mem.circuit + 1 + 1 < 2)
    omega
  have rp := repair_prefix (p + 1) s1 _ 0 hx1 red rfl (by rw [htx1]; omega)
  obtain ⟨hxn, htxn⟩ := rp
  have hspec1 : xorSpec cfg s1 = xorSpec cfg s := by unfold xorSpec; rw [htx1]
  have hval : (fun q => if 0 ≤ q ∧ q < 0 + (p + 1) then xorSpec cfg s1 q else upd (xorSpec cfg s) p v q) =
      xorSpec cfg (checkN (p + 1) s1) := by
    have : xorSpec cfg (checkN (p + 1) s1) = xorSpec cfg s := by unfold xorSpec; rw [htxn, htx1]
    rw [this, hspec1]
    funext q; unfold upd
    by_cases h1 : 0 ≤ q ∧ q < 0 + (p + 1)
    · rw [if_pos h1]
    · rw [if_neg h1, if_neg (by omega : ¬ q = p)]
  rw [hval] at hxn
  have hs := hxn.healthy cfg_good
  have ho := observables_of_sinv hs
  rw [htxn, htx1] at ho
  exact ⟨hs, by rw [htxn, htx1], ho⟩

/-- the boundary case spelled out: when the highest clock is exactly the first clock of the last page (`k * PageSize`,
    that page holds a single clock value), the repair walk still reaches that page — `k + 1` checks from page 0 restore a
    corruption in it -/
theorem repair_restores_last_page_on_boundary {s : State NB} (r : Reachable s) (hne : s.disk.txs ≠ []) (k : Nat)
    (hk : maxClock s.disk.txs = k * cfg.pageSize) (v : BitVec 256) :
    let s1 := signalIncorrect (signalIncorrect (restart cfg (corruptDisk s (keyOf cfg.pageSize k) v)))
    SInv cfg (checkN (k + 1) s1) ∧ (checkN (k + 1) s1).disk.txs = s.disk.txs ∧
    Observables (checkN (k + 1) s1) s.disk.txs :=
  repair_restores r hne k (by rw [hk, Nat.mul_div_cancel _ cfg_good.pos]; exact Nat.le_refl k) v

/-! ### the two repaired defects, as statements about the model of the code before the repair -/

/-- the configuration before the repair of `tree.Load` (no reset on an empty shelf) -/
def cfgBeforeLoadFix : Cfg := { pageSize := 512, loadEmptyResets := false }

/-- With the old `Load`, a commit failure on the very first write left the transaction in the XOR tree: `XOR(0)` is the
    rolled-back ref although nothing is stored (the witness replayed on the real code is
    harness/corpus/C08/state-first-write-rolled-back.jsonl). -/
theorem first_write_rollback_defect_before_fix :
    let s := (add cfgBeforeLoadFix (State.init cfgBeforeLoadFix : State NB) exRoot { commitFails := true }).1
    s.disk.txs = [] ∧ (xorAt s 0).1 = 7 ∧ (specUpTo xorOps 512 (refClocks s.disk.txs) 0) = 0 := by
  decide

/-- the state in the window the store used to leave open: the write transaction of `Add tx` has been rolled back (disk
    as before) but its rollback handler has not reloaded the trees yet (memory as `updateState` left it) -/
def rolledBackNotReloaded (s : State NB) (tx : Tx) : State NB :=
  match s.disk.graphAdd tx with
  | .ok d => { updateState s d tx with disk := s.disk }
  | _ => s

def exSibling : Tx := { ref := 12, clock := 1, prevs := [7] }

/-- **The schedule the missing critical section allowed** (before the repair of `state.Add`): root stored; `Add exChild`
    fails at commit; `Add exSibling` runs inside the window; then the late reload. The stored set is {root, sibling}, but
    the XOR digest still contains the rolled-back ref — also after a restart, because the sibling's write persisted the
    stale leaf. With the handler inside the critical section (`fact_add_critical_section`) this interleaving cannot
    occur and every schedule is a sequence of atomic `add` steps (`Reachable`). Witness replayed on the real code:
    harness/corpus/C08/state-rollback-reload-race.jsonl. -/
theorem rollback_reload_race_defect_before_fix :
    let s1 := (add cfg (State.init cfg : State NB) exRoot {}).1
    let s2 := (add cfg (rolledBackNotReloaded s1 exChild) exSibling {}).1
    let s3 := restart cfg (rollback cfg s2)
    s3.disk.txs.map (·.ref) = [7, 12] ∧ (xorAt s3 5).1 = 7 ^^^ 9 ^^^ 12 ∧
    specUpTo xorOps cfg.pageSize (refClocks s3.disk.txs) 5 = 7 ^^^ 12 := by
  decide

/-! ### the `uint32` bound -/

/-- `treeSize *= 2` on `uint32` wraps to 0 at 2^31: the loop `for clock >= t.treeSize { t.reRoot() }` would then never
    end. Every statement that ties the `Nat` model to the Go code therefore assumes clocks below 2^31 (a valid DAG
    needs 2^31 chained transactions to get there). -/
theorem reRoot_overflow_witness : reRoot32 (BitVec.ofNat 32 (2 ^ 31)) = 0 ∧
    ∀ k : Nat, k < 31 → reRoot32 (BitVec.ofNat 32 (2 ^ k)) = BitVec.ofNat 32 (2 ^ (k + 1)) := by
  refine ⟨by decide, ?_⟩
  intro k hk
  have : k ∈ List.range 31 := List.mem_range.mpr hk
  revert k
  decide

/-! ### the byte layer (deepening round 2026-09-28): shelf keys, hash lists, leaf codecs, Load on raw bytes -/

section codec
open Nuts.C08.Codec

/-- generated from the source: byte orders, offsets and length checks of the codecs are what the model hard-codes -/
theorem fact_codec :
    Facts.C08.treeKeyPut = "LittleEndian.PutUint32" ∧ Facts.C08.treeKeyGet = "LittleEndian.Uint32" ∧
    Facts.C08.bytesToClockFn = "BigEndian.Uint32" ∧ Facts.C08.bytesToCountFn = "BigEndian.Uint64" ∧
    Facts.C08.setHighestClockPut = "BigEndian.PutUint32" ∧ Facts.C08.setCountPut = "BigEndian.PutUint64" ∧
    Facts.C08.ibltByteOrder = "LittleEndian" ∧
    Facts.C08.bucketMarshalLayout = ["PutUint32@" ++ toString countOff, "PutUint64@" ++ toString hashSumOff, "copy@" ++ toString keySumOff] ∧
    Facts.C08.bucketUnmarshalLayout = ["Uint32@:4", "Uint64@4:12", "hash@12:"] ∧
    Facts.C08.bucketBytes = bucketBytes ∧ Facts.C08.hashSize = hashSize ∧
    Facts.C08.lengthChecks = ["bucket.UnmarshalBinary:len(data)!=bucketBytes", "Iblt.UnmarshalBinary:len(data)!=numBuckets*bucketBytes",
      "Xor.UnmarshalBinary:len(data)!=hash.SHA256HashSize"] ∧
    Facts.C08.clockShelfKey = "stoabs.Uint32Key" ∧
    Facts.C08.loadAssignsAfterUnmarshal = true := by decide

/-- **Leaf keys round-trip and are injective** (`clockToKey` / `keyToClock`, little-endian): two different leaves never
    share a shelf key, and `treeStore.read` recovers exactly the `splitLC` the leaf was written under. -/
theorem leaf_key_roundtrip (c : Nat) (h : c < 2 ^ 32) :
    keyToClock (clockToKey c) = .ok c ∧ (clockToKey c).length = 4 ∧
    ∀ c', c' < 2 ^ 32 → clockToKey c' = clockToKey c → c' = c := by
  refine ⟨keyToClock_clockToKey c h, leBytes_length 4 c, ?_⟩
  intro c' h' e
  have h1 := keyToClock_clockToKey c' h'
  rw [e, keyToClock_clockToKey c h] at h1
  cases h1; rfl

/-- clock-shelf keys and the metadata values (`lc_high`, `tx_num`) decode to what was encoded (big-endian) -/
theorem clock_key_roundtrip (c : Nat) (h : c < 2 ^ 32) (k : Nat) (hk : k < 2 ^ 64) :
    bytesToClock (uint32Key c) = .ok c ∧ bytesToCount (countBytes k) = .ok k :=
  ⟨bytesToClock_uint32Key c h, bytesToCount_countBytes k hk⟩

/-- a value shorter than the integer makes the Go decoder panic (index out of range) — never a silent 0 -/
theorem short_value_panics (b : Codec.Bytes) (h : b.length < 4) :
    keyToClock b = .panic "index out of range" ∧ bytesToClock b = .panic "index out of range" := by
  simp [keyToClock, bytesToClock, uintLE, uintBE, h]

/-- **`parseHashList` inverts `appendHashList`** for every list of references, and drops a trailing partial hash -/
theorem hash_list_roundtrip (refs : List Ref) (h : Ref) (tail : Codec.Bytes) (ht : tail.length < 32) :
    parseHashList (encodeHashList refs) = refs ∧
    parseHashList (appendHashList (encodeHashList refs) h) = refs ++ [h] ∧
    parseHashList (encodeHashList refs ++ tail) = refs := by
  refine ⟨?_, ?_, parseHashList_flat_tail refs tail ht⟩
  · simpa using parseHashList_flat_tail refs [] (by simp)
  · rw [encodeHashList_append]; simpa using parseHashList_flat_tail (refs ++ [h]) [] (by simp)

/-- **`indexClockValue` on raw bytes refines the abstract clock index** (`Disk.indexClock`): on the encoded value of
    the clock's reference list it puts exactly the encoding of the list the abstract layer computes, and puts nothing
    when the reference is already listed. -/
theorem index_clock_bytes_refines (d : Disk NB) (tx : Tx) :
    match indexClockBytes ((getSorted tx.clock d.clocks).map encodeHashList) tx.ref with
    | none => d.indexClock tx = d
    | some b => ∃ refs', (d.indexClock tx).clocks = putSorted tx.clock refs' d.clocks ∧ b = encodeHashList refs' := by
  unfold indexClockBytes Disk.indexClock
  cases hg : getSorted tx.clock d.clocks with
  | none =>
    have hp : parseHashList ([] : Codec.Bytes) = [] := rfl
    simp only [Option.map_none, hp, Option.getD_none]
    simp only [List.contains_nil, Bool.false_eq_true, if_false]
    exact ⟨[] ++ [tx.ref], rfl, by simp [encodeHashList, appendHashList]⟩
  | some cur =>
    simp only [Option.map_some, (hash_list_roundtrip cur tx.ref [] (by simp)).1, Option.getD_some]
    by_cases hc : cur.contains tx.ref = true
    · rw [if_pos hc, if_pos hc]
    · rw [if_neg hc, if_neg hc]
      exact ⟨cur ++ [tx.ref], rfl, encodeHashList_append cur tx.ref⟩

/-- **Leaf codecs are exact inverses** — `UnmarshalBinary ∘ MarshalBinary = id` for the XOR leaf, the IBLT bucket and
    the whole IBLT, and XOR `MarshalBinary ∘ UnmarshalBinary = id` on every accepted input (no information is lost
    or invented by a restart). -/
theorem leaf_codec_roundtrip (x : BitVec 256) (b : Bucket) (bs : List Bucket) :
    xorUnmarshal (xorMarshal x) = .ok x ∧ bucketUnmarshal (bucketMarshal b) = .ok b ∧
    ibltUnmarshal (ibltMarshal bs) = .ok bs ∧
    (∀ d y, xorUnmarshal d = .ok y → xorMarshal y = d) :=
  ⟨xorUnmarshal_marshal x, bucketUnmarshal_marshal b, ibltUnmarshal_marshal bs, xorMarshal_unmarshal⟩

/-- the length checks: exactly the 32-byte values are XOR leaves; exactly the multiples of 44 bytes are IBLTs -/
theorem leaf_codec_rejects (d : Codec.Bytes) :
    (xorUnmarshal d = .err "invalid data length" ↔ d.length ≠ 32) ∧
    (d.length % 44 ≠ 0 → ibltUnmarshal d = .err "invalid data length") := by
  constructor
  · unfold xorUnmarshal
    simp only [hashSize]
    by_cases h : d.length = 32 <;> simp [h]
  · intro h
    have hne : d.length ≠ d.length / bucketBytes * bucketBytes := by simp only [bucketBytes]; omega
    show (if d.length ≠ d.length / bucketBytes * bucketBytes then _ else _) = _
    rw [if_pos hne]

/-- **`Load` on raw bytes refines the abstract `Load`**: on the bytes `writeWithoutLock` produced for a shelf it builds
    exactly the tree the abstract layer builds from the shelf — so every tree theorem above (tree_inv_load,
    restart_equiv, rollback_restores …) holds for the byte layer. -/
theorem load_bytes_refines (b : Bool) (tX : Tree (BitVec 256)) (shelfX : List (Nat × BitVec 256))
    (n : Nat) (tI : Tree (Iblt n)) (shelfI : List (Nat × Iblt n)) :
    loadXorBytes b tX (shelfX.map fun kv => (kv.1, xorMarshal kv.2)) = (Tree.load xorOps b tX shelfX, .ok ()) ∧
    loadIbltBytes n b tI (shelfI.map fun kv => (kv.1, ibltMarshalV kv.2)) = (Tree.load (ibltOps n) b tI shelfI, .ok ()) := by
  constructor
  · simp only [loadXorBytes, unmarshalLeaves_xor]
  · simp only [loadIbltBytes, unmarshalLeaves_iblt, allToIblt_toList]

/-- **Unchanged on error**: a `Load` that fails (a leaf of the wrong length, IBLT leaves of different sizes) returns
    the tree it was called on, for every tree and every raw shelf content. -/
theorem load_bytes_error_unchanged (b : Bool) (tX : Tree (BitVec 256)) (n : Nat) (tI : Tree (Iblt n))
    (kvs : List (Nat × Codec.Bytes)) :
    ((loadXorBytes b tX kvs).2 ≠ .ok () → (loadXorBytes b tX kvs).1 = tX) ∧
    ((loadIbltBytes n b tI kvs).2 ≠ .ok () → (loadIbltBytes n b tI kvs).1 = tI) := by
  constructor
  · unfold loadXorBytes
    cases unmarshalLeaves xorUnmarshal kvs <;> simp
  · unfold loadIbltBytes
    cases unmarshalLeaves ibltUnmarshal kvs with
    | ok l =>
      simp only
      cases allToIblt n l with
      | some l' => simp
      | none => simp only; split <;> simp
    | err e => simp
    | panic s => simp

/-- shelves only ever written by `writeWithoutLock` (`persist`) stay sorted by key — the shape `treeStore.read` needs -/
theorem persist_keeps_sorted {G : Type} (t : Tree G) (shelf : List (Nat × G)) (hs : Sorted shelf) :
    Sorted (persist t shelf).2 := by
  unfold persist
  simp only
  generalize t.updates = ups
  induction ups generalizing shelf with
  | nil => exact hs
  | cons kv rest ih => exact ih _ (putSorted_sorted kv.1 kv.2 shelf hs)

/-- **Restart through the real bytes = the abstract restart** (shelf keys `clockToKey`, values `MarshalBinary`, raw
    iteration `keyToClock`, `Load` with `UnmarshalBinary`): composing the key round trip, the codec round trip and
    `load_bytes_refines`, `loadState` over the raw xorBucket / ibltBucket shelves yields exactly the memory the abstract
    `loadState` yields, without error — hence `restart_equiv` and `rollback_restores` speak about the stored bytes. -/
theorem load_state_through_bytes (c : Cfg) (d : Disk NB) (m : Mem NB)
    (hsx : Sorted d.xorLeaves) (hsi : Sorted d.ibltLeaves)
    (hbx : ∀ x ∈ d.xorLeaves, x.1 < 2 ^ 32) (hbi : ∀ x ∈ d.ibltLeaves, x.1 < 2 ^ 32) :
    loadStateBytes c (encodeXorShelf d.xorLeaves) (encodeIbltShelf d.ibltLeaves) d.lcHigh m = (loadState c d m, .ok ()) := by
  unfold loadStateBytes
  simp only [readShelf_encodeXor _ hsx hbx, readShelf_encodeIblt _ hsi hbi,
    (load_bytes_refines c.loadEmptyResets _ d.xorLeaves NB m.ibltTree d.ibltLeaves).1,
    (load_bytes_refines c.loadEmptyResets m.xorTree d.xorLeaves NB _ d.ibltLeaves).2]
  rfl

/-- non-vacuity / witnesses on concrete bytes -/
example : clockToKey 256 = [0, 1, 0, 0] ∧ uint32Key 256 = [0, 0, 1, 0] ∧ keyToClock [0, 1, 0, 0] = .ok 256 := by decide
example : parseHashList (List.replicate 33 7) = [refOfBytes (List.replicate 32 7)] ∧ parseHashList (List.replicate 31 7) = [] := by
  decide
example : indexClockBytes none 5 = some (bytesOfRef 5) ∧ indexClockBytes (some (bytesOfRef 5)) 5 = none := by decide
example : bucketMarshal ⟨1, 2, 3⟩ = [1, 0, 0, 0, 2, 0, 0, 0, 0, 0, 0, 0] ++ List.replicate 31 0 ++ [3] := by decide
example : (loadXorBytes true (Tree.new xorOps 4) [(2, [1, 2, 3])]).2 = .err "invalid data length" := by decide
example : (loadIbltBytes 1 true (Tree.new (ibltOps 1) 4) [(2, List.replicate 44 0), (6, List.replicate 88 0)]).2
    = .err "number of buckets do not match" := by decide
example : Sorted ([(256, (1 : BitVec 256)), (768, 2)]) ∧ (∀ x ∈ [(256, (1 : BitVec 256)), (768, 2)], x.1 < 2 ^ 32) := by
  constructor
  · simp [Sorted]
  · intro x hx; simp at hx; rcases hx with h | h <;> subst h <;> decide

/-- **Clock-shelf keys sort like the clocks they encode** (`stoabs.Uint32Key`, big-endian): bbolt's cursor
    (`bytes.Compare`) visits the clock shelf in ascending clock order — what `visitBetweenLC`'s `Range` relies on
    for the clock-ordered listing. -/
theorem clock_keys_order (a b : Nat) (h : a < b) (hb : b < 2 ^ 32) : lexLt (uint32Key a) (uint32Key b) = true :=
  beBytes_lt 4 a b h (by rw [pow256_4]; exact hb)

/-- the raw clock shelf of a disk whose abstract index is sorted by clock is sorted by key bytes; `indexClockValue`
    keeps the abstract index sorted -/
theorem clock_shelf_cursor_order (d : Disk NB) (tx : Tx) (hs : Sorted d.clocks) (hb : ∀ x ∈ d.clocks, x.1 < 2 ^ 32) :
    (encodeClocks d.clocks).Pairwise (fun a b => lexLt a.1 b.1 = true) ∧ Sorted (d.indexClock tx).clocks := by
  refine ⟨encodeClocks_sorted d.clocks hs hb, ?_⟩
  unfold Disk.indexClock
  simp only
  split
  · exact hs
  · exact putSorted_sorted _ _ _ hs

/-- the tree shelves' little-endian keys do NOT sort like clocks (witness: key(256) < key(1)) — `treeStore.read`
    therefore collects into a map and `Load` sorts the keys itself (`readShelf` = sorted insertion) -/
theorem leaf_keys_not_ordered : lexLt (clockToKey 256) (clockToKey 1) = true ∧ lexLt (uint32Key 1) (uint32Key 256) = true := by
  decide

/-- **Metadata getters decode what the setters wrote**: on the bytes `dag.add` put under lc_high / tx_num / head_ref
    the getters return the abstract disk's values (an absent head reads as the empty hash). -/
theorem metadata_getters_refine (lc cnt : Nat) (h : Option Ref) (hlc : lc < 2 ^ 32) (hcnt : cnt < 2 ^ 64) :
    getHighestClockValue (.value (uint32Key lc)) = .ok lc ∧
    getNumberOfTransactions (.value (countBytes cnt)) = .ok cnt ∧
    getHead (headBytes h) = .ok (h.getD 0) := metadata_getters lc cnt h hlc hcnt

/-- the getters' fallbacks: an absent key and ANY other storage error both read as 0 for the clock and the count
    (a failing read is indistinguishable from an empty DAG there), while `getHead` returns the error -/
theorem metadata_getters_fallback :
    getHighestClockValue .notFound = .ok 0 ∧ getHighestClockValue .failed = .ok 0 ∧
    getNumberOfTransactions .notFound = .ok 0 ∧ getNumberOfTransactions .failed = .ok 0 ∧
    getHead .notFound = .ok 0 ∧ getHead .failed = .err "storage" := by decide

example : getHighestClockValue (.value [1, 2]) = .panic "index out of range" := by decide
example : fromSlice [1, 2] = refOfBytes ([1, 2] ++ List.replicate 30 0) := by decide

end codec

/-! ### `tree.Delete` (was correspondence-only) -/

/-- `Delete` (any reference, any clock) keeps the invariant, and the sum of the leaves on any set `q` of pages loses the
    reference exactly when the clock's page is in `q` -/
theorem tree_inv_delete {o : Ops R G} (L : Lawful o) (D : DelLawful o) (t : Tree G) (i : TInv o t) (r : R) (clock : Nat) :
    TInv o (t.delete o r clock) ∧ (t.delete o r clock).leafSize = t.leafSize ∧
    ∀ q : Nat → Bool, fsum o t.leafSize q (t.delete o r clock).root.leaves =
      if q (clock / t.leafSize) then o.del (fsum o t.leafSize q t.root.leaves) r
      else fsum o t.leafSize q t.root.leaves := delete_spec L D t i r clock

/-- **Delete exactly undoes Insert**: after `Insert(ref, clock); Delete(ref, clock)` on any tree satisfying the
    invariant, `Root()` and `ZeroTo(c)` for EVERY `c` are what they were (even when the insert made the tree grow). -/
theorem delete_undoes_insert {o : Ops R G} (L : Lawful o) (D : DelLawful o) (t : Tree G) (i : TInv o t) (r : R) (clock : Nat) :
    let t' := (t.insert o r clock).delete o r clock
    TInv o t' ∧ t'.rootData o = t.rootData o ∧ ∀ c, (t'.zeroTo o c).1 = (t.zeroTo o c).1 := by
  intro t'
  have hi := tree_inv_insert L t i r clock
  have hd := delete_spec L D (t.insert o r clock) hi.1 r clock
  have hls : t'.leafSize = t.leafSize := by rw [hd.2.1, hi.2.1]
  have hq : ∀ q : Nat → Bool, fsum o t.leafSize q t'.root.leaves = fsum o t.leafSize q t.root.leaves := by
    intro q
    have h1 := hd.2.2 q
    rw [hi.2.1] at h1
    rw [h1, hi.2.2 q]
    split
    · exact D.del_ins _ _
    · rfl
  have o1 := observables_of_inv L t i
  have o2 := observables_of_inv L t' hd.1
  refine ⟨hd.1, ?_, fun c => ?_⟩
  · rw [o2.1, o1.1, hls]; exact hq _
  · rw [o2.2 c, o1.2 c, hls]; exact hq _

/-- both `Data` implementations satisfy the Delete laws (XOR: self-inverse; IBLT: bucket-wise, for arbitrary bucket
    indices incl. repeated ones) -/
theorem xor_iblt_delete_lawful (n : Nat) : DelLawful xorOps ∧ DelLawful (ibltOps n) := ⟨xor_del_lawful, iblt_del_lawful n⟩

/-- non-vacuity: a grown XOR tree, insert at a clock beyond the tree, delete again -/
example : let t := [((1 : BitVec 256), 0), (2, 5)].foldl (fun t rc => t.insert xorOps rc.1 rc.2) (Tree.new xorOps 2)
    let t' := (t.insert xorOps 9 17).delete xorOps 9 17
    t.treeSize = 8 ∧ t'.treeSize = 32 ∧ t'.rootData xorOps = 3 ∧ (t'.zeroTo xorOps 1).1 = 1 := by decide

/-! ### `tree.DropLeaves` (was not modelled) -/

/-- **DropLeaves keeps the invariant and merges pages pairwise.** On a tree whose root is a leaf it does nothing; on any
    other tree satisfying the invariant it succeeds (no nil dereference), the leaf size doubles, tree size and `Root()`
    stay, the old leaves are appended to the orphans, and the sum of the new leaves on any set `q` of (doubled) pages is
    the sum of the old leaves on the pages `p` with `q (p / 2)`. -/
theorem drop_leaves_spec {o : Ops R G} (L : Lawful o) (t : Tree G) (i : TInv o t) :
    (t.treeSize = t.leafSize → t.dropLeaves = .ok t) ∧
    (t.treeSize ≠ t.leafSize →
      ∃ t', t.dropLeaves = .ok t' ∧ TInv o t' ∧ t'.leafSize = 2 * t.leafSize ∧ t'.treeSize = t.treeSize ∧
        t'.rootData o = t.rootData o ∧
        (∀ q : Nat → Bool, fsum o (2 * t.leafSize) q t'.root.leaves = fsum o t.leafSize (fun p => q (p / 2)) t.root.leaves) ∧
        (∃ orph, t'.orphaned = t.orphaned ++ orph)) := dropLeaves_tree L t i

/-- after DropLeaves, `ZeroTo(c)` for EVERY `c` is the sum of the old pages up to the end of the doubled page of `c` -/
theorem drop_leaves_observables {o : Ops R G} (L : Lawful o) (t : Tree G) (i : TInv o t) (hne : t.treeSize ≠ t.leafSize) :
    ∃ t', t.dropLeaves = .ok t' ∧ t'.rootData o = t.rootData o ∧
      ∀ c, (t'.zeroTo o c).1 = fsum o t.leafSize (fun p => decide (p / 2 ≤ c / (2 * t.leafSize))) t.root.leaves := by
  obtain ⟨t', e, i', hls, _, hr, hf, _⟩ := (dropLeaves_tree L t i).2 hne
  refine ⟨t', e, hr, fun c => ?_⟩
  rw [(observables_of_inv L t' i').2 c, hls]
  exact hf _

/-- non-vacuity: three pages of leaf size 2 become two pages of leaf size 4; clock 3 now reads pages 0-1 -/
def exDropT : Tree (BitVec 256) :=
  [((1 : BitVec 256), 0), (2, 3), (4, 5)].foldl (fun t rc => t.insert xorOps rc.1 rc.2) (Tree.new xorOps 2)
def exDropT' : Tree (BitVec 256) := match exDropT.dropLeaves with | .ok t' => t' | _ => Tree.new xorOps 1
example : exDropT.dropLeaves = .ok exDropT' ∧ exDropT.treeSize = 8 ∧ (exDropT.zeroTo xorOps 1).1 = 1 ∧
    exDropT'.treeSize = 8 ∧ exDropT'.leafSize = 4 ∧ exDropT'.rootData xorOps = 7 ∧ (exDropT'.zeroTo xorOps 1).1 = 3 ∧
    exDropT'.root.leaves = [(2, 3), (6, 4)] ∧ exDropT'.orphaned = [1, 3, 5] := by decide

/-- the nil dereference of `dropLeavesR` needs an unbalanced tree (never produced by New/Insert/Load/Replace) -/
example : (Node.branch 4 8 (0 : BitVec 256) (.branch 2 4 0 (.leaf 1 2 0) (.leaf 3 4 0)) (.leaf 6 8 0)).dropLeaves
    = .panic "nil dereference: n.left.isLeaf()" := by decide

/-- generated from the source (deepening round, second batch): NewIblt's clamp, the conditions and assignments of
    DropLeaves / dropLeavesR, Delete-before-Put in writeWithoutLock, the getters' error classification -/
theorem fact_tree_api :
    Facts.C08.newIbltConds = ["numBuckets < int(ibltK)"] ∧
    Facts.C08.dropLeavesConds = ["t.root == nil || t.root.isLeaf()", "t.orphanedLeaves == nil"] ∧
    Facts.C08.dropLeavesRConds = ["n == nil", "n.left.isLeaf()", "n.right != nil"] ∧
    Facts.C08.dropLeavesAssigns = ["t.dirtyLeaves=update.dirty", "t.orphanedLeaves=update.orphaned",
      "t.orphanedLeaves[k]=struct{}{}", "t.leafSize*=2"] ∧
    Facts.C08.writeWithoutLockWriterCalls = ["writer.Delete", "writer.Put"] ∧
    Facts.C08.metaGetterConds = ["errors.Is(err, stoabs.ErrKeyNotFound)", "err != nil", "errors.Is(err, stoabs.ErrKeyNotFound)",
      "err != nil", "errors.Is(err, stoabs.ErrKeyNotFound)", "err != nil"] := by decide

/-- `NewIblt` never yields fewer than `k` buckets, is the identity from `k` on, and `Iblt.New()` (= `NewIblt(numBuckets())`)
    reproduces the bucket count of its receiver — so every node the tree creates from the prototype has the
    prototype's size and `Add` inside the tree never hits `validate`'s mismatch -/
theorem new_iblt_buckets (k n : Nat) :
    k ≤ Codec.newIbltBuckets k n ∧ n ≤ Codec.newIbltBuckets k n ∧ (k ≤ n → Codec.newIbltBuckets k n = n) ∧
    Codec.newIbltBuckets k (Codec.newIbltBuckets k n) = Codec.newIbltBuckets k n := by
  unfold Codec.newIbltBuckets
  refine ⟨?_, ?_, ?_, ?_⟩
  · split <;> omega
  · split <;> omega
  · intro h; rw [if_neg (by omega)]
  · by_cases h : n < k
    · simp [h]
    · simp [h]

example : Codec.newIbltBuckets Facts.C08.ibltK 3 = 6 ∧ Codec.newIbltBuckets Facts.C08.ibltK Facts.C08.ibltNumBuckets = 1024 := by decide

/-- `writeWithoutLock` with orphans (`persistFull`) coincides with the modelled `persist` whenever nothing is orphaned —
    which is every state the node reaches (DropLeaves has no caller) -/
theorem persist_full_eq_persist {G : Type} (t : Tree G) (shelf : List (Nat × G)) (h : t.orphaned = []) :
    persistFull t shelf = persist t shelf := by
  unfold persistFull persist
  have hf : shelf.filter (fun kv => !t.orphaned.contains kv.1) = shelf := by
    rw [h]; exact List.filter_eq_self.mpr (fun _ _ => by simp)
  simp only [hf]

/-! ### the Prometheus counter `nuts_dag_transactions_total` (state.go Start + third AfterCommit hook of Add) -/

theorem checkPageWith_txs {n : Nat} (c : Cfg) (lc : Nat) (s : State n) : (checkPageWith c lc s).disk.txs = s.disk.txs := by
  unfold checkPageWith
  split
  · rfl
  · simp only
    split
    · split <;> rfl
    · rfl

/-- the life cycle of one state object with its counter: opened on any reachable file content (fresh collector),
    started once, then any Add calls (any transaction, payload, fault), repair steps and signals -/
inductive MReach : MState NB → Prop
  | start {s} : Reachable s → MReach (MState.start { s := s })
  | add {m} (tx : Tx) (opt : AddOpts) : MReach m → MReach (MState.add cfg m tx opt).1
  | checkPage {m : MState NB} : MReach m → MReach { m with s := checkPage cfg m.s }
  | signal {m : MState NB} : MReach m → MReach { m with s := signalIncorrect m.s }

/-- **The transaction counter metric equals the size of the stored set** in every state of that life cycle — it is
    not moved by rejected, rolled-back or duplicate Adds, and counts each admitted transaction once. -/
theorem metric_tracks_stored_set {m : MState NB} (r : MReach m) :
    Reachable m.s ∧ m.metric = m.s.disk.txs.length := by
  induction r with
  | start hs =>
    refine ⟨hs, ?_⟩
    simp only [MState.start, metricAfterStart, Nat.zero_add]
    exact (state_refines_spec hs).count
  | @add m0 tx opt _ ih =>
    obtain ⟨hr, hm⟩ := ih
    refine ⟨Reachable.add tx opt hr, ?_⟩
    have h := stored_set_changes_only_on_success hr tx opt
    simp only [MState.add, metricAfterAdd]
    by_cases hok : (Nuts.C08.add cfg m0.s tx opt).2 = .ok ()
    · rcases h.2 hok with ⟨hs, hp⟩ | ⟨ht, hp⟩
      · simp only [hok, hp, true_and, Bool.true_eq_false, if_false, hs, hm]
      · simp only [hok, hp, true_and, if_true, ht, List.length_append, List.length_singleton, hm]
    · simp only [hok, false_and, if_false, h.1 hok, hm]
  | checkPage _ ih => exact ⟨Reachable.checkPage ih.1, by rw [ih.2]; exact (congrArg List.length (checkPageWith_txs cfg _ _)).symm⟩
  | signal _ ih => exact ⟨Reachable.signalIncorrect ih.1, ih.2⟩


def exM0 : MState NB := MState.start { s := State.init cfg }
/-- non-vacuity: start on the empty file, admit a root, reject a child with a missing prev, fail a commit, re-add the root -/
example : (MState.add cfg exM0 exRoot {}).1.metric = 1 ∧
    (MState.add cfg (MState.add cfg exM0 exRoot {}).1 exRoot {}).1.metric = 1 ∧
    (MState.add cfg exM0 exChild {}).1.metric = 0 ∧
    (MState.add cfg exM0 exRoot { commitFails := true }).1.metric = 0 := by decide

/-- calling `Start` a second time on the same object counts the stored transactions twice (witness) — the node calls it
    once per state object -/
example : (MState.start (MState.add cfg exM0 exRoot {}).1).metric = 2 := by decide

end Nuts.C08.Props
