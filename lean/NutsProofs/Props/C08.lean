/-
  C08 — DAG digests, indexes, head and counters equal what the stored set implies.
  Property theorems over NutsModel/C08 (tree.go, xor.go, iblt.go, treestore.go, dag.go, state.go, consistency.go).
-/
import NutsModel.C08.Spec
import NutsModel.Facts.C08
import NutsProofs.Lemmas.C08Tree
import NutsProofs.Lemmas.C08Data

namespace Nuts.C08.Props
open Nuts.C08

variable {R G : Type}

/-! ### regenerated facts the model relies on -/

theorem fact_page_size : Facts.C08.pageSize = 512 ∧ Facts.C08.pageSize % 2 = 0 := by decide
theorem fact_iblt_buckets : Facts.C08.ibltNumBuckets = 1024 ∧ Facts.C08.ibltK = 6 ∧ Facts.C08.bucketBytes = 4 + 8 + 32 := by decide
theorem fact_shelves : Facts.C08.xorShelf = "xorBucket" ∧ Facts.C08.ibltShelf = "ibltBucket" := by decide
/-- `tree.Load` with no leaves resets the tree (the `OnRollback` reload of an empty DAG must discard the trees) -/
theorem fact_load_empty_resets : Facts.C08.loadEmptyResets = true := by decide
/-- the `OnRollback` hook of `state.Add` reloads with a context of its own, not the (possibly cancelled) caller's -/
theorem fact_rollback_reload_context : Facts.C08.rollbackReloadContexts = ["context.Background()"] := by decide
/-- `state.Add` runs under the write lock with a rollback hook -/
theorem fact_add_tx_options :
    "stoabs.OnRollback" ∈ Facts.C08.addTxOptions ∧ "stoabs.WithWriteLock" ∈ Facts.C08.addTxOptions := by decide
/-- the comparisons in tree.go / state.go / dag.go are the ones the model mirrors -/
theorem fact_comparisons :
    Facts.C08.condsZeroTo = ["clock < current.splitLC", "current.right != nil", "next == nil"] ∧
    Facts.C08.condsGetNextNode = ["n.isLeaf()", "clock < n.splitLC", "n.right == nil"] ∧
    Facts.C08.condsUpdatePath = ["for clock >= t.treeSize", "for next != nil"] ∧
    Facts.C08.condsNewBranch = ["stop - start > t.leafSize"] ∧
    Facts.C08.condsXOR = ["reqClock < currentClock", "pageClock < currentClock"] ∧
    Facts.C08.condsIBLT = Facts.C08.condsXOR ∧
    "transaction.Clock() > highestLC || transaction.Clock() == 0" ∈ Facts.C08.condsDagAdd := by decide
/-- `updateState` writes both trees; `loadState` reloads the clock and both trees; `treeStore.write` inserts and persists;
    `checkPage` replaces and persists -/
theorem fact_call_structure :
    Facts.C08.updateStateCalls = ["s.lamportClockHigh.Load", "s.lamportClockHigh.CompareAndSwap", "s.ibltTree.write", "s.xorTree.write"] ∧
    Facts.C08.loadStateCalls = ["s.db.Read", "s.lamportClockHigh.Store", "s.graph.getHighestClockValue", "s.xorTree.read", "s.ibltTree.read"] ∧
    Facts.C08.treeStoreWriteCalls = ["store.mutex.Lock", "store.mutex.Unlock", "store.tree.Insert", "store.writeWithoutLock"] ∧
    Facts.C08.checkPageTreeCalls = ["f.state.xorTree.getZeroTo", "f.state.xorTree.getZeroTo", "f.state.xorTree.tree.Replace", "f.state.xorTree.writeWithoutLock"] := by
  decide

/-! ### the two Data implementations are commutative groups -/

theorem xor_data_lawful : Lawful xorOps := xor_lawful
theorem iblt_data_lawful (n : Nat) : Lawful (ibltOps n) := iblt_lawful n

/-! ### the tree invariant -/

/-- `New` establishes the invariant ("ranges nest, left spine complete, every node's data is the sum of the leaves
    below it") -/
theorem tree_inv_new (o : Ops R G) (ls : Nat) (hls : 0 < ls) : TInv o (Tree.new o ls) := TInv.new o hls

/-- `Insert` (any reference, any clock — including clocks that make the tree grow by `reRoot` and create new branches)
    keeps the invariant, and the sum of the leaves on any set `q` of pages gains the reference exactly when the
    clock's page is in `q`. -/
theorem tree_inv_insert {o : Ops R G} (L : Lawful o) (t : Tree G) (i : TInv o t) (r : R) (clock : Nat) :
    TInv o (t.insert o r clock) ∧ (t.insert o r clock).leafSize = t.leafSize ∧
    ∀ q : Nat → Bool, fsum o t.leafSize q (t.insert o r clock).root.leaves =
      if q (clock / t.leafSize) then o.ins (fsum o t.leafSize q t.root.leaves) r
      else fsum o t.leafSize q t.root.leaves := insert_spec L t i r clock

/-- what `Root()` and `ZeroTo(c)` return, for EVERY `c`, is determined by the leaves: the sum of all leaves, and the
    sum of the leaves on pages up to the page of `c` -/
theorem observables_of_inv {o : Ops R G} (L : Lawful o) (t : Tree G) (i : TInv o t) :
    t.rootData o = fsum o t.leafSize (fun _ => true) t.root.leaves ∧
    ∀ c, (t.zeroTo o c).1 = fsum o t.leafSize (fun p => decide (p ≤ c / t.leafSize)) t.root.leaves :=
  ⟨Tree.root_data L t i, Tree.zeroTo_data L t i⟩

theorem specAll_append_one {o : Ops R G} (l : List (R × Nat)) (rc : R × Nat) :
    specAll o (l ++ [rc]) = o.ins (specAll o l) rc.1 := by
  simp [specAll, List.foldl_append]

/-- **The tree is the fold.** After inserting ANY list of (reference, clock) pairs into a new tree — any clocks, any
    order, crossing any page and tree-growth boundaries — `Root()` is the digest of all references and `ZeroTo(c)`,
    for EVERY `c`, is the digest of the references whose clock lies on a page up to `c`'s page. Generic in the data:
    holds for XOR and for the IBLT. -/
theorem tree_is_fold {o : Ops R G} (L : Lawful o) (ls : Nat) (hls : 0 < ls) (l : List (R × Nat)) :
    let t := l.foldl (fun t rc => t.insert o rc.1 rc.2) (Tree.new o ls)
    TInv o t ∧ t.rootData o = specAll o l ∧ ∀ c, (t.zeroTo o c).1 = specUpTo o ls l c := by
  intro t
  have key : ∀ (l l0 : List (R × Nat)) (t0 : Tree G), TInv o t0 → t0.leafSize = ls →
      (∀ q : Nat → Bool, fsum o ls q t0.root.leaves = specAll o (l0.filter (fun rc => q (rc.2 / ls)))) →
      TInv o (l.foldl (fun t rc => t.insert o rc.1 rc.2) t0) ∧
      (l.foldl (fun t rc => t.insert o rc.1 rc.2) t0).leafSize = ls ∧
      (∀ q : Nat → Bool, fsum o ls q (l.foldl (fun t rc => t.insert o rc.1 rc.2) t0).root.leaves =
        specAll o ((l0 ++ l).filter (fun rc => q (rc.2 / ls)))) := by
    intro l
    induction l with
    | nil => intro l0 t0 i e h; simpa using ⟨i, e, h⟩
    | cons rc l ih =>
      intro l0 t0 i e h
      have s := tree_inv_insert L t0 i rc.1 rc.2
      have := ih (l0 ++ [rc]) (t0.insert o rc.1 rc.2) s.1 (by rw [s.2.1, e]) (by
        intro q
        have := s.2.2 q
        rw [e] at this
        rw [this, h q, List.filter_append]
        by_cases hq : q (rc.2 / ls) = true
        · simp [hq, specAll_append_one]
        · simp [hq])
      simpa [List.append_assoc] using this
  have base : ∀ q : Nat → Bool, fsum o ls q (Tree.new o ls).root.leaves = specAll o (([] : List (R × Nat)).filter (fun rc => q (rc.2 / ls))) := by
    intro q
    simp only [Tree.new, Node.leaves, fsum, List.filter_nil, specAll, List.foldl_nil]
    by_cases hq : q (ls / 2 / ls) = true <;> simp [hq, gsum, L.add_zero]
  have r := key l [] (Tree.new o ls) (TInv.new o hls) rfl base
  simp only [List.nil_append] at r
  obtain ⟨i, e, h⟩ := r
  have ob := observables_of_inv L t i
  have e' : t.leafSize = ls := e
  refine ⟨i, ?_, fun c => ?_⟩
  · rw [ob.1, e', h, List.filter_eq_self.mpr (fun _ _ => rfl)]
  · rw [ob.2 c, e', h]; rfl

/-- instantiated for the XOR digest -/
theorem xor_tree_is_fold (ls : Nat) (hls : 0 < ls) (l : List (Ref × Nat)) (c : Nat) :
    ((l.foldl (fun t rc => t.insert xorOps rc.1 rc.2) (Tree.new xorOps ls)).zeroTo xorOps c).1 = specUpTo xorOps ls l c :=
  (tree_is_fold xor_lawful ls hls l).2.2 c

/-- instantiated for the IBLT (bucket indices and key hashes of each reference are arbitrary data) -/
theorem iblt_tree_is_fold (n ls : Nat) (hls : 0 < ls) (l : List (IKey × Nat)) (c : Nat) :
    ((l.foldl (fun t rc => t.insert (ibltOps n) rc.1 rc.2) (Tree.new (ibltOps n) ls)).zeroTo (ibltOps n) c).1 =
      specUpTo (ibltOps n) ls l c :=
  (tree_is_fold (iblt_lawful n) ls hls l).2.2 c

/-- non-vacuity: a concrete tree of leaf size 2 that grew twice (clocks 0, 5, 3) -/
example : let t := [((1 : BitVec 256), 0), (2, 5), (4, 3)].foldl (fun t rc => t.insert xorOps rc.1 rc.2) (Tree.new xorOps 2)
    t.treeSize = 8 ∧ (t.zeroTo xorOps 1).1 = 1 ∧ (t.zeroTo xorOps 3).1 = 5 ∧ (t.zeroTo xorOps 4).1 = 7 ∧ t.rootData xorOps = 7 := by
  decide

/-! ### the `uint32` bound -/

/-- `treeSize *= 2` on `uint32` wraps to 0 at 2^31: the loop `for clock >= t.treeSize { t.reRoot() }` would then never
    end. Every statement that ties the `Nat` model to the Go code therefore assumes clocks below 2^31 (a valid DAG
    needs 2^31 chained transactions to get there). -/
theorem reRoot_overflow_witness : reRoot32 (BitVec.ofNat 32 (2 ^ 31)) = 0 ∧
    ∀ k : Nat, k < 31 → reRoot32 (BitVec.ofNat 32 (2 ^ k)) = BitVec.ofNat 32 (2 ^ (k + 1)) := by
  refine ⟨by decide, ?_⟩
  intro k hk
  have : k ∈ List.range 31 := List.mem_range.mpr hk
  revert k
  decide

end Nuts.C08.Props
