/-
  C14 (deepening round 2026-09-28) — the operator's view (NutsModel.C14.Api): the REST listing shows every job that
  spent its budget (end-to-end with completed_or_visible), and the clean-up action removes only what it is asked to,
  records what it removes as completed and never calls a receiver.
-/
import NutsModel.C14.Api
import NutsModel.Facts.C14
import NutsProofs.Props.C14

namespace Nuts.C14.Props
open Nuts.C14

theorem failedRows_mem (c : Cfg) (σ : St) (s r : Nat) (j : Job) (hr : r ∈ failedEvents c σ s) (hj : σ.shelf s r = some j) :
    ({ ref := r, type := j.type, retries := j.retries, err := j.err } : ApiEvent) ∈ failedRows c σ s := by
  unfold failedRows
  exact List.mem_filterMap.mpr ⟨r, hr, by simp [hj]⟩

/-- every row of GetFailedEvents is a job on the shelf at/over the threshold (nothing invented) -/
theorem failedRows_sound (c : Cfg) (σ : St) (s : Nat) (e : ApiEvent) (h : e ∈ failedRows c σ s) :
    ∃ j, σ.shelf s e.ref = some j ∧ c.failedThreshold ≤ j.retries ∧ e.type = j.type ∧ e.retries = j.retries ∧ e.err = j.err := by
  unfold failedRows at h
  obtain ⟨r, hr, hm⟩ := List.mem_filterMap.mp h
  unfold failedEvents at hr
  obtain ⟨_, hf⟩ := List.mem_filter.mp hr
  cases hj : σ.shelf s r with
  | none => simp [hj] at hm
  | some j =>
    simp only [hj, Option.map_some, Option.some.injEq] at hm
    subst hm
    simp only [hj, decide_eq_true_eq] at hf
    exact ⟨j, hj, hf, rfl, rfl, rfl⟩

theorem listEvents_mem (c : Cfg) (names : Nat → String) (σ : St) (readFail : Nat → Bool) (order : List Nat)
    (l : List (String × List ApiEvent)) (h : listEvents c names σ readFail order = .ok l) (s : Nat) (hs : s ∈ order) :
    (names s, failedRows c σ s) ∈ l := by
  induction order generalizing l with
  | nil => cases hs
  | cons a rest ih =>
    unfold listEvents at h
    split at h
    · cases h
    · split at h
      · next l' hl' =>
        cases h
        rcases List.mem_cons.mp hs with rfl | hs
        · exact List.mem_cons_self
        · exact List.mem_cons_of_mem _ (ih l' hl' hs)
      · cases h
      · cases h

/-- **rest_lists_every_spent_job**: whenever ListEvents answers, every job at/over the failed threshold of every notifier
    that `Subscribers()` returned is in the answer under its subscriber's name, with its retries, type and error -/
theorem rest_lists_every_spent_job (c : Cfg) (names : Nat → String) (σ : St) (readFail : Nat → Bool) (order : List Nat)
    (l : List (String × List ApiEvent)) (h : listEvents c names σ readFail order = .ok l)
    (s r : Nat) (j : Job) (hs : s ∈ order) (hr : r < c.nRefs) (hj : σ.shelf s r = some j) (hb : c.failedThreshold ≤ j.retries) :
    ∃ rows, (names s, rows) ∈ l ∧ ({ ref := r, type := j.type, retries := j.retries, err := j.err } : ApiEvent) ∈ rows := by
  refine ⟨failedRows c σ s, listEvents_mem c names σ readFail order l h s hs, failedRows_mem c σ s r j ?_ hj⟩
  unfold failedEvents
  exact List.mem_filter.mpr ⟨List.mem_range.mpr hr, by simp [hj, hb]⟩

/-- **undelivered_visible_at_rest_api** (end to end: admission → notifier → REST): after ANY history, a (re)start and any calm
    suffix, at rest, every admitted event selected by a typed persistent subscriber is completed, or the operator sees it in
    the ListEvents answer under that subscriber's name -/
theorem undelivered_visible_at_rest_api (c : Cfg) (hthr : c.failedThreshold ≤ c.maxRetries) (ops0 : List Op) (order : List Nat) (ops : List Op)
    (hctx : NoCtx (run c init ops0)) (hcalm : CalmFrom c (run c init ops0)) (hord : ∀ s, s < c.nSubs → s ∈ order)
    (hops : ∀ op, op ∈ ops → CalmOp c op)
    (hrest : (run c (restart c (run c init ops0) order) ops).running = [] ∧ (run c (restart c (run c init ops0) order) ops).pending = [])
    (r : Nat) (ty : EvType) (s : Nat) (t : EvType)
    (hadm : (r, ty) ∈ (run c (restart c (run c init ops0) order) ops).admitted) (hs : s < c.nSubs) (hsel : c.sel s r ty = true)
    (htyp : Typed c s t)
    (names : Nat → String) (subscribers : List Nat) (hsub : s ∈ subscribers) (l : List (String × List ApiEvent))
    (hl : listEvents c names (run c (restart c (run c init ops0) order) ops) (fun _ => false) subscribers = .ok l) :
    completedIn (run c (restart c (run c init ops0) order) ops).ledger s r = true ∨
    ∃ rows e, (names s, rows) ∈ l ∧ e ∈ rows ∧ e.ref = r := by
  rcases completed_or_visible c hthr ops0 order ops hctx hcalm hord hops hrest r ty s t hadm hs hsel htyp with hc | hv
  · exact .inl hc
  · right
    have hv' := hv
    unfold failedEvents at hv'
    obtain ⟨_, hf⟩ := List.mem_filter.mp hv'
    cases hj : (run c (restart c (run c init ops0) order) ops).shelf s r with
    | none => simp [hj] at hf
    | some j =>
      exact ⟨_, { ref := r, type := j.type, retries := j.retries, err := j.err },
        listEvents_mem c names _ _ subscribers l hl s hsub, failedRows_mem c _ s r j hv hj, rfl⟩

/-- with no read error ListEvents always answers, one entry per subscriber, in `Subscribers()` order -/
theorem listEvents_ok (c : Cfg) (names : Nat → String) (σ : St) (order : List Nat) :
    listEvents c names σ (fun _ => false) order = .ok (order.map fun s => (names s, failedRows c σ s)) := by
  induction order with
  | nil => rfl
  | cons a rest ih => unfold listEvents; simp [ih]

example : listEvents (wCfg true neverDone) (fun s => s!"sub{s}") (run (wCfg true neverDone) init exhaustOps) (fun _ => false) [1, 0] =
    .ok [("sub1", [{ ref := 0, type := .tx, retries := 20, err := .incomplete }]), ("sub0", [])] := by decide

/-! ### CleanupSubscriberEvents -/

/-- what the clean-up may change about a state: only shelf entries, and `.fin` records in the ledger -/
structure CleanRel (σ σ' : St) : Prop where
  dag : σ'.dag = σ.dag
  running : σ'.running = σ.running
  pending : σ'.pending = σ.pending
  admitted : σ'.admitted = σ.admitted
  calls : ∀ s r, attemptNo σ' s r = attemptNo σ s r
  shelf : ∀ s r, σ'.shelf s r = σ.shelf s r ∨ (σ'.shelf s r = none ∧ Entry.fin s r ∈ σ'.ledger)
  ledgerMono : ∀ e, e ∈ σ.ledger → e ∈ σ'.ledger

theorem CleanRel.refl (σ : St) : CleanRel σ σ := ⟨rfl, rfl, rfl, rfl, fun _ _ => rfl, fun _ _ => .inl rfl, fun _ h => h⟩

theorem CleanRel.trans {a b d : St} (h1 : CleanRel a b) (h2 : CleanRel b d) : CleanRel a d := by
  refine ⟨h2.dag.trans h1.dag, h2.running.trans h1.running, h2.pending.trans h1.pending, h2.admitted.trans h1.admitted,
    fun s r => (h2.calls s r).trans (h1.calls s r), ?_, fun e he => h2.ledgerMono e (h1.ledgerMono e he)⟩
  intro s r
  rcases h2.shelf s r with e2 | ⟨e2, f2⟩
  · rcases h1.shelf s r with e1 | ⟨e1, f1⟩
    · exact .inl (e2.trans e1)
    · exact .inr ⟨e2.trans e1, h2.ledgerMono _ f1⟩
  · exact .inr ⟨e2, f2⟩

theorem finishedExt_clean (σ : St) (s r : Nat) : CleanRel σ (finishedExt σ s r false) := by
  unfold finishedExt
  simp only [Bool.false_eq_true, if_false]
  split
  · exact CleanRel.refl σ
  · refine ⟨rfl, rfl, rfl, rfl, ?_, ?_, ?_⟩
    · intro s' r'
      simp only [attemptNo, log_ledger, setJob_ledger, List.filter_cons, Entry.isCallOf, Bool.false_eq_true, if_false]
    · intro s' r'
      simp only [log_shelf, setJob_shelf, log_ledger, setJob_ledger]
      by_cases h : s' = s ∧ r' = r
      · obtain ⟨rfl, rfl⟩ := h; right; simp
      · left; simp [h]
    · intro e he; simp only [log_ledger, setJob_ledger]; exact List.mem_cons_of_mem _ he

theorem cleanupEvents_clean (pre : JErr → Bool) (failAt : Option Nat) (s : Nat) (evs : List ApiEvent) (σ : St) :
    CleanRel σ (cleanupEvents pre failAt s evs σ).1 := by
  induction evs generalizing σ with
  | nil => exact CleanRel.refl σ
  | cons e rest ih =>
    unfold cleanupEvents
    split
    · split
      · exact CleanRel.refl σ
      · exact (finishedExt_clean σ s e.ref).trans (ih _)
    · exact ih σ

theorem cleanup_clean (c : Cfg) (names : Nat → String) (target : String) (pre : JErr → Bool) (readFail : Nat → Bool) (failAt : Option Nat)
    (order : List Nat) (σ : St) : CleanRel σ (cleanup c names target pre readFail failAt order σ).1 := by
  induction order generalizing σ with
  | nil => exact CleanRel.refl σ
  | cons s rest ih =>
    unfold cleanup
    split
    · split
      · exact CleanRel.refl σ
      · have h := cleanupEvents_clean pre failAt s (failedRows c σ s) σ
        split
        · next σ' heq => rw [heq] at h; exact h
        · next σ' heq => rw [heq] at h; exact h.trans (ih σ')
    · exact ih σ

/-- **cleanup_calls_nobody_and_records_what_it_removes**: for every target name, prefix, fault and `Subscribers()` order the
    operator's clean-up never calls a receiver, starts or stops no retry loop, admits nothing; every job it removes leaves a
    completion record (`Entry.fin`) — so by no_call_after_done the subscriber is not called for it again — and every other
    job is untouched -/
theorem cleanup_calls_nobody_and_records_what_it_removes (c : Cfg) (names : Nat → String) (target : String) (pre : JErr → Bool)
    (readFail : Nat → Bool) (failAt : Option Nat) (order : List Nat) (σ : St) :
    let σ' := (cleanup c names target pre readFail failAt order σ).1
    (∀ s r, attemptNo σ' s r = attemptNo σ s r) ∧ σ'.running = σ.running ∧ σ'.pending = σ.pending ∧ σ'.admitted = σ.admitted ∧
    σ'.dag = σ.dag ∧ ∀ s r, σ'.shelf s r = σ.shelf s r ∨ (σ'.shelf s r = none ∧ Entry.fin s r ∈ σ'.ledger) := by
  have h := cleanup_clean c names target pre readFail failAt order σ
  exact ⟨h.calls, h.running, h.pending, h.admitted, h.dag, h.shelf⟩

/-! the frame: which jobs the clean-up can touch at all -/

theorem finishedExt_shelf_other (σ : St) (s r s' r' : Nat) (h : ¬ (s' = s ∧ r' = r)) : (finishedExt σ s r false).shelf s' r' = σ.shelf s' r' := by
  unfold finishedExt
  simp only [Bool.false_eq_true, if_false]
  split
  · rfl
  · simp [log_shelf, setJob_shelf, h]

theorem cleanupEvents_frame (pre : JErr → Bool) (failAt : Option Nat) (s : Nat) (evs : List ApiEvent) (σ : St) (s' r' : Nat)
    (h : s' ≠ s ∨ ∀ e, e ∈ evs → e.ref = r' → pre e.err = false) :
    (cleanupEvents pre failAt s evs σ).1.shelf s' r' = σ.shelf s' r' := by
  induction evs generalizing σ with
  | nil => rfl
  | cons e rest ih =>
    have hrest : s' ≠ s ∨ ∀ e', e' ∈ rest → e'.ref = r' → pre e'.err = false := by
      rcases h with h | h
      · exact .inl h
      · exact .inr (fun e' he' => h e' (List.mem_cons_of_mem _ he'))
    unfold cleanupEvents
    split
    · next hp =>
      split
      · rfl
      · rw [ih _ hrest]
        apply finishedExt_shelf_other
        intro hh
        rcases h with h | h
        · exact h hh.1
        · have := h e List.mem_cons_self hh.2.symm
          rw [hp] at this; cases this
    · exact ih σ hrest

/-- **cleanup_touches_only_named_failed_matching**: a job survives the clean-up unchanged if its subscriber is not the named
    one, or it is below the failed threshold, or its error does not start with the prefix: undelivered events of other
    subscribers / with other errors / still being retried do not vanish -/
theorem cleanup_touches_only_named_failed_matching (c : Cfg) (names : Nat → String) (target : String) (pre : JErr → Bool)
    (readFail : Nat → Bool) (failAt : Option Nat) (order : List Nat) (σ : St) (s' r' : Nat) (j : Job) (hj : σ.shelf s' r' = some j)
    (h : names s' ≠ target ∨ j.retries < c.failedThreshold ∨ pre j.err = false) :
    (cleanup c names target pre readFail failAt order σ).1.shelf s' r' = some j := by
  induction order generalizing σ with
  | nil => exact hj
  | cons s rest ih =>
    unfold cleanup
    split
    · next hname =>
      split
      · exact hj
      · have hfr : (cleanupEvents pre failAt s (failedRows c σ s) σ).1.shelf s' r' = σ.shelf s' r' := by
          apply cleanupEvents_frame
          by_cases hs : s' = s
          · right
            subst hs
            intro e he hre
            obtain ⟨j', hj', hthr, _, _, herr⟩ := failedRows_sound c σ s' e he
            rw [hre, hj] at hj'; cases hj'
            rcases h with h | h | h
            · exact absurd (by simpa using hname) h
            · omega
            · rw [herr]; exact h
          · exact .inl hs
        split
        · next σ' heq => rw [heq] at hfr; simp only at hfr ⊢; rw [hfr]; exact hj
        · next σ' heq => rw [heq] at hfr; simp only at hfr; exact ih σ' (hfr.trans hj)
    · exact ih σ hj

example : (cleanup (wCfg true neverDone) (fun s => s!"sub{s}") "sub1" (fun e => e == .incomplete) (fun _ => false) none [0, 1, 2]
    (run (wCfg true neverDone) init exhaustOps)).1.shelf 1 0 = none := by decide
example : (cleanup (wCfg true neverDone) (fun s => s!"sub{s}") "sub1" (fun e => e == .generic) (fun _ => false) none [0, 1, 2]
    (run (wCfg true neverDone) init exhaustOps)).1.shelf 1 0 = some { type := .tx, retries := 20, err := .incomplete } := by decide

/-- api/v1 ListEvents as modelled by `listEvents`: one entry per notifier of Subscribers() (appended unconditionally), one
    row per failed event (appended unconditionally), the first GetFailedEvents error aborts; the row carries name, hash,
    retries, type, error -/
theorem fact_list_events :
    Facts.C14.listEventsReturns = ["range a.Service.Subscribers() && err != nil => return nil, err", "return response, nil"] ∧
    Facts.C14.listEventsAppends =
      ["range a.Service.Subscribers() > range events > eventSubscriber.Events = append(eventSubscriber.Events, Event{…})",
       "range a.Service.Subscribers() > response = append(response, eventSubscriber)"] ∧
    Facts.C14.listEventsFields =
      ["EventSubscriber.Name: notifier.Name()", "Event.Error: &eventError", "Event.Hash: event.Hash.String()", "Event.Retries: event.Retries",
       "Event.LatestNotificationAttempt: &eventLatest", "Event.Transaction: event.Transaction.Ref().String()", "Event.Type: &eventType"] :=
  ⟨rfl, rfl, rfl⟩

end Nuts.C14.Props
