/-
  C04 — "signed by an authorised key": the strength rule of authorized_keys.go on the BYTES of the key blob.
  ONLY property theorems (+ non-vacuity examples + obligations on the regenerated facts).
-/
import NutsModel.C04.SshKey
import NutsModel.Facts.C04
import NutsProofs.Props.C04

namespace Nuts.C04.Props
open Nuts.C04

/-- the RSA case of keyIsSecure measures the modulus with N.BitLen() (regenerated: the model and the driver run on this value) -/
theorem fact_rsa_measure_is_bit_length : Facts.C04.rsaMeasure = .bitLen := by decide

theorem bitsOfByte_spec (b : Nat) (h : b < 256) (h0 : 0 < b) : 2 ^ (bitsOfByte b - 1) ≤ b ∧ b < 2 ^ bitsOfByte b ∧ 1 ≤ bitsOfByte b := by
  unfold bitsOfByte
  repeat' split
  all_goals (refine ⟨?_, ?_, ?_⟩ <;> simp <;> omega)

theorem foldl_acc (bs : Bytes) (a : Nat) :
    bs.foldl (fun a b => a * 256 + b.toNat) a = a * 256 ^ bs.length + bs.foldl (fun a b => a * 256 + b.toNat) 0 := by
  induction bs generalizing a with
  | nil => simp
  | cons b r ih =>
    simp only [List.foldl_cons, List.length_cons]
    rw [ih (a * 256 + b.toNat), ih (0 * 256 + b.toNat)]
    rw [Nat.pow_succ, Nat.add_mul, Nat.zero_mul, Nat.zero_add, Nat.mul_assoc, Nat.mul_comm 256, Nat.add_assoc]

theorem natOfBytes_cons (b : UInt8) (r : Bytes) : natOfBytes (b :: r) = b.toNat * 256 ^ r.length + natOfBytes r := by
  unfold natOfBytes
  simp only [List.foldl_cons]
  rw [foldl_acc]; simp

theorem natOfBytes_lt (bs : Bytes) : natOfBytes bs < 256 ^ bs.length := by
  induction bs with
  | nil => simp [natOfBytes]
  | cons b r ih =>
    rw [natOfBytes_cons, List.length_cons, Nat.pow_succ]
    have hb : b.toNat < 256 := UInt8.toNat_lt b
    have : b.toNat * 256 ^ r.length + 256 ^ r.length ≤ 256 * 256 ^ r.length := by
      have := Nat.mul_le_mul_right (256 ^ r.length) (show b.toNat + 1 ≤ 256 by omega)
      rw [Nat.add_mul, Nat.one_mul] at this; exact this
    rw [Nat.mul_comm (256 ^ r.length) 256]; omega

/-- `BitLen` of a byte string is the position of the highest set bit of its VALUE, for every byte string (leading zeros or not) -/
theorem bitLen_spec (bs : Bytes) :
    natOfBytes bs < 2 ^ bitLen bs ∧ (0 < bitLen bs → 2 ^ (bitLen bs - 1) ≤ natOfBytes bs) := by
  induction bs with
  | nil => simp [natOfBytes, bitLen]
  | cons b r ih =>
    rw [natOfBytes_cons]
    unfold bitLen
    by_cases hb : b = 0
    · subst hb; simpa using ih
    · simp only [hb, if_false]
      have hbn : 0 < b.toNat := by
        rcases Nat.eq_zero_or_pos b.toNat with h | h
        · exact absurd (UInt8.toNat_inj.mp (by simpa using h)) hb
        · exact h
      have hs := bitsOfByte_spec b.toNat (UInt8.toNat_lt b) hbn
      have hr := natOfBytes_lt r
      have p256 : (256 : Nat) ^ r.length = 2 ^ (8 * r.length) := by rw [Nat.pow_mul]
      rw [p256] at hr ⊢
      have e1 : 2 ^ (8 * r.length + bitsOfByte b.toNat) = 2 ^ bitsOfByte b.toNat * 2 ^ (8 * r.length) := by
        rw [Nat.pow_add, Nat.mul_comm]
      have hk := hs.2.2
      have e2 : 2 ^ (8 * r.length + bitsOfByte b.toNat - 1) = 2 ^ (bitsOfByte b.toNat - 1) * 2 ^ (8 * r.length) := by
        rw [← Nat.pow_add]; congr 1; omega
      constructor
      · rw [e1]
        have := Nat.mul_le_mul_right (2 ^ (8 * r.length)) (show b.toNat + 1 ≤ 2 ^ bitsOfByte b.toNat from hs.2.1)
        rw [Nat.add_mul, Nat.one_mul] at this; omega
      · intro _
        rw [e2]
        have := Nat.mul_le_mul_right (2 ^ (8 * r.length)) hs.1
        omega

/-- the strength rule is a rule about the modulus as a NUMBER: `BitLen ≥ k+1` iff the value is at least 2^k -/
theorem bitLen_ge_iff (bs : Bytes) (k : Nat) : k + 1 ≤ bitLen bs ↔ 2 ^ k ≤ natOfBytes bs := by
  have hs := bitLen_spec bs
  constructor
  · intro h
    exact Nat.le_trans (Nat.pow_le_pow_right (by omega) (by omega)) (hs.2 (by omega))
  · intro h
    rcases Nat.lt_or_ge (bitLen bs) (k + 1) with hlt | hge
    · have : 2 ^ bitLen bs ≤ 2 ^ k := Nat.pow_le_pow_right (by omega) (by omega)
      omega
    · exact hge

/-- whole-byte rounding never under-states and over-states by less than 8 bits -/
theorem sizeBits_bounds (bs : Bytes) : bitLen bs ≤ sizeBits bs ∧ sizeBits bs < bitLen bs + 8 := by
  unfold sizeBits; omega

/-- every blob the rule of the source accepts carries an ECDSA key, an Ed25519 key, or an "ssh-rsa" modulus n ≥ 2^2047 — for
    ALL byte strings -/
theorem secure_blob_kinds (blob : Bytes)
    (h : blobIsSecure Facts.C04.rsaMeasure Facts.C04.minimumRSAKeySize blob = true) :
    kindOfBlob Facts.C04.rsaMeasure blob = .ecdsa ∨ kindOfBlob Facts.C04.rsaMeasure blob = .ed25519 ∨
      ∃ n, rsaModulus blob = some n ∧ 2 ^ 2047 ≤ natOfBytes n := by
  rw [fact_rsa_measure_is_bit_length, fact_authorized_keys.1] at *
  unfold blobIsSecure at h
  unfold kindOfBlob at h ⊢
  unfold rsaModulus
  cases hs : sshString blob with
  | none => simp [hs, keyIsSecure] at h
  | some p =>
    obtain ⟨algo, r⟩ := p
    simp only [hs] at h ⊢
    by_cases ha : algo = algoName "ssh-rsa"
    · simp only [ha, if_true] at h ⊢
      cases hm : rsaModulusOf r with
      | none => simp [hm, keyIsSecure] at h
      | some n =>
        simp only [hm] at h ⊢
        right; right
        refine ⟨n, rfl, ?_⟩
        unfold rsaKind at h
        cases n with
        | nil => simp [keyIsSecure] at h
        | cons t rest =>
          simp only at h
          split at h
          · simp [keyIsSecure] at h
          · simp only [keyIsSecure, measure] at h
            exact (bitLen_ge_iff _ 2047).mp (of_decide_eq_true h)
    · simp only [ha, if_false] at h ⊢
      split
      · right; left; rfl
      · split
        · left; rfl
        · next h1 h2 => simp [h1, h2, keyIsSecure] at h

/-- and conversely: an "ssh-rsa" blob with a non-negative modulus is accepted EXACTLY when the modulus is at least 2^2047 -/
theorem rsa_blob_secure_iff (blob n : Bytes) (hm : rsaModulus blob = some n) (hpos : ∀ t ∈ n.head?, t.toNat < 128) :
    blobIsSecure Facts.C04.rsaMeasure Facts.C04.minimumRSAKeySize blob = true ↔ 2 ^ 2047 ≤ natOfBytes n := by
  rw [fact_rsa_measure_is_bit_length, fact_authorized_keys.1]
  unfold rsaModulus at hm
  unfold blobIsSecure kindOfBlob
  cases hs : sshString blob with
  | none => simp [hs] at hm
  | some p =>
    obtain ⟨algo, r⟩ := p
    simp only [hs] at hm ⊢
    by_cases ha : algo = algoName "ssh-rsa"
    · simp only [ha, if_true] at hm ⊢
      simp only [hm]
      unfold rsaKind
      cases n with
      | nil =>
        have hp : 0 < 2 ^ 2047 := Nat.pow_pos (by omega)
        simp only [keyIsSecure, natOfBytes, List.foldl_nil]
        constructor
        · intro h; have := of_decide_eq_true h; omega
        · intro h; omega
      | cons t rest =>
        have ht : ¬ t.toNat ≥ 128 := by have := hpos t (by simp); omega
        simp only [ht, if_false, keyIsSecure, measure, decide_eq_true_eq]
        exact bitLen_ge_iff _ 2047
    · simp [ha] at hm

/-- a 2041-bit modulus: 0x01 followed by 255 zero bytes -/
def weak2041 : Bytes := 1 :: List.replicate 255 0

theorem bitLen_one_zeros (n : Nat) : bitLen (1 :: List.replicate n 0) = 8 * n + 1 := by
  simp [bitLen, bitsOfByte]

/-- the whole-byte rule (`Size()*8`, seeded mutation C04-w8m2) accepts a modulus BELOW 2^2047, the source's rule does not -/
theorem size_rule_admits_weak_modulus :
    natOfBytes weak2041 < 2 ^ 2047 ∧ keyIsSecure 2048 (rsaKind .sizeTimes8 weak2041) = true ∧
      keyIsSecure 2048 (rsaKind .bitLen weak2041) = false := by
  have hb : bitLen weak2041 = 2041 := bitLen_one_zeros 255
  have hk : ∀ m, rsaKind m weak2041 = .rsa (measure m weak2041) := fun m => by unfold rsaKind weak2041; rfl
  refine ⟨?_, ?_, ?_⟩
  · rcases Nat.lt_or_ge (natOfBytes weak2041) (2 ^ 2047) with h | h
    · exact h
    · have := (bitLen_ge_iff weak2041 2047).mpr h; omega
  · simp [hk, measure, sizeBits, keyIsSecure, hb]
  · simp [hk, measure, keyIsSecure, hb]

/-- END TO END over the file: every authorised key of a file whose entries are given as key BLOBS comes from a line that is
    not commented out, has a user name, and carries an ECDSA / Ed25519 key or an RSA modulus of at least 2^2047 -/
theorem authorized_blob_keys_sound (ls : List BlobLine) (ks : List AuthKey) (k : AuthKey)
    (hs : authorizedKeysOfBlobs Facts.C04.rsaMeasure Facts.C04.minimumRSAKeySize ls = some ks) (h : k ∈ ks) :
    ∃ l ∈ ls, preprocess l.raw ≠ [] ∧ k.comment ≠ "" ∧ ∃ blob, l.parsed = some (blob, k.comment) ∧
      (kindOfBlob Facts.C04.rsaMeasure blob = .ecdsa ∨ kindOfBlob Facts.C04.rsaMeasure blob = .ed25519 ∨
        ∃ n, rsaModulus blob = some n ∧ 2 ^ 2047 ≤ natOfBytes n) := by
  unfold authorizedKeysOfBlobs at hs
  obtain ⟨kl, hkl, hpre, hc, kind, hv, hkind⟩ := authorized_keys_sound _ ks k hs h
  obtain ⟨l, hl, rfl⟩ := List.mem_map.mp hkl
  refine ⟨l, hl, hpre, hc, ?_⟩
  unfold BlobLine.toKeyLine at hv
  cases hp : l.parsed with
  | none => simp [hp] at hv
  | some p =>
    obtain ⟨blob, c⟩ := p
    simp only [hp, SshVerdict.key.injEq] at hv
    obtain ⟨hk1, hk2⟩ := hv
    refine ⟨blob, by rw [hk2], ?_⟩
    apply secure_blob_kinds
    unfold blobIsSecure
    rw [hk1, fact_authorized_keys.1]
    rcases hkind with h1 | h1 | ⟨bits, h1, h2⟩ <;> subst h1 <;> simp [keyIsSecure]
    exact h2

/-- non-vacuity: a file with one Ed25519 entry -/
example : authorizedKeysOfBlobs .bitLen 2048
    [{ raw := "ssh-ed25519 AAAA alice".toList, parsed := some (encString (algoName "ssh-ed25519") ++ encString [1, 2, 3], "alice") }]
    = some [{ comment := "alice" }] := by decide

end Nuts.C04.Props
