/-
  C01 — Credentials/presentations verify iff authentic, untampered, current, unrevoked.
  Property theorems over NutsModel.C01.Verifier.  Level: proof of the decision logic; tamper-evidence is CONDITIONAL on the
  canonicalisation contract and on unforgeability (hypotheses of the theorems, never axioms).
-/
import NutsProofs.Lemmas.C01
import NutsModel.Facts.C01
namespace Nuts.C01.Props
open Nuts.C01

/-! ## 1. the accept set is the conjunction of the checks, whatever their order -/

/-- `Verify` accepts exactly when every one of its checks passes (`VcAccept` spells the conjunction out), and no
    re-ordering of the checks changes the accept set: no order lets a defective document through. -/
theorem check_order_irrelevant_for_accept (cfg : Cfg) (P : Crypto) (E : Env) (au cs : Bool) (at_ : Option Time) (c : Cred) :
    (verify cfg P E au cs at_ c = .ok () ↔ VcAccept cfg P E au cs at_ c) ∧
    (verify cfg P E au cs at_ c = .ok () ↔ ∀ chk ∈ vcChecks cfg P E au cs at_ c, chk.run c = .pass) ∧
    (∀ l', (vcChecks cfg P E au cs at_ c).Perm l' → (runChecks l' c = .ok () ↔ verify cfg P E au cs at_ c = .ok ())) := by
  refine ⟨verify_ok_iff, runChecks_ok_iff _ _, ?_⟩
  intro l' hp
  exact (runChecks_perm hp c).symm

/-! ## 2. valid only if … -/

/-- A credential reported valid (signature checked) is signed by a key that is listed under the proof's key id among the
    ASSERTION methods of the DID document the key id's DID resolves to AT THE VALIDATION TIME, the key id belongs to the
    claimed issuer (whose document resolves, not deactivated, at that time), the validation time lies in the credential's
    window (± maxSkew) and the proof's / token's own window, the credential is not revoked (network revocation and status
    list), and — when trust is required — the issuer is trusted for every type other than `VerifiableCredential`. -/
theorem valid_only_if (cfg : Cfg) (P : Crypto) (E : Env) (au : Bool) (at_ : Option Time) (c : Cred)
    (h : verify cfg P E au true at_ c = .ok ()) :
    (∃ d, E.parseDID c.issuer = some d ∧ (E.resolve at_ d).isSome = true) ∧
    (match c.format with
      | .ld => ∃ p k, c.proof = .one p ∧ beforeHash p.vm = c.issuer ∧ AuthorisedAt E at_ p.vm k ∧
          P.sigOK k (tbs P p (P.canon c.stripProof)) p.jws = true ∧
          (p.created ≤ atOf E at_ + cfg.maxSkew ∧ ∀ e, p.expires = some e → atOf E at_ ≤ e + cfg.maxSkew)
      | .jwt => ∃ j k, c.jwt = some j ∧ (j.kid = "" ∨ beforeHash j.kid = c.issuer) ∧
          AuthorisedAt E at_ (jwtKeyID j.kid c.issuer) k ∧
          (cfg.supportedAlgs.contains j.alg = true ∧ algorithmFitsKey j.alg (P.keyKind k) = true) ∧
          P.sigOK k (P.jwtInput c.raw) j.sig = true ∧ jwtTimeOK j (atOf E at_) = true
      | .other => False) ∧
    (c.issued ≤ atOf E at_ + cfg.maxSkew ∧ ∀ e, c.expires = some e → atOf E at_ - cfg.maxSkew ≤ e) ∧
    (∀ id, c.id = some id → (E.storeFails = false ∧ E.revoked id = false)) ∧ statusVerdict E c ≠ .revoked ∧
    (au = false → ∀ t ∈ c.types, t ≠ vcType → E.trusted t c.issuer = true) := by
  obtain ⟨_, _, hrev, hst, htr, hwin, hsig⟩ := verify_ok_iff.mp h
  obtain ⟨hiss, hsv⟩ := hsig rfl
  refine ⟨hiss, ?_, hwin, hrev, hst, ?_⟩
  · unfold SigValid at hsv
    cases hf : c.format with
    | ld =>
      simp only [hf] at hsv
      obtain ⟨_, _, p, k, hp, _, hb, ha, _, hs, hv⟩ := hsv
      exact ⟨p, k, hp, hb, ha, hs, (proofValidAt_iff cfg p _).mp hv⟩
    | jwt =>
      simp only [hf] at hsv
      obtain ⟨j, k, hj, hk, ha, _, halg, hs, ht⟩ := hsv
      exact ⟨j, k, hj, hk, ha, halg, hs, ht⟩
    | other => simp only [hf] at hsv
  · intro hau
    cases htr with
    | inl h => rw [hau] at h; cases h
    | inr h => exact h

/-- with go-did's parser contract (the DID of a key id `<did>#fragment` is `<did>`), the key of a linked-data credential
    comes from the claimed ISSUER's own document -/
theorem key_is_from_the_issuers_document (cfg : Cfg) (P : Crypto) (E : Env) (au : Bool) (at_ : Option Time) (c : Cred)
    (hURL : ∀ u d, E.parseDID (beforeHash u) = some d → E.didOfURL u = some d)
    (hfmt : c.format = .ld)
    (h : verify cfg P E au true at_ c = .ok ()) :
    ∃ d doc p k id, E.parseDID c.issuer = some d ∧ E.resolve at_ d = some doc ∧ c.proof = .one p ∧ (id, k) ∈ doc.assertion ∧
      keyIdMatches doc.base id p.vm = true ∧ P.sigOK k (tbs P p (P.canon c.stripProof)) p.jws = true := by
  obtain ⟨⟨d, hd, _⟩, hs, _⟩ := valid_only_if cfg P E au at_ c h
  simp only [hfmt] at hs
  obtain ⟨p, k, hp, hb, ⟨d', doc, id, hd', hr, hm, hk⟩, hsig, _⟩ := hs
  have : E.didOfURL p.vm = some d := hURL p.vm d (by rw [hb]; exact hd)
  rw [this] at hd'
  cases hd'
  exact ⟨d, doc, p, k, id, hd, hr, hp, hm, hk, hsig⟩

/-! ## non-vacuity: a concrete world in which the hypotheses above are met -/

def exCfg : Cfg := { maxSkew := 5000, supportedAlgs := ["ES256"] }
/-- toy crypto: the signature of `m` under key `k` is `k ++ m`; canonical forms are injective on the members that vary below -/
def exP : Crypto :=
  { canon := fun c => c.issuer ++ "|" ++ (c.id.getD "") ++ "|" ++ toString c.issued, canonVP := fun vp => vp.holder.getD "-",
    canonProof := fun p => p.vm ++ "|" ++ toString p.created,
    digest := fun b => b ++ ";", jwtInput := fun r => r, sigOK := fun k m s => s == k ++ m }
def exSign : Key → Bytes → Sig := fun k m => k ++ m
def exE : Env :=
  { now := 0
    resolve := fun _ d => if d == "did:x:i" then some { assertion := [("did:x:i#k", "K1")] } else none
    revoked := fun _ => false, statusList := fun _ => none
    trusted := fun t i => t == "T" && i == "did:x:i"
    parseDID := fun s => if s == "did:x:i" then some s else none
    didOfURL := fun s => if beforeHash s == "did:x:i" then some "did:x:i" else none }
def exProof : Proof := { typ := "JsonWebSignature2020", vm := "did:x:i#k", purpose := "assertionMethod", created := 1000 }
def exU : Cred :=
  { format := .ld, ctx := [vcContextV1], id := some "did:x:i#1", types := ["T", vcType], issuer := "did:x:i", issued := 1000,
    subjects := some [.did "did:x:i"] }
def exC : Cred := { exU with proof := .one { exProof with jws := exSign "K1" (tbs exP exProof (exP.canon exU)) }, nProofs := 1 }
def exJ : Cred :=
  { exU with format := .jwt, raw := "hdr.claims", jwt := some { kid := "did:x:i#k", alg := "ES256", nbf := some 1000, sig := exSign "K1" "hdr.claims" } }
def exVP : Pres :=
  { format := .ld, holder := some "did:x:i", vcs := [exC], nProofs := 1, signerVM := "did:x:i#k",
    proof := .one { exProof with jws := exSign "K1" (tbs exP exProof "did:x:i") } }
def exEmptyVP : Pres :=
  { format := .ld, holder := some "did:x:somebody-else", vcs := [], nProofs := 1, signerVM := "did:x:i#k",
    proof := .one { exProof with jws := exSign "K1" (tbs exP exProof "did:x:somebody-else") } }
def exM0 : Bytes := tbs exP exProof (exP.canon exU)
def exP2 : Crypto := { exP with sigOK := fun k m s => k == "K1" && m == exM0 && s == "S0" }
def exC2 : Cred := { exU with proof := .one { exProof with jws := "S0" }, nProofs := 1 }
def exT : Template := { ctx := [vcContextV1], types := ["T"], issuer := "did:x:i", expires := none, subjects := some [.did "did:x:i"], shapeOK := true, claims := [] }

/-- The relationship that is consulted is not the signer's choice: the verdict of `Verify` does not depend on the proof's
    `proofPurpose` except through the signed bytes — two proofs that differ only in the purpose and carry signatures that are equally
    (in)valid get the same verdict, and an accepted one is signed by an ASSERTION key whatever purpose it states. -/
theorem proof_purpose_does_not_select_the_relationship (cfg : Cfg) (P : Crypto) (E : Env) (au : Bool) (at_ : Option Time) (c : Cred)
    (p : Proof) (purpose : String) (hfmt : c.format = .ld) (hp : c.proof = .one p)
    (h : verify cfg P E au true at_ { c with proof := .one { p with purpose := purpose } } = .ok ()) :
    ∃ k, AuthorisedAt E at_ p.vm k ∧ resolveKeyByID E at_ p.vm = some k := by
  obtain ⟨_, _, _, _, _, _, hsig⟩ := verify_ok_iff.mp h
  obtain ⟨_, hsv⟩ := hsig rfl
  unfold SigValid at hsv
  simp only [hfmt] at hsv
  obtain ⟨_, _, p', k, hp', _, _, ha, hk, _, _⟩ := hsv
  simp only at hp'
  cases hp'
  exact ⟨k, ha, hk⟩

/-! ## 2b. presentations -/

/-- A presentation reported valid is signed (same conjuncts as for a credential, with the SIGNER's DID in the place of
    the issuer: the key id belongs to the signer, the key is an assertion key of the signer's document at the validation
    time) by the SUBJECT OF EVERY CREDENTIAL IT CARRIES; when it carries credentials, a `holder` member — if present — is
    that same DID; and every carried credential is itself reported valid by `Verify` (its own signature being checked,
    except for a credential without proof issued by the holder = signer itself). -/
theorem vp_valid_only_if (cfg : Cfg) (P : Crypto) (E : Env) (au : Bool) (at_ : Option Time) (vp : Pres)
    (h : verifyVP cfg P E true au at_ vp = .ok ()) :
    ∃ s, presentationSigner E vp = some s ∧
      (∀ c ∈ vp.vcs, subjectDID c = some s) ∧
      (vp.vcs ≠ [] → vp.holder = none ∨ vp.holder = some s) ∧
      VpSigValid cfg P E at_ vp s ∧
      (∀ c ∈ vp.vcs, verify cfg P E au (vcCheckSig vp c) at_ c = .ok ()) ∧
      (∀ c ∈ vp.vcs, vcCheckSig vp c = false → c.issuer = s ∧ c.nProofs = 0) := by
  obtain ⟨s, d, hs, hd, hsd, hh, hsig, hvcs⟩ := verifyVP_ok_iff.mp h
  have hall : ∀ c ∈ vp.vcs, subjectDID c = some s := by
    intro c hc
    rcases resolveSubjectDID_all hd with ⟨hnil, _⟩ | ⟨_, hsub⟩
    · rw [hnil] at hc; cases hc
    · cases hsd with
      | inl e => rw [e]; exact hsub c hc
      | inr e => rw [e] at hc; cases hc
  have hhold : vp.vcs ≠ [] → vp.holder = none ∨ vp.holder = some s := by
    intro hne
    cases hsd with
    | inl e => exact hh e
    | inr e => exact absurd e hne
  refine ⟨s, hs, hall, hhold, hsig, hvcs rfl, ?_⟩
  intro c hc hcs
  unfold vcCheckSig at hcs
  split at hcs
  · rename_i hcond
    have hne : vp.vcs ≠ [] := by intro e; rw [e] at hc; cases hc
    simp at hcond hcs
    cases hhold hne with
    | inl h0 => rw [h0] at hcond; simp at hcond
    | inr h1 => rw [h1] at hcond; simp at hcond; exact ⟨hcond.symm, by omega⟩
  · cases hcs

/-- The exemption from the signature check is PER CREDENTIAL: in a presentation reported valid, every carried credential that
    is not a proof-less credential issued by the signer itself (`c.issuer ≠ s ∨ c.nProofs > 0`) has passed `Verify` WITH its
    signature checked — so it satisfies all conjuncts of `valid_only_if`, whatever stands before it in the list (in particular
    after a proof-less self-attested credential). -/
theorem vp_every_other_credential_is_signature_checked (cfg : Cfg) (P : Crypto) (E : Env) (au : Bool) (at_ : Option Time) (vp : Pres)
    (h : verifyVP cfg P E true au at_ vp = .ok ()) :
    ∃ s, presentationSigner E vp = some s ∧
      ∀ c ∈ vp.vcs, (c.issuer ≠ s ∨ c.nProofs > 0) →
        verify cfg P E au true at_ c = .ok () ∧
        (∃ d, E.parseDID c.issuer = some d ∧ (E.resolve at_ d).isSome = true) ∧ SigValid cfg P E at_ c := by
  obtain ⟨s, hs, _, _, _, hver, hex⟩ := vp_valid_only_if cfg P E au at_ vp h
  refine ⟨s, hs, ?_⟩
  intro c hc hne
  have hcs : vcCheckSig vp c = true := by
    cases hb : vcCheckSig vp c with
    | true => rfl
    | false =>
      obtain ⟨h1, h2⟩ := hex c hc hb
      cases hne with
      | inl h => exact absurd h1 h
      | inr h => omega
  have hv := hver c hc
  rw [hcs] at hv
  obtain ⟨_, _, _, _, _, _, hsig⟩ := verify_ok_iff.mp hv
  exact ⟨hv, hsig rfl⟩

/-- `VerifyVP` accepts exactly when all its checks pass; the order of the three head checks is irrelevant for acceptance -/
theorem vp_check_order_irrelevant_for_accept (cfg : Cfg) (P : Crypto) (E : Env) (vf au : Bool) (at_ : Option Time) (vp : Pres) :
    (verifyVP cfg P E vf au at_ vp = .ok () ↔ VpAccept cfg P E vf au at_ vp) ∧
    (∀ l', (vpHeadChecks E).Perm l' → (runChecks l' vp = .ok () ↔ runChecks (vpHeadChecks E) vp = .ok ())) :=
  ⟨verifyVP_ok_iff, fun _ hp => (runChecks_perm hp vp).symm⟩

/-- the binding of `holder` to the signer exists only when the presentation carries credentials: an empty presentation
    with an arbitrary `holder` member is accepted (the node identifies the presenter by the signer, never by `holder`) -/
theorem empty_presentation_holder_is_not_checked :
    ∃ (cfg : Cfg) (P : Crypto) (E : Env) (vp : Pres) (s : String),
      verifyVP cfg P E true false (some 2000) vp = .ok () ∧ presentationSigner E vp = some s ∧ vp.holder ≠ some s ∧ vp.holder ≠ none :=
  ⟨exCfg, exP, exE, exEmptyVP, "did:x:i", by decide, by decide, by decide, by decide⟩

/-! ## 2d. the sibling entry points report valid only what `Verify` reports valid -/

/-- POST /internal/vcr/v2/verifier/vc: a credential the API reports valid satisfies every conjunct of `valid_only_if` at the
    current time, with trust REQUIRED whenever the issuer is a did:nuts DID and the caller did not opt out -/
theorem api_vc_valid_only_if (cfg : Cfg) (P : Crypto) (E : Env) (option : Option Bool) (c : Cred)
    (h : apiVerifyVC cfg P E option c = .ok ()) :
    verify cfg P E (apiAllowUntrustedVC c.issuer option) true none c = .ok () ∧
    (("did:nuts".toList.isPrefixOf c.issuer.toList) = true → option ≠ some true →
        ∀ t ∈ c.types, t ≠ vcType → E.trusted t c.issuer = true) := by
  refine ⟨h, ?_⟩
  intro hn ho
  have hau : apiAllowUntrustedVC c.issuer option = false := by
    unfold apiAllowUntrustedVC
    simp only [hn, if_true]
    cases option with
    | none => rfl
    | some b => cases b with
      | false => rfl
      | true => exact absurd rfl ho
  unfold apiVerifyVC at h
  rw [hau] at h
  exact (valid_only_if cfg P E false none c h).2.2.2.2.2 rfl

/-- the wallet lists only credentials that are inside their validity window, not revoked and well-formed -/
theorem wallet_lists_only_current_unrevoked (cfg : Cfg) (P : Crypto) (E : Env) (stored : List Cred) (c : Cred)
    (h : c ∈ walletList cfg P E stored) :
    c ∈ stored ∧ validate E c = .pass ∧
    (c.issued ≤ E.now + cfg.maxSkew ∧ ∀ e, c.expires = some e → E.now - cfg.maxSkew ≤ e) ∧
    (∀ id, c.id = some id → (E.storeFails = false ∧ E.revoked id = false)) ∧ statusVerdict E c ≠ .revoked := by
  unfold walletList at h
  rw [List.mem_filter] at h
  obtain ⟨hm, hok⟩ := h
  have hv : verify cfg P E true false none c = .ok () := by
    cases hr : verify cfg P E true false none c with
    | ok u => rfl
    | err e => rw [hr] at hok; cases hok
    | panic s => rw [hr] at hok; cases hok
  obtain ⟨hval, _, hrev, hst, _, hwin, _⟩ := verify_ok_iff.mp hv
  exact ⟨hm, hval, hwin, hrev, hst⟩

/-- BuildPresentation(validateVC = true) only presents credentials whose signature verifies at the proof's creation time -/
theorem wallet_validate_ok (cfg : Cfg) (P : Crypto) (E : Env) (created : Time) (l : List Cred)
    (h : walletValidate cfg P E created l = .ok ()) : ∀ c ∈ l, SigValid cfg P E (some created) c := by
  induction l with
  | nil => intro c hc; cases hc
  | cons x xs ih =>
    unfold walletValidate at h
    cases hr : runChecks (signatureChecks cfg P E (some created) x) x with
    | ok u =>
      rw [hr] at h
      intro c hc
      cases hc with
      | head => exact signatureChecks_ok_iff.mp (by rw [hr])
      | tail _ hm => exact ih h c hm
    | err e => rw [hr] at h; cases h
    | panic s => rw [hr] at h; cases h

/-- The network-ingest path: whatever `StoreCredential` adds to the store had its signature verified (all signature conjuncts of
    `valid_only_if`, at the ingest time), whoever the issuer is and whatever the node knows about the id; a credential arriving
    under an id that is already stored never replaces the stored one.  So what `Resolve` later reports valid (without checking the
    signature again) is a document whose signature verified over exactly its stored content. -/
theorem stored_credentials_were_signature_checked (cfg : Cfg) (P : Crypto) (E : Env) (validAt : Option Time) (store store' : List Cred)
    (c : Cred) (h : storeCredential cfg P E validAt store c = .ok store') :
    (store' = store ∨ (store' = c :: store ∧ SigValid cfg P E validAt c)) ∧
    (∀ x ∈ store, x ∈ store') := by
  unfold storeCredential at h
  split at h
  · split at h
    · cases h; exact ⟨Or.inl rfl, fun x hx => hx⟩
    · cases h
  · cases hr : runChecks (signatureChecks cfg P E validAt c) c with
    | ok u =>
      rw [hr] at h; cases h
      exact ⟨Or.inr ⟨rfl, signatureChecks_ok_iff.mp (by rw [hr])⟩, fun x hx => List.mem_cons_of_mem _ hx⟩
    | err e => rw [hr] at h; cases h
    | panic s => rw [hr] at h; cases h

/-- a store built by `StoreCredential` calls only: every element satisfied SigValid at its ingest time -/
theorem resolve_reports_only_signature_checked (cfg : Cfg) (P : Crypto) (E : Env) (t : Option Time) (store : List Cred) (id : String) (c : Cred)
    (Checked : Cred → Prop) (hstore : ∀ x ∈ store, Checked x)
    (h : resolveStored cfg P E t store id = some c) :
    Checked c ∧ c.id = some id ∧ verify cfg P E false false t c = .ok () := by
  unfold resolveStored at h
  cases hf : store.find? (fun x => x.id == some id) with
  | none => simp [hf] at h
  | some x =>
    simp only [hf, Option.filter] at h
    split at h
    · rename_i hok
      cases h
      have hm := List.mem_of_find?_eq_some hf
      have hid := List.find?_some hf
      refine ⟨hstore _ hm, by simpa using hid, ?_⟩
      cases hv : verify cfg P E false false t c with
      | ok u => rfl
      | err e => rw [hv] at hok; cases hok
      | panic s => rw [hv] at hok; cases hok
    · cases h

/-! ## 2c. "has a trusted issuer when trust is required": untrusting is effective for EVERY content of the trust file -/

/-- Whatever list the trust file held for the type — duplicates of the issuer, other issuers in between, any order, the same
    issuer under other types — after `RemoveTrust(t, i)` the issuer is not trusted for `t` any more (also after a restart,
    which re-loads exactly the stored lists), no other type is touched, and other issuers of `t` keep their trust.
    (`i ≠ ""`: the slice RemoveTrust allocates keeps Go's zero value "" in its tail when it dropped duplicates.) -/
theorem untrust_is_effective (s : TrustStore) (t i : String) (hi : i ≠ "") :
    isTrusted (removeTrust s t i) t i = false ∧
    (∀ t' i', t' ≠ t → isTrusted (removeTrust s t i) t' i' = isTrusted s t' i') ∧
    (∀ i', i' ≠ i → i' ≠ "" → isTrusted (removeTrust s t i) t i' = isTrusted s t i') ∧
    isTrusted (addTrust s t i) t i = true :=
  ⟨untrust_effective s t i hi, fun t' i' h => untrust_other_type s t i t' i' h,
   fun i' h h' => untrust_other_issuer s t i i' h h', trust_after_add s t i⟩

/-- ... and so a credential of that type and issuer is no longer reported valid where trust is required -/
theorem untrusted_issuer_is_rejected (cfg : Cfg) (P : Crypto) (E : Env) (cs : Bool) (at_ : Option Time) (c : Cred)
    (s : TrustStore) (t : String) (hi : c.issuer ≠ "") (ht : t ∈ c.types) (hvc : t ≠ vcType) :
    verify cfg P { E with trusted := isTrusted (removeTrust s t c.issuer) } false cs at_ c ≠ .ok () := by
  intro h
  obtain ⟨_, _, _, _, htr, _⟩ := verify_ok_iff.mp h
  cases htr with
  | inl h => cases h
  | inr h =>
    have := h t ht hvc
    simp only at this
    rw [untrust_effective s t c.issuer hi] at this
    cases this

/-! ## 3. tamper evidence (CONDITIONAL: unforgeability, SHA-256, and the canonicalisation contract are hypotheses) -/

/-- Linked-data credential.  Let `c` be a document with proof options `p`, and let `c'` be any document presented to the
    node.  Hypotheses: `hEUF` — a signature that verifies under a key was made with that key (`Signed`); `hOnly` — the keys
    that the issuer's DID document authorises for `c'` at the validation time have signed nothing but `c` with options `p`
    (the attacker has no authorised key and no other document signed by one); `hTbs` — digest(proof) ‖ digest(document)
    determines both canonical forms (SHA-256 collision freedom, fixed length); `hCanon` / `hCanonProof` — the
    canonicalisation contract for these two documents: equal canonical bytes imply agreement on id, types, issuer,
    issuance and expiration date, subject ids, status entries and every claim the JSON-LD context defines, resp. on every
    proof option.  Then a `c'` that differs from `c` in any of those members, or in any proof option, is NOT reported valid. -/
theorem tamper_evident (cfg : Cfg) (P : Crypto) (E : Env) (au : Bool) (at_ : Option Time)
    (Signed : Key → Bytes → Prop) (defined : String → Bool)
    (c c' : Cred) (p : Proof)
    (hEUF : ∀ k m s, P.sigOK k m s = true → Signed k m)
    (hTbs : ∀ p' : Proof, c'.proof = .one p' → tbs P p' (P.canon c'.stripProof) = tbs P p (P.canon c.stripProof) →
        P.canonProof p'.options = P.canonProof p.options ∧ P.canon c'.stripProof = P.canon c.stripProof)
    (hCanon : P.canon c'.stripProof = P.canon c.stripProof → signedView defined c' = signedView defined c)
    (hCanonProof : ∀ p' : Proof, c'.proof = .one p' → P.canonProof p'.options = P.canonProof p.options → p'.options = p.options)
    (hfmt : c'.format = .ld)
    (hOnly : ∀ k p', c'.proof = .one p' → AuthorisedAt E at_ p'.vm k → ∀ m, Signed k m → m = tbs P p (P.canon c.stripProof))
    (hdiff : signedView defined c' ≠ signedView defined c ∨ ∀ p', c'.proof = .one p' → p'.options ≠ p.options) :
    verify cfg P E au true at_ c' ≠ .ok () := by
  intro hv
  obtain ⟨_, _, _, _, _, _, hsig⟩ := verify_ok_iff.mp hv
  obtain ⟨_, hsv⟩ := hsig rfl
  unfold SigValid at hsv
  simp only [hfmt] at hsv
  obtain ⟨_, _, p', k, hp', _, _, ha, _, hs, _⟩ := hsv
  simp only at hp'
  have hm := hOnly k p' hp' ha _ (hEUF _ _ _ hs)
  obtain ⟨h1, h2⟩ := hTbs p' hp' hm
  cases hdiff with
  | inl h => exact h (hCanon h2)
  | inr h => exact h p' hp' (hCanonProof p' hp' h1)

theorem tamper_evident_jwt (cfg : Cfg) (P : Crypto) (E : Env) (au : Bool) (at_ : Option Time)
    (Signed : Key → Bytes → Prop) (c c' : Cred)
    (hEUF : ∀ k m s, P.sigOK k m s = true → Signed k m)
    (hParse : P.jwtInput c'.raw = P.jwtInput c.raw → jwtView c' = jwtView c)
    (hfmt : c'.format = .jwt)
    (hOnly : ∀ k j', c'.jwt = some j' → AuthorisedAt E at_ (jwtKeyID j'.kid c'.issuer) k → ∀ m, Signed k m → m = P.jwtInput c.raw)
    (hdiff : jwtView c' ≠ jwtView c) :
    verify cfg P E au true at_ c' ≠ .ok () := by
  intro hv
  obtain ⟨_, _, _, _, _, _, hsig⟩ := verify_ok_iff.mp hv
  obtain ⟨_, hsv⟩ := hsig rfl
  unfold SigValid at hsv
  simp only [hfmt] at hsv
  obtain ⟨j, k, hj, _, ha, _, _, hs, _⟩ := hsv
  exact hdiff (hParse (hOnly k j hj ha _ (hEUF _ _ _ hs)))

/-- The stated RESIDUE: a claim the JSON-LD context does not define is outside the signed view; under the converse
    contract (`hComplete`: documents with the same signed view have the same canonical bytes) adding it changes neither the
    canonical form nor the verdict (nor the error class) of `Verify`.  The node's own issuer refuses to sign such members
    (`AllFieldsDefined`, see `own_output_verifies_ld`), a foreign issuer may not. -/
theorem undefined_member_unsigned (cfg : Cfg) (P : Crypto) (E : Env) (au cs : Bool) (at_ : Option Time)
    (defined : String → Bool) (c : Cred) (path v : String)
    (hund : defined path = false)
    (hComplete : ∀ c', signedView defined c' = signedView defined c → c'.stripProof.format = c.stripProof.format →
        P.canon c'.stripProof = P.canon c.stripProof) :
    signedView defined { c with claims := c.claims ++ [(path, v)] } = signedView defined c ∧
    verify cfg P E au cs at_ { c with claims := c.claims ++ [(path, v)] } = verify cfg P E au cs at_ c := by
  have hsv : signedView defined { c with claims := c.claims ++ [(path, v)] } = signedView defined c := by
    simp [signedView, List.filter_append, hund]
  refine ⟨hsv, ?_⟩
  exact verify_congr_claims cfg P E au cs at_ c _ (hComplete _ hsv rfl)

/-- JSON-LD presentation: what was said for credentials holds for the holder and the carried credentials, PROVIDED the raw
    document has no member that only differs by case from a member go-did reads (`caseVariant = false`, which acceptance
    implies since repo commit e2f889b; before it the contract `hCanon` was false of the implementation: see the corpus
    witness).  The order of carried credentials is not covered (`Perm`). -/
theorem tamper_evident_vp (cfg : Cfg) (P : Crypto) (E : Env) (vf au : Bool) (at_ : Option Time)
    (Signed : Key → Bytes → Prop) (defined : String → Bool)
    (vp vp' : Pres) (p : Proof)
    (hEUF : ∀ k m s, P.sigOK k m s = true → Signed k m)
    (hTbs : ∀ p' : Proof, vp'.proof = .one p' → tbs P p' (P.canonVP vp'.stripProof) = tbs P p (P.canonVP vp.stripProof) →
        P.canonProof p'.options = P.canonProof p.options ∧ P.canonVP vp'.stripProof = P.canonVP vp.stripProof)
    (hCanon : vp'.caseVariant = false → P.canonVP vp'.stripProof = P.canonVP vp.stripProof →
        (signedViewVP defined vp').1 = (signedViewVP defined vp).1 ∧ ((signedViewVP defined vp').2).Perm (signedViewVP defined vp).2)
    (hCanonProof : ∀ p' : Proof, vp'.proof = .one p' → P.canonProof p'.options = P.canonProof p.options → p'.options = p.options)
    (hfmt : vp'.format = .ld)
    (hOnly : ∀ k p', vp'.proof = .one p' → AuthorisedAt E at_ p'.vm k → ∀ m, Signed k m → m = tbs P p (P.canonVP vp.stripProof))
    (hv : verifyVP cfg P E vf au at_ vp' = .ok ()) :
    vp'.holder = vp.holder ∧ ((signedViewVP defined vp').2).Perm (signedViewVP defined vp).2 ∧
      ∃ p', vp'.proof = .one p' ∧ p'.options = p.options := by
  obtain ⟨s, _, _, _, _, _, hsig, _⟩ := verifyVP_ok_iff.mp hv
  unfold VpSigValid at hsig
  simp only [hfmt] at hsig
  obtain ⟨_, hcv, p', k, hp', _, _, ha, _, hs, _⟩ := hsig
  simp only at hp' hcv
  obtain ⟨h1, h2⟩ := hTbs p' hp' (hOnly k p' hp' ha _ (hEUF _ _ _ hs))
  obtain ⟨h3, h4⟩ := hCanon hcv h2
  exact ⟨h3, h4, p', hp', hCanonProof p' hp' h1⟩

/-! ## 4. the node's own output verifies on any node that can resolve the signer -/

/-- A JSON-LD credential returned by `Issue` (so: accepted input — issuer is a DID with an assertion key on the issuing
    node, at most one extra type, all fields defined by the context, type-specific validator passed) is reported valid by
    `Verify` on ANY node `E'` and at any validation time at which: the issuer and the signing key id resolve (key listed as
    assertion method), the key id is `<issuer>#…`, the time is inside the credential's window, the credential is not
    revoked there, and the issuer is trusted there (or trust is not required).  `hSig` is signature correctness. -/
theorem own_output_verifies_ld (cfg : Cfg) (P : Crypto) (E : Env) (sign : Key → Bytes → Sig) (allDefined : Cred → Bool)
    (rawOf : Cred → String) (t : Template) (uuid : String) (now : Time) (c : Cred)
    (hSig : ∀ k m, P.sigOK k m (sign k m) = true)
    (hissue : issue P E sign allDefined rawOf .ld t uuid now = .ok c) :
    ∃ d kid key, E.parseDID t.issuer = some d ∧ resolveKey E d = some (kid, key) ∧ allDefined c = true ∧
      ∀ (E' : Env) (au : Bool) (at_ : Option Time),
        E'.didOfURL = E.didOfURL →
        (∃ d', E'.parseDID t.issuer = some d' ∧ (E'.resolve at_ d').isSome = true) →
        resolveKeyByID E' at_ kid = some key →
        beforeHash kid = t.issuer →
        (now ≤ atOf E' at_ + cfg.maxSkew ∧ ∀ e, t.expires = some e → atOf E' at_ - cfg.maxSkew ≤ e) →
        (E'.storeFails = false ∧ E'.revoked (d ++ "#" ++ uuid) = false) →
        (au = true ∨ ∀ ty ∈ c.types, ty ≠ vcType → E'.trusted ty t.issuer = true) →
        verify cfg P E' au true at_ c = .ok () := by
  unfold issue at hissue
  cases hd : E.parseDID t.issuer with
  | none => simp [hd] at hissue
  | some d =>
    simp only [hd] at hissue
    cases hk : resolveKey E d with
    | none => simp [hk] at hissue
    | some kk =>
      obtain ⟨kid, key⟩ := kk
      simp only [hk] at hissue
      split at hissue
      · cases hissue
      · rename_i hty
        split at hissue
        · cases hissue
        · rename_i hdef
          split at hissue
          · rename_i hval
            split at hissue
            · cases hissue
            cases hissue
            refine ⟨d, kid, key, rfl, hk, by simpa using hdef, ?_⟩
            intro E' au at_ hurl hres hkey hkid hwin hrev htr
            rw [verify_ok_iff]
            have hval' := hval
            rw [← validate_congr hurl] at hval'
            refine ⟨hval', issued_types_le_two t hty, ?_, ?_, htr, hwin, ?_⟩
            · intro id hid; simp [unsignedCred] at hid; rw [← hid]; exact hrev
            · simp [statusVerdict, unsignedCred, statusVerdictL]
            · intro _
              refine ⟨hres, ?_⟩
              unfold SigValid
              simp only [unsignedCred]
              refine ⟨validate_pass_issuer hval, rfl, _, key, rfl, ?_, hkid, resolveKeyByID_some hkey, hkey, ?_, ?_⟩
              · intro h0; simp only at h0; rw [h0, beforeHash_empty] at hkid
                exact validate_pass_issuer hval hkid.symm
              · exact hSig _ _
              · rw [proofValidAt_iff]; exact ⟨hwin.1, by intro e he; cases he⟩
          · cases hissue
          · cases hissue

theorem own_output_verifies_jwt (cfg : Cfg) (P : Crypto) (E : Env) (sign : Key → Bytes → Sig) (allDefined : Cred → Bool)
    (rawOf : Cred → String) (t : Template) (uuid : String) (now : Time) (c : Cred)
    (hSig : ∀ k m, P.sigOK k m (sign k m) = true)
    (hAlg : cfg.supportedAlgs.contains "ES256" = true)
    (hFit : ∀ k, algorithmFitsKey "ES256" (P.keyKind k) = true)
    (hissue : issue P E sign allDefined rawOf .jwt t uuid now = .ok c) :
    ∃ d kid key, E.parseDID t.issuer = some d ∧ resolveKey E d = some (kid, key) ∧
      ∀ (E' : Env) (au : Bool) (at_ : Option Time),
        E'.didOfURL = E.didOfURL →
        (∃ d', E'.parseDID t.issuer = some d' ∧ (E'.resolve at_ d').isSome = true) →
        resolveKeyByID E' at_ (jwtKeyID kid t.issuer) = some key →
        (kid = "" ∨ beforeHash kid = t.issuer) →
        (now ≤ atOf E' at_ + cfg.maxSkew ∧ ∀ e, t.expires = some e → atOf E' at_ - cfg.maxSkew ≤ e) →
        (∀ j, c.jwt = some j → jwtTimeOK j (atOf E' at_) = true) →
        (E'.storeFails = false ∧ E'.revoked (d ++ "#" ++ uuid) = false) →
        (au = true ∨ ∀ ty ∈ c.types, ty ≠ vcType → E'.trusted ty t.issuer = true) →
        verify cfg P E' au true at_ c = .ok () := by
  unfold issue at hissue
  cases hd : E.parseDID t.issuer with
  | none => simp [hd] at hissue
  | some d =>
    simp only [hd] at hissue
    cases hk : resolveKey E d with
    | none => simp [hk] at hissue
    | some kk =>
      obtain ⟨kid, key⟩ := kk
      simp only [hk] at hissue
      split at hissue
      · cases hissue
      · rename_i hty
        split at hissue
        · cases hissue
        · split at hissue
          · rename_i hval
            cases hissue
            refine ⟨d, kid, key, rfl, hk, ?_⟩
            intro E' au at_ hurl hres hkey hkid hwin hclock hrev htr
            rw [verify_ok_iff]
            have hval' := hval
            rw [← validate_congr hurl] at hval'
            refine ⟨hval', issued_types_le_two t hty, ?_, ?_, htr, hwin, ?_⟩
            · intro id hid; simp [unsignedCred] at hid; rw [← hid]; exact hrev
            · simp [statusVerdict, unsignedCred, statusVerdictL]
            · intro _
              refine ⟨hres, ?_⟩
              unfold SigValid
              simp only [unsignedCred]
              exact ⟨_, key, rfl, hkid, resolveKeyByID_some hkey, hkey, ⟨hAlg, hFit _⟩, hSig _ _, hclock _ rfl⟩
          · cases hissue
          · cases hissue

theorem own_presentation_verifies (cfg : Cfg) (P : Crypto) (E : Env) (sign : Key → Bytes → Sig) (rawOf : Pres → String)
    (fmt : Format) (signer : String) (vcs : List Cred) (o : PresOptions) (vp : Pres)
    (hSig : ∀ k m, P.sigOK k m (sign k m) = true)
    (hAlg : cfg.supportedAlgs.contains "ES256" = true)
    (hFit : ∀ k, algorithmFitsKey "ES256" (P.keyKind k) = true)
    (hpres : present P E sign rawOf fmt signer vcs o = .ok vp) :
    ∃ kid key, resolveKey E signer = some (kid, key) ∧ vp.vcs = vcs ∧
      ∀ (E' : Env) (au : Bool) (at_ : Option Time),
        signer ≠ "" → kid ≠ "" →
        E'.didOfURL kid = some signer →
        beforeHash kid = signer →
        resolveKeyByID E' at_ (jwtKeyID kid signer) = some key → resolveKeyByID E' at_ kid = some key →
        (∀ c ∈ vcs, subjectDID c = some signer) →
        (o.holder = none ∨ o.holder = some signer) →
        (o.created ≤ atOf E' at_ + cfg.maxSkew ∧ ∀ e, o.expires = some e → atOf E' at_ ≤ e + cfg.maxSkew) →
        (∀ j, vp.jwt = some j → jwtTimeOK j (atOf E' at_) = true) →
        (∀ c ∈ vcs, verify cfg P E' au (vcCheckSig vp c) at_ c = .ok ()) →
        verifyVP cfg P E' true au at_ vp = .ok () := by
  unfold present at hpres
  cases hk : resolveKey E signer with
  | none => simp [hk] at hpres
  | some kk =>
    obtain ⟨kid, key⟩ := kk
    simp only [hk] at hpres
    cases fmt with
    | other => simp at hpres
    | ld =>
      simp only at hpres
      cases hpres
      refine ⟨kid, key, rfl, rfl, ?_⟩
      intro E' au at_ hs hkid hurl hbh _ hkey hsub hhold hwin _ hvcs
      rw [verifyVP_ok_iff]
      refine ⟨signer, if vcs.isEmpty then "" else signer, ?_, resolveSubjectDID_of_all hsub (Or.inl rfl), ?_, ?_, ?_, fun _ => hvcs⟩
      · simp [presentationSigner, hurl, hs]
      · cases vcs <;> simp
      · intro _; exact hhold
      · unfold VpSigValid
        simp only
        refine ⟨hs, rfl, _, key, rfl, hkid, hbh, resolveKeyByID_some hkey, hkey, hSig _ _, ?_⟩
        rw [proofValidAt_iff]; exact hwin
    | jwt =>
      simp only at hpres
      cases hpres
      refine ⟨kid, key, rfl, rfl, ?_⟩
      intro E' au at_ hs hkid hurl hbh hkey _ hsub hhold _ hclock hvcs
      rw [verifyVP_ok_iff]
      refine ⟨signer, if vcs.isEmpty then "" else signer, ?_, resolveSubjectDID_of_all hsub (Or.inl rfl), ?_, ?_, ?_, fun _ => hvcs⟩
      · simp [presentationSigner, hurl, hkid]
      · cases vcs <;> simp
      · intro _; exact hhold
      · unfold VpSigValid
        simp only
        exact ⟨_, key, rfl, Or.inr hbh, resolveKeyByID_some hkey, hkey, ⟨hAlg, hFit _⟩, hSig _ _, hclock _ rfl⟩

/-! ## non-vacuity examples -/

-- valid_only_if / check_order: an accepted credential in each format, an accepted presentation
example : verify exCfg exP exE false true (some 2000) exC = .ok () := by decide
example : verify exCfg exP exE false true (some 2000) exJ = .ok () := by decide
example : verifyVP exCfg exP exE true false (some 2000) exVP = .ok () := by decide
-- ... and each conjunct matters: other issuer, too early, untrusted type, revoked, wrong key relation
example : verify exCfg exP exE false true (some 2000) { exC with issuer := "did:x:j" } ≠ .ok () := by decide
example : verify exCfg exP exE false true (some (-5000)) exC ≠ .ok () := by decide
example : verify exCfg exP exE false true (some 2000) { exC with types := [vcType, "U"] } = .err "untrusted" := by decide
example : verify exCfg exP { exE with revoked := fun _ => true } false true (some 2000) exC = .err "revoked" := by decide
example : verify exCfg exP { exE with resolve := fun _ _ => some { assertion := [] } } false true (some 2000) exC = .err "key-unresolvable" := by decide
example : verifyVP exCfg exP exE true false (some 2000) { exVP with vcs := [{ exC with subjects := some [.did "did:x:h"] }] } = .err "vp-not-by-subject" := by decide
-- the exemption does not leak: a forged (wrongly signed) third-party credential AFTER a proof-less self-attested one is rejected,
-- while the same list with the genuine credential is accepted
def exSelf : Cred := { exU with id := some "did:x:i#self", types := [vcType], proof := .absent, nProofs := 0 }
def exForged : Cred := { exC with issuer := "did:x:i2", id := some "did:x:i2#1", subjects := some [.did "did:x:i"] }
def exE2 : Env := { exE with
    resolve := fun _ d => if d == "did:x:i" then some { assertion := [("did:x:i#k", "K1")] } else if d == "did:x:i2" then some { assertion := [("did:x:i2#k", "K2")] } else none
    trusted := fun _ _ => true
    parseDID := fun s => if s == "did:x:i" || s == "did:x:i2" then some s else none
    didOfURL := fun s => if beforeHash s == "did:x:i" then some "did:x:i" else if beforeHash s == "did:x:i2" then some "did:x:i2" else none }
example : verifyVP exCfg exP exE2 true false (some 2000) { exVP with vcs := [exSelf, exC] } = .ok () := by decide
example : verifyVP exCfg exP exE2 true false (some 2000) { exVP with vcs := [exSelf, exForged] } = .err "vc:vm-not-of-issuer" := by decide
example : verifyVP exCfg exP exE2 true false (some 2000) { exVP with vcs := [exForged, exSelf] } = .err "vc:vm-not-of-issuer" := by decide
-- untrust_is_effective: a hand-edited file with duplicates (and another issuer in between)
example : isTrusted (removeTrust [("T", ["did:x:i", "did:x:o", "did:x:i"])] "T" "did:x:i") "T" "did:x:i" = false ∧
    isTrusted (removeTrust [("T", ["did:x:i", "did:x:o", "did:x:i"])] "T" "did:x:i") "T" "did:x:o" = true ∧
    removeTrust [("T", ["did:x:i", "did:x:o", "did:x:i"])] "T" "did:x:i" = [("T", ["did:x:o", ""])] := by decide
-- the key id must belong to exactly the claimed issuer: a look-alike DID that is a textual prefix of it (and resolves, with
-- its own assertion key that really signed) is rejected
example : verify exCfg exP { exE2 with
      resolve := fun _ d => if d == "did:x:i" || d == "did:x:i2" then some { assertion := [(d ++ "#k", "K1")] } else none }
    true true (some 2000)
    { exU with issuer := "did:x:i2", id := some "did:x:i2#1",
               proof := .one { exProof with jws := exSign "K1" (tbs exP exProof (exP.canon { exU with issuer := "did:x:i2", id := some "did:x:i2#1" })) }, nProofs := 1 }
    = .err "vm-not-of-issuer" := by decide
-- @base documents: a relative id of the ASSERTION relationship is matched through the base; a key that the document lists only
-- for authentication (it is in verificationMethod, not in assertionMethod) does not resolve
example : resolveKeyByID { exE with resolve := fun _ _ => some { assertion := [("#k", "K1")], base := some "did:x:i" } } (some 1) "did:x:i#k" = some "K1" ∧
    resolveKeyByID { exE with resolve := fun _ _ => some { assertion := [("#k", "K1")], base := some "did:x:i" } } (some 1) "did:x:i#auth" = none ∧
    resolveKeyByID { exE with resolve := fun _ _ => some { assertion := [("#k", "K1")], base := none } } (some 1) "did:x:i#k" = none := by decide
-- the JWT algorithm must be the one of the key's curve: ES256 over a P-384 key is rejected even if the signature check passes
example : verify exCfg { exP with keyKind := fun _ => "P-384" } exE false true (some 2000) exJ = .err "jwt-alg-key" := by decide
-- network ingest: an altered copy of a stored id is refused and never replaces it; a credential with a bad signature is never stored
example : storeCredential exCfg exP exE (some 2000) [] exC = .ok [exC] ∧
    storeCredential exCfg exP exE (some 2000) [exC] { exC with issued := 1500 } = .err "exists-with-different-content" ∧
    storeCredential exCfg exP exE (some 2000) [] { exC with issued := 1500 } = .err "bad-signature" ∧
    resolveStored exCfg exP exE (some 2000) [exC] "did:x:i#1" = some exC := by decide
-- tamper_evident: its hypotheses are satisfiable together.  Crypto in which exactly ONE (key, message, signature) triple
-- verifies (so unforgeability holds with `Signed k m := m = exM0`); c' = the signed credential with another issuance date.
example : ∃ (Signed : Key → Bytes → Prop) (c' : Cred),
    verify exCfg exP2 exE false true (some 2000) exC2 = .ok () ∧
    (∀ k m s, exP2.sigOK k m s = true → Signed k m) ∧
    (∀ p' : Proof, c'.proof = .one p' → tbs exP2 p' (exP2.canon c'.stripProof) = tbs exP2 exProof (exP2.canon exC2.stripProof) →
        exP2.canonProof p'.options = exP2.canonProof exProof.options ∧ exP2.canon c'.stripProof = exP2.canon exC2.stripProof) ∧
    (exP2.canon c'.stripProof = exP2.canon exC2.stripProof → signedView (fun _ => true) c' = signedView (fun _ => true) exC2) ∧
    (∀ p' : Proof, c'.proof = .one p' → exP2.canonProof p'.options = exP2.canonProof exProof.options → p'.options = exProof.options) ∧
    c'.format = .ld ∧
    (∀ k p', c'.proof = .one p' → AuthorisedAt exE (some 2000) p'.vm k → ∀ m, Signed k m → m = tbs exP2 exProof (exP2.canon exC2.stripProof)) ∧
    signedView (fun _ => true) c' ≠ signedView (fun _ => true) exC2 :=
  ⟨fun _ m => m = exM0, { exC2 with issued := 2000 }, by decide,
   by intro k m s h; simp [exP2] at h; exact h.1.2,
   by intro p' hp'; cases hp'; decide,
   by decide,
   by intro p' hp'; cases hp'; decide,
   rfl,
   by intro k p' _ _ m hm; rw [hm]; decide,
   by decide⟩
-- own_output_verifies: Issue accepts the template and its output verifies
example : (issue exP exE exSign (fun _ => true) (fun _ => "hdr.claims") .ld exT "1" 1000).isOk = true := by decide
example : ∀ c, issue exP exE exSign (fun _ => true) (fun _ => "hdr.claims") .ld exT "1" 1000 = .ok c →
    verify exCfg exP exE false true (some 2000) c = .ok () := by
  intro c h
  have hc : c = exC := by
    have : issue exP exE exSign (fun _ => true) (fun _ => "hdr.claims") .ld exT "1" 1000 = .ok exC := by decide
    rw [this] at h; cases h; rfl
  subst hc; decide

/-! ## facts regenerated from the source (extract/c01.go): the check sequences the model's check tables stand for -/

def verifyReturnsSrc : List (String × String) :=
  [ ("validator", "err := validator.Validate(credentialToVerify); err != nil => err"),
    ("max-2-types", "len(credentialToVerify.Type) > 2 => errors.New(\"verifiable credential must list at most 2 types\")"),
    ("-store-error", "credentialToVerify.ID != nil && revoked,err := v.IsRevoked(*credentialToVerify.ID); err != nil => err"),
    ("not-revoked", "credentialToVerify.ID != nil && revoked => types.ErrRevoked"),
    ("status-list", "err := v.credentialStatus.Verify(credentialToVerify); err != nil && errors.Is(err,types.ErrRevoked) => err"),
    ("trusted", "!allowUntrusted && range credentialToVerify.Type && !v.trustConfig.IsTrusted(t,credentialToVerify.Issuer) => types.ErrUntrusted"),
    ("valid-at", "!credentialToVerify.ValidAt(validAtNotNil,maxSkew) => types.ErrCredentialNotValidAtTime"),
    ("issuer-is-did", "checkSignature && issuerDID,err := did.ParseDID(credentialToVerify.Issuer.String()); err != nil => fmt.Errorf(\"could not validate issuer: %w\",err)"),
    ("-jwt-protected-headers", "checkSignature && rawJwt != \"\" && headers,err := ExtractProtectedHeaders(rawJwt); err != nil => err"),
    ("issuer-resolves", "checkSignature && _,_,err = v.didResolver.Resolve(*issuerDID,&metadata); err != nil => fmt.Errorf(\"could not validate issuer: %w\",err)"),
    ("sig:*", "checkSignature => v.VerifySignature(credentialToVerify,validAt)") ]

def doVerifyVPReturnsSrc : List (String × String) :=
  [ ("vp:signer-and-subject-resolve", "subjectDID,err := credential.PresenterIsCredentialSubject(presentation); err != nil => newVerificationError(\"presenter is credential subject: %w\",err)"),
    ("vp:signer-is-subject", "!(subjectDID,err := credential.PresenterIsCredentialSubject(presentation); err != nil) && subjectDID == nil && len(presentation.VerifiableCredential) > 0 => newVerificationError(\"credential(s) must be presented by subject\")"),
    ("vp:holder-is-subject", "subjectDID != nil && presentation.Holder != nil && presentation.Holder.String() != subjectDID.String() => newVerificationError(\"presentation holder must equal credential subject\")"),
    ("vp:signature", "err = v.signatureVerifier.VerifyVPSignature(presentation,validAt); err != nil => err"),
    ("vp:verify-vcs", "verifyVCs && range presentation.VerifiableCredential && err = vcVerifier.Verify(current,allowUntrustedVCs,checkSignature,validAt); err != nil => newVerificationError(\"invalid VC (id=%s): %w\",current.ID,err)") ]

def jsonldProofReturnsSrc : List (String × String) :=
  [ ("-marshal", "signedDocument,err := proof.NewSignedDocument(documentToVerify); err != nil => newVerificationError(\"invalid LD-JSON document: %w\",err)"),
    ("ld:no-case-variant-member", "member := caseVariantMember(signedDocument,documentToVerify); member != \"\" => newVerificationError(\"invalid LD-JSON document: member '%s' only differs by case from another member\",member)"),
    ("ld:proof-decodes", "err = signedDocument.UnmarshalProofValue(&ldProof); err != nil => newVerificationError(\"unsupported proof type: %w\",err)"),
    ("ld:proof-present", "verificationMethod == \"\" => newVerificationError(\"missing proof\")"),
    ("ld:vm-of-issuer", "verificationMethodIssuer == \"\" || verificationMethodIssuer != issuer => errVerificationMethodNotOfIssuer"),
    ("ld:proof-valid-at", "!ldProof.ValidAt(validAt,maxSkew) => toVerificationError(types.ErrPresentationNotValidAtTime)"),
    ("ld:key-resolves", "signingKey,err := sv.keyResolver.ResolveKeyByID(ldProof.VerificationMethod.String(),metadata,resolver.NutsSigningKeyType); err != nil => fmt.Errorf(\"unable to resolve valid signing key: %w\",err)"),
    ("ld:signature", "err = ldProof.Verify(signedDocument.DocumentWithoutProof(),signature.JSONWebSignature2020{},signingKey); err != nil => newVerificationError(\"invalid signature: %w\",err)") ]

def jwtSignatureReturnsSrc : List (String × String) :=
  [ ("-protected-headers", "func && headers,err := ExtractProtectedHeaders(jwtDocumentToVerify); err != nil => err"),
    ("jwt:key-resolves", "func => sv.resolveSigningKey(kid,issuer,metadata)"),
    ("-clock-now", "func && at == nil => time.Now()"),
    ("-clock-at", "func => *at"),
    ("jwt:ParseJWT", "_,err := crypto.ParseJWT(jwtDocumentToVerify,func,jwt.WithClock(jwt.ClockFunc(func))); err != nil => fmt.Errorf(\"unable to validate JWT signature: %w\",err)"),
    ("jwt:kid-of-issuer", "keyID != \"\" && strings.Split(keyID,\"#\")[0] != issuer => errVerificationMethodNotOfIssuer") ]

def parseJWTReturnsSrc : List (String × String) :=
  [ ("jwt:parses", "kid,alg,err := JWTKidAlg(tokenString); err != nil => err"),
    ("jwt:key-resolves", "key,err := f(kid); err != nil => err"),
    ("jwt:alg-supported", "!jwx.IsAlgorithmSupported(alg) => fmt.Errorf(\"token signing algorithm is not supported: %s\",alg)"),
    ("jwt:alg-fits-key", "!jwx.AlgorithmFitsKey(alg,key) => fmt.Errorf(\"token signing algorithm does not fit the key: %s\",alg)"),
    ("jwt:signature+jwt:clock", " => jwt.ParseString(tokenString,options)") ]

def verifySignatureReturnsSrc : List (String × String) :=
  [ ("format:ld", "switch credentialToVerify.Format() case vc.JSONLDCredentialProofFormat => sv.jsonldProof(credentialToVerify,credentialToVerify.Issuer.String(),validateAt)"),
    ("format:jwt", "switch credentialToVerify.Format() case vc.JWTCredentialProofFormat => sv.jwtSignature(credentialToVerify.Raw(),credentialToVerify.Issuer.String(),validateAt)"),
    ("sig:format", "switch credentialToVerify.Format() default => errors.New(\"unsupported credential proof format\")") ]

def verifyVPSignatureReturnsSrc : List (String × String) :=
  [ ("-signer(unreachable after PresenterIsCredentialSubject)", "signerDID,err := credential.PresentationSigner(presentation); err != nil => toVerificationError(err)"),
    ("format:ld", "switch presentation.Format() case vc.JSONLDPresentationProofFormat => sv.jsonldProof(presentation,signerDID.String(),validateAt)"),
    ("format:jwt", "switch presentation.Format() case vc.JWTPresentationProofFormat => sv.jwtSignature(presentation.Raw(),signerDID.String(),validateAt)"),
    ("sig:format", "switch presentation.Format() default => errors.New(\"unsupported presentation proof format\")") ]

def presenterIsCredentialSubjectReturnsSrc : List (String × String) :=
  [ ("signer", "signerDID,err := PresentationSigner(vp); err != nil => err"),
    ("subject", "credentialSubjectID,err := ResolveSubjectDID(vp.VerifiableCredential); err != nil => err") ]

def resolveSubjectDIDReturnsSrc : List (String × String) :=
  [ ("subjectDID", "range credentials && sid,err := credential.SubjectDID(); err != nil => err"),
    ("same-subject", "range credentials && !subjectID.Empty() && !subjectID.Equals(*sid) => errors.New(\"not all VCs have the same credentialSubject.id\")") ]

def findValidatorReturnsSrc : List (String × String) :=
  [ ("org", "vcTypes := ExtractTypes(credential); len(vcTypes) > 0 && range vcTypes && switch t case NutsOrganizationCredentialType => nutsOrganizationCredentialValidator{}"),
    ("auth", "vcTypes := ExtractTypes(credential); len(vcTypes) > 0 && range vcTypes && switch t case NutsAuthorizationCredentialType => nutsAuthorizationCredentialValidator{}"),
    ("default", " => defaultCredentialValidator{}") ]

def proofValidAtReturnsSrc : List (String × String) :=
  [ ("created", "o.Created.After(at.Add(maxSkew)) => false"),
    ("expires", "o.Expires != nil && o.Expires.Add(maxSkew).Before(at) => false"),
    ("ok", " => true") ]

def presentationSignerReturnsSrc : List (String × String) :=
  [ ("jwt:parses", "switch presentation.Format() case vc.JWTPresentationProofFormat && kid,_,err := crypto.JWTKidAlg(presentation.Raw()); err != nil => err"),
    ("jwt:kid-present", "switch presentation.Format() case vc.JWTPresentationProofFormat && kid == \"\" => errors.New(\"no kid header in JWT\")"),
    ("jwt:kid-is-did-url", "switch presentation.Format() case vc.JWTPresentationProofFormat && kidURL,err := did.ParseDIDURL(kid); err != nil => fmt.Errorf(\"cannot parse kid as did: %w\",err)"),
    ("ld:one-proof", "switch presentation.Format() case vc.JSONLDPresentationProofFormat && proof,err := ParseLDProof(presentation); err != nil => err"),
    ("ld:vm-is-did-url", "switch presentation.Format() case vc.JSONLDPresentationProofFormat && verificationMethod,err := did.ParseDIDURL(proof.VerificationMethod.String()); err != nil || verificationMethod.DID.Empty() => fmt.Errorf(\"invalid verification method for JSON-LD presentation: %w\",err)"),
    ("format", "switch presentation.Format() default => fmt.Errorf(\"unsupported presentation format: %s\",presentation.Format())") ]

def issueReturnsSrc : List (String × String) :=
  [ ("-publish-jwt", "options.Publish && options.Format == vc.JWTCredentialProofFormat => errors.New(\"publishing VC JWTs is not supported\")"),
    ("buildAndSignVC", "createdVC,err := i.buildAndSignVC(ctx,template,options); err != nil => err"),
    ("undefined-fields", "err = jsonld.AllFieldsDefined(i.jsonldManager.DocumentLoader(),createdVCJSON); err != nil => err"),
    ("validator", "err := validator.Validate(*createdVC); err != nil => err"),
    ("-trust-add", "range credential.ExtractTypes(*createdVC) && err := i.trustConfig.AddTrust(ssi.MustParseURI(credentialType),createdVC.Issuer); err != nil => fmt.Errorf(\"failed to trust issuer when issuing VC (did=%s,type=%s): %w\",createdVC.Issuer,credentialType,err)"),
    ("store", "err = i.store.StoreCredential(*createdVC); err != nil => fmt.Errorf(\"unable to store the issued credential: %w\",err)"),
    ("-publish", "options.Publish && err := i.networkPublisher.PublishCredential(ctx,*createdVC,options.Public); err != nil => fmt.Errorf(\"unable to publish the issued credential: %w\",err)") ]

/-- Issue: sign (buildAndSignVC), then the AllFieldsDefined gate, then the type-specific validator, then store -/
theorem fact_issue_sequence : Nuts.Facts.C01.issueReturns = issueReturnsSrc.map (·.2) := by rfl
theorem fact_verify_check_sequence : Nuts.Facts.C01.verifyReturns = verifyReturnsSrc.map (·.2) := by rfl
theorem fact_doVerifyVP_check_sequence : Nuts.Facts.C01.doVerifyVPReturns = doVerifyVPReturnsSrc.map (·.2) := by rfl
theorem fact_jsonldProof_check_sequence : Nuts.Facts.C01.jsonldProofReturns = jsonldProofReturnsSrc.map (·.2) := by rfl
theorem fact_jwtSignature_check_sequence : Nuts.Facts.C01.jwtSignatureReturns = jwtSignatureReturnsSrc.map (·.2) := by rfl
theorem fact_parseJWT_check_sequence : Nuts.Facts.C01.parseJWTReturns = parseJWTReturnsSrc.map (·.2) := by rfl
theorem fact_verifySignature_dispatch : Nuts.Facts.C01.verifySignatureReturns = verifySignatureReturnsSrc.map (·.2) := by rfl
theorem fact_verifyVPSignature_dispatch : Nuts.Facts.C01.verifyVPSignatureReturns = verifyVPSignatureReturnsSrc.map (·.2) := by rfl
theorem fact_presenterIsCredentialSubject : Nuts.Facts.C01.presenterIsCredentialSubjectReturns = presenterIsCredentialSubjectReturnsSrc.map (·.2) := by rfl
theorem fact_resolveSubjectDID : Nuts.Facts.C01.resolveSubjectDIDReturns = resolveSubjectDIDReturnsSrc.map (·.2) := by rfl
theorem fact_presentationSigner : Nuts.Facts.C01.presentationSignerReturns = presentationSignerReturnsSrc.map (·.2) := by rfl
theorem fact_validator_selection : Nuts.Facts.C01.findValidatorReturns = findValidatorReturnsSrc.map (·.2) := by rfl
theorem fact_proof_valid_at : Nuts.Facts.C01.proofValidAtReturns = proofValidAtReturnsSrc.map (·.2) := by rfl

/-- the model's check tables carry exactly the names the source tables map to (entries starting with "-" are error paths
    of infrastructure — store failure, header extraction, marshalling — that the model does not have) -/
theorem fact_model_checks_are_the_source_checks (cfg : Cfg) (P : Crypto) (E : Env) (au : Bool) (at_ : Option Time) (i : String) (b : Bytes) :
    verifyReturnsSrc.map (·.1) = ["validator", "max-2-types", "-store-error", "not-revoked", "status-list", "trusted", "valid-at",
        "issuer-is-did", "-jwt-protected-headers", "issuer-resolves", "sig:*"] ∧
    (preChecks cfg E au at_).map (·.name) = ["validator", "max-2-types", "not-revoked", "status-list", "trusted", "valid-at"] ∧
    (issuerChecks E at_).map (·.name) = ["issuer-is-did", "issuer-resolves"] ∧
    "-marshal" :: (ldChecks cfg P E at_ i b).map (·.name) = jsonldProofReturnsSrc.map (·.1) ∧
    (jwtChecks cfg P E at_ i b).map (·.name) =
      ["jwt:parses", "jwt:key-resolves", "jwt:alg-supported", "jwt:alg-fits-key", "jwt:signature", "jwt:clock", "jwt:kid-of-issuer"] ∧
    (vpHeadChecks E).map (·.name) ++ ["vp:signature", "vp:verify-vcs"] = doVerifyVPReturnsSrc.map (·.1) := by
  refine ⟨rfl, rfl, rfl, rfl, rfl, rfl⟩

/-- doVerifyVP declares `checkSignature := true` inside the loop over the credentials (the model's `vcCheckSig vp c` is per credential) -/
theorem fact_check_signature_flag_is_per_credential : Nuts.Facts.C01.checkSignatureFlagIsPerCredential = true := by decide
def removeTrustReturnsSrc : List String :=
  [ " => tc.save()" ]
def addTrustReturnsSrc : List String :=
  [ " => tc.save()" ]
def isTrustedReturnsSrc : List String :=
  [ "range tc.issuersPerType[credentialType.String()] && i == issuerString => true",
    " => false" ]
/-- trust.go as modelled: IsTrusted is a scan of the type's list; AddTrust appends unless trusted; RemoveTrust returns early unless
    trusted and otherwise keeps every entry that differs from the issuer (all occurrences are dropped) -/
theorem fact_trust_store_code : Nuts.Facts.C01.removeTrustReturns = removeTrustReturnsSrc ∧ Nuts.Facts.C01.addTrustReturns = addTrustReturnsSrc ∧
    Nuts.Facts.C01.isTrustedReturns = isTrustedReturnsSrc ∧ Nuts.Facts.C01.removeTrustDropsEveryOccurrence = true := by
  refine ⟨by rfl, by rfl, by rfl, by decide⟩
/-! ### wiring: where the verifier is called from and with which flags; the sibling entry points' statements -/

def verifierCallSitesSrc : List String :=
  [ "vcr/api/vcr/v2/api.go:VerifyVC: w.VCR.Verifier().Verify(requestedVC,allowUntrustedIssuer,true,nil)",
    "vcr/api/vcr/v2/api.go:VerifyVP: w.VCR.Verifier().VerifyVP(request.Body.VerifiablePresentation,verifyCredentials,allowUntrustedIssuers,validAt)",
    "vcr/api/vcr/v2/api.go:LoadVC: w.VCR.Verifier().Verify(*request.Body,true,true,nil)",
    "vcr/holder/sql_wallet.go:BuildPresentation: h.verifier.VerifySignature(cred,&options.ProofOptions.Created)",
    "vcr/holder/sql_wallet.go:List: h.verifier.Verify(credential,true,false,nil)",
    "vcr/store.go:StoreCredential: c.verifier.VerifySignature(credential,validAt)",
    "vcr/search.go:Search: c.verifier.Verify(foundCredential,allowUntrusted,false,resolveTime)",
    "vcr/vcr.go:Configure: verifier.NewVerifier(c.verifierStore,didResolver,c.keyResolver,c.jsonldManager,c.trustConfig,status)",
    "vcr/vcr.go:Resolve: c.verifier.Verify(credential,false,false,resolveTime)",
    "vcr/ambassador.go:jsonLDRevocationCallback: n.verifier.RegisterRevocation(r)",
    "vcr/revocation/statuslist2021_verifier.go:verify: cs.VerifySignature(cred,nil)",
    "auth/api/iam/openid4vp.go:handleAuthorizeResponseSubmission: r.vcr.Verifier().VerifyVP(presentation,true,true,nil)",
    "auth/api/iam/openid4vci.go:handleOpenID4VCICallback: r.vcr.Verifier().Verify(*credential,true,true,nil)",
    "auth/api/iam/s2s_vptoken.go:handleS2SAccessTokenRequest: r.vcr.Verifier().VerifyVP(presentation,true,true,nil)",
    "auth/services/oauth/authz_server.go:validateAuthorizationCredentials: s.vcVerifier.Verify(authCred,true,true,&iat)",
    "auth/services/selfsigned/validator.go:verifyVP: v.vcr.Verifier().VerifyVP(vp,true,true,validAt)",
    "discovery/client.go:removeRevoked: r.vcr.Verifier().VerifyVP(*verifiablePresentation,true,true,nil)",
    "discovery/module.go:verifyRegistration: m.vcrInstance.Verifier().VerifyVP(presentation,true,true,nil)" ]
def apiVerifyVPReturnsSrc : List String :=
  [ "request.Body.ValidAt != nil && parsedTime,err := time.Parse(time.RFC3339,*request.Body.ValidAt); err != nil => core.InvalidInputError(\"invalid value for validAt: %w\",err)",
    "signerDID,err := credential.PresentationSigner(request.Body.VerifiablePresentation); err != nil => fmt.Errorf(\"cannot determine subject of VP: %w\",err)",
    "verifiedCredentials,err := w.VCR.Verifier().VerifyVP(request.Body.VerifiablePresentation,verifyCredentials,allowUntrustedIssuers,validAt); err != nil => err" ]
def storeCredentialReturnsSrc : List String :=
  [ "credential.ID != nil && existingCredential,err := c.find(*credential.ID); err == nil => fmt.Errorf(\"credential with same ID but different content already exists (id=%s)\",credential.ID)",
    "credential.ID != nil && !(existingCredential,err := c.find(*credential.ID); err == nil) && !errors.Is(err,types.ErrNotFound) => err",
    "err := c.verifier.VerifySignature(credential,validAt); err != nil => err",
    " => c.writeCredential(credential)" ]
def walletBuildPresentationReturnsSrc : List String :=
  [ "validateVC && range credentials && err := h.verifier.VerifySignature(cred,&options.ProofOptions.Created); err != nil => core.InvalidInputError(\"invalid credential (id=%s): %w\",cred.ID,err)",
    " => presenter{}.buildPresentation(ctx,signerDID,credentials,options)" ]
def statusListVerifyReturnsSrc : List String :=
  [ "statuses,err := credentialToVerify.CredentialStatuses(); err != nil => err",
    "range statuses && err = json.Unmarshal(status.Raw(),&slEntry); err != nil => err",
    "range statuses && sList,err := cs.statusList(slEntry.StatusListCredential); err != nil => fmt.Errorf(\"status list: %w\",err)",
    "range statuses && sList.StatusPurpose != slEntry.StatusPurpose => fmt.Errorf(\"StatusList2021Credential.credentialSubject.statusPuspose='%s' does not match vc.credentialStatus.statusPurpose='%s'\",sList.StatusPurpose,slEntry.StatusPurpose)",
    "range statuses && index,err := strconv.Atoi(slEntry.StatusListIndex); err != nil => err",
    "range statuses && revoked,err := sList.Bitstring.bit(index); err != nil => err",
    "range statuses && revoked => errRevoked" ]
def isRevokedReturnsSrc : List String :=
  [ "_,err := v.store.GetRevocations(credentialID); err != nil => err" ]
def registerRevocationReturnsSrc : List String :=
  [ "err := json.Unmarshal(asBytes,&document); err != nil => err",
    "err := credential.ValidateRevocation(revocation); err != nil => err",
    "subjectIssuer != revocation.Issuer.String() => errors.New(\"issuer of revocation is not the same as issuer of credential\")",
    "vmIssuer != revocation.Issuer.String() => errVerificationMethodNotOfIssuer",
    "pk,err := v.keyResolver.ResolveKeyByID(revocation.Proof.VerificationMethod.String(),metadata,resolver.NutsSigningKeyType); err != nil => fmt.Errorf(\"unable to resolve key for revocation: %w\",err)",
    "err := document.UnmarshalProofValue(&ldProof); err != nil => err",
    "err = ldProof.Verify(document.DocumentWithoutProof(),signature.JSONWebSignature2020{},pk); err != nil => fmt.Errorf(\"unable to verify revocation signature: %w\",err)",
    "err := v.store.StoreRevocation(revocation); err != nil => fmt.Errorf(\"unable to store revocation: %w\",err)" ]
def walletListStmtsSrc : List String :=
  [ "credentials,err := h.walletStore.list(holderDID)",
    "if err != nil",
    "validCredentials := make(<*ast.ArrayType>,0,len(credentials))",
    "if err == nil",
    "err = h.verifier.Verify(credential,true,false,nil)",
    "validCredentials = append(validCredentials,credential)",
    "if !errors.Is(err,types.ErrCredentialNotValidAtTime) && !errors.Is(err,types.ErrRevoked)" ]
def apiVerifyVCStmtsSrc : List String :=
  [ "requestedVC := request.Body.VerifiableCredential",
    "allowUntrustedIssuer := true",
    "if strings.HasPrefix(request.Body.VerifiableCredential.Issuer.String(),\"did:nuts\")",
    "allowUntrustedIssuer = false",
    "if options != nil",
    "options := request.Body.VerificationOptions",
    "if allowUntrusted != nil",
    "allowUntrusted := options.AllowUntrustedIssuer",
    "allowUntrustedIssuer = *allowUntrusted",
    "if err != nil",
    "err := w.VCR.Verifier().Verify(requestedVC,allowUntrustedIssuer,true,nil)",
    "errMsg := err.Error()" ]
def apiVerifyVPStmtsSrc : List String :=
  [ "verifyCredentials := true",
    "if request.Body.VerifyCredentials != nil",
    "verifyCredentials = *request.Body.VerifyCredentials",
    "if request.Body.ValidAt != nil",
    "parsedTime,err := time.Parse(time.RFC3339,*request.Body.ValidAt)",
    "if err != nil",
    "validAt = &parsedTime",
    "signerDID,err := credential.PresentationSigner(request.Body.VerifiablePresentation)",
    "if err != nil",
    "allowUntrustedIssuers := true",
    "if signerDID.Method == \"nuts\"",
    "allowUntrustedIssuers = false",
    "verifiedCredentials,err := w.VCR.Verifier().VerifyVP(request.Body.VerifiablePresentation,verifyCredentials,allowUntrustedIssuers,validAt)",
    "if err != nil",
    "if errors.Is(err,verifier.VerificationError{})",
    "msg := err.Error()",
    "result := VPVerificationResult{}" ]

/-- Call sites of Verify / VerifyVP / VerifySignature / RegisterRevocation / NewVerifier with their flag arguments (every
    consumer that decides on validity passes checkSignature / verifyVCs = true; the wallet's List and VCR.Resolve/Search are
    the only sites that skip the signature, on credentials whose signature `StoreCredential` checked before writing them), and
    the statements of the REST handlers, the wallet, StoreCredential, IsRevoked, RegisterRevocation and StatusList2021.Verify -/
theorem fact_wiring :
    Nuts.Facts.C01.verifierCallSites = verifierCallSitesSrc ∧
    Nuts.Facts.C01.apiVerifyVPReturns = apiVerifyVPReturnsSrc ∧
    Nuts.Facts.C01.storeCredentialReturns = storeCredentialReturnsSrc ∧
    Nuts.Facts.C01.walletBuildPresentationReturns = walletBuildPresentationReturnsSrc ∧
    Nuts.Facts.C01.statusListVerifyReturns = statusListVerifyReturnsSrc ∧
    Nuts.Facts.C01.isRevokedReturns = isRevokedReturnsSrc ∧
    Nuts.Facts.C01.registerRevocationReturns = registerRevocationReturnsSrc ∧
    Nuts.Facts.C01.walletListStmts = walletListStmtsSrc ∧
    Nuts.Facts.C01.apiVerifyVCStmts = apiVerifyVCStmtsSrc ∧
    Nuts.Facts.C01.apiVerifyVPStmts = apiVerifyVPStmtsSrc := by
  refine ⟨by rfl, by rfl, by rfl, by rfl, by rfl, by rfl, by rfl, by rfl, by rfl, by rfl⟩

/-- a refreshed status list replaces EVERY column of the stored copy (UpdateAll), so the bitstring that later checks read is the
    downloaded one -/
theorem fact_status_list_refresh_replaces_all_columns : Nuts.Facts.C01.statusListUpdateOnConflict = ["UpdateAll:true"] := by decide
/-- ResolveKeyByID iterates ONE collection — the requested relationship — for absolute and for @base-relative ids alike, and the
    AssertionMethod relation selects `doc.AssertionMethod` (the model's `DidDoc.assertion`, `keyIdMatches`) -/
theorem fact_key_lookup_iterates_the_relationship :
    Nuts.Facts.C01.resolveKeyByIDRanges = ["relationships"] ∧
    Nuts.Facts.C01.relationshipCollections = ["Authentication=>doc.Authentication", "AssertionMethod=>doc.AssertionMethod",
      "KeyAgreement=>doc.KeyAgreement", "CapabilityInvocation=>doc.CapabilityInvocation", "CapabilityDelegation=>doc.CapabilityDelegation"] := by
  refine ⟨by rfl, by rfl⟩
/-- the status list issuer rebuilds a list from the issuer record WITH its revocations on renewal (Credential) and on Revoke -/
theorem fact_status_list_renewal_loads_revocations :
    Nuts.Facts.C01.statusListIssuerPreloads = ["Credential:Preload(\"Revocations\")", "Revoke:Preload(\"Revocations\")"] := by rfl
/-- the JSON-LD engine the verifier is wired with fetches unlisted contexts only when the node is NOT in strict mode: Configure hands
    `!Strictmode` to NewContextLoader, which installs the allow-list filter unless that flag is set (the canonicalisation contract of
    `tamper_evident` presupposes a FIXED set of contexts) -/
theorem fact_strict_mode_fixes_the_contexts :
    Nuts.Facts.C01.contextLoaderArgs = ["!serverConfig.Strictmode", "j.config.Contexts"] ∧
    Nuts.Facts.C01.contextLoaderGuards = ["if !allowUnlistedExternalCalls", "if err != nil"] := by
  refine ⟨by rfl, by rfl⟩
/-- the verifier holds only its collaborators (resolvers, JSON-LD engine, store, trust config, status lists): no cache of resolved keys
    or verdicts, so every call resolves the key at ITS validation time (the model's `verify` is a function of the call's Env); and the
    JWT path resolves through the key resolver as well -/
theorem fact_verifier_is_stateless :
    Nuts.Facts.C01.verifierFields = ["verifier.didResolver resolver.DIDResolver", "verifier.keyResolver resolver.KeyResolver", "verifier.jsonldManager jsonld.JSONLD", "verifier.store Store", "verifier.trustConfig *trust.Config", "verifier.<embedded> signatureVerifier", "verifier.credentialStatus revocation.StatusList2021Verifier", "signatureVerifier.keyResolver resolver.KeyResolver", "signatureVerifier.jsonldManager jsonld.JSONLD"] ∧
    Nuts.Facts.C01.resolveSigningKeyReturns = [" => sv.keyResolver.ResolveKeyByID(kid,metadata,resolver.NutsSigningKeyType)"] := by
  refine ⟨by rfl, by rfl⟩
/-- StoreCredential's `VerifySignature(credential, validAt)` is a top-level statement: no condition (issuer, id known to the node, …)
    can skip it (see also `storeCredentialReturns` in fact_wiring) -/
theorem fact_store_credential_always_verifies_the_signature :
    Nuts.Facts.C01.storeCredentialVerifiesSignatureUnconditionally = true := by decide
/-- every key lookup of the verifier asks for the SAME constant relationship (NutsSigningKeyType = AssertionMethod, see
    fact_signing_key_relation) — jsonldProof once, the JWT path once, RegisterRevocation once; no proof field selects it.  And the status
    list verifier checks downloaded lists with VerifySignature (signature + key of the list's issuer), not with the soft-failing Verify -/
theorem fact_key_lookup_relationship_is_constant :
    Nuts.Facts.C01.keyLookupRelations = ["jsonldProof:resolver.NutsSigningKeyType", "resolveSigningKey:resolver.NutsSigningKeyType", "RegisterRevocation:resolver.NutsSigningKeyType"] ∧
    Nuts.Facts.C01.newVerifierStatusListWiring = ["credentialStatus.VerifySignature = v.VerifySignature"] := by
  refine ⟨by rfl, by rfl⟩
theorem fact_max_skew : Nuts.Facts.C01.maxSkewMs = 5000 := by decide
theorem fact_supported_algs : Nuts.Facts.C01.supportedAlgs = ["ES256", "EdDSA", "ES384", "ES512", "PS256", "PS384", "PS512"] := by decide
theorem fact_signing_key_relation : Nuts.Facts.C01.signingKeyRelation = "AssertionMethod" := by decide
theorem fact_type_constants : Nuts.Facts.C01.c_NutsOrganizationCredentialType = orgType ∧
    Nuts.Facts.C01.c_NutsAuthorizationCredentialType = authType ∧ Nuts.Facts.C01.c_NutsV1Context = nutsContextV1 := by decide

end Nuts.C01.Props
