/-
  C01 — Credentials/presentations verify iff authentic, untampered, current, unrevoked.
  Property theorems over NutsModel.C01.Verifier.  Level: proof of the decision logic; tamper-evidence is CONDITIONAL on the
  canonicalisation contract and on unforgeability (hypotheses of the theorems, never axioms).
-/
import NutsProofs.Lemmas.C01
import NutsModel.Facts.C01
namespace Nuts.C01.Props
open Nuts.C01

/-! ## 1. the accept set is the conjunction of the checks, whatever their order -/

/-- `Verify` accepts exactly when every one of its checks passes (`VcAccept` spells the conjunction out), and no
    re-ordering of the checks changes the accept set: no order lets a defective document through. -/
theorem check_order_irrelevant_for_accept (cfg : Cfg) (P : Crypto) (E : Env) (au cs : Bool) (at_ : Option Time) (c : Cred) :
    (verify cfg P E au cs at_ c = .ok () ↔ VcAccept cfg P E au cs at_ c) ∧
    (verify cfg P E au cs at_ c = .ok () ↔ ∀ chk ∈ vcChecks cfg P E au cs at_ c, chk.run c = .pass) ∧
    (∀ l', (vcChecks cfg P E au cs at_ c).Perm l' → (runChecks l' c = .ok () ↔ verify cfg P E au cs at_ c = .ok ())) := by
  refine ⟨verify_ok_iff, runChecks_ok_iff _ _, ?_⟩
  intro l' hp
  exact (runChecks_perm hp c).symm

/-! ## 2. valid only if … -/

/-- A credential reported valid (signature checked) is signed by a key that is listed under the proof's key id among the
    ASSERTION methods of the DID document the key id's DID resolves to AT THE VALIDATION TIME, the key id belongs to the
    claimed issuer (whose document resolves, not deactivated, at that time), the validation time lies in the credential's
    window (± maxSkew) and the proof's / token's own window, the credential is not revoked (network revocation and status
    list), and — when trust is required — the issuer is trusted for every type other than `VerifiableCredential`. -/
theorem valid_only_if (cfg : Cfg) (P : Crypto) (E : Env) (au : Bool) (at_ : Option Time) (c : Cred)
    (h : verify cfg P E au true at_ c = .ok ()) :
    (∃ d, E.parseDID c.issuer = some d ∧ (E.resolve at_ d).isSome = true) ∧
    (match c.format with
      | .ld => ∃ p k, c.proof = .one p ∧ beforeHash p.vm = c.issuer ∧ AuthorisedAt E at_ p.vm k ∧
          P.sigOK k (tbs P p (P.canon c.stripProof)) p.jws = true ∧
          (p.created ≤ atOf E at_ + cfg.maxSkew ∧ ∀ e, p.expires = some e → atOf E at_ ≤ e + cfg.maxSkew)
      | .jwt => ∃ j k, c.jwt = some j ∧ (j.kid = "" ∨ beforeHash j.kid = c.issuer) ∧
          AuthorisedAt E at_ (jwtKeyID j.kid c.issuer) k ∧ cfg.supportedAlgs.contains j.alg = true ∧
          P.sigOK k (P.jwtInput c.raw) j.sig = true ∧ jwtTimeOK j (atOf E at_) = true
      | .other => False) ∧
    (c.issued ≤ atOf E at_ + cfg.maxSkew ∧ ∀ e, c.expires = some e → atOf E at_ - cfg.maxSkew ≤ e) ∧
    (∀ id, c.id = some id → E.revoked id = false) ∧ statusVerdict E c ≠ .revoked ∧
    (au = false → ∀ t ∈ c.types, t ≠ vcType → E.trusted t c.issuer = true) := by
  obtain ⟨_, _, hrev, hst, htr, hwin, hsig⟩ := verify_ok_iff.mp h
  obtain ⟨hiss, hsv⟩ := hsig rfl
  refine ⟨hiss, ?_, hwin, hrev, hst, ?_⟩
  · unfold SigValid at hsv
    cases hf : c.format with
    | ld =>
      simp only [hf] at hsv
      obtain ⟨_, _, p, k, hp, _, hb, ha, _, hs, hv⟩ := hsv
      exact ⟨p, k, hp, hb, ha, hs, (proofValidAt_iff cfg p _).mp hv⟩
    | jwt =>
      simp only [hf] at hsv
      obtain ⟨j, k, hj, hk, ha, _, halg, hs, ht⟩ := hsv
      exact ⟨j, k, hj, hk, ha, halg, hs, ht⟩
    | other => simp only [hf] at hsv
  · intro hau
    cases htr with
    | inl h => rw [hau] at h; cases h
    | inr h => exact h

/-- with go-did's parser contract (the DID of a key id `<did>#fragment` is `<did>`), the key of a linked-data credential
    comes from the claimed ISSUER's own document -/
theorem key_is_from_the_issuers_document (cfg : Cfg) (P : Crypto) (E : Env) (au : Bool) (at_ : Option Time) (c : Cred)
    (hURL : ∀ u d, E.parseDID (beforeHash u) = some d → E.didOfURL u = some d)
    (hfmt : c.format = .ld)
    (h : verify cfg P E au true at_ c = .ok ()) :
    ∃ d doc p k, E.parseDID c.issuer = some d ∧ E.resolve at_ d = some doc ∧ c.proof = .one p ∧ (p.vm, k) ∈ doc.assertion ∧
      P.sigOK k (tbs P p (P.canon c.stripProof)) p.jws = true := by
  obtain ⟨⟨d, hd, _⟩, hs, _⟩ := valid_only_if cfg P E au at_ c h
  simp only [hfmt] at hs
  obtain ⟨p, k, hp, hb, ⟨d', doc, hd', hr, hm⟩, hsig, _⟩ := hs
  have : E.didOfURL p.vm = some d := hURL p.vm d (by rw [hb]; exact hd)
  rw [this] at hd'
  cases hd'
  exact ⟨d, doc, p, k, hd, hr, hp, hm, hsig⟩

/-! ## facts regenerated from the source (extract/c01.go): the check sequences the model's check tables stand for -/

def verifyReturnsSrc : List (String × String) :=
  [ ("validator", "err := validator.Validate(credentialToVerify); err != nil => err"),
    ("max-2-types", "len(credentialToVerify.Type) > 2 => errors.New(\"verifiable credential must list at most 2 types\")"),
    ("-store-error", "credentialToVerify.ID != nil && revoked,err := v.IsRevoked(*credentialToVerify.ID); err != nil => err"),
    ("not-revoked", "credentialToVerify.ID != nil && revoked => types.ErrRevoked"),
    ("status-list", "err := v.credentialStatus.Verify(credentialToVerify); err != nil && errors.Is(err,types.ErrRevoked) => err"),
    ("trusted", "!allowUntrusted && range credentialToVerify.Type && !v.trustConfig.IsTrusted(t,credentialToVerify.Issuer) => types.ErrUntrusted"),
    ("valid-at", "!credentialToVerify.ValidAt(validAtNotNil,maxSkew) => types.ErrCredentialNotValidAtTime"),
    ("-jwt-protected-headers", "checkSignature && rawJwt != \"\" && headers,err := ExtractProtectedHeaders(rawJwt); err != nil => err"),
    ("issuer-resolves", "checkSignature && _,_,err = v.didResolver.Resolve(*issuerDID,&metadata); err != nil => fmt.Errorf(\"could not validate issuer: %w\",err)"),
    ("sig:*", "checkSignature => v.VerifySignature(credentialToVerify,validAt)") ]

def doVerifyVPReturnsSrc : List (String × String) :=
  [ ("vp:signer-and-subject-resolve", "subjectDID,err := credential.PresenterIsCredentialSubject(presentation); err != nil => newVerificationError(\"presenter is credential subject: %w\",err)"),
    ("vp:signer-is-subject", "!(subjectDID,err := credential.PresenterIsCredentialSubject(presentation); err != nil) && subjectDID == nil && len(presentation.VerifiableCredential) > 0 => newVerificationError(\"credential(s) must be presented by subject\")"),
    ("vp:holder-is-subject", "subjectDID != nil && presentation.Holder != nil && presentation.Holder.String() != subjectDID.String() => newVerificationError(\"presentation holder must equal credential subject\")"),
    ("vp:signature", "err = v.signatureVerifier.VerifyVPSignature(presentation,validAt); err != nil => err"),
    ("vp:verify-vcs", "verifyVCs && range presentation.VerifiableCredential && err = vcVerifier.Verify(current,allowUntrustedVCs,checkSignature,validAt); err != nil => newVerificationError(\"invalid VC (id=%s): %w\",current.ID,err)") ]

def jsonldProofReturnsSrc : List (String × String) :=
  [ ("-marshal", "signedDocument,err := proof.NewSignedDocument(documentToVerify); err != nil => newVerificationError(\"invalid LD-JSON document: %w\",err)"),
    ("ld:no-case-variant-member", "member := caseVariantMember(signedDocument,documentToVerify); member != \"\" => newVerificationError(\"invalid LD-JSON document: member '%s' only differs by case from a known member\",member)"),
    ("ld:proof-decodes", "err = signedDocument.UnmarshalProofValue(&ldProof); err != nil => newVerificationError(\"unsupported proof type: %w\",err)"),
    ("ld:proof-present", "verificationMethod == \"\" => newVerificationError(\"missing proof\")"),
    ("ld:vm-of-issuer", "verificationMethodIssuer == \"\" || verificationMethodIssuer != issuer => errVerificationMethodNotOfIssuer"),
    ("ld:proof-valid-at", "!ldProof.ValidAt(validAt,maxSkew) => toVerificationError(types.ErrPresentationNotValidAtTime)"),
    ("ld:key-resolves", "signingKey,err := sv.keyResolver.ResolveKeyByID(ldProof.VerificationMethod.String(),metadata,resolver.NutsSigningKeyType); err != nil => fmt.Errorf(\"unable to resolve valid signing key: %w\",err)"),
    ("ld:signature", "err = ldProof.Verify(signedDocument.DocumentWithoutProof(),signature.JSONWebSignature2020{},signingKey); err != nil => newVerificationError(\"invalid signature: %w\",err)") ]

def jwtSignatureReturnsSrc : List (String × String) :=
  [ ("-protected-headers", "func && headers,err := ExtractProtectedHeaders(jwtDocumentToVerify); err != nil => err"),
    ("jwt:key-resolves", "func => sv.resolveSigningKey(kid,issuer,metadata)"),
    ("-clock-now", "func && at == nil => time.Now()"),
    ("-clock-at", "func => *at"),
    ("jwt:ParseJWT", "_,err := crypto.ParseJWT(jwtDocumentToVerify,func,jwt.WithClock(jwt.ClockFunc(func))); err != nil => fmt.Errorf(\"unable to validate JWT signature: %w\",err)"),
    ("jwt:kid-of-issuer", "keyID != \"\" && strings.Split(keyID,\"#\")[0] != issuer => errVerificationMethodNotOfIssuer") ]

def parseJWTReturnsSrc : List (String × String) :=
  [ ("jwt:parses", "kid,alg,err := JWTKidAlg(tokenString); err != nil => err"),
    ("jwt:key-resolves", "key,err := f(kid); err != nil => err"),
    ("jwt:alg-supported", "!jwx.IsAlgorithmSupported(alg) => fmt.Errorf(\"token signing algorithm is not supported: %s\",alg)"),
    ("jwt:signature+jwt:clock", " => jwt.ParseString(tokenString,options)") ]

def verifySignatureReturnsSrc : List (String × String) :=
  [ ("format:ld", "switch credentialToVerify.Format() case vc.JSONLDCredentialProofFormat => sv.jsonldProof(credentialToVerify,credentialToVerify.Issuer.String(),validateAt)"),
    ("format:jwt", "switch credentialToVerify.Format() case vc.JWTCredentialProofFormat => sv.jwtSignature(credentialToVerify.Raw(),credentialToVerify.Issuer.String(),validateAt)"),
    ("sig:format", "switch credentialToVerify.Format() default => errors.New(\"unsupported credential proof format\")") ]

def verifyVPSignatureReturnsSrc : List (String × String) :=
  [ ("-signer(unreachable after PresenterIsCredentialSubject)", "signerDID,err := credential.PresentationSigner(presentation); err != nil => toVerificationError(err)"),
    ("format:ld", "switch presentation.Format() case vc.JSONLDPresentationProofFormat => sv.jsonldProof(presentation,signerDID.String(),validateAt)"),
    ("format:jwt", "switch presentation.Format() case vc.JWTPresentationProofFormat => sv.jwtSignature(presentation.Raw(),signerDID.String(),validateAt)"),
    ("sig:format", "switch presentation.Format() default => errors.New(\"unsupported presentation proof format\")") ]

def presenterIsCredentialSubjectReturnsSrc : List (String × String) :=
  [ ("signer", "signerDID,err := PresentationSigner(vp); err != nil => err"),
    ("subject", "credentialSubjectID,err := ResolveSubjectDID(vp.VerifiableCredential); err != nil => err") ]

def resolveSubjectDIDReturnsSrc : List (String × String) :=
  [ ("subjectDID", "range credentials && sid,err := credential.SubjectDID(); err != nil => err"),
    ("same-subject", "range credentials && !subjectID.Empty() && !subjectID.Equals(*sid) => errors.New(\"not all VCs have the same credentialSubject.id\")") ]

def findValidatorReturnsSrc : List (String × String) :=
  [ ("org", "vcTypes := ExtractTypes(credential); len(vcTypes) > 0 && range vcTypes && switch t case NutsOrganizationCredentialType => nutsOrganizationCredentialValidator{}"),
    ("auth", "vcTypes := ExtractTypes(credential); len(vcTypes) > 0 && range vcTypes && switch t case NutsAuthorizationCredentialType => nutsAuthorizationCredentialValidator{}"),
    ("default", " => defaultCredentialValidator{}") ]

def proofValidAtReturnsSrc : List (String × String) :=
  [ ("created", "o.Created.After(at.Add(maxSkew)) => false"),
    ("expires", "o.Expires != nil && o.Expires.Add(maxSkew).Before(at) => false"),
    ("ok", " => true") ]

def presentationSignerReturnsSrc : List (String × String) :=
  [ ("jwt:parses", "switch presentation.Format() case vc.JWTPresentationProofFormat && kid,_,err := crypto.JWTKidAlg(presentation.Raw()); err != nil => err"),
    ("jwt:kid-present", "switch presentation.Format() case vc.JWTPresentationProofFormat && kid == \"\" => errors.New(\"no kid header in JWT\")"),
    ("jwt:kid-is-did-url", "switch presentation.Format() case vc.JWTPresentationProofFormat && kidURL,err := did.ParseDIDURL(kid); err != nil => fmt.Errorf(\"cannot parse kid as did: %w\",err)"),
    ("ld:one-proof", "switch presentation.Format() case vc.JSONLDPresentationProofFormat && proof,err := ParseLDProof(presentation); err != nil => err"),
    ("ld:vm-is-did-url", "switch presentation.Format() case vc.JSONLDPresentationProofFormat && verificationMethod,err := did.ParseDIDURL(proof.VerificationMethod.String()); err != nil || verificationMethod.DID.Empty() => fmt.Errorf(\"invalid verification method for JSON-LD presentation: %w\",err)"),
    ("format", "switch presentation.Format() default => fmt.Errorf(\"unsupported presentation format: %s\",presentation.Format())") ]

theorem fact_verify_check_sequence : Nuts.Facts.C01.verifyReturns = verifyReturnsSrc.map (·.2) := by rfl
theorem fact_doVerifyVP_check_sequence : Nuts.Facts.C01.doVerifyVPReturns = doVerifyVPReturnsSrc.map (·.2) := by rfl
theorem fact_jsonldProof_check_sequence : Nuts.Facts.C01.jsonldProofReturns = jsonldProofReturnsSrc.map (·.2) := by rfl
theorem fact_jwtSignature_check_sequence : Nuts.Facts.C01.jwtSignatureReturns = jwtSignatureReturnsSrc.map (·.2) := by rfl
theorem fact_parseJWT_check_sequence : Nuts.Facts.C01.parseJWTReturns = parseJWTReturnsSrc.map (·.2) := by rfl
theorem fact_verifySignature_dispatch : Nuts.Facts.C01.verifySignatureReturns = verifySignatureReturnsSrc.map (·.2) := by rfl
theorem fact_verifyVPSignature_dispatch : Nuts.Facts.C01.verifyVPSignatureReturns = verifyVPSignatureReturnsSrc.map (·.2) := by rfl
theorem fact_presenterIsCredentialSubject : Nuts.Facts.C01.presenterIsCredentialSubjectReturns = presenterIsCredentialSubjectReturnsSrc.map (·.2) := by rfl
theorem fact_resolveSubjectDID : Nuts.Facts.C01.resolveSubjectDIDReturns = resolveSubjectDIDReturnsSrc.map (·.2) := by rfl
theorem fact_presentationSigner : Nuts.Facts.C01.presentationSignerReturns = presentationSignerReturnsSrc.map (·.2) := by rfl
theorem fact_validator_selection : Nuts.Facts.C01.findValidatorReturns = findValidatorReturnsSrc.map (·.2) := by rfl
theorem fact_proof_valid_at : Nuts.Facts.C01.proofValidAtReturns = proofValidAtReturnsSrc.map (·.2) := by rfl

/-- the model's check tables carry exactly the names the source tables map to (entries starting with "-" are error paths
    of infrastructure — store failure, header extraction, marshalling — that the model does not have) -/
theorem fact_model_checks_are_the_source_checks (cfg : Cfg) (P : Crypto) (E : Env) (au : Bool) (at_ : Option Time) (i : String) (b : Bytes) :
    verifyReturnsSrc.map (·.1) = ["validator", "max-2-types", "-store-error", "not-revoked", "status-list", "trusted", "valid-at",
        "-jwt-protected-headers", "issuer-resolves", "sig:*"] ∧
    (preChecks cfg E au at_).map (·.name) = ["validator", "max-2-types", "not-revoked", "status-list", "trusted", "valid-at"] ∧
    (issuerChecks E at_).map (·.name) = ["issuer-is-did", "issuer-resolves"] ∧
    "-marshal" :: (ldChecks cfg P E at_ i b).map (·.name) = jsonldProofReturnsSrc.map (·.1) ∧
    (jwtChecks cfg P E at_ i b).map (·.name) =
      ["jwt:parses", "jwt:key-resolves", "jwt:alg-supported", "jwt:signature", "jwt:clock", "jwt:kid-of-issuer"] ∧
    (vpHeadChecks E).map (·.name) ++ ["vp:signature", "vp:verify-vcs"] = doVerifyVPReturnsSrc.map (·.1) := by
  refine ⟨rfl, rfl, rfl, rfl, rfl, rfl⟩

theorem fact_max_skew : Nuts.Facts.C01.maxSkewMs = 5000 := by decide
theorem fact_supported_algs : Nuts.Facts.C01.supportedAlgs = ["ES256", "EdDSA", "ES384", "ES512", "PS256", "PS384", "PS512"] := by decide
theorem fact_signing_key_relation : Nuts.Facts.C01.signingKeyRelation = "AssertionMethod" := by decide
theorem fact_type_constants : Nuts.Facts.C01.c_NutsOrganizationCredentialType = orgType ∧
    Nuts.Facts.C01.c_NutsAuthorizationCredentialType = authType ∧ Nuts.Facts.C01.c_NutsV1Context = nutsContextV1 := by decide

end Nuts.C01.Props
