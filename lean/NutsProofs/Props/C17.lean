/-
  C17 — Signed tokens need exactly one allowed asymmetric signature by the right key.
  ONLY property theorems (+ non-vacuity examples + obligations on the regenerated facts).
  Model: NutsModel/C17/TokenPolicy.lean (+ NutsModel/C04/Token.lean for the bearer token).
  Facts: NutsModel/Facts/C17.lean is REGENERATED from /repo on every run.
-/
import NutsModel.C17.TokenPolicy
import NutsModel.C17.Jwk
import NutsModel.Facts.C17
import NutsProofs.Lemmas.C17

namespace Nuts.C17.Props
open Nuts.C17 Nuts.C04

/-! ### Obligations on the regenerated facts -/

def symmetricOrNone : List String := ["none", "", "HS256", "HS384", "HS512"]

/-- **allowed_lists_asymmetric**: no allow-list of any consumer contains `none` or a MAC algorithm -/
theorem allowed_lists_asymmetric :
    (∀ a ∈ Facts.C17.supportedAlgs, a ∉ symmetricOrNone) ∧
    (∀ a ∈ Facts.C17.dagAllowedAlgs, a ∉ symmetricOrNone) ∧
    (∀ a ∈ Facts.C17.apiPolicy.acceptableAlgs, a ∉ symmetricOrNone) ∧
    (∀ a ∈ Facts.C17.keyDerivedAlgs, a ∉ symmetricOrNone) := by decide

/-- JWTKidAlg / ParseJWT: parse error, `!= 1` signatures, key callback error, unsupported algorithm are the
    error exits; verification is jwt.ParseString with WithKey(alg, key) and WithVerify(true) -/
theorem fact_parseJWT :
    Facts.C17.jwtKidAlgErrConds = ["err != nil", "len(j.Signatures()) != 1"] ∧
    Facts.C17.parseJWTErrConds = ["err != nil", "err != nil", "!jwx.IsAlgorithmSupported(alg)", "!jwx.AlgorithmFitsKey(alg, key)"] ∧
    Facts.C17.parseJWTCalls = ["JWTKidAlg", "f", "jwx.IsAlgorithmSupported", "fmt.Errorf", "jwx.AlgorithmFitsKey", "append", "jwt.WithKey", "jwt.WithVerify", "jwt.ParseString"] := by
  decide

/-- ParseJWS: exactly one signature is demanded and the library verifies over the parsed message -/
theorem fact_parseJWS :
    Facts.C17.parseJWSCountRule = .exactlyOne ∧ Facts.C17.parseJWSVerifyMode = .library ∧
    Facts.C17.parseJWSErrConds =
      ["err != nil", "len(signatures) != 1", "!jwx.IsAlgorithmSupported(alg)", "err != nil", "!jwx.AlgorithmFitsKey(alg, key)"] := by decide

/-- dpop.Parse: its first eight error exits, in order, are the signature discipline (parse, one signature, alg on the
    shared allow-list, typ, jwk present, jwk not private, alg fits the jwk's curve, jwt.ParseString WithKey(alg, jwk)); what follows are claim
    checks (C19's concern, summarised by the harness as one verdict) -/
theorem fact_dpopParse :
    Facts.C17.dpopParseErrConds.take 8 =
      ["err != nil", "len(message.Signatures()) != 1", "!slices.Contains(jwx.SupportedAlgorithms, headers.Algorithm())",
       "headers.Type() != \"dpop+jwt\"", "headers.JWK() == nil", "jwkIsPrivateKey(headers.JWK())",
       "!jwx.AlgorithmFitsKey(headers.Algorithm(), headers.JWK())", "err != nil"] ∧
    Facts.C17.dpopChecksAlgFit = true ∧
    Facts.C17.dpopTyp = "dpop+jwt" ∧ "jwt.WithKey" ∈ Facts.C17.dpopParseCalls ∧
    Facts.C17.dpopVerifyCall = "jwt.ParseString(s, jwt.WithKey(headers.Algorithm(), headers.JWK()))" := by decide

/-- dag.ParseTransaction: 0 and > 1 signatures rejected, the steps in order, alg allow-list, kid xor jwk; the verifier
    takes the embedded key or asks the resolver by kid and calls jws.Verify -/
theorem fact_dagTx :
    Facts.C17.parseTransactionErrConds =
      ["err != nil", "!isJWSSerialization(input)", "len(message.Signatures()) == 0", "len(message.Signatures()) > 1",
       "err := step(result, headers, message); err != nil"] ∧
    Facts.C17.dagStrictFraming = true ∧
    Facts.C17.parseTransactionSteps =
      ["parseSigningAlgorithm", "parsePayload", "parseContentType", "parseSignatureParams", "parseSigningTime", "parseVersion",
       "parsePrevious", "parsePAL", "parseLamportClock"] ∧
    Facts.C17.parseSigningAlgorithmErrConds = ["!isAlgoAllowed(headers.Algorithm())"] ∧
    "jws.Verify" ∈ Facts.C17.dagSignatureVerifierCalls ∧ "jwx.AlgorithmFitsKey" ∈ Facts.C17.dagSignatureVerifierCalls ∧
    Facts.C17.dagChecksAlgFit = true ∧ "resolver.ResolvePublicKey" ∈ Facts.C17.dagSignatureVerifierCalls ∧
    "transaction.SigningKey().Raw" ∈ Facts.C17.dagSignatureVerifierCalls := by decide

set_option maxRecDepth 4000 in
/-- the framing test of the transaction parser, verbatim (the harness re-states exactly this to produce the verdict) -/
theorem fact_dag_framing_body :
    Facts.C17.isJWSSerializationBody =
      "{ if trimmed := bytes.TrimLeftFunc(input, unicode.IsSpace); len(trimmed) > 0 && trimmed[0] == '{' { return true } segments := bytes.Split(input, []byte{'.'}) if len(segments) != 3 { return false } for _, segment := range segments { decoded, err := base64.RawURLEncoding.DecodeString(string(segment)) if err != nil || base64.RawURLEncoding.EncodeToString(decoded) != string(segment) { return false } } return true }" := by rfl

set_option maxRecDepth 4000 in
/-- parseSignatureParams: exactly one of `kid` header / embedded `jwk`, with no exception (in particular not "the kid header
    equals the embedded key's own kid member", which is attacker-chosen text) -/
theorem fact_dag_kid_xor_jwk :
    Facts.C17.parseSignatureParamsErrConds =
      ["(transaction.signingKey != nil && transaction.signingKeyID != \"\") || (transaction.signingKey == nil && transaction.signingKeyID == \"\")"] := by
  rfl

/-- tokenV2 credentialIsSecure: exactly one signature, allow-listed algorithm, none of jwk / jku / x5c / x5u -/
theorem fact_apiToken :
    Facts.C17.apiPolicy.sigRule = .exactlyOne ∧
    Facts.C17.apiPolicy.acceptableAlgs = ["ES256", "ES384", "ES512", "RS512", "PS512", "EdDSA"] ∧
    Facts.C17.apiPolicy.forbiddenHdrs = ["jwk", "jku", "x5c", "x5u"] := by decide

/-- jar.validate and LDProof.Verify (modelled, no harness): their error exits and calls, verbatim -/
theorem fact_jar_ldproof :
    Facts.C17.jarValidateErrConds =
      ["err != nil", "err != nil", "clientId != params.get(oauth.ClientIDParam)", "err != nil", "!exists",
       "err := compareThumbprint(key, publicKey); err != nil"] ∧
    "cryptoNuts.ParseJWT" ∈ Facts.C17.jarValidateCalls ∧ "configuration.JWKs.LookupKeyID" ∈ Facts.C17.jarValidateCalls ∧
    Facts.C17.ldProofVerifyErrConds =
      ["err != nil", "err != nil", "err != nil", "err != nil", "!jwx.AlgorithmFitsKey(alg, key)", "len(splittedJws) != 2", "err != nil",
       "err = jswVerifier.Verify([]byte(challenge), sig, key); err != nil"] ∧
    "nutsCrypto.SignatureAlgorithm" ∈ Facts.C17.ldProofVerifyCalls ∧
    Facts.C17.vcJwtSignatureErrConds = ["err != nil", "at == nil", "err != nil", "keyID != \"\" && strings.Split(keyID, \"#\")[0] != issuer"] ∧
    "crypto.ParseJWT" ∈ Facts.C17.vcJwtSignatureCalls := by decide

/-- v1 authz server: validateIssuer binds the kid to `iss`; both ParseJWT call sites use the DID key resolver (introspection
    additionally requires the key to be one of this node's own: an ERROR of the key store lookup and "not present" are both
    error exits of the key callback, in that order, before the resolver is asked) -/
theorem fact_authzV1 :
    Facts.C17.authzV1ChecksKidIssuer = true ∧
    "kidDID, err := did.ParseDIDURL(vContext.kid); err != nil || kidDID.DID.String() != vContext.requester.String()" ∈ Facts.C17.validateIssuerErrConds ∧
    "nutsCrypto.ParseJWT" ∈ Facts.C17.parseBearerTokenCalls ∧ "s.keyResolver.ResolveKeyByID" ∈ Facts.C17.parseBearerTokenCalls ∧
    "nutsCrypto.ParseJWT" ∈ Facts.C17.introspectCalls ∧ "s.privateKeyStore.Exists" ∈ Facts.C17.introspectCalls ∧
    Facts.C17.introspectErrConds.take 2 = ["err != nil", "!exists"] := by decide

/-- the process-global allow-list is extended in exactly one place (the ES256K build tag), and the DAG signature verifier is
    installed by the network engine -/
theorem fact_wiring :
    Facts.C17.addSupportedAlgorithmCallers = ["crypto/jwx/jwx_es256k.go"] ∧
    Facts.C17.dagSignatureVerifierInstalledIn = ["network/network.go"] := by decide

set_option maxRecDepth 8000 in
/-- crypto/jwx.AlgorithmFitsKey, verbatim (P-256 ↔ ES256, P-384 ↔ ES384, P-521 ↔ ES512; Ed25519 keys: EdDSA and 32 bytes; the harness's `fits` verdict is its own
    re-statement of RFC 7518 3.4); the bearer-token key loop counts a jwx-verified credential whose header algorithm does not fit
    the authorised key as NOT verified by that key (the harness's `verifies` verdict includes the fit) -/
theorem fact_alg_fits_key :
    Facts.C17.algorithmFitsKeyBody =
      "{ var curve string switch k := key.(type) { case ed25519.PublicKey: return alg == jwa.EdDSA && len(k) == ed25519.PublicKeySize case *ed25519.PublicKey: return k != nil && alg == jwa.EdDSA && len(*k) == ed25519.PublicKeySize case jwk.OKPPublicKey: if k.Crv() == jwa.Ed25519 { return alg == jwa.EdDSA && len(k.X()) == ed25519.PublicKeySize } return true case *ecdsa.PublicKey: curve = k.Params().Name case ecdsa.PublicKey: curve = k.Params().Name case *ecdsa.PrivateKey: curve = k.Params().Name case jwk.ECDSAPublicKey: curve = k.Crv().String() case jwk.ECDSAPrivateKey: curve = k.Crv().String() default: return true } switch curve { case \"P-256\": return alg == jwa.ES256 case \"P-384\": return alg == jwa.ES384 case \"P-521\": return alg == jwa.ES512 default: return true } }" ∧
    Facts.C17.apiTokenKeyLoopFitTest =
      "err == nil && !credentialAlgorithmFitsKey(credential, authorizedKey) => { err = errors.New(\"signing algorithm does not fit the authorized key\") }" ∧
    "nutsJwx.AlgorithmFitsKey" ∈ Facts.C17.credentialAlgorithmFitsKeyCalls ∧ "cryptoPublicKey" ∈ Facts.C17.credentialAlgorithmFitsKeyCalls := by
  refine ⟨by rfl, by rfl, by decide, by decide⟩

/-- **fits_is_the_algorithm_of_the_curve**: for a key on P-256 / P-384 / P-521 the helper says "fits" for exactly one algorithm,
    the one RFC 7518 3.4 gives that curve (in particular a P-521 key does not fit ES256 or ES384); an Ed25519 key fits EdDSA
    only, and only when it is 32 bytes long -/
theorem fits_is_the_algorithm_of_the_curve (alg : String) :
    (∀ c a, algOfCurve c = some a → (algorithmFitsKey alg (.ecdsa c) = true ↔ alg = a)) ∧
    (algOfCurve "P-256" = some "ES256" ∧ algOfCurve "P-384" = some "ES384" ∧ algOfCurve "P-521" = some "ES512") ∧
    (∀ n, algorithmFitsKey alg (.ed25519 n) = true ↔ alg = "EdDSA" ∧ n = 32) := by
  refine ⟨?_, ⟨rfl, rfl, rfl⟩, ?_⟩
  · intro c a h
    simp [algorithmFitsKey, h]
  · intro n
    simp [algorithmFitsKey]

example : algorithmFitsKey "ES256" (.ecdsa "P-521") = false ∧ algorithmFitsKey "ES512" (.ecdsa "P-521") = true ∧
    algorithmFitsKey "ES512" (.ecdsa "P-256") = false ∧ algorithmFitsKey "EdDSA" (.ed25519 31) = false := by decide

/-- the long-lived objects that verify tokens hold services and constants only — no map, cache or captured variable that could
    remember a key resolved for an earlier request: the verification key is a function of the CURRENT resolution. (The bearer-token
    middleware's fields are pinned by C04's fact_middleware_stateless.) -/
theorem fact_verifiers_hold_no_key_state :
    Facts.C17.dagVerifierClosureState = [] ∧
    Facts.C17.jarFields = ["auth auth.AuthenticationServices", "jwtSigner cryptoNuts.JWTSigner", "keyResolver resolver.KeyResolver"] ∧
    Facts.C17.signatureVerifierFields = ["keyResolver resolver.KeyResolver", "jsonldManager jsonld.JSONLD"] ∧
    Facts.C17.authzServerFields =
      ["vcFinder vcr.Finder", "vcVerifier verifier.Verifier", "keyResolver resolver.KeyResolver", "privateKeyStore nutsCrypto.KeyStore",
       "contractNotary services.ContractNotary", "serviceResolver didman.CompoundServiceResolver", "jsonldManager jsonld.JSONLD",
       "secureMode bool", "clockSkew time.Duration", "accessTokenLifeSpan time.Duration"] := by decide

/-- **key_is_current_resolution**: on the model, what a consumer accepts after any earlier requests is decided by the key source
    as it is NOW — two environments that agree on the current lookup of the token's kid (and on jwx's verdicts) give the same
    outcome, whatever they answered for other kids or earlier -/
theorem key_is_current_resolution (E E' : Env) (j : Jws) (s : Sig) (hs : j.sigs = [s])
    (hres : E.resolve s.kid = E'.resolve s.kid) (hver : E.verifies = E'.verifies) (hfit : E.fits = E'.fits) :
    parseJWT Facts.C17.supportedAlgs E j = parseJWT Facts.C17.supportedAlgs E' j := by
  unfold parseJWT
  simp only [hs, hres, hver, hfit]

/-! ### The uniform statement -/

/-- the discipline of an accepted token: exactly one signature `s`, exactly one verification `v`, of that signature,
    with the algorithm its protected header names, on the allow-list, over the signature's own signing input, and a
    consumer-specific condition on where the key came from -/
def Disciplined (allowed : List String) (j : Jws) (vs : List Verified) (keyOK : Sig → Verified → Prop) : Prop :=
  ∃ s v, j.sigs = [s] ∧ vs = [v] ∧ v.idx = 0 ∧ v.alg = s.alg ∧ s.alg ∈ allowed ∧ s.alg ∉ symmetricOrNone ∧
    v.overSigningInput = true ∧ keyOK s v

/-- crypto.ParseJWT: the key is the one the protocol's source returns for the token's kid, jwx verified with it, and the
    algorithm fits that key (an ECDSA key only with the algorithm of its curve) -/
theorem accept_parseJWT (E : Env) (j : Jws) (vs : List Verified)
    (h : parseJWT Facts.C17.supportedAlgs E j = .accept vs) :
    Disciplined Facts.C17.supportedAlgs j vs (fun s v =>
      v.src = .resolver s.kid ∧ E.resolve s.kid = some v.key ∧ E.verifies v.key s.alg 0 = true ∧ E.fits v.key s.alg = true) := by
  obtain ⟨s, k, hs, hv, hr, hal, hver, hfit⟩ := parseJWT_accept h
  exact ⟨s, _, hs, hv, rfl, rfl, hal, allowed_lists_asymmetric.1 _ hal, rfl, rfl, hr, hver, hfit⟩

/-- crypto.ParseJWS (as the source is now: one signature, library verification) -/
theorem accept_parseJWS (E : Env) (j : Jws) (vs : List Verified)
    (h : parseJWS Facts.C17.supportedAlgs Facts.C17.parseJWSCountRule Facts.C17.parseJWSVerifyMode E j = .accept vs) :
    Disciplined Facts.C17.supportedAlgs j vs (fun s v =>
      v.src = .resolver s.kid ∧ E.resolve s.kid = some v.key ∧ E.verifies v.key s.alg 0 = true ∧ E.fits v.key s.alg = true) := by
  rw [fact_parseJWS.1, fact_parseJWS.2.1] at h
  obtain ⟨s, k, hs, hv, hr, hal, hver, hfit⟩ := parseJWS_accept_fixed h
  exact ⟨s, _, hs, hv, rfl, rfl, hal, allowed_lists_asymmetric.1 _ hal, rfl, rfl, hr, hver, hfit⟩

/-- the hand-rolled verification the source had before the repair does NOT have the property: two signatures are
    accepted and what was verified is not the signing input (the payload is not covered). Replayed on the real
    ParseJWS by the harness (variants json-split-confusion-*). -/
theorem parseJWS_splitCompact_mode_accepts_two_uncovered :
    ∃ E j vs, parseJWS Facts.C17.supportedAlgs .none .splitCompact E j = .accept vs ∧ j.sigs.length = 2 ∧
      ∀ v ∈ vs, v.overSigningInput = false := by
  refine ⟨{ resolve := fun _ => some "K", embeddedKey := fun _ => none, verifies := fun _ _ _ => false, verifiesSplit := fun _ _ _ => true },
    { parses := true, splitOK := true,
      sigs := [{ alg := "ES256", kid := "k", jwk := .absent, hdrs := [], typ := "" }, { alg := "ES256", kid := "k", jwk := .absent, hdrs := [], typ := "" }] },
    [{ key := "K", src := .resolver "k", alg := "ES256", idx := 0, overSigningInput := false },
     { key := "K", src := .resolver "k", alg := "ES256", idx := 1, overSigningInput := false }], ?_, rfl, ?_⟩
  · decide
  · decide

/-- dpop.Parse: the key is the embedded jwk (mandated by RFC 9449), it is present and not a private key; with the jwx
    contract "an asymmetric algorithm never verifies with an octet key" it is a public key -/
theorem accept_dpop (E : Env) (claimsOK : Bool) (j : Jws) (vs : List Verified)
    (h : dpopParse Facts.C17.supportedAlgs Facts.C17.dpopTyp E claimsOK j = .accept vs) :
    Disciplined Facts.C17.supportedAlgs j vs (fun s v =>
      v.src = .embedded 0 ∧ E.embeddedKey 0 = some v.key ∧ E.verifies v.key s.alg 0 = true ∧ E.fits v.key s.alg = true ∧
      s.typ = "dpop+jwt" ∧ s.jwk ≠ .absent ∧ s.jwk ≠ .priv ∧
      ((∀ k a, s.jwk = .sym → E.verifies k a 0 = false) → s.jwk = .pub)) := by
  obtain ⟨s, k, hs, hv, hal, htyp, hj1, hj2, hek, hver, hfit⟩ := dpop_accept h
  refine ⟨s, _, hs, hv, rfl, rfl, hal, allowed_lists_asymmetric.1 _ hal, rfl, rfl, hek, hver, hfit, ?_, hj1, hj2, ?_⟩
  · rw [htyp]; exact fact_dpopParse.2.2.1
  · intro hc
    cases hk : s.jwk with
    | absent => exact absurd hk hj1
    | priv => exact absurd hk hj2
    | pub => rfl
    | sym => rw [hc k s.alg hk] at hver; cases hver

/-- the full statement for DAG transactions -/
def dagTxStmt : Prop :=
  ∀ (E : Env) (otherOK framingOK : Bool) (j : Jws) (vs : List Verified),
    dagTx Facts.C17.dagAllowedAlgs Facts.C17.dagRejectsPrivateJwk Facts.C17.dagStrictFraming E otherOK framingOK j = .accept vs →
    framingOK = true ∧
    Disciplined Facts.C17.dagAllowedAlgs j vs (fun s v =>
      E.verifies v.key s.alg 0 = true ∧ E.fits v.key s.alg = true ∧
      ((v.src = .embedded 0 ∧ E.embeddedKey 0 = some v.key ∧ s.jwk ≠ .absent ∧ s.kid = "") ∨
       (v.src = .resolver s.kid ∧ E.resolve s.kid = some v.key ∧ s.jwk = .absent ∧ s.kid ≠ "")) ∧
      s.jwk ≠ .priv)

/-- everything but "an embedded private key is refused", whatever the parser does about private keys -/
theorem accept_dagTx_partial (rej strict : Bool) (E : Env) (otherOK framingOK : Bool) (j : Jws) (vs : List Verified)
    (h : dagTx Facts.C17.dagAllowedAlgs rej strict E otherOK framingOK j = .accept vs) :
    Disciplined Facts.C17.dagAllowedAlgs j vs (fun s v =>
      E.verifies v.key s.alg 0 = true ∧ E.fits v.key s.alg = true ∧
      ((v.src = .embedded 0 ∧ E.embeddedKey 0 = some v.key ∧ s.jwk ≠ .absent ∧ s.kid = "") ∨
       (v.src = .resolver s.kid ∧ E.resolve s.kid = some v.key ∧ s.jwk = .absent ∧ s.kid ≠ "")) ∧
      (rej = true → s.jwk ≠ .priv)) := by
  obtain ⟨s, v, hs, hv, hidx, halg, hal, hov, hver, hsrc, hpriv, _, hfit⟩ := dagTx_accept h
  exact ⟨s, v, hs, hv, hidx, halg, hal, allowed_lists_asymmetric.2.1 _ hal, hov, hver, hfit, hsrc, hpriv⟩

/-- the full statement holds as soon as the parser refuses embedded private keys (regenerated fact) -/
theorem accept_dagTx_of_fact (hf : Facts.C17.dagRejectsPrivateJwk = true) : dagTxStmt := by
  intro E otherOK framingOK j vs h
  obtain ⟨s, v, hs, hv, hidx, halg, hal, hasym, hov, hver, hfit, hsrc, hpriv⟩ := accept_dagTx_partial _ _ E otherOK framingOK j vs h
  obtain ⟨_, _, _, _, _, _, _, _, _, _, _, hfr, _⟩ := dagTx_accept h
  exact ⟨hfr fact_dagTx.2.1, s, v, hs, hv, hidx, halg, hal, hasym, hov, hver, hfit, hsrc, hpriv hf⟩

/-- the parser refuses a `jwk` header holding an ECDSA / RSA / OKP private key (type switch in parseSignatureParams) -/
theorem fact_dag_rejects_private_jwk :
    Facts.C17.dagRejectsPrivateJwk = true ∧
    (∀ t ∈ ["jwk.ECDSAPrivateKey", "jwk.RSAPrivateKey", "jwk.OKPPrivateKey"], t ∈ Facts.C17.parseSignatureParamsRejectedKeyTypes) := by decide

/-- DAG transactions, full statement: the bytes are a JWS serialisation in canonical framing (JSON, or three unpadded
    canonical base64url segments: the compact bytes verified are exactly the bytes received), one signature, allow-listed asymmetric algorithm, verified over its signing
    input with the embedded key (jwk form, no kid) or the key the resolver returns for the kid (kid form, no jwk), and
    an embedded private key is refused -/
theorem accept_dagTx : dagTxStmt := accept_dagTx_of_fact fact_dag_rejects_private_jwk.1

/-- a parser that does not look at the key kind accepts a transaction carrying a PRIVATE jwk (witness replayed on the
    real ParseTransaction + signature verifier: variants embed-jwk-priv-*) -/
theorem dagTx_without_private_check_accepts_private_jwk :
    ∃ E j vs s, dagTx Facts.C17.dagAllowedAlgs false true E true true j = .accept vs ∧ j.sigs = [s] ∧ s.jwk = .priv := by
  refine ⟨{ resolve := fun _ => none, embeddedKey := fun _ => some "E", verifies := fun _ _ _ => true, verifiesSplit := fun _ _ _ => false },
    { parses := true, splitOK := true, sigs := [{ alg := "ES256", kid := "", jwk := .priv, hdrs := ["jwk"], typ := "" }] },
    [{ key := "E", src := .embedded 0, alg := "ES256", idx := 0, overSigningInput := true }],
    { alg := "ES256", kid := "", jwk := .priv, hdrs := ["jwk"], typ := "" }, ?_, rfl, rfl⟩
  decide

/-- internal-API bearer token: exactly one signature, allow-listed algorithm, no key-carrying header, verified with a
    line of the authorized_keys file whose comment is the issuer -/
theorem accept_apiToken (aud : String) (keys : List AuthKey) (now : Int) (hdr : Str) (a : Analysis) (vs : List Verified)
    (h : apiToken Facts.C17.apiPolicy aud keys now hdr a = .accept vs) :
    ∃ s v i, a.sigs = [s] ∧ vs = [v] ∧ v.idx = 0 ∧ v.alg = s.alg ∧ s.alg ∈ Facts.C17.apiPolicy.acceptableAlgs ∧
      s.alg ∉ symmetricOrNone ∧ (∀ x ∈ ["jwk", "jku", "x5c", "x5u"], x ∉ s.hdrs) ∧
      v.src = .authorizedKeys i ∧ a.verifies[i]? = some true ∧
      (∃ k u, (k, true) ∈ keys.zip a.verifies ∧ k.comment = u ∧ a.claims.iss = some u) := by
  obtain ⟨s, i, u, hs, hv, hal, hforb, hi, k, hk, hc, hiss⟩ := apiToken_accept fact_apiToken.1 fact_apiToken.2.2 h
  exact ⟨s, _, i, hs, hv, rfl, by simp [hs], hal, allowed_lists_asymmetric.2.2.1 _ hal, hforb, rfl, hi, k, u, hk, hc, hiss⟩

/-- the rule the source had before the repair (`secureSignatureCount > 0`) accepts two signatures
    (witness replayed on the real middleware: variants json-two-sigs-valid-*) -/
theorem apiToken_atLeastOne_rule_accepts_two_signatures :
    ∃ a vs, apiToken { Facts.C17.apiPolicy with sigRule := .atLeastOne } "aud" [{ comment := "alice" }] 1000 ("Bearer x".toList) a = .accept vs ∧
      a.sigs.length = 2 := by
  refine ⟨{ parses := true, sigs := [{ alg := "EdDSA", hdrs := [] }, { alg := "ES256", hdrs := [] }], verifies := [true],
            claims := { jti := some true, iat := some 900, nbf := some 900, exp := some 2000, aud := some ["aud"],
                        iss := some "alice", sub := some "operator" } },
          [{ key := "authorized-key", src := .authorizedKeys 0, alg := "EdDSA", idx := 0, overSigningInput := true }], ?_, rfl⟩
  decide

/-- jar.validate: ParseJWT's discipline, and the signer key is one the client publishes under that kid -/
theorem accept_jar (E : Env) (J : JarEnv) (j : Jws) (vs : List Verified)
    (h : jarValidate Facts.C17.supportedAlgs E J j = .accept vs) :
    Disciplined Facts.C17.supportedAlgs j vs (fun s v =>
      v.src = .resolver s.kid ∧ E.resolve s.kid = some v.key ∧ E.verifies v.key s.alg 0 = true ∧ E.fits v.key s.alg = true ∧
      J.clientKey s.kid = some v.key ∧ J.clientIdMatches = true) := by
  obtain ⟨hp, hcid, hck⟩ := jar_accept h
  obtain ⟨s, v, hs, hv, hidx, halg, hal, hasym, hov, hsrc, hres, hver, hfit⟩ := accept_parseJWT E j vs hp
  exact ⟨s, v, hs, hv, hidx, halg, hal, hasym, hov, hsrc, hres, hver, hfit, hck s v hs hv hsrc, hcid⟩

/-- VC / VP in JWT format (signature_verifier.jwtSignature): ParseJWT's discipline with the DID key resolver (an absent
    kid resolves the issuer's key), and a present kid belongs to the issuer -/
theorem accept_vcJwt (E : Env) (issuer : String) (didOf : String → String) (j : Jws) (vs : List Verified)
    (h : vcJwtSignature Facts.C17.supportedAlgs E issuer didOf j = .accept vs) :
    Disciplined Facts.C17.supportedAlgs j vs (fun s v =>
      E.resolve (if s.kid = "" then issuer else s.kid) = some v.key ∧ E.verifies v.key s.alg 0 = true ∧ E.fits v.key s.alg = true ∧
      (s.kid ≠ "" → didOf s.kid = issuer)) := by
  obtain ⟨hp, hiss⟩ := vcJwt_accept h
  obtain ⟨s, v, hs, hv, hidx, halg, hal, hasym, hov, _, hres, hver, hfit⟩ := accept_parseJWT _ j vs hp
  exact ⟨s, v, hs, hv, hidx, halg, hal, hasym, hov, hres, hver, hfit, hiss s hs⟩

/-- v1 authorization server, JWT bearer grant (parseAndValidateJwtBearerToken + validateIssuer): ParseJWT's discipline
    with the DID key resolver, `iss` is a DID, and the kid is a DID URL of exactly that DID — the verifying key is one the
    ISSUER's DID document lists, not merely some resolvable key -/
theorem accept_authzV1 (E : Env) (issuer : String) (ip : Bool) (didOf : String → String) (j : Jws) (vs : List Verified)
    (h : authzV1 Facts.C17.supportedAlgs Facts.C17.authzV1ChecksKidIssuer E issuer ip didOf j = .accept vs) :
    Disciplined Facts.C17.supportedAlgs j vs (fun s v =>
      v.src = .resolver s.kid ∧ E.resolve s.kid = some v.key ∧ E.verifies v.key s.alg 0 = true ∧ E.fits v.key s.alg = true ∧ didOf s.kid = issuer) := by
  rw [fact_authzV1.1] at h
  obtain ⟨hp, _, hiss⟩ := authzV1_accept h
  obtain ⟨s, v, hs, hv, hidx, halg, hal, hasym, hov, hsrc, hres, hver, hfit⟩ := accept_parseJWT E j vs hp
  exact ⟨s, v, hs, hv, hidx, halg, hal, hasym, hov, hsrc, hres, hver, hfit, hiss s hs⟩

/-- without the kid/issuer test any resolvable party signs in the name of any requester (witness replayed on the real
    parseAndValidateJwtBearerToken + validateIssuer: variants signed-by-attacker-own-kid, lookalike(...)) -/
theorem authzV1_without_kid_check_accepts_foreign_key :
    ∃ E j vs s, authzV1 Facts.C17.supportedAlgs false E "did:nuts:victim" true (fun k => (k.splitOn "#").headD "") j = .accept vs ∧
      j.sigs = [s] ∧ s.kid = "did:nuts:mallory#k" := by
  refine ⟨{ resolve := fun _ => some "Km", embeddedKey := fun _ => none, verifies := fun _ _ _ => true, verifiesSplit := fun _ _ _ => false },
    { parses := true, splitOK := true, sigs := [{ alg := "ES256", kid := "did:nuts:mallory#k", jwk := .absent, hdrs := [], typ := "JWT" }] },
    [{ key := "Km", src := .resolver "did:nuts:mallory#k", alg := "ES256", idx := 0, overSigningInput := true }],
    { alg := "ES256", kid := "did:nuts:mallory#k", jwk := .absent, hdrs := [], typ := "JWT" }, ?_, rfl, rfl⟩
  decide

/-- LDProof.Verify: one verification with the caller's key; the algorithm is the one derived from that key (so it
    fits the key and, by the regenerated list of constants `SignatureAlgorithm` can return, is asymmetric); the
    detached JWS header of the proof is never read -/
theorem accept_ldProof (L : LdEnv) (key : Key) (canon : Bool) (parts : Nat) (dec : Bool) (vs : List Verified)
    (hderive : ∀ k a, L.keyAlg k = some a → a ∈ Facts.C17.keyDerivedAlgs)
    (h : ldProofVerify L key canon parts dec = .accept vs) :
    ∃ v, vs = [v] ∧ v.key = key ∧ v.src = .caller ∧ L.keyAlg key = some v.alg ∧ v.alg ∉ symmetricOrNone ∧
      L.verifiesDetached key v.alg = true ∧ parts = 2 ∧ L.fits key v.alg = true := by
  obtain ⟨alg, hv, hka, hver, hparts, hfit⟩ := ldProof_accept h
  exact ⟨_, hv, rfl, rfl, hka, allowed_lists_asymmetric.2.2.2 _ (hderive _ _ hka), hver, hparts, hfit⟩

/-- VC / VP with a JSON-LD proof (signature_verifier.jsonldProof): `proof` is a single object (a proof SET — an array, of any
    length — is refused: exactly one signature), the one verification is made with the key the resolver
    returns for the proof's verificationMethod, and that verificationMethod is a DID URL of exactly the issuer's DID -/
theorem accept_vcJsonLd (E : Env) (L : LdEnv) (po : Bool) (issuer vm : String) (didOf : String → String) (va canon : Bool) (parts : Nat)
    (dec : Bool) (vs : List Verified)
    (hderive : ∀ k a, L.keyAlg k = some a → a ∈ Facts.C17.keyDerivedAlgs)
    (h : vcJsonLdProof E L po issuer vm didOf va canon parts dec = .accept vs) :
    po = true ∧ didOf vm = issuer ∧ ∃ k v, E.resolve vm = some k ∧ vs = [v] ∧ v.key = k ∧ L.keyAlg k = some v.alg ∧
      v.alg ∉ symmetricOrNone ∧ L.verifiesDetached k v.alg = true := by
  unfold vcJsonLdProof at h
  split at h; · cases h
  next hpo =>
  split at h; · cases h
  split at h; · cases h
  next hiss =>
  split at h; · cases h
  split at h; · cases h
  next k hk =>
  obtain ⟨v, hv, hkey, _, hka, hasym, hver, _⟩ := accept_ldProof L k canon parts dec vs hderive h
  simp only [Bool.or_eq_true, decide_eq_true_eq, not_or, Decidable.not_not] at hiss
  exact ⟨by simpa using hpo, hiss.2, k, v, hk, hv, hkey, hka, hasym, hver⟩

/-- jsonldProof's error exits, verbatim -/
theorem fact_vcJsonLd :
    "err = signedDocument.UnmarshalProofValue(&ldProof); err != nil" ∈ Facts.C17.vcJsonLdErrConds ∧
    Facts.C17.vcJsonLdProofAssignments = [] ∧
    "verificationMethod == \"\"" ∈ Facts.C17.vcJsonLdErrConds ∧
    "verificationMethodIssuer == \"\" || verificationMethodIssuer != issuer" ∈ Facts.C17.vcJsonLdErrConds ∧
    "!ldProof.ValidAt(validAt, maxSkew)" ∈ Facts.C17.vcJsonLdErrConds ∧
    "sv.keyResolver.ResolveKeyByID" ∈ Facts.C17.vcJsonLdCalls ∧ "ldProof.Verify" ∈ Facts.C17.vcJsonLdCalls := by decide

/-! ### header_keys_ignored -/

/-- rewrite the key-carrying headers of every signature -/
def withHeaders (f : Sig → JwkKind) (g : Sig → List String) (j : Jws) : Jws :=
  { j with sigs := j.sigs.map (fun s => { s with jwk := f s, hdrs := g s }) }

/-- **header_keys_ignored**: where no embedded key is mandated (ParseJWT, ParseJWS, jar) the decision and the key
    used do not depend on jwk / jku / x5c / x5u at all; for DPoP and DAG transactions (embedded jwk mandated /
    allowed) they do not depend on jku / x5c / x5u; for the bearer token any such header can only cause rejection -/
theorem header_keys_ignored (E : Env) (j : Jws) (f : Sig → JwkKind) (g : Sig → List String) :
    parseJWT Facts.C17.supportedAlgs E (withHeaders f g j) = parseJWT Facts.C17.supportedAlgs E j ∧
    parseJWS Facts.C17.supportedAlgs Facts.C17.parseJWSCountRule Facts.C17.parseJWSVerifyMode E (withHeaders f g j)
      = parseJWS Facts.C17.supportedAlgs Facts.C17.parseJWSCountRule Facts.C17.parseJWSVerifyMode E j ∧
    (∀ J, jarValidate Facts.C17.supportedAlgs E J (withHeaders f g j) = jarValidate Facts.C17.supportedAlgs E J j) ∧
    (∀ c, dpopParse Facts.C17.supportedAlgs Facts.C17.dpopTyp E c (withHeaders (·.jwk) g j)
      = dpopParse Facts.C17.supportedAlgs Facts.C17.dpopTyp E c j) ∧
    (∀ o fr, dagTx Facts.C17.dagAllowedAlgs Facts.C17.dagRejectsPrivateJwk Facts.C17.dagStrictFraming E o fr (withHeaders (·.jwk) g j)
      = dagTx Facts.C17.dagAllowedAlgs Facts.C17.dagRejectsPrivateJwk Facts.C17.dagStrictFraming E o fr j) :=
  ⟨parseJWT_headers_irrelevant _ _ _ _ _, parseJWS_headers_irrelevant _ _ _ _ _ _ _,
   fun J => jar_headers_irrelevant _ _ _ _ _ _, fun c => dpop_hdrs_irrelevant _ _ _ _ _ _, fun o fr => dagTx_hdrs_irrelevant _ _ _ _ _ _ _ _⟩

theorem apiToken_key_header_rejected (aud : String) (keys : List AuthKey) (now : Int) (hdr : Str) (a : Analysis)
    (s : SigHdr) (x : String) (hs : s ∈ a.sigs) (hx : x ∈ s.hdrs) (hf : x ∈ ["jwk", "jku", "x5c", "x5u"]) :
    apiToken Facts.C17.apiPolicy aud keys now hdr a = .reject :=
  apiToken_forbidden_header fact_apiToken.2.2 hs hx hf

/-! ### non-vacuity -/

example : parseJWT Facts.C17.supportedAlgs
    { resolve := fun kid => if kid = "did:nuts:a#k" then some "Ka" else none, embeddedKey := fun _ => none,
      verifies := fun k a i => k = "Ka" && a = "ES256" && i = 0, verifiesSplit := fun _ _ _ => false }
    { parses := true, splitOK := true, sigs := [{ alg := "ES256", kid := "did:nuts:a#k", jwk := .absent, hdrs := [], typ := "JWT" }] }
    = .accept [{ key := "Ka", src := .resolver "did:nuts:a#k", alg := "ES256", idx := 0, overSigningInput := true }] := by decide

example : dpopParse Facts.C17.supportedAlgs Facts.C17.dpopTyp
    { resolve := fun _ => none, embeddedKey := fun _ => some "E", verifies := fun _ _ _ => true, verifiesSplit := fun _ _ _ => false } true
    { parses := true, splitOK := true, sigs := [{ alg := "EdDSA", kid := "", jwk := .pub, hdrs := ["jwk"], typ := "dpop+jwt" }] }
    = .accept [{ key := "E", src := .embedded 0, alg := "EdDSA", idx := 0, overSigningInput := true }] := by decide

example : dagTx Facts.C17.dagAllowedAlgs true true
    { resolve := fun _ => some "K", embeddedKey := fun _ => none, verifies := fun _ _ _ => true, verifiesSplit := fun _ _ _ => false } true true
    { parses := true, splitOK := true, sigs := [{ alg := "ES256", kid := "did:nuts:a#k", jwk := .absent, hdrs := [], typ := "" }] }
    = .accept [{ key := "K", src := .resolver "did:nuts:a#k", alg := "ES256", idx := 0, overSigningInput := true }] := by decide


/-! ### Deepening round 2: clause (e) INSIDE the embedded jwk header (NutsModel/C17/Jwk.lean) — dpop.jwkIsPrivateKey over the
    regenerated probe sequence, the type switch of dag.parseSignatureParams over the regenerated interface list -/
section JwkObject
open Nuts.C17.Jwk

theorem fact_dpop_private_probes :
    Facts.C17.dpopPrivateProbes = ["rsa.PrivateKey", "ecdsa.PrivateKey", "ed25519.PrivateKey"] ∧
    Facts.C17.dpopPrivateProbeDefault = false ∧
    Facts.C17.parseSignatureParamsRejectedKeyTypes = ["jwk.ECDSAPrivateKey", "jwk.RSAPrivateKey", "jwk.OKPPrivateKey", "jwk.SymmetricKey"] := by decide

theorem dag_refuses_exactly_the_secret_jwks (t : JwkType) :
    dagRefusesJwk Facts.C17.parseSignatureParamsRejectedKeyTypes t = holdsSecret t := by
  cases t <;> decide

theorem dpop_private_test_exact (t : JwkType) (crv : String) :
    jwkIsPrivateKey Facts.C17.dpopPrivateProbes Facts.C17.dpopPrivateProbeDefault t crv = true ↔
      (t = .rsaPriv ∨ t = .ecPriv ∨ t = .sym ∨ (t = .okpPriv ∧ crv = "Ed25519")) := by
  cases t <;> simp [jwkIsPrivateKey, Facts.C17.dpopPrivateProbes, Facts.C17.dpopPrivateProbeDefault, rawInto, List.any]

theorem dpop_private_test_misses_other_okp_curves :
    jwkIsPrivateKey Facts.C17.dpopPrivateProbes Facts.C17.dpopPrivateProbeDefault .okpPriv "X25519" = false ∧
    holdsSecret .okpPriv = true := by decide

theorem map_eq_singleton {α β} {f : α → β} {l : List α} {b : β} (h : l.map f = [b]) : ∃ a, l = [a] ∧ f a = b := by
  match l, h with
  | [a], h => exact ⟨a, rfl, by simpa using h⟩

theorem accept_dpopJ (E : Env) (claimsOK : Bool) (j : Jws) (o : Option JwkObj) (vs : List Verified)
    (h : dpopParseJ Facts.C17.supportedAlgs Facts.C17.dpopTyp Facts.C17.dpopPrivateProbes Facts.C17.dpopPrivateProbeDefault E claimsOK j o = .accept vs) :
    ∃ ob t s k, o = some ob ∧ typeOf ob = some t ∧ j.sigs = [s] ∧ E.verifies k s.alg 0 = true ∧
      t ≠ .rsaPriv ∧ t ≠ .ecPriv ∧ t ≠ .sym ∧ ¬ (t = .okpPriv ∧ ob.crv = "Ed25519") ∧
      ((∀ k a, t = .okpPriv → E.verifies k a 0 = false) → holdsSecret t = false) := by
  unfold dpopParseJ at h
  split at h; · cases h
  next kd hk =>
  obtain ⟨s', k, hs, _, _, _, hj1, hj2, _, hver, _⟩ := dpop_accept h
  obtain ⟨s, hs0, hs1⟩ := map_eq_singleton hs
  have hjk : s'.jwk = kd := by rw [← hs1]
  rw [hjk] at hj1 hj2
  have halg : s'.alg = s.alg := by rw [← hs1]
  rw [halg] at hver
  cases o with
  | none => simp [kindOf] at hk; exact absurd hk.symm hj1
  | some ob =>
    simp only [kindOf] at hk
    split at hk; · cases hk
    next t ht =>
    have hp : jwkIsPrivateKey Facts.C17.dpopPrivateProbes Facts.C17.dpopPrivateProbeDefault t ob.crv = false := by
      cases hpp : jwkIsPrivateKey Facts.C17.dpopPrivateProbes Facts.C17.dpopPrivateProbeDefault t ob.crv with
      | false => rfl
      | true => rw [hpp] at hk; simp at hk; exact absurd hk.symm hj2
    have hne : ¬ (t = .rsaPriv ∨ t = .ecPriv ∨ t = .sym ∨ (t = .okpPriv ∧ ob.crv = "Ed25519")) := by
      intro hc; rw [(dpop_private_test_exact t ob.crv).2 hc] at hp; cases hp
    refine ⟨ob, t, s, k, rfl, ht, hs0, hver, fun e => hne (.inl e), fun e => hne (.inr (.inl e)), fun e => hne (.inr (.inr (.inl e))),
      fun e => hne (.inr (.inr (.inr e))), ?_⟩
    intro hc
    cases t with
    | ecPub | rsaPub | okpPub => rfl
    | ecPriv => exact absurd (.inr (.inl rfl)) hne
    | rsaPriv => exact absurd (.inl rfl) hne
    | sym => exact absurd (.inr (.inr (.inl rfl))) hne
    | okpPriv => rw [hc k s.alg rfl] at hver; cases hver

theorem accept_dagTxJ (E : Env) (otherOK framingOK : Bool) (j : Jws) (o : Option JwkObj) (vs : List Verified)
    (h : dagTxJ Facts.C17.dagAllowedAlgs Facts.C17.parseSignatureParamsRejectedKeyTypes Facts.C17.dagStrictFraming E otherOK framingOK j o = .accept vs) :
    o = none ∨ ∃ ob t, o = some ob ∧ typeOf ob = some t ∧ holdsSecret t = false := by
  unfold dagTxJ at h
  split at h; · cases h
  next kd hk =>
  obtain ⟨s', v, hs, _, _, _, _, _, _, _, hpriv, _, _⟩ := dagTx_accept h
  obtain ⟨s, hs0, hs1⟩ := map_eq_singleton hs
  have hjk : s'.jwk = kd := by rw [← hs1]
  have hj2 := hpriv rfl
  rw [hjk] at hj2
  cases o with
  | none => exact .inl rfl
  | some ob =>
    right
    simp only [kindOf] at hk
    split at hk; · cases hk
    next t ht =>
    refine ⟨ob, t, rfl, ht, ?_⟩
    rw [← dag_refuses_exactly_the_secret_jwks]
    cases hpp : dagRefusesJwk Facts.C17.parseSignatureParamsRejectedKeyTypes t with
    | false => rfl
    | true => simp [hpp] at hk; exact absurd hk.symm hj2


/-- non-vacuity: a DPoP proof with a public EC jwk is accepted, a DAG transaction with a public EC jwk is accepted -/
example : ∃ vs, dpopParseJ Facts.C17.supportedAlgs Facts.C17.dpopTyp Facts.C17.dpopPrivateProbes Facts.C17.dpopPrivateProbeDefault
    { resolve := fun _ => none, embeddedKey := fun _ => some "E", verifies := fun _ _ _ => true, verifiesSplit := fun _ _ _ => false } true
    { parses := true, splitOK := true, sigs := [{ alg := "ES256", kid := "", jwk := .absent, hdrs := ["jwk"], typ := "dpop+jwt" }] }
    (some { kty := "EC", crv := "P-256", hasD := false }) = .accept vs :=
  ⟨[{ key := "E", src := .embedded 0, alg := "ES256", idx := 0, overSigningInput := true }], by decide⟩
example : ∃ vs, dagTxJ Facts.C17.dagAllowedAlgs Facts.C17.parseSignatureParamsRejectedKeyTypes Facts.C17.dagStrictFraming
    { resolve := fun _ => none, embeddedKey := fun _ => some "E", verifies := fun _ _ _ => true, verifiesSplit := fun _ _ _ => false } true true
    { parses := true, splitOK := true, sigs := [{ alg := "ES256", kid := "", jwk := .absent, hdrs := ["jwk"], typ := "" }] }
    (some { kty := "EC", crv := "P-256", hasD := false }) = .accept vs :=
  ⟨[{ key := "E", src := .embedded 0, alg := "ES256", idx := 0, overSigningInput := true }], by decide⟩
/-- … and the same tokens with the PRIVATE key / an octet key are rejected -/
example : dpopParseJ Facts.C17.supportedAlgs Facts.C17.dpopTyp Facts.C17.dpopPrivateProbes Facts.C17.dpopPrivateProbeDefault
    { resolve := fun _ => none, embeddedKey := fun _ => some "E", verifies := fun _ _ _ => true, verifiesSplit := fun _ _ _ => false } true
    { parses := true, splitOK := true, sigs := [{ alg := "ES256", kid := "", jwk := .absent, hdrs := ["jwk"], typ := "dpop+jwt" }] }
    (some { kty := "oct", crv := "", hasD := false }) = .reject := by decide
end JwkObject

end Nuts.C17.Props
