/-
  C11 — a received revocation counts for EVERY `validAt` (deepening round 2026-09-28, seeded mutation C11-w8m1).
  `verifier.Verify` evaluates the revocation store and the credential status before, and independently of, the validity
  period at `validAt`. All statements quantify over every history, every `validAt`, every clock and every validity period.
-/
import NutsModel.C11.ValidAt
import NutsProofs.Props.C11
namespace Nuts.C11.Props
open Nuts Nuts.C11

theorem verifyAt_revoked_iff (E : Env) (i : Bool) (w : World) (c : Cred) (nutsType rf : Bool)
    (validAt : Option Int) (now : Int) (period : Int → Bool) :
    (verifyAt E i w c nutsType rf validAt now period).1 = .revoked ↔ (verifyFullF E i w c nutsType rf).1 = .revoked := by
  unfold verifyAt
  split
  · rename_i w' h
    rw [h]
    split <;> simp
  · rename_i r hne
    rfl

/-- `revoked_whatever_valid_at`: whether `Verify` answers revoked does not depend on `validAt`, the clock or the credential's
    validity period — for every world, credential, validator kind and store-read outcome. -/
theorem revoked_whatever_valid_at (E : Env) (i : Bool) (w : World) (c : Cred) (nutsType rf : Bool)
    (at1 at2 : Option Int) (now1 now2 : Int) (p1 p2 : Int → Bool) :
    (verifyAt E i w c nutsType rf at1 now1 p1).1 = .revoked ↔ (verifyAt E i w c nutsType rf at2 now2 p2).1 = .revoked := by
  rw [verifyAt_revoked_iff, verifyAt_revoked_iff]

/-- `received_revocation_refused_at_every_valid_at`: a node that holds a revocation for the credential's id answers revoked for
    every `validAt`. -/
theorem received_revocation_refused_at_every_valid_at (E : Env) (i : Bool) (w : World) (c : Cred)
    (hrev : (w.get i).credRevoked c = true) (hid : c.id.isSome = true) (validAt : Option Int) (now : Int) (period : Int → Bool) :
    (verifyAt E i w c false false validAt now period).1 = .revoked := by
  rw [verifyAt_revoked_iff]
  unfold verifyFullF
  simp only [Bool.false_eq_true, if_false]
  cases hc : c.id with
  | none => simp [hc] at hid
  | some id =>
    simp only [verifyWithStore, hc, Bool.false_eq_true, if_false, verify, hrev, if_true]

/-- `revoked_forever_network_at_every_valid_at`: `revocation_before_credential` for `Verify(…, validAt)`: once the revocation
    was accepted at some point of a history, every later verification — asking about ANY moment `validAt` (before, at or
    after the revocation's own date, or nil), at any clock value, whatever the credential's validity period — answers revoked. -/
theorem revoked_forever_network_at_every_valid_at (E : Env) (K : KeyEnv) (hE : EnvOK E) (w0 : World) (h0 : WInv E w0) (i : Bool)
    (r : Revocation) (c : Cred) (before after : List Act) (n' : Node)
    (hacc : registerRevocation K ((run E K w0 before).get i) r = .ok n') (hc : c.id = some r.subject)
    (validAt : Option Int) (now : Int) (period : Int → Bool) :
    (verifyAt E i (run E K w0 (before ++ [.register i r] ++ after)) c false false validAt now period).1 = .revoked := by
  have h := revocation_before_credential E K hE w0 h0 i r c before after n' hacc hc
  apply received_revocation_refused_at_every_valid_at
  · unfold verify at h
    split at h
    · rename_i hr; exact hr
    · rename_i hr
      -- not revoked by the store: `verify` would have to answer revoked through the status list; but `credRevoked` holds
      have hw1 := ((run_path (K := K) hE before h0).nodes h0).1
      have hrun : run E K w0 (before ++ [.register i r] ++ after) = run E K ((run E K w0 before).set i n') after := by
        simp only [run, List.foldl_append, List.foldl_cons, List.foldl_nil, step]
        rw [show registerRevocation K ((List.foldl (step E K) w0 before).get i) r = .ok n' from hacc]
      have hp : WPrim E K (run E K w0 before) ((run E K w0 before).set i n') := WPrim.register _ i r n' hacc
      have hmem : r ∈ (((run E K w0 before).set i n').get i).netRevs := by
        rw [get_set_same]
        obtain ⟨rfl, _⟩ := registerRevocation_ok hacc
        simp
      have := (((run_path (K := K) hE after (hp.nodes hw1).1).nodes (hp.nodes hw1).1).2 i).net r hmem
      rw [← hrun] at this
      exact absurd (by simp only [Node.credRevoked, hc, Node.isRevoked, List.any_eq_true]; exact ⟨r, this, by simp⟩) hr
  · simp [hc]

/-- non-vacuity: B's accepted revocation, then verification asking about a moment long before (`validAt = -100000`), with a
    validity period that does not even contain that moment: revoked, not "not valid at that time" -/
example : (verifyAt exEnv false (run exEnv exKeys exWorld [.register false exRevByB]) { id := some "did:nuts:B#1", issuer := "did:nuts:B", statuses := none }
    false false (some (-100000)) 0 (fun t => decide (-60 ≤ t))).1 = .revoked := by decide
example : (verifyAt exEnv false exWorld { id := some "did:nuts:B#1", issuer := "did:nuts:B", statuses := none }
    false false (some (-100000)) 0 (fun t => decide (-60 ≤ t))).1 = .err "not-valid-at-time" := by decide

end Nuts.C11.Props
