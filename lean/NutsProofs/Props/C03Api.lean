/-
  C03 (deepening round 2026-09-28) — the crypto REST wrapper (crypto/api/v1/api.go) composed with the key store state
  machine and the header handling: request body -> validation -> key store call -> HTTP status / signed header.
  ONLY property theorems (+ non-vacuity examples + `fact_*` obligations on the regenerated facts).
  Model: NutsModel/C03/Api.lean. The check lists of the four `validate()` methods, the error->status table and the
  status of `core.InvalidInputError` are REGENERATED (Facts.C03.apiValidate / apiStatusMap / apiInvalidInputStatus /
  apiHandlerSteps); the theorems below are about the configuration built from those facts (`apiCfg`).
-/
import NutsModel.C03.Api
import NutsModel.Facts.C03
import NutsProofs.Lemmas.C03
import NutsProofs.Lemmas.C03Api
import NutsProofs.Lemmas.C03FsList
import NutsProofs.Lemmas.C03Ext
import NutsProofs.Props.C03

set_option linter.unusedSimpArgs false

namespace Nuts.C03.Props
open Nuts Nuts.C03 Nuts.Facts

/-- the wrapper as the source configures it today -/
def apiCfg : ApiCfg := ApiCfg.ofFacts C03.apiValidate C03.apiStatusMap C03.apiInvalidInputStatus

/-! ## facts: the regenerated tables are the ones the theorems below reason about -/

/-- the `validate()` methods: checks, their order and their messages -/
theorem fact_api_validate_checks :
    apiCfg.checks "SignJwtRequest" = some [⟨"Kid", "len0", "", "errors.New", "missing kid"⟩, ⟨"Claims", "len0", "", "errors.New", "missing claims"⟩] ∧
    apiCfg.checks "SignJwsRequest" = some [⟨"Kid", "len0", "", "errors.New", "missing kid"⟩, ⟨"Headers", "nil", "", "errors.New", "missing headers"⟩,
      ⟨"Payload", "nil", "", "errors.New", "missing payload"⟩] ∧
    apiCfg.checks "DecryptJweRequest" = some [⟨"Message", "len0", "", "errors.New", "missing message"⟩] ∧
    apiCfg.checks "EncryptJweRequest" = some [⟨"Receiver", "len0", "", "errors.New", "missing receiver"⟩, ⟨"Headers", "nil", "", "errors.New", "missing headers"⟩,
      ⟨"Payload", "len0", "", "errors.New", "missing payload"⟩,
      ⟨"Headers", "haskey", "kid", "errors.New", "kid header is not allowed, use the receiver field instead"⟩,
      ⟨"Receiver", "parse:did.ParseDIDURL", "", "fmt.Errorf%w", "invalid receiver: "⟩] := by decide

/-- error -> status: an unknown key id is the client's fault (400), validation failures are 400, the rest is 500 -/
theorem fact_api_status_table :
    alGet apiCfg.statusMap "crypto.ErrPrivateKeyNotFound" = some 400 ∧ apiCfg.invalidInput = 400 ∧
    apiCfg.statusMap.length = 3 := by decide

/-- the handlers: validate first; SignJws overwrites `headers["kid"]` with the REQUEST kid before the key store call;
    the key store is called with the request kid / the message and nothing else that names a key -/
theorem fact_api_handler_steps :
    alGet C03.apiHandlerSteps "SignJwt" = some ["validate", "invalid-input:invalid sign request: %w",
      "store:SignJWT(ctx,signRequest.Body.Claims,nil,signRequest.Body.Kid)"] ∧
    alGet C03.apiHandlerSteps "SignJws" = some ["bind:signRequest:=request.Body", "validate", "invalid-input:invalid sign request: %w",
      "bind:headers:=signRequest.Headers", "set-header:headers[kid]=signRequest.Kid",
      "store:SignJWS(ctx,signRequest.Payload,headers,signRequest.Kid,detached)"] ∧
    alGet C03.apiHandlerSteps "DecryptJwe" = some ["bind:decryptRequest:=request.Body", "validate", "invalid-input:invalid decrypt request: %w",
      "store:DecryptJWE(ctx,decryptRequest.Message)", "wrap:failed to decrypt JWE: %w"] := by decide

/-! ## property theorems -/

variable (valid : String → Bool) (keyDir : String)

/-- **the REST sign_jws endpoint signs only by key id.** For EVERY decoded request body and every key store state:
    a 200 answer means (1) the request named a non-empty kid and non-nil headers / payload, (2) that kid has a
    reference row whose key name passed `validateKID`, and the signing key pair is the backend entry under that name,
    (3) a `jwk` in the signed header is not a private key, and (4) when the header values came out of `encoding/json`
    the signed header carries NO `jwk` at all and its `kid` is the REQUESTED kid, whatever `kid` the caller put
    into the headers object. -/
theorem api_signjws_200_only_by_key_id (s : Store) (r : ApiReq) (k : Nat) (out : Headers)
    (hok : apiSignJws valid apiCfg keyDir s r = .token k out) :
    r.fld "Kid" = .present ∧ (r.fld "Headers").isNil = false ∧ (r.fld "Payload").isNil = false ∧
    (∃ ref, s.ref r.kid = some ref ∧ valid ref.keyName = true ∧ s.key ref.keyName = some k) ∧
    (∀ rt id, hget out "jwk" = some (.jwk rt id) → assignableToSigner rt = false) ∧
    (AllJson r.headers → hget out "jwk" = none ∧ hget out "kid" = some (.str r.kid)) := by
  unfold apiSignJws at hok
  rw [fact_api_validate_checks.2.1] at hok
  simp only [validateReq, checkFires, Check.text] at hok
  simp only [show ("len0" = "len0") = True by decide, show ("nil" = "len0") = False by decide,
    show ("nil" = "nil") = True by decide, if_true, if_false] at hok
  cases hkid : (r.fld "Kid").lenZero <;> simp only [hkid] at hok
  case true => cases hok
  cases hh : (r.fld "Headers").isNil <;> simp only [hh] at hok
  case true => cases hok
  cases hp : (r.fld "Payload").isNil <;> simp only [hp] at hok
  case true => cases hok
  cases hsk : signKey valid s r.kid with
  | error e => simp only [hsk] at hok; cases hok
  | ok k' =>
    simp only [hsk] at hok
    cases hst : storeSignJWSHeaders true (hput (dedup r.headers) "kid" (.str r.kid)) r.kid with
    | error e => simp only [hst] at hok; cases hok
    | ok out' =>
      simp only [hst] at hok
      cases hok
      obtain ⟨ref, h1, h2, h3, _⟩ := sign_only_by_reference valid s r.kid k hsk
      have hs := store_signjws_headers true _ out r.kid hst
      refine ⟨?_, rfl, rfl, ⟨ref, h1, h2, h3⟩, fun rt id hj => (hs.2.1 rt id hj).1, ?_⟩
      · cases hf : r.fld "Kid" <;> simp [hf, Fld.lenZero] at hkid
        rfl
      · intro hjson
        have hst' : signJWSHeaders (hput (dedup (hput (dedup r.headers) "kid" (.str r.kid))) "kid" (.str r.kid)) = .ok out := by
          unfold storeSignJWSHeaders at hst
          simpa using hst
        have haj := allJson_hput_str _ "kid" r.kid (allJson_dedup _ (allJson_hput_str _ "kid" r.kid (allJson_dedup _ hjson)))
        obtain ⟨hout, hnj⟩ := signJWSHeaders_json _ out haj hst'
        subst hout
        unfold hget hput at hnj ⊢
        refine ⟨?_, ?_⟩
        · rw [alGet_del]; simp only [show ("jwk" = "alg") = False by decide, if_false]; exact hnj
        · rw [alGet_del, alGet_put]; simp

/-- non-vacuity: a request that is answered 200 exists (one key, JSON headers with a forged `kid` and `typ`) -/
example : ∃ k out, apiSignJws (fun _ => true) apiCfg "/k"
    { refs := [("did:a#1", ⟨"n1", "1"⟩)], backend := [("n1", 7)], nextKey := 8 }
    { flds := [("Kid", .present), ("Headers", .present), ("Payload", .empty)], kid := "did:a#1",
      headers := [("kid", .str "forged"), ("typ", .str "x")] } = .token k out ∧ AllJson [("kid", HVal.str "forged"), ("typ", .str "x")] :=
  ⟨7, [("kid", .str "did:a#1"), ("typ", .str "x")], by decide, by intro p hp; simp at hp; rcases hp with e | e <;> rw [e] <;> rfl⟩

/-- **sign_jwt endpoint**: 200 only for a non-empty kid with a reference row to a validated key name; the signed header
    is exactly `kid` = requested kid and `typ` = JWT (the endpoint passes no caller headers at all). -/
theorem api_signjwt_200_only_by_key_id (s : Store) (r : ApiReq) (k : Nat) (out : Headers)
    (hok : apiSignJwt valid apiCfg keyDir s r = .token k out) :
    r.fld "Kid" = .present ∧ r.fld "Claims" = .present ∧
    (∃ ref, s.ref r.kid = some ref ∧ valid ref.keyName = true ∧ s.key ref.keyName = some k) ∧
    out = [("typ", .str "JWT"), ("kid", .str r.kid)] := by
  unfold apiSignJwt at hok
  rw [fact_api_validate_checks.1] at hok
  simp only [validateReq, checkFires, Check.text] at hok
  simp only [show ("len0" = "len0") = True by decide, if_true] at hok
  cases hkid : (r.fld "Kid").lenZero <;> simp only [hkid] at hok
  case true => cases hok
  cases hc : (r.fld "Claims").lenZero <;> simp only [hc] at hok
  case true => cases hok
  cases hsk : signKey valid s r.kid with
  | error e => simp only [hsk] at hok; cases hok
  | ok k' =>
    simp only [hsk] at hok
    have hh : storeSignJWTHeaders true [] r.kid = .ok [("typ", .str "JWT"), ("kid", .str r.kid)] := by
      simp [storeSignJWTHeaders, signJWTHeaders, dedup, hput, hget, alPut, alGet, alDel, settable, stringHeaders]
    rw [hh] at hok
    cases hok
    obtain ⟨ref, h1, h2, h3, _⟩ := sign_only_by_reference valid s r.kid k hsk
    refine ⟨?_, ?_, ⟨ref, h1, h2, h3⟩, rfl⟩
    · cases hf : r.fld "Kid" <;> simp [hf, Fld.lenZero] at hkid
      rfl
    · cases hf : r.fld "Claims" <;> simp [hf, Fld.lenZero] at hc
      rfl

/-- **unknown key id at the REST surface.** A well-formed sign / decrypt request for a kid without a reference row is
    answered `400 private key not found` — for every state, no fallback key, and the answer does not depend on what
    the backend holds. -/
theorem api_unknown_kid_is_400 (s : Store) (r : ApiReq) (hk : s.ref r.kid = none)
    (hkid : r.fld "Kid" = .present) (hh : (r.fld "Headers").isNil = false) (hp : (r.fld "Payload").isNil = false)
    (hc : r.fld "Claims" = .present) :
    apiSignJws valid apiCfg keyDir s r = .problem 400 "private key not found" ∧
    apiSignJwt valid apiCfg keyDir s r = .problem 400 "private key not found" ∧
    (∀ enc, r.kid ≠ "" → r.fld "Message" = .present →
      apiDecryptJwe valid apiCfg keyDir s r (.jwe r.kid enc) = .problem 400 "failed to decrypt JWE: private key not found") := by
  have hsk := (unknown_kid_never_signs valid s r.kid hk)
  refine ⟨?_, ?_, ?_⟩
  · unfold apiSignJws
    rw [fact_api_validate_checks.2.1]
    simp [validateReq, checkFires, hkid, hh, hp, Fld.lenZero, hsk.1, apiErrStatus, fact_api_status_table.1, errDetail, errText]
  · unfold apiSignJwt
    rw [fact_api_validate_checks.1]
    simp [validateReq, checkFires, hkid, hc, Fld.lenZero, hsk.1, apiErrStatus, fact_api_status_table.1, errDetail, errText]
  · intro enc hne hm
    unfold apiDecryptJwe
    rw [fact_api_validate_checks.2.2.1]
    simp [validateReq, checkFires, hm, Fld.lenZero, hsk.2.2.2.1 enc hne, apiErrStatus, fact_api_status_table.1, errDetail, errText]

example : ∃ r : ApiReq, ({} : Store).ref r.kid = none ∧ r.fld "Kid" = .present ∧ (r.fld "Headers").isNil = false ∧
    (r.fld "Payload").isNil = false ∧ r.fld "Claims" = .present ∧ r.kid ≠ "" :=
  ⟨{ flds := [("Kid", .present), ("Headers", .empty), ("Payload", .empty), ("Claims", .present)], kid := "x" }, by decide⟩

/-- **validation refuses before the key store is consulted**: a request that fails `validate()` gets the SAME 400
    answer in every key store state (in particular nothing about any key can be learned from it), and a request
    without a kid never reaches a key. -/
theorem api_invalid_request_independent_of_store (s t : Store) (r : ApiReq) :
    ((r.fld "Kid").lenZero = true ∨ (r.fld "Headers").isNil = true ∨ (r.fld "Payload").isNil = true →
      apiSignJws valid apiCfg keyDir s r = apiSignJws valid apiCfg keyDir t r ∧
      ∃ d, apiSignJws valid apiCfg keyDir s r = .problem 400 d) ∧
    ((r.fld "Kid").lenZero = true ∨ (r.fld "Claims").lenZero = true →
      apiSignJwt valid apiCfg keyDir s r = apiSignJwt valid apiCfg keyDir t r ∧
      ∃ d, apiSignJwt valid apiCfg keyDir s r = .problem 400 d) := by
  refine ⟨?_, ?_⟩
  · intro h
    unfold apiSignJws
    rw [fact_api_validate_checks.2.1]
    simp only [validateReq, checkFires, Check.text, show ("len0" = "len0") = True by decide, show ("nil" = "len0") = False by decide,
      show ("nil" = "nil") = True by decide, if_true, if_false, fact_api_status_table.2.1]
    cases h1 : (r.fld "Kid").lenZero
    · cases h2 : (r.fld "Headers").isNil
      · cases h3 : (r.fld "Payload").isNil
        · simp [h1, h2, h3] at h
        · exact ⟨rfl, _, rfl⟩
      · exact ⟨rfl, _, rfl⟩
    · exact ⟨rfl, _, rfl⟩
  · intro h
    unfold apiSignJwt
    rw [fact_api_validate_checks.1]
    simp only [validateReq, checkFires, Check.text, show ("len0" = "len0") = True by decide, if_true, fact_api_status_table.2.1]
    cases h1 : (r.fld "Kid").lenZero
    · cases h2 : (r.fld "Claims").lenZero
      · simp [h1, h2] at h
      · exact ⟨rfl, _, rfl⟩
    · exact ⟨rfl, _, rfl⟩

/-- **decrypt_jwe endpoint**: a 200 answer means the message's protected `kid` has a reference row to a validated
    key name and the plaintext was produced with exactly that backend entry, which is the key the message was
    encrypted for. -/
theorem api_decrypt_200_only_by_key_id (s : Store) (r : ApiReq) (m : JweMsg) (k : Nat)
    (hok : apiDecryptJwe valid apiCfg keyDir s r m = .plain k) :
    ∃ kid, m = .jwe kid k ∧ kid ≠ "" ∧ ∃ ref, s.ref kid = some ref ∧ valid ref.keyName = true ∧ s.key ref.keyName = some k := by
  unfold apiDecryptJwe at hok
  rw [fact_api_validate_checks.2.2.1] at hok
  simp only [validateReq, checkFires, Check.text, show ("len0" = "len0") = True by decide, if_true] at hok
  cases hm : (r.fld "Message").lenZero <;> simp only [hm] at hok
  case true => cases hok
  cases m with
  | garbage => cases hok
  | jwe kid enc =>
    simp only at hok
    cases hd : decryptJWE valid s kid enc with
    | error e => simp only [hd] at hok; cases hok
    | ok k' =>
      simp only [hd] at hok
      cases hok
      unfold decryptJWE at hd
      split at hd
      · cases hd
      · rename_i hne
        cases hg : getPrivateKey valid s kid with
        | error e => simp only [hg] at hd; cases hd
        | ok k2 =>
          simp only [hg] at hd
          split at hd
          · rename_i e
            cases hd
            obtain ⟨ref, h1, h2, h3, _⟩ := sign_only_by_reference valid s kid k hg
            exact ⟨kid, by rw [e], hne, ref, h1, h2, h3⟩
          · cases hd

example : apiDecryptJwe (fun _ => true) apiCfg "/k" { refs := [("did:a#1", ⟨"n1", "1"⟩)], backend := [("n1", 7)], nextKey := 8 }
    { flds := [("Message", .present)] } (.jwe "did:a#1" 7) = .plain 7 := by decide

/-- **noninterference at the REST surface.** Two key stores that went through the same history and differ only in
    key MATERIAL (same reference rows, same entry names) answer every sign_jws / sign_jwt request with the same status,
    the same problem detail and the same protected header — the only difference is which key pair made the signature. -/
theorem api_sign_response_independent_of_key_material (s t : Store) (h : SameButKeys s t) (ops : List Op) (r : ApiReq) :
    (apiSignJws valid apiCfg keyDir (run valid s ops) r).noKey = (apiSignJws valid apiCfg keyDir (run valid t ops) r).noKey ∧
    (apiSignJwt valid apiCfg keyDir (run valid s ops) r).noKey = (apiSignJwt valid apiCfg keyDir (run valid t ops) r).noKey := by
  have hR := same_run valid h ops
  have hk := same_getPrivateKey valid hR r.kid
  refine ⟨?_, ?_⟩
  · unfold apiSignJws
    cases apiCfg.checks "SignJwsRequest" with
    | none => rfl
    | some cs =>
      simp only
      cases validateReq cs r with
      | none => rfl
      | some o =>
        cases o with
        | some m => rfl
        | none =>
          simp only
          unfold signKey
          cases hs : getPrivateKey valid (run valid s ops) r.kid <;> cases ht : getPrivateKey valid (run valid t ops) r.kid <;>
            simp only [hs, ht, resErr] at hk
          · injection hk with hk; subst hk
            simp only [ApiResp.noKey, same_errDetail keyDir hR]
          · cases hk
          · cases hk
          · cases storeSignJWSHeaders true (hput (dedup r.headers) "kid" (HVal.str r.kid)) r.kid <;> rfl
  · unfold apiSignJwt
    cases apiCfg.checks "SignJwtRequest" with
    | none => rfl
    | some cs =>
      simp only
      cases validateReq cs r with
      | none => rfl
      | some o =>
        cases o with
        | some m => rfl
        | none =>
          simp only
          unfold signKey
          cases hs : getPrivateKey valid (run valid s ops) r.kid <;> cases ht : getPrivateKey valid (run valid t ops) r.kid <;>
            simp only [hs, ht, resErr] at hk
          · injection hk with hk; subst hk
            simp only [ApiResp.noKey, same_errDetail keyDir hR]
          · cases hk
          · cases hk
          · cases storeSignJWTHeaders true [] r.kid <;> rfl

/-- non-vacuity: same history, other key generator: same answer, other signing key -/
example : SameButKeys {} { nextKey := 100 } ∧
    apiSignJwt (fun _ => true) apiCfg "/k" (run (fun _ => true) {} [.new "n1" (some "did:a#1")])
      { flds := [("Kid", .present), ("Claims", .present)], kid := "did:a#1" } = .token 0 [("typ", .str "JWT"), ("kid", .str "did:a#1")] ∧
    apiSignJwt (fun _ => true) apiCfg "/k" (run (fun _ => true) { nextKey := 100 } [.new "n1" (some "did:a#1")])
      { flds := [("Kid", .present), ("Claims", .present)], kid := "did:a#1" } = .token 100 [("typ", .str "JWT"), ("kid", .str "did:a#1")] :=
  ⟨⟨rfl, rfl⟩, by decide, by decide⟩

/-! ## DPoP proofs: the `jwk` header is ALWAYS the public key of the key that signs -/

/-- `(*DPoP).Sign` derives the `jwk` header from the signing key and writes it into the headers UNCONDITIONALLY, at
    the top level of the function, before `jwt.Sign` uses those headers; `Crypto.SignDPoP` fetches the key by kid and
    passes that key to `Sign` (token by value, headers shared). -/
theorem fact_dpop_sign_overwrites_jwk :
    C03.dpopSignStmts = ["if:;t.raw != \"\"{1}", "assign:publicKeyJWK, err := jwk.FromRaw(key.Public())", "if:;err != nil{1}",
      "assign:_ = publicKeyJWK.Set(jwk.AlgorithmKey, alg)", "assign:_ = t.Headers.Set(jws.JWKKey, publicKeyJWK)",
      "assign:sig, err := jwt.Sign(t.Token, jwt.WithKey(alg, key, jws.WithProtectedHeaders(t.Headers)))", "if:;err != nil{1}",
      "assign:t.raw = string(sig)", "assign:t.Kid = kid", "return:return t.raw, nil"] ∧
    C03.signDPoPShape = ["param:ctx:context.Context", "param:token:dpop.DPoP", "param:kid:string",
      "call:client.getPrivateKey(ctx,kid)", "call:token.Sign(kid,privateKey,alg)"] := by decide

/-- **dpop_jwk_is_signing_key.** For EVERY key store state, EVERY header state the token starts with (including a
    `jwk` header — public or PRIVATE — that the caller put there, or the one a previous signing left) and EVERY sequence
    of kids the same token is signed for: each proof that is issued for kid K is signed by the key pair the reference
    row of K names, and its `jwk` header is exactly the public JWK of THAT key pair — never a key material carrying
    value, never the key of an earlier call. -/
theorem dpop_jwk_is_signing_key (s : Store) (h0 : Headers) (kids : List String) (kid : String) (k : Nat) (hdr : Headers)
    (hm : (kid, .ok (k, hdr)) ∈ signDPoPSeq valid s h0 kids) :
    signKey valid s kid = .ok k ∧ hget hdr "jwk" = some (pubJwk k) ∧
    (∃ ref, s.ref kid = some ref ∧ valid ref.keyName = true ∧ s.key ref.keyName = some k) := by
  induction kids generalizing h0 with
  | nil => cases hm
  | cons kid' rest ih =>
    unfold signDPoPSeq at hm
    simp only at hm
    rcases List.mem_cons.mp hm with e | hrest
    · unfold signDPoP at e
      cases hsk : signKey valid s kid' with
      | error er => simp [hsk] at e
      | ok k' =>
        simp only [hsk] at e
        injection e with e1 e2
        injection e2 with e3
        injection e3 with e4 e5
        subst e1; subst e4; subst e5
        obtain ⟨ref, h1, h2, h3, _⟩ := sign_only_by_reference valid s kid k hsk
        refine ⟨hsk, ?_, ref, h1, h2, h3⟩
        unfold dpopSignHeaders hget hput
        rw [alGet_put]; simp
    · exact ih _ hrest

/-- non-vacuity + the seeded shape: a token that carries a PRIVATE jwk, signed for two different kids in a row -/
example : signDPoPSeq (fun _ => true) { refs := [("a", ⟨"n1", "1"⟩), ("b", ⟨"n2", "1"⟩)], backend := [("n1", 1), ("n2", 2)], nextKey := 3 }
    [("jwk", .jwk "*ecdsa.PrivateKey" "ecPriv")] ["a", "b"] =
    [("a", .ok (1, [("jwk", pubJwk 1)])), ("b", .ok (2, [("jwk", pubJwk 2)]))] := by decide

/-! ## fs backend: file names back to key names (`ListPrivateKeys`, the source of the kids `Migrate` creates) -/

/-- the walk callback as the model mirrors it: walk over the key directory, suffix test on the base name, `upper`
    computed in (signed) int, the guard `upper > 0`, the slice `[:upper]`, version "1" -/
theorem fact_fs_list_callback :
    C03.fsListCallback = ["walk:filepath.Walk(fsc.fspath)", "if:err != nil",
      "if:!info.IsDir() && strings.HasSuffix(info.Name(), string(privateKeyEntry))",
      "upper:len(info.Name()) - len(privateKeyEntry) - 1", "if:upper > 0", "field:KeyName=info.Name()[:upper]",
      "field:Version=\"1\"", "if:err != nil"] := by decide

/-- **every stored key is listed under exactly its own name**: for every non-empty key name `n` (in particular every
    name `validateKID` accepts and every uuid `New` draws) and every entry type, the file the backend created for `n`
    (`getEntryFileName`) is parsed back to `n` — `Migrate` binds the kid to the name the key is really stored under. -/
theorem fs_list_roundtrip (n et : Bytes) (hn : n ≠ []) : fsListName (fsEntryFileName n et) et = some n :=
  fsListName_roundtrip n et hn

/-- **what a listed name can be**: a non-empty proper prefix of a file name of the key directory tree; the file name is
    that prefix, ONE arbitrary byte, and the entry type. No name is invented, no byte of any file's CONTENT is involved. -/
theorem fs_listed_name_shape (f et m : Bytes) (h : fsListName f et = some m) : m ≠ [] ∧ ∃ c, f = m ++ c :: et :=
  fsListName_shape f et m h

/-- limit of the code that exists (mirrored, not repaired — not a key-material path): the byte before the suffix is not
    compared with `_`: the file `abprivate.pem` is listed as key `a`; `_private.pem` and `private.pem` are skipped. -/
theorem fs_list_separator_not_checked :
    ∀ et ∈ C03.fsEntryTypes,
      fsListName ([97, 98] ++ et) et = some [97] ∧ fsListName (USCORE :: et) et = none ∧ fsListName et et = none := by decide

example : fsListName (fsEntryFileName [107] [112]) [112] = some [107] := by decide

/-! ## external secret-store backend: the request target of a key name -/

/-- every SPI method of the external backend hands `url.PathEscape(name)` to the generated client, and every generated
    request builder that takes a key puts the (once more escaped, path-located, simple-style) parameter behind `/secrets/` -/
theorem fact_external_name_to_path :
    C03.externalNameUses = ["GetPrivateKey:LookupSecretWithResponse:url.PathEscape(keyName)",
      "PrivateKeyExists:LookupSecretWithResponse:url.PathEscape(keyName)", "SavePrivateKey:StoreSecretWithResponse:url.PathEscape(kid)",
      "DeletePrivateKey:DeleteSecretWithResponse:url.PathEscape(keyName)"] ∧
    C03.externalRequestPaths = ["NewDeleteSecretRequest:fmt.Sprintf(\"/secrets/%s\", pathParam0)",
      "NewDeleteSecretRequest:style(\"simple\",false,\"key\",runtime.ParamLocationPath,key)", "NewHealthCheckRequest:fmt.Sprintf(\"/health\")",
      "NewListKeysRequest:fmt.Sprintf(\"/secrets\")", "NewLookupSecretRequest:fmt.Sprintf(\"/secrets/%s\", pathParam0)",
      "NewLookupSecretRequest:style(\"simple\",false,\"key\",runtime.ParamLocationPath,key)",
      "NewStoreSecretRequestWithBody:fmt.Sprintf(\"/secrets/%s\", pathParam0)",
      "NewStoreSecretRequestWithBody:style(\"simple\",false,\"key\",runtime.ParamLocationPath,key)"] := by decide

/-- **external_target_confined.** For EVERY key name (bytes of a Go string) — whether or not `validateKID` would accept
    it — the segment that stands for it on the wire contains no `/`, `?`, `#`, `\`, NUL: the request target is
    `<base dir>secrets/<one segment>`; two different names never share a target; a server that unescapes the segment
    twice gets the name back literally; and the segment is a dot segment (`.` / `..`, which reference resolution would
    fold away) only if the NAME is `.` / `..` — exactly the two names the wrapper refuses literally. -/
theorem external_target_confined (name : Bytes) (hn : ∀ c ∈ name, c < 256) :
    (∀ b ∈ externalSegment name, targetSafe b = true) ∧
    (∀ other : Bytes, (∀ c ∈ other, c < 256) → externalSegment other = externalSegment name → other = name) ∧
    ((pathUnescape (externalSegment name)).bind pathUnescape = some name) ∧
    (externalSegment name = [DOT] → name = [DOT]) ∧ (externalSegment name = [DOT, DOT] → name = [DOT, DOT]) ∧
    (externalSegment name = [] → name = []) := by
  have h1 := pathEscape_lt name hn
  have hrt : (pathUnescape (externalSegment name)).bind pathUnescape = some name := by
    unfold externalSegment
    rw [pathUnescape_escape _ h1]
    simp [pathUnescape_escape _ hn]
  have hinj : ∀ other : Bytes, (∀ c ∈ other, c < 256) → externalSegment other = externalSegment name → other = name := by
    intro other ho he
    exact pathEscape_injective _ _ ho hn (pathEscape_injective _ _ (pathEscape_lt other ho) h1 he)
  have hlit : ∀ lit : Bytes, (∀ c ∈ lit, c < 256) → externalSegment lit = lit → externalSegment name = lit → name = lit := by
    intro lit hl hfix he
    exact (hinj lit hl (by rw [hfix, he])).symm
  refine ⟨pathEscape_safe _ h1, hinj, hrt, hlit [DOT] (by decide) (by decide), hlit [DOT, DOT] (by decide) (by decide),
    hlit [] (by decide) (by decide)⟩

/-- with the wrapper in front: a name `validateKID` accepts is neither `.` nor `..`, so its target is never folded -/
theorem external_valid_name_not_dot_segment (name : Bytes) (hn : ∀ c ∈ name, c < 256)
    (hv : validName? C03.kidPatternRx C03.validateKIDRefusedNames name = some true) :
    externalSegment name ≠ [DOT] ∧ externalSegment name ≠ [DOT, DOT] ∧ externalSegment name ≠ [] := by
  have hc := external_target_confined name hn
  have hdots := fact_dot_names_refused
  have hne : name ≠ [DOT] ∧ name ≠ [DOT, DOT] ∧ name ≠ [] := by
    refine ⟨?_, ?_, ?_⟩ <;> (intro e; subst e; revert hv; decide)
  exact ⟨fun e => hne.1 (hc.2.2.2.1 e), fun e => hne.2.1 (hc.2.2.2.2.1 e), fun e => hne.2.2 (hc.2.2.2.2.2 e)⟩

example : validName? C03.kidPatternRx C03.validateKIDRefusedNames [46, 46, 35] = some true ∧ (∀ c ∈ [46, 46, 35], c < 256) := by decide

example : externalTarget [47, 98, 97, 115, 101] [46, 46, 35] =
    [47, 98, 97, 115, 101, 47, 115, 101, 99, 114, 101, 116, 115, 47, 46, 46, 37, 50, 53, 50, 51] := by decide   -- "/base" + "..#" -> "/base/secrets/..%2523"

end Nuts.C03.Props
