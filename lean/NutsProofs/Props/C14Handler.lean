/-
  C14 — wave 9: the private-payload job is removed only after the payload (event) of the transaction is stored.
-/
import NutsModel.C14.Handler
import NutsModel.Facts.C14
import NutsProofs.Props.C14
namespace Nuts.C14.Props
open Nuts.C14

theorem writePayload_not_ok_unchanged (c : Cfg) (σ : St) (ref : Nat) (wf : Bool)
    (h1 : (writePayload c σ ref wf).2 ≠ .ok) (h2 : (writePayload c σ ref wf).2 ≠ .skipped) : (writePayload c σ ref wf).1 = σ := by
  unfold writePayload at *
  split; · rfl
  split; · rfl
  split
  · next hh => rw [if_neg (by simpa using ‹¬ ref ∉ σ.dag›)] at h2; simp [*] at h2
  · next hh => simp [*] at h1

theorem writePayload_evented (c : Cfg) (σ : St) (ref : Nat) (wf : Bool)
    (h : (writePayload c σ ref wf).2 = .ok ∨ (writePayload c σ ref wf).2 = .skipped) : ref ∈ (writePayload c σ ref wf).1.evented := by
  unfold writePayload at *
  split at h; · simp at h
  split at h; · simp at h
  rename_i hd hc
  rw [if_neg hd, if_neg hc]
  split
  · next hh => split <;> exact hh.2
  · simp only; rw [(saveEvent_spec c _ _).evented]; exact List.mem_cons_self

theorem finishedExt_evented (σ : St) (s r : Nat) (f : Bool) : (finishedExt σ s r f).evented = σ.evented := by
  unfold finishedExt; split; · rfl
  split <;> rfl

/-- **private_job_removed_only_after_payload_stored**: with the call order of the source (WritePayload, then Finished), for every
    fault at either step (WritePayload's transaction fails / the node stops before its commit; Finished's write fails; unknown
    transaction; wrong hash): if the handler removed the "private" job of the transaction, the payload event of that transaction
    has been saved (payload, marker and the subscribers' jobs are written in that one transaction) -/
theorem private_job_removed_only_after_payload_stored (c : Cfg) (priv : Nat) (σ : St) (ref : Nat) (mm wf ff : Bool) (j : Job)
    (hj : σ.shelf priv ref = some j) (hgone : (handlePayload c priv false σ ref mm wf ff).1.shelf priv ref = none) :
    ref ∈ (handlePayload c priv false σ ref mm wf ff).1.evented := by
  unfold handlePayload at *
  split at hgone; · rw [hj] at hgone; cases hgone
  split at hgone; · rw [hj] at hgone; cases hgone
  simp only [Bool.false_eq_true, if_false] at hgone ⊢
  rename_i hd hm
  rw [if_neg hd, if_neg hm]
  have hev := writePayload_evented c σ ref wf
  have hun := writePayload_not_ok_unchanged c σ ref wf
  generalize writePayload c σ ref wf = q at *
  obtain ⟨σ1, st⟩ := q
  cases st <;> simp only at hgone hev hun ⊢
  all_goals first
    | (rw [finishedExt_evented]; exact hev (by simp))
    | (rw [hun (by simp) (by simp), hj] at hgone; cases hgone)

/-- the private receiver keeps failing (payload not yet there): its job stays on the shelf -/
def privFails : Nat → Nat → Nat → Outcome := fun s _ _ => if s = 1 then .fail else .done

/-- swapped order (Finished before WritePayload): a failing WritePayload leaves the transaction without job AND without payload -/
theorem finished_before_write_loses_the_job :
    let c := wCfg true privFails
    let σ := run c init [.add { ref := 1 }, .afterCommit [0, 1, 2, 3, 4]]
    σ.shelf 1 1 ≠ none ∧
    (handlePayload c 1 true σ 1 false true false).1.shelf 1 1 = none ∧ 1 ∉ (handlePayload c 1 true σ 1 false true false).1.evented ∧
    (handlePayload c 1 false σ 1 false true false).1.shelf 1 1 ≠ none := by decide

-- non-vacuity of the theorem: without faults the job is removed and the event saved
example : let c := wCfg true privFails
    let σ := run c init [.add { ref := 1 }, .afterCommit [0, 1, 2, 3, 4]]
    (handlePayload c 1 false σ 1 false false false).1.shelf 1 1 = none ∧ 1 ∈ (handlePayload c 1 false σ 1 false false false).1.evented := by decide

/-- the order the model relies on, regenerated from handlers.go -/
theorem fact_finished_only_after_write_payload :
    Facts.C14.payloadHandlerCalls = ["p.state.GetTransaction", "p.state.WritePayload", "p.privatePayloadReceiver.Finished"] := by decide

end Nuts.C14.Props
