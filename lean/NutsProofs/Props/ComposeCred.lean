/-
  Composition C11 → C01 → (C12) → C02 — the credential pipeline end to end.
  ONLY the composition theorems + non-vacuity examples.  Maps: NutsModel/Compose/Cred.lean; helper lemmas:
  NutsProofs/Lemmas/ComposeCred.lean.

  What the single properties leave open and this file closes:
    * C01's verifier takes "the revocation store holds a revocation for this id" (`Env.revoked`) and "the status list has this
      bit" (`Env.statusList`) as free parameters; C11 proves permanence of revocations about ITS OWN verdict function.  Here
      C01's two inputs are READ from C11's world (`revEnv`), and C01's refusal is derived from C11's `revocation_before_credential`
      / `revoked_forever_local` (through `revoke_effective`), for every later C11 history and every `validAt`.
    * C02's token endpoint takes "VerifyVP accepted" (`VP.verifies`), "the submission matches" (`S2SReq.pex`) and the claim
      values (`S2SReq.claims`) as free parameters.  Here they are COMPUTED by C01's `verifyVP` over a C11-reachable world and
      by C12's `validate` / `resolve` / `resolveFields` (`s2sOf`), and C02's `s2s_token_only_if` / `introspect_active_only_if_issued`
      / `introspect_faithful` are read back through the maps.
  Hypotheses that remain are listed at each theorem; every one is a seam reported in the model file's `Glue`.
-/
import NutsModel.Compose.Cred
import NutsProofs.Lemmas.ComposeCred
import NutsProofs.Props.C01
import NutsProofs.Props.C11
import NutsProofs.Props.C11ValidAt
import NutsProofs.Props.C12
import NutsProofs.Props.C02

namespace Nuts.Compose.Cred.Props
open Nuts Nuts.Compose.Cred

/-! ## (1) the maps are exact where both models can be compared -/

/-- C01's revocation-store input read from C11's world IS C11's `credRevoked` of the same credential -/
theorem revocation_store_input_exact (g : Glue) (E : C11.Env) (i : Bool) (w : C11.World) (base : C01.Env) (c : C01.Cred) (id : String)
    (hid : c.id = some id) : (revEnv g E i w base).revoked id = (w.get i).credRevoked (cred11 g c) := by
  simp [revEnv, C11.Node.credRevoked, cred11, hid]

/-- the status-list input is EXACT on a credential with one (well-formed) status entry: C01's status verdict over `revEnv` says
    revoked iff C11's own `statusVerify` says revoked — for every world, entry type, purpose, index, list record or fetch failure.
    (More entries: C11 threads the world through the entries — a download changes the cache —, C01 reads one environment; the
    composition theorems below therefore speak, like C11's own, about the first relevant entry.) -/
theorem single_entry_verdicts_agree (g : Glue) (E : C11.Env) (i : Bool) (w : C11.World) (base : C01.Env) (c : C01.Cred)
    (s : C01.Status) (hc : c.statuses = some [s]) (hv : s.entryValid = true) :
    C01.statusVerdict (revEnv g E i w base) c = .revoked ↔ (C11.statusVerify E i w (cred11 g c)).1 = .revoked := by
  simp only [C01.statusVerdict, hc, C11.statusVerify, cred11, Option.map_some, List.map_cons, List.map_nil]
  unfold C01.statusVerdictL C11.verifyStatuses
  by_cases hty : s.typ = C01.statusListEntryType
  · by_cases hpu : s.purpose = "revocation"
    · have hrel : (status11 g s).relevant = true := relevant_status11 g s hty hpu
      simp only [hty, hv, hpu, hrel, bne_self_eq_false, Bool.false_eq_true, if_false, Bool.not_true]
      show (match (statusRecord E i w (g.urlOf s.listCred)).map slOf with
            | none => C01.StatusVerdict.softErr
            | some sl => _) = _ ↔ _
      unfold statusRecord
      simp only
      have hl : (status11 g s).list = g.urlOf s.listCred := rfl
      rw [hl]
      generalize (if C11.needsFetch E w.now (w.get i) (g.urlOf s.listCred) then C11.download E w (g.urlOf s.listCred) else (C11.Fetch.fail, w)) = fw
      unfold C11.checkStatus
      rw [hl]
      cases hs : C11.statusList E fw.2.now (fw.2.get i) (g.urlOf s.listCred) fw.1 with
      | ok pr =>
        obtain ⟨rec, n'⟩ := pr
        simp only [Option.map_some, slOf]
        have hp11 : (status11 g s).purpose = "revocation" := hpu
        have hi11 : (status11 g s).idx = s.index.map Int.ofNat := rfl
        rw [hp11, hi11]
        by_cases hp : rec.purpose = "revocation"
        · simp only [hp, bne_self_eq_false, Bool.false_eq_true, if_false]
          cases hidx : s.index with
          | none => simp
          | some k =>
            simp only [Option.map_some, Int.ofNat_eq_natCast]
            cases hb : rec.bits.bit (k : Int) with
            | ok b => cases b <;> simp [C01.statusVerdictL, C11.verifyStatuses]
            | err e => simp
            | panic e => simp
        · simp [hp]
      | err e => simp
      | panic e => simp
    · have hrel : (status11 g s).relevant = false := by
        simp [C11.StatusEntry.relevant, status11, hpu]
      simp [hty, hv, hpu, hrel, C01.statusVerdictL, C11.verifyStatuses]
  · have hrel : (status11 g s).relevant = false := by
      simp [C11.StatusEntry.relevant, status11]
      intro h; exact absurd h hty
    simp [hty, hrel, C01.statusVerdictL, C11.verifyStatuses]

/-! ## (2) a revoked credential never verifies -/

/-- network route: once node `i` ACCEPTED a revocation whose subject is the credential's id (C11 `registerRevocation`),
    C01's `Verify` over the revocation inputs read from ANY later C11 world refuses the credential — whatever `validAt`,
    trust setting and signature flag.  `Env.revoked` is discharged by C11's `revocation_before_credential`. -/
theorem revoked_by_network_never_verifies (g : Glue) (E : C11.Env) (K : C11.KeyEnv) (hE : C11.EnvOK E) (w0 : C11.World)
    (h0 : C11.WInv E w0) (i : Bool) (r : C11.Revocation) (before after : List C11.Act) (n' : C11.Node)
    (hacc : C11.registerRevocation K ((C11.run E K w0 before).get i) r = .ok n')
    (c : C01.Cred) (hc : c.id = some r.subject)
    (cfg : C01.Cfg) (P : C01.Crypto) (base : C01.Env) (au cs : Bool) (at_ : Option C01.Time) :
    C01.verify cfg P (revEnv g E i (C11.run E K w0 (before ++ [.register i r] ++ after)) base) au cs at_ c ≠ .ok () := by
  have h := C11.Props.revocation_before_credential E K hE w0 h0 i r
    { id := some r.subject, issuer := "", statuses := none } before after n' hacc rfl
  apply verify_not_ok_of_revoked_id hc
  show ((C11.run E K w0 (before ++ [.register i r] ++ after)).get i).isRevoked r.subject = true
  simp only [C11.verify, C11.Node.credRevoked, C11.statusVerify] at h
  generalize C11.run E K w0 (before ++ [.register i r] ++ after) = W at h ⊢
  by_cases hr : (W.get i).isRevoked r.subject = true
  · exact hr
  · simp [hr] at h

/-- status-list route: once the issuer's `Revoke` of list position `e` SUCCEEDED on node `i` (which manages the list), C01's
    `Verify` over the inputs read from ANY later C11 world refuses every credential whose first relevant status entry names that
    list and position.  `Env.statusList` is discharged by C11's `revoke_effective` + `revoked_forever_local` (`set_monotone`
    inside) through the single-entry bridge `status_bridge`. -/
theorem revoked_by_status_never_verifies (g : Glue) (E : C11.Env) (K : C11.KeyEnv) (hE : C11.EnvOK E) (w0 : C11.World)
    (h0 : C11.WInv E w0) (i : Bool) (before after : List C11.Act) (credId : String) (e : C11.StatusEntry) (n1 : C11.Node)
    (hrev : C11.revoke E (C11.run E K w0 before).now ((C11.run E K w0 before).get i) credId e = .ok n1)
    (c : C01.Cred) (pre post : List C01.Status) (s : C01.Status) (hc : c.statuses = some (pre ++ s :: post))
    (hpre : ∀ p ∈ pre, skipped p = true) (hty : s.typ = C01.statusListEntryType) (hv : s.entryValid = true)
    (hpu : s.purpose = "revocation") (hlist : g.urlOf s.listCred = e.list) (hidx : s.index.map Int.ofNat = e.idx)
    (cfg : C01.Cfg) (P : C01.Crypto) (base : C01.Env) (au cs : Bool) (at_ : Option C01.Time) :
    C01.verify cfg P (revEnv g E i (C11.run E K w0 (before ++ [.revoke i credId e] ++ after)) base) au cs at_ c ≠ .ok () := by
  obtain ⟨j, hj, hmem⟩ := C11.Props.revoke_effective E _ _ n1 credId e hrev
  have hsi : s.index = some j := by
    rw [hj] at hidx
    cases hi : s.index with
    | none => rw [hi] at hidx; cases hidx
    | some k => rw [hi] at hidx; simp only [Option.map_some, Option.some.injEq, Int.ofNat_eq_natCast, Int.natCast_inj] at hidx; rw [hidx]
  have hw1 := ((C11.run_path (K := K) hE before h0).nodes h0).1
  have hrun : C11.run E K w0 (before ++ [.revoke i credId e] ++ after) = C11.run E K ((C11.run E K w0 before).set i n1) after := by
    simp only [C11.run, List.foldl_append, List.foldl_cons, List.foldl_nil, C11.step]
    rw [show C11.revoke E (List.foldl (C11.step E K) w0 before).now ((List.foldl (C11.step E K) w0 before).get i) credId e = .ok n1 from hrev]
  have hp : C11.WPrim E K (C11.run E K w0 before) ((C11.run E K w0 before).set i n1) := C11.WPrim.revoke _ i credId e n1 hrev
  have hloc := C11.Props.revoked_forever_local E K hE _ (hp.nodes hw1).1 i e.list j (by rw [C11.get_set_same]; exact hmem) after
    { id := none, issuer := "", statuses := some [status11 g s] } [] [] (status11 g s) rfl (by simp)
    hlist (by simp [status11, hty, C01.statusListEntryType]) (by simp [status11, hpu]) (by simp [status11, hsi])
  rw [← hrun] at hloc
  obtain ⟨rec, hrec, hpurp, hbit⟩ := status_bridge E i _ (status11 g s) j (relevant_status11 g s hty hpu) (by simp [status11, hsi]) hloc
  apply verify_not_ok_of_status
  unfold C01.statusVerdict
  rw [hc]
  refine statusVerdictL_revoked _ pre post s (slOf rec) j hpre hty hv hpu hsi ?_ hpurp ?_
  · show (statusRecord E i _ (g.urlOf s.listCred)).map slOf = some (slOf rec)
    have : (status11 g s).list = g.urlOf s.listCred := rfl
    rw [← this, hrec]; rfl
  · simp [slOf, hbit]

/-- status-list route, verifying node ≠ issuing node: once node `i` holds a refreshed record of the other node's list with the bit
    set (C11 `Pin`), C01's `Verify` over the inputs read from ANY later C11 world refuses the credential.  Discharged by C11's
    `cache_sound` + `revoked_forever_remote`. -/
theorem revoked_on_refreshed_node_never_verifies (g : Glue) (E : C11.Env) (K : C11.KeyEnv) (hE : C11.EnvOK E) (w0 : C11.World)
    (h0 : C11.WInv E w0) (hc0 : C11.CacheSound w0) (i : Bool) (before after : List C11.Act) (ob iss : String) (p j : Nat)
    (hpin : C11.Pin (C11.run E K w0 before) i ob iss p j)
    (c : C01.Cred) (pre post : List C01.Status) (s : C01.Status) (hc : c.statuses = some (pre ++ s :: post))
    (hpre : ∀ p ∈ pre, skipped p = true) (hty : s.typ = C01.statusListEntryType) (hv : s.entryValid = true)
    (hpu : s.purpose = "revocation") (hlist : g.urlOf s.listCred = .sl ob iss p) (hidx : s.index = some j)
    (cfg : C01.Cfg) (P : C01.Crypto) (base : C01.Env) (au cs : Bool) (at_ : Option C01.Time) :
    C01.verify cfg P (revEnv g E i (C11.run E K w0 (before ++ after)) base) au cs at_ c ≠ .ok () := by
  have hw1 := ((C11.run_path (K := K) hE before h0).nodes h0).1
  have hrun : C11.run E K w0 (before ++ after) = C11.run E K (C11.run E K w0 before) after := by
    simp only [C11.run, List.foldl_append]
  have hrem := C11.Props.revoked_forever_remote E K hE _ hw1 (C11.Props.cache_sound E K hE w0 h0 hc0 before) i ob iss p j hpin after
    { id := none, issuer := "", statuses := some [status11 g s] } [] [] (status11 g s) rfl (by simp)
    hlist (by simp [status11, hty, C01.statusListEntryType]) (by simp [status11, hpu]) (by simp [status11, hidx])
  rw [← hrun] at hrem
  obtain ⟨rec, hrec, hpurp, hbit⟩ := status_bridge E i _ (status11 g s) j (relevant_status11 g s hty hpu) (by simp [status11, hidx]) hrem
  apply verify_not_ok_of_status
  unfold C01.statusVerdict
  rw [hc]
  refine statusVerdictL_revoked _ pre post s (slOf rec) j hpre hty hv hpu hidx ?_ hpurp ?_
  · show (statusRecord E i _ (g.urlOf s.listCred)).map slOf = some (slOf rec)
    have : (status11 g s).list = g.urlOf s.listCred := rfl
    rw [← this, hrec]; rfl
  · simp [slOf, hbit]

/-- **revoked_credential_never_verifies.**  For every C11 history in which the credential was revoked (`RevokedIn`: a network
    revocation for its id was accepted, or the issuer's status-list `Revoke` of its entry succeeded on this node, or this node
    refreshed the other node's list after the bit was set — anything before, anything after), C01's verifier over the revocation inputs of the resulting world accepts neither the credential (any `validAt`,
    `allowUntrusted`, `checkSignature`) nor any presentation that contains it (`VerifyVP` with credential verification). -/
theorem revoked_credential_never_verifies (g : Glue) (E : C11.Env) (K : C11.KeyEnv) (hE : C11.EnvOK E) (w0 : C11.World)
    (h0 : C11.WInv E w0) (i : Bool) (c : C01.Cred) (acts : List C11.Act) (hrev : RevokedIn g E K w0 i c acts)
    (cfg : C01.Cfg) (P : C01.Crypto) (base : C01.Env) (au : Bool) (at_ : Option C01.Time) :
    (∀ cs, C01.verify cfg P (revEnv g E i (C11.run E K w0 acts) base) au cs at_ c ≠ .ok ()) ∧
    (∀ vp : C01.Pres, c ∈ vp.vcs → C01.verifyVP cfg P (revEnv g E i (C11.run E K w0 acts) base) true au at_ vp ≠ .ok ()) := by
  have hv : ∀ cs, C01.verify cfg P (revEnv g E i (C11.run E K w0 acts) base) au cs at_ c ≠ .ok () := by
    intro cs
    cases hrev with
    | network before after r n' hacc hc =>
      exact revoked_by_network_never_verifies g E K hE w0 h0 i r before after n' hacc c hc cfg P base au cs at_
    | status before after credId e n1 hr pre post s hc hpre hty hv hpu hlist hidx =>
      exact revoked_by_status_never_verifies g E K hE w0 h0 i before after credId e n1 hr c pre post s hc hpre hty hv hpu hlist hidx
        cfg P base au cs at_
    | refreshed before after hc0 ob iss p j hpin pre post s hc hpre hty hv hpu hlist hidx =>
      exact revoked_on_refreshed_node_never_verifies g E K hE w0 h0 hc0 i before after ob iss p j hpin c pre post s hc hpre hty hv hpu
        hlist hidx cfg P base au cs at_
  exact ⟨hv, fun vp hc => verifyVP_not_ok_of_vc hc hv⟩

/-! non-vacuity: C11's own example world, keys and histories; a C01 credential for each route -/

def exGlue : Glue :=
  { urlOf := fun s => if s = "https://n0/statuslist/did:a/1" then C11.Props.exList else .raw s
    view := fun c => { raw := c.raw, key := c.raw }
    envJ := fun _ => .null
    pdOf := fun _ => default
    render := fun vals => vals.map (fun p => (p.1, ""))
    clock := fun t => 1900 + (t : Int) }

def exCredNet : C01.Cred := { id := some "did:nuts:B#1", issuer := "did:nuts:B" }
def exCredSL : C01.Cred :=
  { id := some "did:a#1", issuer := "did:a",
    statuses := some [{ id := "x", typ := "Other" },
                      { id := "s", typ := C01.statusListEntryType, purpose := "revocation", indexText := "0",
                        listCred := "https://n0/statuslist/did:a/1" }] }

example : RevokedIn exGlue C11.Props.exEnv C11.Props.exKeys C11.Props.exWorld false exCredNet
    ([] ++ [.register false C11.Props.exRevByB] ++ []) := by
  cases h : C11.registerRevocation C11.Props.exKeys ((C11.run C11.Props.exEnv C11.Props.exKeys C11.Props.exWorld []).get false) C11.Props.exRevByB with
  | ok n' => exact .network [] [] _ n' h rfl
  | err e =>
    have : (C11.registerRevocation C11.Props.exKeys ((C11.run C11.Props.exEnv C11.Props.exKeys C11.Props.exWorld []).get false) C11.Props.exRevByB).isOk = true := by decide
    rw [h] at this; cases this
  | panic e =>
    have : (C11.registerRevocation C11.Props.exKeys ((C11.run C11.Props.exEnv C11.Props.exKeys C11.Props.exWorld []).get false) C11.Props.exRevByB).isOk = true := by decide
    rw [h] at this; cases this

example : RevokedIn exGlue C11.Props.exEnv C11.Props.exK C11.Props.exWorld false exCredSL
    ([.entryTx false "did:a" none] ++ [.revoke false "did:a#1" C11.Props.exEntry] ++ [.verify true C11.Props.exCred]) := by
  cases h : C11.revoke C11.Props.exEnv (C11.run C11.Props.exEnv C11.Props.exK C11.Props.exWorld [.entryTx false "did:a" none]).now
      ((C11.run C11.Props.exEnv C11.Props.exK C11.Props.exWorld [.entryTx false "did:a" none]).get false) "did:a#1" C11.Props.exEntry with
  | ok n1 =>
    exact .status _ _ _ _ n1 h [{ id := "x", typ := "Other" }] [] _ rfl (by decide) rfl rfl rfl (by decide) (by decide)
  | err e =>
    have : (C11.revoke C11.Props.exEnv (C11.run C11.Props.exEnv C11.Props.exK C11.Props.exWorld [.entryTx false "did:a" none]).now
      ((C11.run C11.Props.exEnv C11.Props.exK C11.Props.exWorld [.entryTx false "did:a" none]).get false) "did:a#1" C11.Props.exEntry).isOk = true := by decide
    rw [h] at this; cases this
  | panic e =>
    have : (C11.revoke C11.Props.exEnv (C11.run C11.Props.exEnv C11.Props.exK C11.Props.exWorld [.entryTx false "did:a" none]).now
      ((C11.run C11.Props.exEnv C11.Props.exK C11.Props.exWorld [.entryTx false "did:a" none]).get false) "did:a#1" C11.Props.exEntry).isOk = true := by decide
    rw [h] at this; cases this

/-- the verifying node is node 1: it downloaded node 0's list while verifying (C11's example history) -/
example : RevokedIn exGlue C11.Props.exEnv C11.Props.exK C11.Props.exWorld true exCredSL (C11.Props.exHistory ++ []) := by
  have hpin : C11.Pin (C11.run C11.Props.exEnv C11.Props.exK C11.Props.exWorld C11.Props.exHistory) true "https://n0" "did:a" 1 0 := by
    have h : (match ((C11.run C11.Props.exEnv C11.Props.exK C11.Props.exWorld C11.Props.exHistory).get true).cred? C11.Props.exList with
        | some rec => rec.purpose == "revocation" && C11.getB rec.bits 0
        | none => false) = true := by decide
    refine ⟨by decide, ?_⟩
    split at h
    · rename_i rec hrec
      simp only [Bool.and_eq_true, beq_iff_eq] at h
      exact ⟨rec, hrec, h.1, h.2⟩
    · cases h
  exact .refreshed _ [] C11.Props.exWorld_cache "https://n0" "did:a" 1 0 hpin [{ id := "x", typ := "Other" }] [] _ rfl (by decide) rfl rfl rfl
    (by decide) rfl

/-- both verdicts on C11's example: revoked on node 0 after its history, not revoked in the initial world (list not fetchable) -/
example : C01.statusVerdict (revEnv exGlue C11.Props.exEnv false (C11.run C11.Props.exEnv C11.Props.exK C11.Props.exWorld C11.Props.exHistory) C01.Props.exE)
    { exCredSL with statuses := some [{ id := "s", typ := C01.statusListEntryType, purpose := "revocation", indexText := "0",
                                         listCred := "https://n0/statuslist/did:a/1" }] } = .revoked := by decide
example : C01.statusVerdict (revEnv exGlue C11.Props.exEnv false C11.Props.exWorld C01.Props.exE)
    { exCredSL with statuses := some [{ id := "s", typ := C01.statusListEntryType, purpose := "revocation", indexText := "0",
                                         listCred := "https://n0/statuslist/did:a/1" }] } = .softErr := by decide

/-! ### the seam C01 → C02 on the signer (a FINDING about the models)

    C02's theorems (`s2s_token_only_if`, `introspect_active_only_if_issued`, `introspect_faithful`) assume `vp.signer ≠ some ""`
    ("DIDs that parse are non-empty", `HistWF`).  C01's `presentationSigner` guarantees that in its JSON-LD branch (it tests
    `d == ""`), but its JWT branch returns `Env.didOfURL kid` unfiltered: with a DID-URL parser that can yield the empty DID the
    upstream model outputs exactly what the downstream hypothesis excludes.  The theorems of (3) and (4) are therefore stated
    under the exact extra hypothesis `hdid : ∀ u, base.didOfURL u ≠ some ""` (go-did's `ParseDIDURL` contract) and named `_partial`. -/

theorem signer_seam_witness :
    (∃ (E : C01.Env) (vp : C01.Pres), C01.presentationSigner E vp = some "") ∧
    (∀ (E : C01.Env) (vp : C01.Pres), vp.format = .ld → C01.presentationSigner E vp ≠ some "") := by
  refine ⟨⟨{ C01.Props.exE with didOfURL := fun _ => some "" }, { format := .jwt, jwt := some { kid := "x" } }, by decide⟩, ?_⟩
  intro E vp hf
  unfold C01.presentationSigner
  rw [hf]
  simp only
  split
  · simp
  · split
    · rename_i d hd
      split
      · simp
      · rename_i hne; simpa using hne
    · simp

/-! ## (3) a token is issued only for verified, matching, unrevoked presentations -/

/-- one request: if C02's token endpoint answers 200 to the composed request, then C01's `VerifyVP(vp, true, true, nil)` over
    the revocation world accepted EVERY presentation, C12's `Validate` accepted the submission for the definition the policy
    names for the requested scope, and what introspection later reports as additional claims is exactly the rendering of
    the values C12's `resolveFields` resolved from the credentials C12's `resolve` found in the envelope. -/
theorem token_step_only_for_verified_matching_partial (x : Ctx) (cfg2 : C02.Cfg)
    (hchk : cfg2.emptyVpChecked = true) (httl : cfg2.nonceTtl ≠ 0) (httl' : cfg2.tokenTtl ≠ 0)
    (hdid : ∀ u, x.base.didOfURL u ≠ some "")
    (rw : C11.World) (w w' : C02.World) (now : Nat) (r : Req) (resp : C02.TokenResponse)
    (h : C02.issueS2S cfg2 w now (s2sOf x rw now r) = (w', .ok resp)) :
    ∃ claims, Established x cfg2 rw now r claims ∧
      ∀ now' ri, C02.introspect cfg2 w' now' resp.token = .ok (some ri) → ri.additional = claims := by
  obtain ⟨rec, hest, htok, _, hrec, _, _⟩ := issue_established x cfg2 rw w w' now r resp hchk httl hdid h
  refine ⟨rec.claims, hest, ?_⟩
  intro now' ri hi
  obtain ⟨t, _, hget, _, _, hri⟩ := C02.introspect_some cfg2 w' now' resp.token ri hi
  rw [hrec, htok, C02.Store.get_put_same _ _ _ _ _ _ httl'] at hget
  split at hget
  · cases hget; rw [hri]
  · cases hget

/-- **token_issued_only_for_verified_matching_unrevoked** (`_partial`: under `hdid`, see `signer_seam_witness`).  For every composed history (revocation-layer events and token
    requests in any order) from the empty authorization server: a token that introspection reports active stems from a request
    event of the history such that, in the C11-REACHABLE revocation world of that moment, C01 accepted every presentation of
    the request; no credential of any presentation was revoked in the C11 history so far (`RevokedIn`); C12's `Validate`
    accepted the submission for the scope's definition; and the introspected claims are exactly the rendering of what C12
    resolved (`claims_cannot_override` then keeps them from shadowing a standard member). -/
theorem token_issued_only_for_verified_matching_unrevoked_partial (x : Ctx) (cfg2 : C02.Cfg) (sha : String → String)
    (hchk : cfg2.emptyVpChecked = true) (httl : cfg2.nonceTtl ≠ 0) (httl' : cfg2.tokenTtl ≠ 0)
    (hdid : ∀ u, x.base.didOfURL u ≠ some "")
    (hE : C11.EnvOK x.E11) (rw0 : C11.World) (h0 : C11.WInv x.E11 rw0)
    (evs : List Ev) (now : Nat) (tok : String) (ri : C02.Introspection)
    (h : C02.introspect cfg2 (runEv x cfg2 ⟨rw0, {}⟩ evs).as now tok = .ok (some ri)) :
    ∃ pre t r post, evs = pre ++ Ev.req t r :: post ∧
      Established x cfg2 (C11.run x.E11 x.K rw0 (revActs pre)) t r ri.additional ∧
      (∀ p ∈ r.vps, ∀ c ∈ p.1.vcs, ¬ RevokedIn x.g x.E11 x.K rw0 x.node c (revActs pre)) := by
  rw [runEv_as x cfg2 sha evs ⟨rw0, {}⟩] at h
  obtain ⟨pre', t, op, post', rec, heq, hiss, _, _, _, _, _, _, _, _, _, hadd⟩ :=
    C02.Props.introspect_active_only_if_issued cfg2 sha hchk httl httl' _ (trace_wf x cfg2 hdid evs _) now tok ri h
  obtain ⟨pre, r, post, hevs, htr, hop⟩ := trace_split x cfg2 evs _ pre' post' t op heq
  subst hop
  obtain ⟨resp, hstep, _, hname, htoks, _, _, _⟩ := hiss
  have hI : C02.issueS2S cfg2 (C02.after cfg2 sha pre' {}) t (s2sOf x (runEv x cfg2 ⟨rw0, {}⟩ pre).rw t r) =
      ((C02.issueS2S cfg2 (C02.after cfg2 sha pre' {}) t (s2sOf x (runEv x cfg2 ⟨rw0, {}⟩ pre).rw t r)).1, .ok resp) := by
    simp only [C02.step, C02.Out.token.injEq] at hstep
    rw [← hstep]
  obtain ⟨rec', hest, _, _, hrec', _, _⟩ := issue_established x cfg2 _ _ _ t r resp hchk httl hdid hI
  have htoks' : (C02.issueS2S cfg2 (C02.after cfg2 sha pre' {}) t (s2sOf x (runEv x cfg2 ⟨rw0, {}⟩ pre).rw t r)).1.tokens =
      (C02.after cfg2 sha pre' {}).tokens.put t cfg2.tokenTtl tok rec := by
    simpa [C02.step] using htoks
  rw [htoks', hname] at hrec'
  have := put_inj _ _ _ _ _ _ httl' hrec'
  subst this
  rw [runEv_rw] at hest
  rw [hadd]
  refine ⟨pre, t, r, post, hevs, hest, ?_⟩
  intro p hp c hc hrev
  exact (revoked_credential_never_verifies x.g x.E11 x.K hE rw0 h0 x.node c _ hrev x.cfg1 x.P _ true none).2 p.1 hc (hest.1 p hp)

/-- **introspected_claims_are_resolved_fields** (C02 `claims_cannot_override` ∘ C12 `field_values_faithful`).  For the token of
    an established request (`Established`, as delivered by (3)): every additional claim reported by introspection is the
    rendering of a value C12 resolved, each such value comes — through a constraint field with that id of the input descriptor
    the credential is mapped to — from a credential of the map C12's `resolve` read out of the envelope; and in the marshalled
    RFC 7662 answer no such claim shadows a standard member. -/
theorem introspected_claims_are_resolved_fields (x : Ctx) (cfg2 : C02.Cfg) (rw : C11.World) (t : Nat) (r : Req)
    (h12 : x.cfg12 = Facts.C12.cfg) (hres : cfg2.reserved = Facts.C02.reservedClaims)
    (w : C02.World) (now : Nat) (tok : String) (ri : C02.Introspection)
    (hi : C02.introspect cfg2 w now tok = .ok (some ri)) (hest : Established x cfg2 rw t r ri.additional) :
    (∃ (d : C02.Def) (cm : List (String × C12.Cred)) (vals : C12.Values), C12.resolve x.cfg12 x.decode (x.g.envJ r.pres) [] r.sub = .ok cm ∧ ri.additional = x.g.render vals ∧
        ∀ e ∈ vals, C12.FieldSource x.re (x.g.pdOf d.key) cm e) ∧
    (∀ k ∈ Facts.C02.introspectionFields, C02.objGet (C02.marshal Facts.C02.marshalAssignOrder ri) k = ri.std k) := by
  obtain ⟨_, defs, d, m, cm, vals, _, _, _, hcm, hv, hcl⟩ := hest
  refine ⟨⟨d, cm, vals, hcm, hcl, ?_⟩, ?_⟩
  · rw [h12] at hv
    exact C12.Props.field_values_faithful x.re _ cm vals hv
  · intro k hk
    exact C02.Props.claims_cannot_override_today cfg2 hres w now tok ri hi k hk

/-! ## (4) revocation after issue -/

/-- **revocation_after_issue_does_not_resurrect** (`_partial`: under `hdid`, see `signer_seam_witness`).  A token was issued for request `r` (event `req t r` after `pre`).  Later
    (`mid`) a credential `c` is revoked in the C11 layer.  Then, after any further history `post`:
      (a) EVERY later token request that presents `c` in any of its presentations is refused — never a 200;
      (b) what the models say about the ALREADY ISSUED token: nothing in C02 connects the token store to the revocation
          layer — its introspection is, at every moment, the same as if nothing had happened after the issue, and until its own
          expiry (`t + tokenValidity`) it is NOT reported inactive.  (The composition states this; it does not invent a
          token-revocation behaviour the Go code does not have.) -/
theorem revocation_after_issue_does_not_resurrect_partial (x : Ctx) (cfg2 : C02.Cfg) (sha : String → String)
    (hchk : cfg2.emptyVpChecked = true) (httl : cfg2.nonceTtl ≠ 0) (httl' : cfg2.tokenTtl ≠ 0)
    (hsame : cfg2.tokenTtl = cfg2.tokenValidity) (hdid : ∀ u, x.base.didOfURL u ≠ some "")
    (hE : C11.EnvOK x.E11) (rw0 : C11.World) (h0 : C11.WInv x.E11 rw0)
    (pre mid post : List Ev) (t : Nat) (r : Req) (resp : C02.TokenResponse)
    (hiss : (stepEv x cfg2 (runEv x cfg2 ⟨rw0, {}⟩ pre) (.req t r)).2 = some (.ok resp))
    (c : C01.Cred) (hrev : RevokedIn x.g x.E11 x.K rw0 x.node c (revActs (pre ++ Ev.req t r :: mid))) :
    (∀ t' r' resp', (∃ p ∈ r'.vps, c ∈ p.1.vcs) →
        (stepEv x cfg2 (runEv x cfg2 ⟨rw0, {}⟩ ((pre ++ Ev.req t r :: mid) ++ post)) (.req t' r')).2 ≠ some (.ok resp')) ∧
    (∀ now, C02.introspect cfg2 (runEv x cfg2 ⟨rw0, {}⟩ ((pre ++ Ev.req t r :: mid) ++ post)).as now resp.token =
            C02.introspect cfg2 (runEv x cfg2 ⟨rw0, {}⟩ (pre ++ [Ev.req t r])).as now resp.token) ∧
    (∀ now, now ≤ t + cfg2.tokenValidity →
        C02.introspect cfg2 (runEv x cfg2 ⟨rw0, {}⟩ ((pre ++ Ev.req t r :: mid) ++ post)).as now resp.token ≠ .ok none) := by
  refine ⟨?_, ?_⟩
  · intro t' r' resp' ⟨p, hp, hc⟩ hok
    have hI : C02.issueS2S cfg2 (runEv x cfg2 ⟨rw0, {}⟩ ((pre ++ Ev.req t r :: mid) ++ post)).as t'
        (s2sOf x (runEv x cfg2 ⟨rw0, {}⟩ ((pre ++ Ev.req t r :: mid) ++ post)).rw t' r') =
        ((C02.issueS2S cfg2 (runEv x cfg2 ⟨rw0, {}⟩ ((pre ++ Ev.req t r :: mid) ++ post)).as t'
          (s2sOf x (runEv x cfg2 ⟨rw0, {}⟩ ((pre ++ Ev.req t r :: mid) ++ post)).rw t' r')).1, .ok resp') := by
      simp only [stepEv, Option.some.injEq] at hok
      rw [← hok]
    obtain ⟨_, hest, _⟩ := issue_established x cfg2 _ _ _ t' r' resp' hchk httl hdid hI
    rw [runEv_rw, revActs_append] at hest
    exact (revoked_credential_never_verifies x.g x.E11 x.K hE rw0 h0 x.node c _ (hrev.extend _) x.cfg1 x.P _ true none).2
      p.1 hc (hest.1 p hp)
  · -- the issued token: C02's `introspect_faithful` on the trace
    have hI : C02.issueS2S cfg2 (runEv x cfg2 ⟨rw0, {}⟩ pre).as t (s2sOf x (runEv x cfg2 ⟨rw0, {}⟩ pre).rw t r) =
        ((C02.issueS2S cfg2 (runEv x cfg2 ⟨rw0, {}⟩ pre).as t (s2sOf x (runEv x cfg2 ⟨rw0, {}⟩ pre).rw t r)).1, .ok resp) := by
      simp only [stepEv, Option.some.injEq] at hiss
      rw [← hiss]
    obtain ⟨rec, _, htok, hnext, hrec, hia, hex⟩ := issue_established x cfg2 _ _ _ t r resp hchk httl hdid hI
    have hasp : (runEv x cfg2 ⟨rw0, {}⟩ pre).as = C02.after cfg2 sha (trace x cfg2 ⟨rw0, {}⟩ pre) {} := runEv_as x cfg2 sha pre _
    have hIssued : C02.Issued cfg2 sha (C02.after cfg2 sha (trace x cfg2 ⟨rw0, {}⟩ pre) {}) t
        (.s2s (s2sOf x (runEv x cfg2 ⟨rw0, {}⟩ pre).rw t r)) resp.token rec := by
      rw [← hasp]
      refine ⟨resp, ?_, rfl, htok, ?_, ?_, hia, hex⟩
      · simp only [C02.step]; rw [hI]
      · simp only [C02.step]; rw [htok]; exact hrec
      · simp only [C02.step]; exact hnext
    have key : ∀ rest : List Ev, ∀ now,
        C02.introspect cfg2 (runEv x cfg2 ⟨rw0, {}⟩ (pre ++ Ev.req t r :: rest)).as now resp.token =
          if now ≤ t + cfg2.tokenValidity then
            (match C02.firstReserved cfg2.reserved rec.claims with
             | some k => .err ("reserved-claim:" ++ k)
             | none => .ok (some
                { active := true, cnf := rec.dpop.map (fun d => "{\"jkt\":" ++ C02.jstr d.jkt ++ "}"),
                  iat := some (t / cfg2.second), exp := some ((t + cfg2.tokenValidity) / cfg2.second),
                  iss := some (C02.jstr rec.issuer), clientId := some (C02.jstr rec.clientId), scope := some (C02.jstr rec.scope),
                  vps := some (toString rec.vps), pds := some (C02.renderDefs rec.defs),
                  pss := some (C02.renderSubs rec.submissions), additional := rec.claims }))
          else .ok none := by
      intro rest now
      have htr : trace x cfg2 ⟨rw0, {}⟩ (pre ++ Ev.req t r :: rest) =
          trace x cfg2 ⟨rw0, {}⟩ pre ++ (t, .s2s (s2sOf x (runEv x cfg2 ⟨rw0, {}⟩ pre).rw t r)) ::
            trace x cfg2 (stepEv x cfg2 (runEv x cfg2 ⟨rw0, {}⟩ pre) (.req t r)).1 rest := by
        rw [trace_append]; simp [trace, opOf]
      rw [runEv_as x cfg2 sha _ ⟨rw0, {}⟩, htr]
      refine C02.Props.introspect_faithful cfg2 sha hchk httl httl' hsame _ _ t _ resp.token rec ?_ hIssued now
      rw [← htr]; exact trace_wf x cfg2 hdid _ _
    refine ⟨?_, ?_⟩
    · intro now
      have e1 : (pre ++ Ev.req t r :: mid) ++ post = pre ++ Ev.req t r :: (mid ++ post) := by simp
      rw [e1, key (mid ++ post) now, key [] now]
    · intro now hle
      have e1 : (pre ++ Ev.req t r :: mid) ++ post = pre ++ Ev.req t r :: (mid ++ post) := by simp
      rw [e1, key (mid ++ post) now, if_pos hle]
      cases C02.firstReserved cfg2.reserved rec.claims <;> simp


/-! non-vacuity of (3) and (4): C01's accepted example presentation at the token endpoint, then the issuer's revocation -/

/-- the revocation layer's key resolver knows the example issuer's key; toy signature check -/
def exK1 : C11.KeyEnv := ⟨fun vm _ => if vm == "did:x:i#k" then some "K1" else none, fun _ _ _ => true⟩
/-- the issuer `did:x:i` revokes its credential `did:x:i#1` (C11 `buildRevocation`) -/
def exRev1 : C11.Revocation := C11.buildRevocation "did:x:i#1" "did:x:i#k" "sig" 150

/-- C01's example verifier (toy crypto, one trusted issuer; its clock shows 1900 + t at C02-time t), C11's example world and keys, C12 as the source
    has it today -/
def exCtx : Ctx :=
  { g := exGlue, cfg1 := C01.Props.exCfg, P := C01.Props.exP, base := C01.Props.exE,
    E11 := C11.Props.exEnv, K := exK1, node := false,
    cfg12 := Facts.C12.cfg, re := C12.Props.reNone, decode := fun _ _ => none }

def exCfg2 : C02.Cfg :=
  { maxValidity := 5, nonceTtl := 15, tokenValidity := 900, tokenTtl := 900, codeTtl := 60, oauthNonceTtl := 60,
    stateTtl := 60, verifierSkew := 5, second := 1, emptyVpChecked := true, reserved := Facts.C02.reservedClaims,
    marshalOrder := Facts.C02.marshalAssignOrder, publicURL := "https://as", subjects := ["alpha"],
    policy := [("care", [("organization", ⟨"pd_org", 0⟩)])] }

def exWire : C02.S2SReq :=
  { subject := "alpha", paramsPresent := true, clientId := "client", scope := "care", envelopeOK := true,
    submissionOK := true, vps := [], subDefId := "pd_org", pex := fun _ => false, claims := fun _ => [], dpop := .absent }

def exVPWire (nonce : String) : C02.VP :=
  { created := some 100, expires := some 105, signer := none, subjects := [], aud := ["https://as/oauth2/alpha"],
    nonce := nonce, challenge := "", verifies := false }

/-- C01's accepted example presentation (one credential, `did:x:i#1`) -/
def exReq (nonce : String) : Req := { wire := exWire, vps := [(C01.Props.exVP, exVPWire nonce)], sub := [] }

def exS0 : St := ⟨C11.Props.exWorld, {}⟩

example : accepts exCtx C11.Props.exWorld 102 C01.Props.exVP = true := by decide
example : (fieldsOf exCtx C11.Props.exWorld 102 [C01.Props.exVP] [] 0).isOk = true := by decide
example : ((stepEv exCtx exCfg2 exS0 (.req 102 (exReq "n1"))).2.map (·.isOk)) = some true := by decide

/-- T3 non-vacuity: the token of the request is reported active -/
example : (match C02.introspect exCfg2 (runEv exCtx exCfg2 exS0 [.req 102 (exReq "n1")]).as 200 "tok#0" with
    | .ok (some ri) => ri.active | _ => false) = true := by decide

/-- T4 non-vacuity: token issued, THEN the issuer's revocation arrives and is accepted (`RevokedIn` through `mid`) … -/
example : (stepEv exCtx exCfg2 (runEv exCtx exCfg2 exS0 []) (.req 102 (exReq "n1"))).2 =
    some (.ok { token := "tok#0", tokenType := "Bearer", dpopKid := none, scope := "care", expiresIn := 900 }) := by decide
example : RevokedIn exGlue C11.Props.exEnv exK1 C11.Props.exWorld false C01.Props.exC
    (revActs ([] ++ Ev.req 102 (exReq "n1") :: [.rev (.register false exRev1)])) := by
  show RevokedIn exGlue C11.Props.exEnv exK1 C11.Props.exWorld false C01.Props.exC ([] ++ [.register false exRev1] ++ [])
  cases h : C11.registerRevocation exK1 ((C11.run C11.Props.exEnv exK1 C11.Props.exWorld []).get false) exRev1 with
  | ok n' => exact .network [] [] _ n' h rfl
  | err e =>
    have : (C11.registerRevocation exK1 ((C11.run C11.Props.exEnv exK1 C11.Props.exWorld []).get false) exRev1).isOk = true := by decide
    rw [h] at this; cases this
  | panic e =>
    have : (C11.registerRevocation exK1 ((C11.run C11.Props.exEnv exK1 C11.Props.exWorld []).get false) exRev1).isOk = true := by decide
    rw [h] at this; cases this
/-- … the same presentation with a fresh nonce is now refused, while the old token is still reported active -/
example : (stepEv exCtx exCfg2 (runEv exCtx exCfg2 exS0 [.req 102 (exReq "n1"), .rev (.register false exRev1)]) (.req 103 (exReq "n2"))).2 =
    some (.err "invalid_request/vp-invalid") := by decide
example : (stepEv exCtx exCfg2 (runEv exCtx exCfg2 exS0 [.req 102 (exReq "n1")]) (.req 103 (exReq "n2"))).2.map (·.isOk) = some true := by decide
example : (match C02.introspect exCfg2 (runEv exCtx exCfg2 exS0 [.req 102 (exReq "n1"), .rev (.register false exRev1)]).as 200 "tok#0" with
    | .ok (some ri) => ri.active | _ => false) = true := by decide
example : C11.EnvOK C11.Props.exEnv ∧ C11.WInv C11.Props.exEnv C11.Props.exWorld ∧ (∀ u, exCtx.base.didOfURL u ≠ some "") :=
  ⟨C11.Props.exEnv_ok, C11.Props.exWorld_inv, by intro u; show (if _ then _ else _) ≠ _; split <;> simp⟩


/-- a second instance with a NON-trivial Presentation Exchange leg: one input descriptor with a constraint field `issuer_did`
    at `$.issuer`; the envelope carries the presented credential; the descriptor map points at it -/
def exCredJ (c : C01.Cred) : C12.J := .obj [("issuer", .str c.issuer), ("id", .str (c.id.getD ""))]
def exGlue2 : Glue :=
  { exGlue with
    view := fun c => { fmt := "ldp_vc", key := c.id.getD "", raw := c.id.getD "", tree := exCredJ c }
    envJ := fun vps => .obj [("verifiableCredential",
      match vps.flatMap (·.vcs) with
      | [c] => exCredJ c
      | l => .arr (l.map exCredJ))]
    pdOf := fun _ => { id := "pd_org", descs := [{ id := "d1", constraints := some [{ id := some "issuer_did", paths := [some { steps := [.key "issuer"] }] }] }] }
    render := fun vals => vals.map (fun p => (p.1, match p.2 with | some (.str s) => s | _ => "")) }
def exDecode : C12.Decoder := fun j _ =>
  match j with
  | .obj [("issuer", .str iss), ("id", .str id)] =>
    some { cred := some { fmt := "ldp_vc", key := id, raw := id, tree := .obj [("issuer", .str iss), ("id", .str id)] }, asMap := some j }
  | _ => none
def exCtx2 : Ctx := { exCtx with g := exGlue2, decode := exDecode }
def exReq2 (nonce : String) : Req :=
  { exReq nonce with sub := [{ top := { id := "d1", fmt := "ldp_vc", path := some C12.vcPathSingle } }] }

/-- the token's introspected claims are what C12 resolved from the presented (and C01-verified) credential -/
example : (match C02.introspect exCfg2 (runEv exCtx2 exCfg2 exS0 [.req 102 (exReq2 "n1")]).as 200 "tok#0" with
    | .ok (some ri) => ri.additional | _ => []) = [("issuer_did", "did:x:i")] := by decide
/-- a descriptor map that points nowhere is refused by C12's `Validate`, hence no token -/
example : (stepEv exCtx2 exCfg2 exS0 (.req 102 (exReq "n1"))).2 = some (.err "invalid_request/pd-not-conform") := by decide

end Nuts.Compose.Cred.Props
