/-
  Composition C11 → C01 → (C12) → C02 — the credential pipeline end to end.
  ONLY the composition theorems + non-vacuity examples.  Maps: NutsModel/Compose/Cred.lean; helper lemmas:
  NutsProofs/Lemmas/ComposeCred.lean.

  What the single properties leave open and this file closes:
    * C01's verifier takes "the revocation store holds a revocation for this id" (`Env.revoked`) and "the status list has this
      bit" (`Env.statusList`) as free parameters; C11 proves permanence of revocations about ITS OWN verdict function.  Here
      C01's two inputs are READ from C11's world (`revEnv`), and C01's refusal is derived from C11's `revocation_before_credential`
      / `revoked_forever_local` (through `revoke_effective`), for every later C11 history and every `validAt`.
    * C02's token endpoint takes "VerifyVP accepted" (`VP.verifies`), "the submission matches" (`S2SReq.pex`) and the claim
      values (`S2SReq.claims`) as free parameters.  Here they are COMPUTED by C01's `verifyVP` over a C11-reachable world and
      by C12's `validate` / `resolve` / `resolveFields` (`s2sOf`), and C02's `s2s_token_only_if` / `introspect_active_only_if_issued`
      / `introspect_faithful` are read back through the maps.
  Hypotheses that remain are listed at each theorem; every one is a seam reported in the model file's `Glue`.
-/
import NutsModel.Compose.Cred
import NutsProofs.Lemmas.ComposeCred
import NutsProofs.Props.C01
import NutsProofs.Props.C11
import NutsProofs.Props.C11ValidAt
import NutsProofs.Props.C12
import NutsProofs.Props.C02

namespace Nuts.Compose.Cred.Props
open Nuts Nuts.Compose.Cred

/-! ## (2) a revoked credential never verifies -/

/-- network route: once node `i` ACCEPTED a revocation whose subject is the credential's id (C11 `registerRevocation`),
    C01's `Verify` over the revocation inputs read from ANY later C11 world refuses the credential — whatever `validAt`,
    trust setting and signature flag.  `Env.revoked` is discharged by C11's `revocation_before_credential`. -/
theorem revoked_by_network_never_verifies (g : Glue) (E : C11.Env) (K : C11.KeyEnv) (hE : C11.EnvOK E) (w0 : C11.World)
    (h0 : C11.WInv E w0) (i : Bool) (r : C11.Revocation) (before after : List C11.Act) (n' : C11.Node)
    (hacc : C11.registerRevocation K ((C11.run E K w0 before).get i) r = .ok n')
    (c : C01.Cred) (hc : c.id = some r.subject)
    (cfg : C01.Cfg) (P : C01.Crypto) (base : C01.Env) (au cs : Bool) (at_ : Option C01.Time) :
    C01.verify cfg P (revEnv g E i (C11.run E K w0 (before ++ [.register i r] ++ after)) base) au cs at_ c ≠ .ok () := by
  have h := C11.Props.revocation_before_credential E K hE w0 h0 i r
    { id := some r.subject, issuer := "", statuses := none } before after n' hacc rfl
  apply verify_not_ok_of_revoked_id hc
  show ((C11.run E K w0 (before ++ [.register i r] ++ after)).get i).isRevoked r.subject = true
  simp only [C11.verify, C11.Node.credRevoked, C11.statusVerify] at h
  generalize C11.run E K w0 (before ++ [.register i r] ++ after) = W at h ⊢
  by_cases hr : (W.get i).isRevoked r.subject = true
  · exact hr
  · simp [hr] at h

/-- status-list route: once the issuer's `Revoke` of list position `e` SUCCEEDED on node `i` (which manages the list), C01's
    `Verify` over the inputs read from ANY later C11 world refuses every credential whose first relevant status entry names that
    list and position.  `Env.statusList` is discharged by C11's `revoke_effective` + `revoked_forever_local` (`set_monotone`
    inside) through the single-entry bridge `status_bridge`. -/
theorem revoked_by_status_never_verifies (g : Glue) (E : C11.Env) (K : C11.KeyEnv) (hE : C11.EnvOK E) (w0 : C11.World)
    (h0 : C11.WInv E w0) (i : Bool) (before after : List C11.Act) (credId : String) (e : C11.StatusEntry) (n1 : C11.Node)
    (hrev : C11.revoke E (C11.run E K w0 before).now ((C11.run E K w0 before).get i) credId e = .ok n1)
    (c : C01.Cred) (pre post : List C01.Status) (s : C01.Status) (hc : c.statuses = some (pre ++ s :: post))
    (hpre : ∀ p ∈ pre, skipped p = true) (hty : s.typ = C01.statusListEntryType) (hv : s.entryValid = true)
    (hpu : s.purpose = "revocation") (hlist : g.urlOf s.listCred = e.list) (hidx : s.index.map Int.ofNat = e.idx)
    (cfg : C01.Cfg) (P : C01.Crypto) (base : C01.Env) (au cs : Bool) (at_ : Option C01.Time) :
    C01.verify cfg P (revEnv g E i (C11.run E K w0 (before ++ [.revoke i credId e] ++ after)) base) au cs at_ c ≠ .ok () := by
  obtain ⟨j, hj, hmem⟩ := C11.Props.revoke_effective E _ _ n1 credId e hrev
  have hsi : s.index = some j := by
    rw [hj] at hidx
    cases hi : s.index with
    | none => rw [hi] at hidx; cases hidx
    | some k => rw [hi] at hidx; simp only [Option.map_some, Option.some.injEq, Int.ofNat_eq_natCast, Int.natCast_inj] at hidx; rw [hidx]
  have hw1 := ((C11.run_path (K := K) hE before h0).nodes h0).1
  have hrun : C11.run E K w0 (before ++ [.revoke i credId e] ++ after) = C11.run E K ((C11.run E K w0 before).set i n1) after := by
    simp only [C11.run, List.foldl_append, List.foldl_cons, List.foldl_nil, C11.step]
    rw [show C11.revoke E (List.foldl (C11.step E K) w0 before).now ((List.foldl (C11.step E K) w0 before).get i) credId e = .ok n1 from hrev]
  have hp : C11.WPrim E K (C11.run E K w0 before) ((C11.run E K w0 before).set i n1) := C11.WPrim.revoke _ i credId e n1 hrev
  have hloc := C11.Props.revoked_forever_local E K hE _ (hp.nodes hw1).1 i e.list j (by rw [C11.get_set_same]; exact hmem) after
    { id := none, issuer := "", statuses := some [status11 g s] } [] [] (status11 g s) rfl (by simp)
    hlist (by simp [status11, hty, C01.statusListEntryType]) (by simp [status11, hpu]) (by simp [status11, hsi])
  rw [← hrun] at hloc
  obtain ⟨rec, hrec, hpurp, hbit⟩ := status_bridge E i _ (status11 g s) j (relevant_status11 g s hty hpu) (by simp [status11, hsi]) hloc
  apply verify_not_ok_of_status
  unfold C01.statusVerdict
  rw [hc]
  refine statusVerdictL_revoked _ pre post s (slOf rec) j hpre hty hv hpu hsi ?_ hpurp ?_
  · show (statusRecord E i _ (g.urlOf s.listCred)).map slOf = some (slOf rec)
    have : (status11 g s).list = g.urlOf s.listCred := rfl
    rw [← this, hrec]; rfl
  · simp [slOf, hbit]

/-- **revoked_credential_never_verifies.**  For every C11 history in which the credential was revoked (`RevokedIn`: a network
    revocation for its id was accepted, or the issuer's status-list `Revoke` of its entry succeeded — anything before, anything
    after), C01's verifier over the revocation inputs of the resulting world accepts neither the credential (any `validAt`,
    `allowUntrusted`, `checkSignature`) nor any presentation that contains it (`VerifyVP` with credential verification). -/
theorem revoked_credential_never_verifies (g : Glue) (E : C11.Env) (K : C11.KeyEnv) (hE : C11.EnvOK E) (w0 : C11.World)
    (h0 : C11.WInv E w0) (i : Bool) (c : C01.Cred) (acts : List C11.Act) (hrev : RevokedIn g E K w0 i c acts)
    (cfg : C01.Cfg) (P : C01.Crypto) (base : C01.Env) (au : Bool) (at_ : Option C01.Time) :
    (∀ cs, C01.verify cfg P (revEnv g E i (C11.run E K w0 acts) base) au cs at_ c ≠ .ok ()) ∧
    (∀ vp : C01.Pres, c ∈ vp.vcs → C01.verifyVP cfg P (revEnv g E i (C11.run E K w0 acts) base) true au at_ vp ≠ .ok ()) := by
  have hv : ∀ cs, C01.verify cfg P (revEnv g E i (C11.run E K w0 acts) base) au cs at_ c ≠ .ok () := by
    intro cs
    cases hrev with
    | network before after r n' hacc hc =>
      exact revoked_by_network_never_verifies g E K hE w0 h0 i r before after n' hacc c hc cfg P base au cs at_
    | status before after credId e n1 hr pre post s hc hpre hty hv hpu hlist hidx =>
      exact revoked_by_status_never_verifies g E K hE w0 h0 i before after credId e n1 hr c pre post s hc hpre hty hv hpu hlist hidx
        cfg P base au cs at_
  exact ⟨hv, fun vp hc => verifyVP_not_ok_of_vc hc hv⟩

/-! non-vacuity: C11's own example world, keys and histories; a C01 credential for each route -/

def exGlue : Glue :=
  { urlOf := fun s => if s = "https://n0/statuslist/did:a/1" then C11.Props.exList else .raw s
    view := fun c => { raw := c.raw, key := c.raw }
    envJ := fun _ => .null
    pdOf := fun _ => default
    render := fun vals => vals.map (fun p => (p.1, "")) }

def exCredNet : C01.Cred := { id := some "did:nuts:B#1", issuer := "did:nuts:B" }
def exCredSL : C01.Cred :=
  { id := some "did:a#1", issuer := "did:a",
    statuses := some [{ id := "x", typ := "Other" },
                      { id := "s", typ := C01.statusListEntryType, purpose := "revocation", index := some 0,
                        listCred := "https://n0/statuslist/did:a/1" }] }

example : RevokedIn exGlue C11.Props.exEnv C11.Props.exKeys C11.Props.exWorld false exCredNet
    ([] ++ [.register false C11.Props.exRevByB] ++ []) := by
  cases h : C11.registerRevocation C11.Props.exKeys ((C11.run C11.Props.exEnv C11.Props.exKeys C11.Props.exWorld []).get false) C11.Props.exRevByB with
  | ok n' => exact .network [] [] _ n' h rfl
  | err e =>
    have : (C11.registerRevocation C11.Props.exKeys ((C11.run C11.Props.exEnv C11.Props.exKeys C11.Props.exWorld []).get false) C11.Props.exRevByB).isOk = true := by decide
    rw [h] at this; cases this
  | panic e =>
    have : (C11.registerRevocation C11.Props.exKeys ((C11.run C11.Props.exEnv C11.Props.exKeys C11.Props.exWorld []).get false) C11.Props.exRevByB).isOk = true := by decide
    rw [h] at this; cases this

example : RevokedIn exGlue C11.Props.exEnv C11.Props.exK C11.Props.exWorld false exCredSL
    ([.entryTx false "did:a" none] ++ [.revoke false "did:a#1" C11.Props.exEntry] ++ [.verify true C11.Props.exCred]) := by
  cases h : C11.revoke C11.Props.exEnv (C11.run C11.Props.exEnv C11.Props.exK C11.Props.exWorld [.entryTx false "did:a" none]).now
      ((C11.run C11.Props.exEnv C11.Props.exK C11.Props.exWorld [.entryTx false "did:a" none]).get false) "did:a#1" C11.Props.exEntry with
  | ok n1 =>
    exact .status _ _ _ _ n1 h [{ id := "x", typ := "Other" }] [] _ rfl (by decide) rfl rfl rfl (by decide) (by decide)
  | err e =>
    have : (C11.revoke C11.Props.exEnv (C11.run C11.Props.exEnv C11.Props.exK C11.Props.exWorld [.entryTx false "did:a" none]).now
      ((C11.run C11.Props.exEnv C11.Props.exK C11.Props.exWorld [.entryTx false "did:a" none]).get false) "did:a#1" C11.Props.exEntry).isOk = true := by decide
    rw [h] at this; cases this
  | panic e =>
    have : (C11.revoke C11.Props.exEnv (C11.run C11.Props.exEnv C11.Props.exK C11.Props.exWorld [.entryTx false "did:a" none]).now
      ((C11.run C11.Props.exEnv C11.Props.exK C11.Props.exWorld [.entryTx false "did:a" none]).get false) "did:a#1" C11.Props.exEntry).isOk = true := by decide
    rw [h] at this; cases this

end Nuts.Compose.Cred.Props
