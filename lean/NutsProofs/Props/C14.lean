/-
  C14 — admitted transactions/payloads reach every persistent subscriber at least once; completion is final;
  nothing that was not admitted is delivered.  Property theorems over NutsModel.C14.Notifier.
  All statements quantify over every configuration `c` (subscriber behaviour `c.beh` is an arbitrary function),
  every op sequence `ops` (stops — `Op.crash`, a `crash` outcome inside a receiver, failed commits, failed
  `Finished` writes — at every position) unless a hypothesis says otherwise.
-/
import NutsProofs.Lemmas.C14
import NutsModel.Facts.C14

namespace Nuts.C14.Props
open Nuts.C14

/-! ### the regenerated facts the model relies on -/

theorem fact_retry_constants :
    Facts.C14.maxRetries = 20 ∧ Facts.C14.retriesFailedThreshold = 10 ∧
    Facts.C14.retriesFailedThreshold ≤ Facts.C14.maxRetries ∧ 0 < Facts.C14.defaultRetryDelayNs := by decide

/-- `retryAttempts` is the arithmetic of notifier.retry as written -/
theorem fact_retry_arithmetic :
    Facts.C14.retryInitialCount = "event.Retries + 1" ∧
    Facts.C14.retryAttemptsExpr = "maxRetries - uint(initialCount)" ∧
    Facts.C14.retryGuard = "attempts <= 0 || attempts >= maxRetries" := by decide

/-- back-off: `delay *= 2` per initial count, retry-go BackOffDelay (+ jitter below retryDelay), capped at 24 h,
    `retry.Attempts(attempts)` -/
theorem fact_retry_backoff :
    Facts.C14.retryDelayDoublings = 1 ∧
    Facts.C14.retryDelayInit = "p.retryDelay" ∧
    Facts.C14.retryDoublingLoop = "for i := 0; i < initialCount; i++ { delay *= 2; }" ∧
    "retry.Attempts(attempts)" ∈ Facts.C14.retryOptions ∧
    "retry.Delay(delay)" ∈ Facts.C14.retryOptions ∧
    "retry.MaxJitter(p.retryDelay)" ∈ Facts.C14.retryOptions ∧
    "retry.DelayType(retry.CombineDelay(retry.BackOffDelay, retry.RandomDelay))" ∈ Facts.C14.retryOptions ∧
    Facts.C14.retryMaxDelayNs = 86400000000000 := by decide

/-- Notify reschedules the failed first notification unless the error is an EventFatal (errors.As), i.e. also when
    notifyNow hands back a storage error of its own. Since the repair only the EventFatal is wrapped in
    retry.Unrecoverable (one site): a storage error of the notifier itself no longer ends a running retry loop. -/
theorem fact_notify_drops_only_event_fatal :
    Facts.C14.notifyRetryCondition = ["err != nil", "!errors.As(err, new(EventFatal))"] ∧
    Facts.C14.notifyNowUnrecoverable = ["retry.Unrecoverable(err)"] ∧ Facts.C14.storageFaultEndsLoop = false :=
  ⟨rfl, rfl, rfl⟩

theorem fact_notifyNow_retries :
    Facts.C14.notifyNowRetriesWrites = ["dbEvent.Retries = maxRetries", "dbEvent.Retries++"] := by decide

/-- Save: "only schedule new events" - the job is written only when the key is absent -/
theorem fact_save_only_new_events : Facts.C14.saveWritesWhenKeyAbsent = 1 ∧ Facts.C14.saveWritesOtherwise = 0 := by decide

theorem fact_run_replays_every_job :
    Facts.C14.runNotifyNowPerJob = 1 ∧
    Facts.C14.runConditions = ["strings.HasSuffix(event.Error, jsonld.ContextURLNotAllowedErr.Error())", "event.Retries < maxRetries"] := by decide

/-- the model's `restart` = Run for every notifier: Network.Start ranges over state.Notifiers() (which returns every
    registered notifier) and calls Run() exactly once per notifier, under no condition, with no continue/break/early
    return and without consulting any other notifier method first -/
theorem fact_start_runs_every_notifier :
    Facts.C14.startResumeLoopRanges = ["n.state.Notifiers()"] ∧ Facts.C14.startRunCalls = 1 ∧
    Facts.C14.startRunGuards = [] ∧ Facts.C14.startLoopSkips = 0 ∧ Facts.C14.startLoopOtherNotifierCalls = [] ∧
    Facts.C14.stateNotifiersConditions = 0 ∧ Facts.C14.stateNotifiersRangeReturns = ["true"] := by decide

/-- how each registered receiver maps what happened to (done, error), as written: which errors are handed back as they
    are (retried), which are wrapped in dag.EventFatal (not retried, marked failed), what counts as done. The model
    treats the receiver as an arbitrary function; these facts pin the classification the engines rely on, and the
    vcr / v2 harness legs run the real functions. -/
theorem fact_receiver_error_classification :
    Facts.C14.natsReceiverReturns =
      ["err != nil => return false, fmt.Errorf(errEventFailedMsg, err)",
      "err != nil => return false, fmt.Errorf(errEventFailedMsg, err)",
      "js.PublishAsync(events.TransactionsSubject, twpData); err != nil => return false, fmt.Errorf(errEventFailedMsg, err)",
      "return true, nil"] ∧
    Facts.C14.vdrReceiverReturns =
      ["n.callback(event.Transaction, event.Payload); err != nil && !errors.As(err, new(stoabs.ErrDatabase)) => return false, dag.EventFatal{Err: err}",
      "n.callback(event.Transaction, event.Payload); err != nil => return false, err",
      "return true, nil"] ∧
    Facts.C14.vcrVcsReceiverReturns =
      ["n.vcCallback(event.Transaction, event.Payload); err != nil => return n.handleError(err)",
      "return true, nil"] ∧
    Facts.C14.vcrRevocationsReceiverReturns =
      ["n.jsonLDRevocationCallback(event.Transaction, event.Payload); err != nil => return n.handleError(err)",
      "return true, nil"] ∧
    Facts.C14.vcrHandleErrorReturns =
      ["errors.Is(err, context.Canceled) || errors.Is(err, context.DeadlineExceeded) => return false, err",
      "errors.Is(err, jsonld.ContextURLNotAllowedErr) => return true, nil",
      "errors.As(err, &jsonLDError) && jsonLDError.Code == ld.LoadingRemoteContextFailed && !errors.Is(err, jsonld.ContextURLNotAllowedErr) => return false, err",
      "return false, dag.EventFatal{Err: err}"] ∧
    Facts.C14.privateReceiverReturns =
      ["err != nil && !errors.As(err, new(stoabs.ErrDatabase)) => err = dag.EventFatal{Err: err}",
      "err != nil => return false, fmt.Errorf(\"unable to read payload (tx=%s): %w\", event.Hash, err)",
      "isPresent => return true, nil",
      "err != nil && !errors.As(err, new(stoabs.ErrDatabase)) => err = dag.EventFatal{Err: err}",
      "err != nil => return false, fmt.Errorf(\"failed to decrypt PAL header (tx=%s): %w\", event.Hash, err)",
      "pal == nil => return true, nil",
      "!sent => return false, fmt.Errorf(\"no authenticated connection to any of the participants (tx=%s, PAL=%v)\", event.Hash.String(), pal)",
      "return false, nil"] := ⟨rfl, rfl, rfl, rfl, rfl, rfl⟩

/-- which function each registration hands to Subscribe / Notifier -/
theorem fact_registration_receivers :
    Facts.C14.registrationReceivers =
      ["gossip <- p.gossipTransaction",
      "nats <- n.emitEvents",
      "private <- func => p.handlePrivateTxRetry(p.ctx, event)",
      "vcr_revocations <- n.handleNetworkRevocations",
      "vcr_vcs <- n.handleNetworkVCs",
      "vdr <- n.handleNetworkEvent"] := rfl

/-- CleanupSubscriberEvents (operator action) only finishes failed events of the NAMED subscriber whose error starts with the prefix -/
theorem fact_cleanup_only_named_subscriber_and_prefix :
    Facts.C14.cleanupSubscriberEventsReturns =
      ["range n.Subscribers() && subscriber.Name() == subscriberName && err != nil => return err",
      "range n.Subscribers() && subscriber.Name() == subscriberName && range events && strings.HasPrefix(event.Error, errorPrefix) && subscriber.Finished(event.Hash); err != nil => return err",
      "return nil"] ∧
    Facts.C14.cleanupSubscriberEventsCalls =
      ["n.Subscribers()",
      "subscriber.Name()",
      "subscriber.GetFailedEvents()",
      "strings.HasPrefix(event.Error, errorPrefix)",
      "subscriber.Finished(event.Hash)"] := ⟨rfl, rfl⟩

/-- the store handed to persistent subscribers of other engines (subscriber.go) is looked up exactly like the store the
    DAG state is opened on (Network.Configure): Save refuses a different store -/
theorem fact_subscribers_persist_on_the_dag_store :
    Facts.C14.dagStoreLookups =
      ["n.storeProvider.GetKVStore(\"data\", storage.PersistentStorageClass)",
      "n.storeProvider.GetKVStore(\"data\", storage.PersistentStorageClass)",
      "n.storeProvider.GetKVStore(\"connections\", storage.VolatileStorageClass)"] := rfl

theorem fact_failed_events_threshold :
    Facts.C14.failedEventsCondition = ["event.Retries >= retriesFailedThreshold"] := by decide

/-- saveEvent only inside the write closure, notify only inside AfterCommit (Add and WritePayload) -/
theorem fact_save_in_write_tx_notify_after_commit :
    Facts.C14.addSaveInWriteTx = 2 ∧ Facts.C14.addSaveOutsideWriteTx = 0 ∧
    Facts.C14.addNotifyInAfterCommit = 2 ∧ Facts.C14.addNotifyElsewhere = 0 ∧
    Facts.C14.writePayloadSaveInWriteTx = 1 ∧ Facts.C14.writePayloadSaveOutsideWriteTx = 0 ∧
    Facts.C14.writePayloadNotifyInAfterCommit = 1 ∧ Facts.C14.writePayloadNotifyElsewhere = 0 := by decide

/-- state.saveEvent stops at the first Save error and returns it (the write transaction is then rolled back: admission is
    all-or-nothing over the subscribers); state.notify visits every notifier; state.Add repeats the presence check as the
    first statement inside its write transaction (a duplicate Add that raced past the read phase admits nothing) -/
theorem fact_save_event_all_or_nothing :
    Facts.C14.saveEventBody = ["err = <*ast.TypeAssertExpr>.Save(tx, event)", "return err == nil", "return err"] ∧
    Facts.C14.notifyBody = ["return true"] ∧ Facts.C14.addRechecksPresenceFirstInWriteTx = true := ⟨rfl, rfl, rfl⟩

/-- State.WritePayload returns before saveEvent, and then does not notify, exactly when the payload event of THIS
    transaction was saved before: the test is keyed by the transaction ref (not by the payload hash), and both Add
    (with payload) and WritePayload set the marker inside the write transaction that saves the event -/
theorem fact_writePayload_skips_stored_payload :
    Facts.C14.writePayloadSkipsPresent = true ∧
    Facts.C14.writePayloadSkipCondition = "isPayloadEventSaved(tx, transaction.Ref())" ∧
    Facts.C14.addMarksPayloadEventInWriteTx = 1 ∧ Facts.C14.writePayloadMarksPayloadEventInWriteTx = 1 ∧
    Facts.C14.payloadEventMarker =
      ["isPayloadEventSaved: tx.GetShelfReader(payloadEventShelf).Get(stoabs.NewHashKey(ref))",
       "markPayloadEventSaved: tx.GetShelfWriter(payloadEventShelf).Put(stoabs.NewHashKey(ref), <*ast.ArrayType>{1})"] :=
  ⟨rfl, rfl, rfl, rfl, rfl⟩

/-- the AfterCommit notification of State.WritePayload is guarded by `payloadWritten`, which is false at the start and set
    only after the "payload event already saved" return, right before saveEvent: a WritePayload that saves nothing
    notifies nobody (`Cfg.notifyGuarded`; theorem calls_bounded_by_budget needs it) -/
theorem fact_writePayload_notifies_only_what_it_saved :
    Facts.C14.writePayloadGuardTrace =
      ["top: payloadWritten := false",
       "tx: if isPayloadEventSaved(tx, transaction.Ref()) => return nil",
       "tx: payloadWritten = true",
       "tx: s.saveEvent(tx, event)",
       "tx: markPayloadEventSaved(tx, transaction.Ref())",
       "tx: return s.payloadStore.writePayload(tx, payloadHash, data)",
       "afterCommit: if payloadWritten => s.notify(event)"] ∧
    Facts.C14.writePayloadNotifyGuarded = true ∧ Facts.C14.writePayloadReturnsEarlyWhenPresent = true := ⟨rfl, rfl, rfl⟩

/-- the write-back of notifyNow leaves an event alone that was removed (Finished) while the receiver ran -/
theorem fact_write_back_skips_removed_event : Facts.C14.writeBackSkipsGone = true := by decide

theorem fact_payload_handler_sequence :
    Facts.C14.payloadHandlerCalls = ["p.state.GetTransaction", "p.state.WritePayload", "p.privatePayloadReceiver.Finished"] ∧
    Facts.C14.payloadHandlerReturnsWhenTxUnknown = true := by decide

/-- every registration of the repository: names, persistence, and each has exactly one filter that fixes the event type -/
theorem fact_registrations :
    Facts.C14.registrations.map (fun r => (r.1, r.2.1)) =
      [("gossip", false), ("nats", true), ("private", true), ("vcr_revocations", true), ("vcr_vcs", true), ("vdr", true)] ∧
    Facts.C14.registrations.all (fun r => r.2.2.any (fun f => f.type.isSome)) = true := by decide

/-- a filter list containing a filter with `type = some t` only accepts events of type `t` -/
theorem typed_of_filter (subs : List (List Filter)) (pal : Nat → Bool) (ptype : Nat → String) (s : Nat)
    (fs : List Filter) (f : Filter) (t : EvType) (hs : subs[s]? = some fs) (hf : f ∈ fs) (ht : f.type = some t) (c : Cfg)
    (hc : c.sel = selOf subs pal ptype) : Typed c s t := by
  intro r ty' h
  rw [hc] at h
  unfold selOf at h
  rw [hs] at h
  simp only [List.all_eq_true] at h
  have := h f hf
  unfold Filter.test at this
  rw [ht] at this
  simp only [Bool.and_eq_true, decide_eq_true_eq] at this
  exact this.1.1.symm

/-! ### no_loss -/

/-- **no_loss** (invariant over all op sequences, stops at every position): for every admitted event and every
    subscriber whose filters select it and fix the event type, a job of that type is on the shelf or completion has
    been recorded. -/
theorem no_loss (c : Cfg) (ops : List Op) (r : Nat) (ty : EvType) (s : Nat) (t : EvType)
    (hadm : (r, ty) ∈ (run c init ops).admitted) (hs : s < c.nSubs) (hsel : c.sel s r ty = true) (htyp : Typed c s t) :
    (∃ j, (run c init ops).shelf s r = some j ∧ j.type = ty) ∨ completedIn (run c init ops).ledger s r = true :=
  ((Inv.init c).run ops).loss r ty s t hadm hs hsel htyp

/-- `admitted` is exactly: a committed `Add` records the transaction event (and the payload event when a payload
    came along), a committed `WritePayload` that stores a payload records the payload event. -/
theorem admitted_by_commit (c : Cfg) (σ : St) (a : AddArgs) (h : (addTx c σ a).2 = .ok) :
    (a.ref, EvType.tx) ∈ (addTx c σ a).1.admitted ∧ (a.withPayload = true → (a.ref, EvType.payload) ∈ (addTx c σ a).1.admitted) := by
  rcases addTx_cases c σ a with ⟨hn, _⟩ | ⟨_, _, _, h1, h2⟩
  · exact absurd h hn
  · exact ⟨h1, h2⟩

/-- a payload event per TRANSACTION: when the payload of an admitted transaction arrives and the commit succeeds, the
    payload event of that transaction is admitted unless ITS event was saved before - whatever payloads (e.g. the
    byte-identical payload of another transaction) are already in the payload store. With `no_loss` every selecting
    subscriber then holds a job for it or has completed it. -/
theorem payload_event_per_transaction (c : Cfg) (σ : St) (r : Nat) (hd : r ∈ σ.dag) (hne : r ∉ σ.evented) :
    (writePayload c σ r false).2 = .ok ∧ (r, EvType.payload) ∈ (writePayload c σ r false).1.admitted ∧
    r ∈ (writePayload c σ r false).1.evented := by
  unfold writePayload
  rw [if_neg (fun h => h hd), if_neg (by simp), if_neg (fun h => hne h.2)]
  simp only
  refine ⟨trivial, ?_, ?_⟩
  · rw [saveEvent_admitted]; exact List.mem_cons_self
  · rw [(saveEvent_spec _ _ _).evented]; exact List.mem_cons_self

/-- **saveEvent reaches every subscriber**: after `saveEvent` every registered subscriber whose filters select the event
    holds a job for the ref (a new one, or the one it had) -/
theorem save_event_reaches_every_subscriber (c : Cfg) (σ : St) (ev : Nat × EvType) (s : Nat) (hs : s < c.nSubs)
    (hsel : c.sel s ev.1 ev.2 = true) : ∃ j, (saveEvent c σ ev).shelf s ev.1 = some j := by
  rw [(saveEvent_spec c σ ev).shelf]
  cases h : σ.shelf s ev.1 with
  | none => exact ⟨newJob ev.2, by simp [hs, hsel]⟩
  | some j => exact ⟨j, by simp⟩

/-- **admission is all-or-nothing over the subscribers**: a storage fault while writing ONE subscriber's job inside the
    write transaction (`failShelf`) makes `Add` fail and nothing is admitted - no event, no job of any subscriber -/
theorem add_with_shelf_fault_admits_nothing (c : Cfg) (σ : St) (a : AddArgs) (f : Nat) (hf : a.failShelf = some f)
    (hlt : f < c.nSubs) (hsel : c.sel f a.ref .tx = true) : (addTx c σ a).1 = σ := by
  have hh : shelfFaultHits c a.failShelf a.ref .tx = true := by simp [shelfFaultHits, hf, hlt, hsel]
  rcases addTx_cases c σ a with ⟨_, he⟩ | ⟨hok, _⟩
  · exact he
  · exfalso
    unfold addTx at hok
    repeat' split at hok
    all_goals simp_all

/-- a duplicate `Add` of a transaction that is already on the DAG changes nothing (no event admitted again, no job
    re-created, no notification queued) - whatever came with it -/
theorem duplicate_add_changes_nothing (c : Cfg) (σ : St) (a : AddArgs) (h : a.ref ∈ σ.dag) : (addTx c σ a).1 = σ := by
  unfold addTx
  split
  · rfl
  · simp [h]

/-! ### only_admitted_delivered -/

/-- **only_admitted_delivered**: every receiver call in the ledger is for a transaction on the DAG, for an event the
    subscriber's filters select; a payload event is only delivered when the payload is stored. -/
theorem only_admitted_delivered (c : Cfg) (ops : List Op) (s r : Nat) (ty : EvType) (k : Nat) (o : Outcome)
    (h : Entry.call s r ty k o ∈ (run c init ops).ledger) :
    r ∈ (run c init ops).dag ∧ c.sel s r ty = true ∧
    (ty = .payload → c.phash r ∈ (run c init ops).payloads ∧ r ∈ (run c init ops).evented) :=
  ((Inv.init c).run ops).callOk s r ty k o h

/-- the DAG only contains refs whose `Add` committed: a rejected / failed / rolled-back `Add` changes nothing -/
theorem not_admitted_unchanged (c : Cfg) (σ : St) (a : AddArgs) (h : (addTx c σ a).2 ≠ .ok) : (addTx c σ a).1 = σ := by
  rcases addTx_cases c σ a with ⟨_, he⟩ | ⟨hok, _⟩
  · exact he
  · exact absurd hok h

/-! ### no_call_after_done -/

/-- the full-strength statement: in every reachable ledger no call of (s, r) is newer than a completion record of (s, r) -/
def noCallAfterDoneStmt (c : Cfg) : Prop :=
  ∀ (ops : List Op) (s r : Nat) (t : EvType), Typed c s t → okLedger s r (run c init ops).ledger = true

/-- **no_call_after_done** at full strength for the code as it is now (`WritePayload` skips a stored payload, the
    write-back of `notifyNow` does not re-create a removed event): over all op sequences including stops, restarts
    and `Finished` calls that land in the middle of a receiver call (outcome `notDoneFin`). -/
theorem no_call_after_done (c : Cfg) (hskip : c.skipPresent = true) (hwb : c.writeBackSkipsGone = true) : noCallAfterDoneStmt c :=
  fun ops s r t htyp => (Inv2.run hskip hwb (Inv.init c) (Inv2.init c) ops).ok s r t htyp

/-- the same, spelled out: whatever was logged after a completion record of (s, r) is not a call of (s, r) -/
theorem no_call_after_done_split (c : Cfg) (hskip : c.skipPresent = true) (hwb : c.writeBackSkipsGone = true) (ops : List Op) (s r : Nat) (t : EvType)
    (htyp : Typed c s t) (newer older : List Entry) (e : Entry)
    (hl : (run c init ops).ledger = newer ++ e :: older) (he : e.completes s r = true) :
    ∀ e' ∈ newer, e'.isCallOf s r = false :=
  okLedger_split s r newer older e (hl ▸ no_call_after_done c hskip hwb ops s r t htyp) he

/-- once completion is recorded the job is gone and stays gone -/
theorem completed_job_gone (c : Cfg) (hskip : c.skipPresent = true) (hwb : c.writeBackSkipsGone = true) (ops : List Op) (s r : Nat) (t : EvType)
    (htyp : Typed c s t) (h : completedIn (run c init ops).ledger s r = true) : (run c init ops).shelf s r = none :=
  (Inv2.run hskip hwb (Inv.init c) (Inv2.init c) ops).doneGone s r t htyp h

/-! #### witnesses: the six registrations of the repository, one private VC transaction -/

def realSubs : List (List Filter) :=
  [[{ type := some .payload }], [{ type := some .tx, needPAL := true }],
   [{ type := some .payload, ptype := some "application/did+json" }],
   [{ type := some .payload, ptype := some "application/vc+json" }],
   [{ type := some .payload, ptype := some "application/ld+json;type=revocation" }]]

/-- the persistent registrations of the source, in the order the harness uses -/
theorem realSubs_are_the_registrations :
    realSubs = (["nats", "private", "vdr", "vcr_vcs", "vcr_revocations"].filterMap fun n =>
      (Facts.C14.registrations.find? (fun r => r.1 == n)).map (fun r => r.2.2)) := by decide

def wCfg (skip : Bool) (beh : Nat → Nat → Nat → Outcome) : Cfg :=
  { nSubs := 5, nRefs := 2, sel := selOf realSubs (fun _ => true) (fun _ => "application/vc+json"),
    phash := fun _ => 7, root := fun r => r == 0, beh := beh, maxRetries := 20, failedThreshold := 10, skipPresent := skip,
    writeBackSkipsGone := true, storageFaultEndsLoop := false }

def allDone : Nat → Nat → Nat → Outcome := fun _ _ _ => .done

/-- a private transaction arrives, its payload arrives and is processed (done), the same payload arrives again -/
def secondPayloadOps : List Op :=
  [.add { ref := 0 }, .afterCommit [0, 1, 2, 3, 4],
   .writePayload 0 false, .afterCommit [0, 1, 2, 3, 4], .finishedExt 1 0 false,
   .writePayload 0 false, .afterCommit [0, 1, 2, 3, 4], .finishedExt 1 0 false]

/-- **negation witness for the code before the repair** (`skipPresent = false`): the second matching
    TransactionPayload re-creates the finished job and vcr_vcs (subscriber 3) is called again after `done`. -/
theorem call_after_done_without_presence_check :
    okLedger 3 0 (run (wCfg false allDone) init secondPayloadOps).ledger = false ∧
    ((run (wCfg false allDone) init secondPayloadOps).ledger.filter (Entry.isCallOf 3 0)).length = 2 := by decide

/-- **second negation witness for the code before the repair** (`writeBackSkipsGone = false`): while the "private"
    subscriber (1) is being called for transaction 0, the payload reply is handled (`Finished`, outcome `notDoneFin`);
    the write-back of `notifyNow` re-creates the removed job and the next timer calls the subscriber again. -/
def finDuringCall : Nat → Nat → Nat → Outcome := fun s _ k => if s = 1 ∧ k = 0 then .notDoneFin else .done
def finDuringCallOps : List Op := [.add { ref := 0 }, .afterCommit [0, 1, 2, 3, 4], .fire 1 0]

theorem call_after_done_when_write_back_recreates :
    okLedger 1 0 (run { wCfg true finDuringCall with writeBackSkipsGone := false } init finDuringCallOps).ledger = false ∧
    okLedger 1 0 (run (wCfg true finDuringCall) init finDuringCallOps).ledger = true ∧
    ((run (wCfg true finDuringCall) init finDuringCallOps).ledger.filter (Entry.isCallOf 1 0)).length = 1 := by decide

/-- the same history on the repaired code: one call -/
example : okLedger 3 0 (run (wCfg true allDone) init secondPayloadOps).ledger = true ∧
    ((run (wCfg true allDone) init secondPayloadOps).ledger.filter (Entry.isCallOf 3 0)).length = 1 := by decide

/-- non-vacuity of no_call_after_done / no_loss: the hypotheses hold for the real registrations -/
example : Typed (wCfg true allDone) 3 .payload :=
  typed_of_filter realSubs _ _ 3 _ { type := some .payload, ptype := some "application/vc+json" } .payload rfl
    (List.mem_cons_self) rfl _ rfl
example : (0, EvType.payload) ∈ (run (wCfg true allDone) init secondPayloadOps).admitted ∧
    (wCfg true allDone).sel 3 0 .payload = true ∧ completedIn (run (wCfg true allDone) init secondPayloadOps).ledger 3 0 = true := by decide

/-- witness (all refs of `wCfg` have the same payload hash): transaction 0 arrives with its payload, the private
    transaction 1 without; when the byte-identical payload of 1 arrives, vcr_vcs (3) is called for transaction 1 too,
    and a duplicate of that message calls nobody -/
def identicalPayloadOps : List Op :=
  [.add { ref := 0, withPayload := true }, .afterCommit [0, 1, 2, 3, 4], .afterCommit [0, 1, 2, 3, 4],
   .add { ref := 1 }, .afterCommit [0, 1, 2, 3, 4],
   .writePayload 1 false, .afterCommit [0, 1, 2, 3, 4], .finishedExt 1 1 false,
   .writePayload 1 false, .afterCommit [0, 1, 2, 3, 4], .finishedExt 1 1 false]

theorem identical_payload_witness :
    (wCfg true allDone).phash 0 = (wCfg true allDone).phash 1 ∧
    (1, EvType.payload) ∈ (run (wCfg true allDone) init identicalPayloadOps).admitted ∧
    ((run (wCfg true allDone) init identicalPayloadOps).ledger.filter (Entry.isCallOf 3 1)) = [.call 3 1 .payload 0 .done] ∧
    ((run (wCfg true allDone) init identicalPayloadOps).ledger.filter (Entry.isCallOf 3 0)).length = 1 := by decide

/-! #### open finding: a private transaction whose payload bytes are already stored -/

/-- the stronger reading of no_loss: every transaction on the DAG whose payload is AVAILABLE in the (hash-keyed) payload
    store has, for every selecting type-filtered subscriber, a payload job or a completion record -/
def payloadAvailableNoLossStmt (c : Cfg) : Prop :=
  ∀ (ops : List Op) (r s : Nat) (t : EvType), r ∈ (run c init ops).dag → c.phash r ∈ (run c init ops).payloads →
    s < c.nSubs → c.sel s r .payload = true → Typed c s t →
    (∃ j, (run c init ops).shelf s r = some j ∧ j.type = .payload) ∨ completedIn (run c init ops).ledger s r = true

/-- what is proved: the same with the explicit hypothesis that the payload event of THIS transaction was created, i.e.
    its payload came with `Add` or through `WritePayload` (admitted_by_commit, payload_event_per_transaction) -/
theorem payload_no_loss_partial (c : Cfg) (ops : List Op) (r s : Nat) (t : EvType)
    (hev : (r, EvType.payload) ∈ (run c init ops).admitted) (hs : s < c.nSubs) (hsel : c.sel s r .payload = true)
    (htyp : Typed c s t) :
    (∃ j, (run c init ops).shelf s r = some j ∧ j.type = .payload) ∨ completedIn (run c init ops).ledger s r = true :=
  no_loss c ops r .payload s t hev hs hsel htyp

/-- **negation witness (open finding)**: transaction 0 arrives with its payload; the private transaction 1 has the same
    payload bytes and arrives without them. The "private" receiver (handlePrivateTxRetry) sees "payload present" and
    reports done - `allDone` - without `WritePayload`: transaction 1's payload is available, yet vcr_vcs (3) has neither a
    job nor a completion record for it and is never called. -/
def storedBeforePrivateOps : List Op :=
  [.add { ref := 0, withPayload := true }, .afterCommit [0, 1, 2, 3, 4], .afterCommit [0, 1, 2, 3, 4],
   .add { ref := 1 }, .afterCommit [0, 1, 2, 3, 4]]

theorem payload_available_no_loss_fails : ¬ payloadAvailableNoLossStmt (wCfg true allDone) := by
  intro h
  have htyp : Typed (wCfg true allDone) 3 .payload :=
    typed_of_filter realSubs _ _ 3 _ { type := some .payload, ptype := some "application/vc+json" } .payload rfl
      (List.mem_cons_self) rfl _ rfl
  rcases h storedBeforePrivateOps 1 3 .payload (by decide) (by decide) (by decide) (by decide) htyp with ⟨j, hj, _⟩ | hc
  · have hn : (run (wCfg true allDone) init storedBeforePrivateOps).shelf 3 1 = none := by decide
    rw [hn] at hj; cases hj
  · have hn : completedIn (run (wCfg true allDone) init storedBeforePrivateOps).ledger 3 1 = false := by decide
    rw [hn] at hc; cases hc

/-- in that history the private job is finished and nobody was ever called for transaction 1's payload -/
example : (run (wCfg true allDone) init storedBeforePrivateOps).shelf 1 1 = none ∧
    (1, EvType.payload) ∉ (run (wCfg true allDone) init storedBeforePrivateOps).admitted ∧
    ((run (wCfg true allDone) init storedBeforePrivateOps).ledger.filter (Entry.isCallOf 3 1)) = [] := by decide

/-! ### delivered at least once across a stop: restart_redelivers -/

/-- **restart_redelivers**: whatever state a stop left behind (`σ` is arbitrary: stopped before commit, between commit
    and notification, inside a receiver, during retries, after a failed Finished write), `Run` calls the receiver
    of every job on the shelf that is not parked by the context-error rule — unless the node stops again inside a
    receiver during this very start-up (then `no_loss` still holds the job for the next start), or a transient store
    fault keeps Run from reading this job (`readFault`: the attempt is on the ledger, the receiver was not reached; Run
    then starts the retry loop for it, see `storage_fault_is_rescheduled`). -/
theorem restart_redelivers (c : Cfg) (σ : St) (order : List Nat) (s r : Nat) (j : Job)
    (hs : s ∈ order) (hr : r < c.nRefs) (hj : σ.shelf s r = some j) (hctx : j.err ≠ .ctx) :
    ∃ new, (restart c σ order).ledger = new ++ σ.ledger ∧
      ((∃ ty k o, o ≠ Outcome.crash ∧ o ≠ Outcome.readFault ∧ Entry.call s r ty k o ∈ new) ∨
       (∃ s' r' ty k, Entry.call s' r' ty k .crash ∈ new) ∨ (∃ ty k, Entry.call s r ty k .readFault ∈ new)) := by
  obtain ⟨new, h1, h2⟩ := restart_delivers σ order s r j hs hr hj hctx
  refine ⟨new, h1, ?_⟩
  rcases h2 with ⟨ty, k, o, ho, hm⟩ | h2
  · by_cases hf : o = .readFault
    · subst hf; exact .inr (.inr ⟨ty, k, hm⟩)
    · exact .inl ⟨ty, k, o, ho, hf, hm⟩
  · exact .inr (.inl h2)

/-- at-least-once, end to end: for every admitted event and every selecting type-filtered subscriber, after any history
    (stops anywhere) followed by a restart, the event has been completed, or its receiver is called during the restart,
    or the restart itself is stopped inside a receiver, or the job is parked by the context-error rule, or a transient
    store fault kept Run from reading the job (then its retry loop is started). -/
theorem delivered_at_least_once (c : Cfg) (ops : List Op) (order : List Nat) (r : Nat) (ty : EvType) (s : Nat) (t : EvType)
    (hadm : (r, ty) ∈ (run c init ops).admitted) (hs : s < c.nSubs) (hso : s ∈ order) (hsel : c.sel s r ty = true)
    (htyp : Typed c s t) :
    completedIn (run c init ops).ledger s r = true ∨
    (∃ j, (run c init ops).shelf s r = some j ∧ j.err = .ctx) ∨
    ∃ new, (restart c (run c init ops) order).ledger = new ++ (run c init ops).ledger ∧
      ((∃ ty' k o, o ≠ Outcome.crash ∧ o ≠ Outcome.readFault ∧ Entry.call s r ty' k o ∈ new) ∨
       (∃ s' r' ty' k, Entry.call s' r' ty' k .crash ∈ new) ∨ (∃ ty' k, Entry.call s r ty' k .readFault ∈ new)) := by
  have hinv := (Inv.init c).run ops
  rcases hinv.loss r ty s t hadm hs hsel htyp with ⟨j, hj, _⟩ | hc
  · by_cases hctx : j.err = .ctx
    · exact .inr (.inl ⟨j, hj, hctx⟩)
    · exact .inr (.inr (restart_redelivers c _ order s r j hso (hinv.dagLt r (hinv.admDag r ty hadm)) hj hctx))
  · exact .inl hc

/-- **only an EventFatal stops retrying** (Notify): whatever `notifyNow` returns for a selected event - the receiver's
    error, "incomplete", a failed Finished write, or the notifier's OWN unrecoverable storage error while reading the job
    or writing the failure count back (`NRes.unrec`) - a retry loop with the full budget is started, unless the result is
    nil (done / job gone), an EventFatal, or the node stopped. -/
theorem notify_reschedules_unless_fatal (c : Cfg) (σ : St) (s : Nat) (ev : Nat × EvType) (hsel : c.sel s ev.1 ev.2 = true)
    (hres : (notifyNow c σ s ev.1).2 = .err ∨ (notifyNow c σ s ev.1).2 = .unrec) :
    (notify c σ s ev).1 = spawn c (notifyNow c σ s ev.1).1 s ev.1 0 ∧ (notify c σ s ev).2 = false := by
  unfold notify
  rw [if_pos hsel]
  generalize notifyNow c σ s ev.1 = p at hres
  obtain ⟨σ', res⟩ := p
  rcases hres with h | h <;> (simp only at h; subst h; exact ⟨rfl, rfl⟩)

/-- the storage faults of the notifier itself are exactly the `unrec` results, and none of them is an EventFatal -/
theorem storage_fault_is_rescheduled (c : Cfg) (σ : St) (s r : Nat) (j : Job) (hj : σ.shelf s r = some j)
    (ho : c.beh s r (attemptNo σ s r) = .readFault ∨ c.beh s r (attemptNo σ s r) = .notDoneWriteFail ∨
          c.beh s r (attemptNo σ s r) = .failWriteFail) :
    (notifyNow c σ s r).2 = .unrec ∧ (notifyNow c σ s r).1.shelf s r = some j := by
  rw [notifyNow_some hj]
  rcases ho with h | h | h <;> rw [h] <;> simp [resAfter, jobAfter]

/-- with `maxRetries > 1` the rescheduled loop exists: a task for (s, r) with `maxRetries - 1` attempts -/
theorem rescheduled_loop_exists (c : Cfg) (σ : St) (s r : Nat) (h : 1 < c.maxRetries) :
    ∃ t, t ∈ (spawn c σ s r 0).running ∧ t.sub = s ∧ t.ref = r ∧ t.left = c.maxRetries - 1 := by
  obtain ⟨t, ht, a, b, d⟩ := spawn_mem (c := c) (σ := σ) (s := s) (r := r) (k := 0) (by omega)
  exact ⟨t, ht, a, b, by omega⟩

/-- **a storage fault does not end a running retry loop** (code after the repair, `storageFaultEndsLoop = false`): the
    attempt is spent, the loop goes on with one attempt less -/
theorem loop_survives_storage_fault (c : Cfg) (hflag : c.storageFaultEndsLoop = false) (σ : St) (s r : Nat) (t : Task)
    (ht : σ.running.find? (Task.isFor s r) = some t) (hleft : 1 < t.left)
    (hres : (notifyNow c { σ with running := σ.running.erase t } s r).2 = .unrec) :
    ∃ t', t' ∈ (fire c σ s r).running ∧ t'.sub = t.sub ∧ t'.ref = t.ref ∧ t'.left = t.left - 1 := by
  unfold fire
  rw [ht]
  simp only
  generalize notifyNow c { σ with running := σ.running.erase t } s r = p at hres
  obtain ⟨σ', res⟩ := p
  simp only at hres
  subst hres
  simp only [hflag, Bool.false_or]
  have hnl : ¬ t.left ≤ 1 := by omega
  simp only [hnl, if_false, decide_false, Bool.false_eq_true]
  exact ⟨{ t with left := t.left - 1, n := t.n + 1 }, by simp, rfl, rfl, rfl⟩

/-- **negation witness for the code before that repair** (`storageFaultEndsLoop = true`): the private subscriber (1) does
    not complete transaction 0; its retry loop is running; one transient fault while reading the job ends the loop: no
    loop, no pending notification, one recorded attempt - below the threshold, not listed by GetFailedEvents - until the
    next restart. On the repaired code the loop is still there. -/
def faultInLoop : Nat → Nat → Nat → Outcome := fun s _ k => if s = 1 ∧ k = 1 then .readFault else .notDone
def faultInLoopOps : List Op := [.add { ref := 0 }, .afterCommit [0, 1, 2, 3, 4], .fire 1 0]

theorem storage_fault_ended_loop_before_repair :
    (run { wCfg true faultInLoop with storageFaultEndsLoop := true } init faultInLoopOps).running = [] ∧
    (run { wCfg true faultInLoop with storageFaultEndsLoop := true } init faultInLoopOps).shelf 1 0 =
      some { type := .tx, retries := 1, err := .incomplete } ∧
    failedEvents (wCfg true faultInLoop) (run { wCfg true faultInLoop with storageFaultEndsLoop := true } init faultInLoopOps) 1 = [] ∧
    ((run (wCfg true faultInLoop) init faultInLoopOps).running.map (·.left)) = [18] := by decide

/-- **Run re-reads the shelf**: Run resumes its snapshot one job at a time; an event whose completion record landed while
    the loop was busy with an earlier job (its job is gone from the shelf: `Finished` by the payload handler or by the
    operator, with `completed_job_gone` for the reason) is not delivered by the rest of the loop - whatever the
    snapshot `l` contains - and it stays gone. -/
theorem resume_skips_event_finished_meanwhile (c : Cfg) (s r : Nat) (l : List (Nat × Nat)) (σ : St) (acc : List (Nat × Nat))
    (h : σ.shelf s r = none) :
    ∃ new, (runCalls c s l σ acc).1.ledger = new ++ σ.ledger ∧ (∀ e, e ∈ new → e.isCallOf s r = false) ∧
      (runCalls c s l σ acc).1.shelf s r = none :=
  runCalls_no_call_of_absent s r l σ acc h

/-- non-vacuity: job 1 of vcr_vcs is in the snapshot, is finished before the loop reaches it, and is not called -/
def resumeState : St :=
  run (wCfg true allDone) init [.add { ref := 0, withPayload := true }, .add { ref := 1, withPayload := true }, .crash]

example : (1, 0) ∈ runSnapshot (wCfg true allDone) resumeState 3 ∧
    ((runCalls (wCfg true allDone) 3 (runSnapshot (wCfg true allDone) resumeState 3) (finishedExt resumeState 3 1 false) []).1.ledger.filter
      (Entry.isCallOf 3 1)) = [] ∧
    ((runCalls (wCfg true allDone) 3 (runSnapshot (wCfg true allDone) resumeState 3) (finishedExt resumeState 3 1 false) []).1.ledger.filter
      (Entry.isCallOf 3 0)).length = 1 := by decide

/-! ### eventual_delivery, failed_visible -/

/-- **eventual_delivery**: let `σ0` be ANY state (e.g. what a stop left behind) without context-error jobs, and assume
    that from now on no receiver call stops the node, hits a storage fault or returns the context error (`CalmFrom`;
    the receivers are otherwise arbitrary: done / notDone / error / fatal in any pattern). Start the notifiers (`Run`,
    any order that covers them), then let any sequence of ops happen that contains no stop and whose AfterCommit
    notifications reach every notifier (admissions, payload arrivals, external Finished, timers firing in ANY order).
    Whenever the node is at rest (no retry loop alive, no notification pending), every job still on a shelf has
    spent its retry budget: `retries ≥ maxRetries` (reached by counting, or set by a fatal error). -/
theorem eventual_delivery (c : Cfg) (σ0 : St) (order : List Nat) (ops : List Op)
    (hctx : NoCtx σ0) (hcalm : CalmFrom c σ0) (hord : ∀ s, s < c.nSubs → s ∈ order)
    (hops : ∀ op, op ∈ ops → CalmOp c op)
    (hrest : (run c (restart c σ0 order) ops).running = [] ∧ (run c (restart c σ0 order) ops).pending = [])
    (s r : Nat) (j : Job) (hs : s < c.nSubs) (hr : r < c.nRefs)
    (hj : (run c (restart c σ0 order) ops).shelf s r = some j) : c.maxRetries ≤ j.retries := by
  obtain ⟨h1, h2⟩ := restart_ok hcalm order
  have hcov : Covered c (restart c σ0 order) := fun s r hs hr => h2 hctx s (hord s hs) r hr
  exact ((hcov.run (hcalm.mono h1.grows) ops hops).quiescent hrest.1 hrest.2) s r j hs hr hj

/-- the same without any stop at all, from the empty node -/
theorem eventual_delivery_from_start (c : Cfg) (ops : List Op) (hcalm : CalmFrom c init)
    (hops : ∀ op, op ∈ ops → CalmOp c op)
    (hrest : (run c init ops).running = [] ∧ (run c init ops).pending = [])
    (s r : Nat) (j : Job) (hs : s < c.nSubs) (hr : r < c.nRefs) (hj : (run c init ops).shelf s r = some j) :
    c.maxRetries ≤ j.retries := by
  have hcov : Covered c init := by intro s r _ _ j hj; simp [init] at hj
  exact ((hcov.run hcalm ops hops).quiescent hrest.1 hrest.2) s r j hs hr hj

/-- **failed_visible**: a job that spent its budget is listed by GetFailedEvents (threshold ≤ budget: fact_retry_constants) -/
theorem failed_visible (c : Cfg) (hthr : c.failedThreshold ≤ c.maxRetries) (σ : St) (s r : Nat) (j : Job) (hr : r < c.nRefs)
    (hj : σ.shelf s r = some j) (hb : c.maxRetries ≤ j.retries) : r ∈ failedEvents c σ s := by
  unfold failedEvents
  refine List.mem_filter.mpr ⟨List.mem_range.mpr hr, ?_⟩
  simp only [hj, decide_eq_true_eq]; omega

/-- the two together with no_loss: at rest after a calm suffix, every admitted event is completed or visible as failed -/
theorem completed_or_visible (c : Cfg) (hthr : c.failedThreshold ≤ c.maxRetries) (ops0 : List Op) (order : List Nat) (ops : List Op)
    (hctx : NoCtx (run c init ops0)) (hcalm : CalmFrom c (run c init ops0)) (hord : ∀ s, s < c.nSubs → s ∈ order)
    (hops : ∀ op, op ∈ ops → CalmOp c op)
    (hrest : (run c (restart c (run c init ops0) order) ops).running = [] ∧ (run c (restart c (run c init ops0) order) ops).pending = [])
    (r : Nat) (ty : EvType) (s : Nat) (t : EvType)
    (hadm : (r, ty) ∈ (run c (restart c (run c init ops0) order) ops).admitted) (hs : s < c.nSubs) (hsel : c.sel s r ty = true)
    (htyp : Typed c s t) :
    completedIn (run c (restart c (run c init ops0) order) ops).ledger s r = true ∨
    r ∈ failedEvents c (run c (restart c (run c init ops0) order) ops) s := by
  have e : run c (restart c (run c init ops0) order) ops = run c init (ops0 ++ .restart order :: ops) := by
    simp [run, List.foldl_append, step]
  have hinv : Inv c (run c (restart c (run c init ops0) order) ops) := by rw [e]; exact (Inv.init c).run _
  rcases hinv.loss r ty s t hadm hs hsel htyp with ⟨j, hj, _⟩ | hc
  · have hr := hinv.dagLt r (hinv.admDag r ty hadm)
    exact .inr (failed_visible c hthr _ s r j hr hj (eventual_delivery c _ order ops hctx hcalm hord hops hrest s r j hs hr hj))
  · exact .inl hc

/-- non-vacuity: a subscriber that never completes; one admission, AfterCommit, 19 timer firings: at rest, budget spent, listed -/
def neverDone : Nat → Nat → Nat → Outcome := fun _ _ _ => .notDone
def exhaustOps : List Op :=
  [.add { ref := 0 }, .afterCommit [0, 1, 2, 3, 4]] ++ List.replicate 19 (.fire 1 0)

example : (run (wCfg true neverDone) init exhaustOps).running = [] ∧ (run (wCfg true neverDone) init exhaustOps).pending = [] ∧
    (run (wCfg true neverDone) init exhaustOps).shelf 1 0 = some { type := .tx, retries := 20, err := .incomplete } ∧
    failedEvents (wCfg true neverDone) (run (wCfg true neverDone) init exhaustOps) 1 = [0] := by decide
example : CalmFrom (wCfg true neverDone) init := fun _ _ _ _ => rfl
example : ∀ op, op ∈ exhaustOps → CalmOp (wCfg true neverDone) op := by
  intro op h
  simp only [exhaustOps, List.mem_append, List.mem_cons, List.mem_replicate] at h
  rcases h with (rfl | rfl | h) | ⟨_, rfl⟩
  · trivial
  · intro s hs; simp only [wCfg] at hs; have : s = 0 ∨ s = 1 ∨ s = 2 ∨ s = 3 ∨ s = 4 := by omega
    rcases this with rfl | rfl | rfl | rfl | rfl <;> simp
  · cases h
  · trivial

/-- **parked_witness** (modelled as coded, nuts-node issue 2569): a job whose last error ends in the json-ld
    "context not allowed" text is NOT replayed by Run. After a stop it rests on the shelf with retries below the
    threshold: not retried, not listed by GetFailedEvents. This is why eventual_delivery excludes that error. -/
def ctxOnce : Nat → Nat → Nat → Outcome := fun s _ k => if s = 3 ∧ k = 0 then .failCtx else .done
def parkedOps : List Op :=
  [.add { ref := 0, withPayload := true }, .afterCommit [0, 1, 2, 3, 4], .afterCommit [0, 1, 2, 3, 4], .crash, .restart [0, 1, 2, 3, 4]]

theorem parked_witness :
    (run (wCfg true ctxOnce) init parkedOps).shelf 3 0 = some { type := .payload, retries := 1, err := .ctx } ∧
    (run (wCfg true ctxOnce) init parkedOps).running = [] ∧
    failedEvents (wCfg true ctxOnce) (run (wCfg true ctxOnce) init parkedOps) 3 = [] ∧
    ((run (wCfg true ctxOnce) init parkedOps).ledger.filter (Entry.isCallOf 3 0)).length = 1 := by decide

/-! ### shared_key_witness -/

/-- **shared_key_witness**: transaction and payload event share the job key. A subscriber WITHOUT a type filter
    (subscriber 5 below) gets only the payload job for a transaction that arrives with its payload; the transaction
    event is skipped by "only schedule new events" and, once the payload job is done, `no_loss` fails for it. -/
def untypedCfg : Cfg :=
  { wCfg true allDone with nSubs := 6, sel := selOf (realSubs ++ [[{}]]) (fun _ => false) (fun _ => "application/vc+json") }

theorem shared_key_witness :
    let σ := run untypedCfg init [.add { ref := 0, withPayload := true }, .afterCommit [5], .afterCommit [5]]
    (0, EvType.tx) ∈ σ.admitted ∧ untypedCfg.sel 5 0 .tx = true ∧
    σ.shelf 5 0 = none ∧
    (σ.ledger.filter (Entry.isCallOf 5 0)) = [.call 5 0 .payload 0 .done] := by decide

/-! ### delay_monotone -/

/-- **delay_monotone**: the sleep before the next attempt never shrinks: `min maxDelay (retryDelay · 2^base · 2^n)` -/
theorem delay_monotone (d maxDelay base n : Nat) : backoff d maxDelay base n ≤ backoff d maxDelay base (n + 1) := by
  unfold backoff
  have h : d * 2 ^ base * 2 ^ n ≤ d * 2 ^ base * 2 ^ (n + 1) :=
    Nat.mul_le_mul_left _ (Nat.pow_le_pow_right (by decide) (Nat.le_succ n))
  omega

/-- below the cap the delay doubles with every attempt -/
theorem delay_doubles (d maxDelay base n : Nat) (h : d * 2 ^ base * 2 ^ (n + 1) ≤ maxDelay) :
    backoff d maxDelay base (n + 1) = 2 * backoff d maxDelay base n := by
  unfold backoff
  have e : d * 2 ^ base * 2 ^ (n + 1) = 2 * (d * 2 ^ base * 2 ^ n) := by
    rw [Nat.pow_succ, Nat.mul_comm (2 ^ n) 2, ← Nat.mul_assoc, Nat.mul_comm _ 2, Nat.mul_assoc]
  omega

/-- **the back-off continues across a restart**: a job resumed by Run with `k` recorded failures starts its loop with
    `initialCount = k + 1`; its n-th sleep equals the (k+n)-th sleep of a loop that was never interrupted -/
theorem resume_delay_continues (d maxDelay k n : Nat) : backoff d maxDelay (k + 1) n = backoff d maxDelay 1 (k + n) := by
  unfold backoff
  have e : d * 2 ^ (k + 1) * 2 ^ n = d * 2 ^ 1 * 2 ^ (k + n) := by
    rw [Nat.mul_assoc, Nat.mul_assoc, ← Nat.pow_add, ← Nat.pow_add]
    congr 2; omega
  rw [e]

/-- hence the delay never falls back after a restart: every sleep of the resumed loop is at least every sleep the job
    had seen before (sleep j of the uninterrupted loop, j ≤ k + n) -/
theorem resume_delay_monotone (d maxDelay k n j : Nat) (hj : j ≤ k + n) :
    backoff d maxDelay 1 j ≤ backoff d maxDelay (k + 1) n := by
  rw [resume_delay_continues d maxDelay k n]
  unfold backoff
  have h : d * 2 ^ 1 * 2 ^ j ≤ d * 2 ^ 1 * 2 ^ (k + n) := Nat.mul_le_mul_left _ (Nat.pow_le_pow_right (by decide) hj)
  exact Nat.le_min.mpr ⟨Nat.min_le_left _ _, Nat.le_trans (Nat.min_le_right _ _) h⟩

/-- in the model the loop started for a job with `k` recorded failures carries `base = k + 1` -/
theorem spawn_base_is_recorded_failures_plus_one (c : Cfg) (σ : St) (s r k : Nat) (t : Task)
    (ht : t ∈ (spawn c σ s r k).running) (hn : t ∉ σ.running) : t.base = k + 1 ∧ t.n = 0 := by
  unfold spawn at ht
  split at ht
  · simp only [List.mem_append, List.mem_singleton] at ht
    rcases ht with ht | ht
    · exact absurd ht hn
    · subst ht; exact ⟨rfl, rfl⟩
  · exact absurd ht hn

example : backoff 1000000000 86400000000000 1 0 = 2000000000 ∧ backoff 1000000000 86400000000000 1 18 = 86400000000000 := by decide

end Nuts.C14.Props
