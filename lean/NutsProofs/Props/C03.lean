/-
  C03 — Private keys never leave the key store and are used only by key id.   LEVEL: PARTIAL (see below).
  ONLY property theorems (+ non-vacuity examples + `fact_*` obligations on the regenerated facts).
  Helper lemmas: NutsProofs/Lemmas/C03.lean.
  Models: NutsModel/C03/Kid.lean (KidPattern, validateKID, fs / vault path construction, filepath.Clean/Join/Base),
          NutsModel/C03/KeyStore.lean (New / Link / Delete / Migrate / Sign / Decrypt / Resolve state machine),
          NutsModel/C03/Jws.lean (protected-header handling of SignJWS / SignJWT, dpop private-jwk test).
  Facts: NutsModel/Facts/C03.lean is REGENERATED from /repo on every run.

  What is proved: namespace confinement of key names (fs and vault path shapes), kid ↔ key binding over all
  histories, the jwk-header refusal for every caller supplied header map, and a kernel-checked inventory statement
  over the EXTRACTED list of functions that touch private-key typed values.
  What is NOT proved (and cannot be by a model of this size): that key bytes appear in no output of code outside the
  models (logs, SQL rows, HTTP bodies of every API). That part is the inventory + the harness's canary scan,
  labelled exploration in the evidence.
-/
import NutsModel.C03.Kid
import NutsModel.C03.KeyStore
import NutsModel.C03.Jws
import NutsModel.Facts.C03
import NutsProofs.Lemmas.C03

namespace Nuts.C03.Props
open Nuts Nuts.C03 Nuts.Facts

/-! ## 1. Key names cannot address storage outside the key store's namespace -/

/-- the bytes a validated key name can consist of: 7-bit, and none of `/`, `\`, NUL -/
def ClassesSafe (cls hex : Ranges) : Bool :=
  rangesBelow cls 128 && rangesBelow hex 128 &&
  rangesAvoid cls SLASH && rangesAvoid hex SLASH && rangesAvoid cls 0 && rangesAvoid hex 0 &&
  rangesAvoid cls 92 && rangesAvoid hex 92 && rangesAvoid cls PCT

def patternOK : Bool :=
  match kidClasses C03.kidPatternRx with
  | some (cls, hex) => ClassesSafe cls hex
  | none => false

/-- `spi.KidPattern` still is `^(?:[class]|%[hex]{2})+$` and its classes are 7-bit without `/`, `\`, NUL, `%` -/
theorem fact_kid_pattern : patternOK = true := by decide

theorem fact_kid_pattern_shape : ∃ cls hex, kidClasses C03.kidPatternRx = some (cls, hex) := by
  have h := fact_kid_pattern
  unfold patternOK at h
  split at h
  · exact ⟨_, _, by assumption⟩
  · cases h

theorem fact_classes_safe (cls hex : Ranges) (h : kidClasses C03.kidPatternRx = some (cls, hex)) : ClassesSafe cls hex = true := by
  have h' := fact_kid_pattern
  unfold patternOK at h'
  rw [h] at h'
  exact h'

theorem fact_dot_names_refused : [DOT] ∈ C03.validateKIDRefusedNames ∧ [DOT, DOT] ∈ C03.validateKIDRefusedNames := by decide

theorem fact_fs_entry_types_plain : ∀ et ∈ C03.fsEntryTypes, SLASH ∉ et ∧ 0 ∉ et := by decide

theorem fact_vault_path_name_plain : IsEntryName C03.vaultKeyPathName := by decide

theorem fact_fs_path_construction :
    C03.fsEntryFileNameBody = "return fmt.Sprintf(\"%s_%s\", kid, entryType)" ∧
    C03.fsEntryPathBody = "return filepath.Join(fsc.fspath, getEntryFileName(kid, entryType))" ∧
    C03.fsPathBindings = ["SavePrivateKey:filenamePath:=fsc.getEntryPath(kid, privateKeyEntry)",
      "DeletePrivateKey:filePath:=fsc.getEntryPath(keyName, privateKeyEntry)",
      "readEntry:filePath:=fsc.getEntryPath(kid, entryType)"] ∧
    C03.fsPathUses = ["NewFileSystemBackend:os.MkdirAll:fsc.fspath",
      "PrivateKeyExists:os.Stat:fsc.getEntryPath(keyName, privateKeyEntry)", "SavePrivateKey:os.OpenFile:filenamePath",
      "DeletePrivateKey:os.Remove:filePath", "ListPrivateKeys:filepath.Walk:fsc.fspath", "readEntry:os.ReadFile:filePath"] := by
  decide

theorem fact_vault_path_construction :
    C03.vaultKeyPathBody = "path := fmt.Sprintf(\"%s/%s/%s\", prefix, privateKeyPathName, filepath.Base(kid)) ; return filepath.Clean(path)" := by
  decide

/-- **the Lean predicate IS the pattern.** For the pattern tree regenerated from `spi.KidPattern` (Go's own
    `regexp/syntax` parse): the executable predicate `kidMatches`, which the driver runs against the real regexp,
    accepts exactly the strings in the textbook language of `^…$` of that tree. -/
theorem kid_pattern_language (cls hex : Ranges) (hshape : kidClasses C03.kidPatternRx = some (cls, hex)) (s : Bytes) :
    kidMatches cls hex s = true ↔ C03.kidPatternRx.FullMatch s := by
  have hsafe := fact_classes_safe cls hex hshape
  unfold ClassesSafe at hsafe
  simp only [Bool.and_eq_true] at hsafe
  have hpct : inRanges cls PCT = false := by
    cases h : inRanges cls PCT with
    | false => rfl
    | true => exact absurd rfl (inRanges_avoid hsafe.2 h)
  exact fullMatch_kid _ cls hex hshape hpct s

/-- what a validated key name looks like -/
theorem valid_kid_bytes (cls hex : Ranges) (hshape : kidClasses C03.kidPatternRx = some (cls, hex))
    (refused : List Bytes) (kid : Bytes) (hv : validateKID cls hex refused kid = true) :
    kid ≠ [] ∧ kid ∉ refused ∧ ∀ b ∈ kid, b < 128 ∧ b ≠ SLASH ∧ b ≠ 0 ∧ b ≠ 92 := by
  have hsafe := fact_classes_safe cls hex hshape
  unfold ClassesSafe at hsafe
  simp only [Bool.and_eq_true] at hsafe
  obtain ⟨⟨⟨⟨⟨⟨⟨⟨c128, h128⟩, cS⟩, hS⟩, c0⟩, h0⟩, cB⟩, hB⟩, _⟩ := hsafe
  unfold validateKID kidMatches at hv
  simp only [Bool.and_eq_true, Bool.not_eq_true', List.isEmpty_eq_false_iff] at hv
  refine ⟨hv.1.1, by simpa using hv.2, ?_⟩
  intro b hb
  rcases kidTokens_mem cls hex kid hv.1.2 b hb with h | h | h
  · exact ⟨inRanges_below c128 h, inRanges_avoid cS h, inRanges_avoid c0 h, inRanges_avoid cB h⟩
  · subst h; decide
  · exact ⟨inRanges_below h128 h, inRanges_avoid hS h, inRanges_avoid h0 h, inRanges_avoid hB h⟩

/-- **kid_confined (file system backend).** For every key name the wrapper accepts, every entry type and every
    non-empty key directory: the file name is a single directory entry (no separator, no NUL, not `.`/`..`) and the
    path `filepath.Join(dir, name)` denotes exactly that entry of the (lexically cleaned) key directory. Distinct
    key names give distinct files. Path-like and percent-encoded names cannot address anything else. -/
theorem kid_confined (cls hex : Ranges) (hshape : kidClasses C03.kidPatternRx = some (cls, hex))
    (dir kid et : Bytes) (hdir : dir ≠ []) (het : et ∈ C03.fsEntryTypes)
    (hv : validateKID cls hex C03.validateKIDRefusedNames kid = true) :
    IsEntryName (fsEntryFileName kid et) ∧
    fsEntryPath dir kid et = ((cleanP dir).child (fsEntryFileName kid et)).render ∧
    (∀ kid', fsEntryFileName kid' et = fsEntryFileName kid et → kid' = kid) := by
  obtain ⟨hne, _, hb⟩ := valid_kid_bytes cls hex hshape _ kid hv
  obtain ⟨hes, he0⟩ := fact_fs_entry_types_plain et het
  have hname : IsEntryName (fsEntryFileName kid et) := by
    unfold fsEntryFileName
    have hu : USCORE ∈ kid ++ USCORE :: et := by simp
    refine ⟨by simp, ?_, ?_, ?_, ?_⟩
    · intro h; rw [h] at hu; revert hu; decide
    · intro h; rw [h] at hu; revert hu; decide
    · intro h
      rcases List.mem_append.mp h with h | h
      · exact (hb _ h).2.1 rfl
      · rcases List.mem_cons.mp h with h | h
        · revert h; decide
        · exact hes h
    · intro h
      rcases List.mem_append.mp h with h | h
      · exact (hb _ h).2.2.1 rfl
      · rcases List.mem_cons.mp h with h | h
        · revert h; decide
        · exact he0 h
  refine ⟨hname, ?_, ?_⟩
  · unfold fsEntryPath join2 clean
    have : fsEntryFileName kid et ≠ [] := hname.1
    simp only [hdir, this, if_false]
    rw [cleanP_append_entry dir _ hdir hname]
  · intro kid' h
    unfold fsEntryFileName at h
    exact List.append_cancel_right h

def ascii (s : String) : Bytes := s.toList.map Char.toNat

example : ∀ cls hex, kidClasses C03.kidPatternRx = some (cls, hex) →
    validateKID cls hex C03.validateKIDRefusedNames (ascii "did:web:nodeA%3A10443:iam:aa00a18b#0") = true := by
  intro cls hex h
  have : kidClasses C03.kidPatternRx = some ([(32, 32), (35, 35), (45, 46), (48, 58), (65, 90), (95, 95), (97, 122)], [(48, 57), (65, 70), (97, 102)]) := by decide
  rw [this] at h; cases h; decide +kernel


/-- **kid_confined (Vault path shape).** `privateKeyPath(prefix, name)` for a validated name and a non-empty prefix
    is exactly `<clean prefix>/nuts-private-keys/<name>`: the entry `name` of the key store's own directory. -/
theorem kid_confined_vault (cls hex : Ranges) (hshape : kidClasses C03.kidPatternRx = some (cls, hex))
    (pfx kid : Bytes) (hpfx : pfx ≠ [])
    (hv : validateKID cls hex C03.validateKIDRefusedNames kid = true) :
    IsEntryName kid ∧
    vaultKeyPath pfx C03.vaultKeyPathName kid = (((cleanP pfx).child C03.vaultKeyPathName).child kid).render := by
  obtain ⟨hne, hnr, hb⟩ := valid_kid_bytes cls hex hshape _ kid hv
  obtain ⟨hd1, hd2⟩ := fact_dot_names_refused
  have hs : SLASH ∉ kid := fun h => (hb _ h).2.1 rfl
  have hname : IsEntryName kid :=
    ⟨hne, fun e => hnr (e ▸ hd1), fun e => hnr (e ▸ hd2), hs, fun h => (hb _ h).2.2.1 rfl⟩
  refine ⟨hname, ?_⟩
  unfold vaultKeyPath clean
  rw [base_noslash kid hne hs]
  have e : pfx ++ SLASH :: (C03.vaultKeyPathName ++ SLASH :: kid) = (pfx ++ SLASH :: C03.vaultKeyPathName) ++ SLASH :: kid := by
    simp [List.append_assoc]
  rw [e, cleanP_append_entry _ kid (by simp) hname, cleanP_append_entry pfx _ hpfx fact_vault_path_name_plain]

def uuidCovered : Bool :=
  match kidClasses C03.kidPatternRx with
  | some (cls, _) => coversUuid cls
  | none => false

/-- the pattern's class contains every byte a uuid string is made of -/
theorem fact_uuid_bytes_allowed : uuidCovered = true := by decide

/-- **uuid_names_confined.** `wrapper.NewPrivateKey` does not validate its key name; its only caller passes
    `uuid.New().String()` (fact_new_key_name_is_uuid_and_validate_shape). Every non-empty string over the uuid alphabet
    (lower-case hex digits and `-`) longer than two bytes passes `validateKID`, so `kid_confined` /
    `kid_confined_vault` apply to the names `New` draws as well. -/
theorem uuid_names_confined (cls hex : Ranges) (hshape : kidClasses C03.kidPatternRx = some (cls, hex))
    (s : Bytes) (hlen : 2 < s.length) (hu : ∀ b ∈ s, isUuidByte b = true) :
    validateKID cls hex C03.validateKIDRefusedNames s = true := by
  have hc : coversUuid cls = true := by
    have := fact_uuid_bytes_allowed
    unfold uuidCovered at this
    rw [hshape] at this
    exact this
  unfold validateKID kidMatches
  have hne : s ≠ [] := by intro e; rw [e] at hlen; simp at hlen
  have hnr : s ∉ C03.validateKIDRefusedNames := by
    have h1 : ∀ r ∈ C03.validateKIDRefusedNames, r.length ≤ 2 := by decide
    intro hm
    have := h1 s hm
    omega
  simp [hne, uuid_tokens cls hex hc s hu, hnr]

example : ∀ b ∈ ascii "3f1c2a9e-5b7d-4c1a-9e2f-0a1b2c3d4e5f", isUuidByte b = true := by decide +kernel

/-- Why the two literal refusals in `validateKID` are needed (the defect repaired by the `fix:` commit): the
    pattern alone accepts `..`, and the Vault path for it is the PARENT of the key store's directory; `.` is the
    directory itself. -/
theorem pattern_alone_does_not_confine_vault :
    ∀ cls hex, kidClasses C03.kidPatternRx = some (cls, hex) →
      validateKID cls hex [] [DOT, DOT] = true ∧
      vaultKeyPath (ascii "kv") (ascii "nuts-private-keys") [DOT, DOT] = ascii "kv" ∧
      validateKID cls hex [] [DOT] = true ∧
      vaultKeyPath (ascii "kv") (ascii "nuts-private-keys") [DOT] = ascii "kv/nuts-private-keys" := by
  intro cls hex h
  have : kidClasses C03.kidPatternRx = some ([(32, 32), (35, 35), (45, 46), (48, 58), (65, 90), (95, 95), (97, 122)], [(48, 57), (65, 70), (97, 102)]) := by decide
  rw [this] at h; cases h; decide +kernel

/-- every Vault method that takes a key name derives its path with `privateKeyPath(prefix, <that name>)` -/
theorem fact_vault_methods_use_key_path :
    C03.vaultPathBindings = ["GetPrivateKey:privateKeyPath(v.config.PathPrefix, keyName)",
      "PrivateKeyExists:privateKeyPath(v.config.PathPrefix, keyName)", "ListPrivateKeys:privateKeyListPath(v.config.PathPrefix)",
      "privateKeyPath:fmt.Sprintf(\"%s/%s/%s\", prefix, privateKeyPathName, filepath.Base(kid))",
      "privateKeyListPath:fmt.Sprintf(\"%s/%s\", prefix, privateKeyPathName)",
      "SavePrivateKey:privateKeyPath(v.config.PathPrefix, keyPath)", "DeletePrivateKey:privateKeyPath(v.config.PathPrefix, kid)"] := by
  decide

/-- the Vault directory name used above is the one in the source -/
theorem fact_vault_path_name : C03.vaultKeyPathNameStr = "nuts-private-keys" ∧ C03.vaultKeyPathName.length = 17 := by decide

/-- non-vacuity: path-like and percent-encoded names; the first two are refused, the third is accepted and stays
    one directory entry. (Literal refusal list: what `fact_dot_names_refused` pins; a computation that could turn
    false under a source change is kept out of `decide +kernel`, whose failure path is expensive.) -/
example :
    let cls : Ranges := [(32, 32), (35, 35), (45, 46), (48, 58), (65, 90), (95, 95), (97, 122)]
    let hex : Ranges := [(48, 57), (65, 70), (97, 102)]
    validateKID cls hex [[DOT], [DOT, DOT]] (ascii "../server-certificate") = false ∧
    validateKID cls hex [[DOT], [DOT, DOT]] (ascii "..") = false ∧
    validateKID cls hex [[DOT], [DOT, DOT]] (ascii "..%2F..%2Fetc%2Fpasswd") = true ∧
    fsEntryPath (ascii "/data/crypto") (ascii "..%2F..%2Fetc%2Fpasswd") (ascii "private.pem")
      = ascii "/data/crypto/..%2F..%2Fetc%2Fpasswd_private.pem" := by
  decide +kernel

/-! ### every backend is wrapped, and the wrapper validates every caller-chosen key name -/

/-- all four backends are installed behind `spi.NewValidatedKIDBackendWrapper(…, spi.KidPattern)`; there is no
    other assignment to `client.backend` in crypto.go -/
theorem fact_every_backend_wrapped :
    C03.backendAssignments ≠ [] ∧
    ∀ a ∈ C03.backendAssignments, a.2.1 = "spi.NewValidatedKIDBackendWrapper" ∧ a.2.2 = "spi.KidPattern" := by decide

/-- the methods of spi.Storage that take a key name -/
def nameTakingMethods : List String :=
  (C03.storageMethods.filter (fun m => !m.2.isEmpty)).map (·.1)

/-- the wrapper method `m`: its first string parameter (the key name) is validated by a leading
    `if err := w.validateKID(…); err != nil { return … }`, the only backend call is the same method, and that same
    parameter is among the arguments passed on -/
def wrapperValidates (m : String) : Bool :=
  C03.wrapperMethods.any fun w =>
    w.1 == m && (match w.2.1 with
      | p :: _ => w.2.2.1 == [p] && w.2.2.2.1 == [m] && w.2.2.2.2.contains p
      | [] => false)

/-- **wrapper_validates_all_kid_methods.** Every method of `spi.Storage` that takes a caller-chosen key name is
    implemented by the wrapper with the validation FIRST — except `NewPrivateKey`, which is not validated; its only
    caller passes `uuid.New().String()` (next theorem). -/
theorem wrapper_validates_all_kid_methods :
    nameTakingMethods = ["NewPrivateKey", "GetPrivateKey", "PrivateKeyExists", "SavePrivateKey", "DeletePrivateKey"] ∧
    (∀ m ∈ nameTakingMethods, m ≠ "NewPrivateKey" → wrapperValidates m = true) ∧
    wrapperValidates "NewPrivateKey" = false := by decide

/-- the key name given to `NewPrivateKey` is a fresh UUID; `validateKID` returns an error exactly under the modelled
    condition -/
theorem fact_new_key_name_is_uuid_and_validate_shape :
    C03.newKeyNameExpr = "uuid.New().String()" ∧
    C03.validateKIDConds = "kid == \".\" || kid == \"..\" || !w.kidPattern.MatchString(kid)" := by decide

/-! ## 2. A key id is bound to one key pair; signing, decrypting and resolving go through that binding only -/

section binding
variable (valid : String → Bool)

/-- **unknown kid.** Without a reference row every entry point answers `ErrPrivateKeyNotFound` and changes
    nothing — there is no fallback key. -/
theorem unknown_kid_never_signs (s : Store) (kid : String) (h : s.ref kid = none) :
    signKey valid s kid = .error .privateKeyNotFound ∧
    resolve valid s kid = .error .privateKeyNotFound ∧
    (∀ c isEC, decrypt valid s kid c isEC = .error .privateKeyNotFound) ∧
    (∀ c, kid ≠ "" → decryptJWE valid s kid c = .error .privateKeyNotFound) ∧
    keyExists s kid = false ∧
    delete valid s kid = (s, .error .privateKeyNotFound) := by
  simp [signKey, getPrivateKey, resolve, decrypt, decryptJWE, keyExists, delete, findRef, h]

/-- **use by key id only.** If signing for `kid` succeeds with key pair `k`, then `kid` has a reference row, the
    referenced key name passed `validateKID`, `k` is the backend's entry under that name, `Resolve(kid)` returns the
    public half of that same `k`, and `Decrypt`/`DecryptJWE` for `kid` use that same `k`. -/
theorem sign_only_by_reference (s : Store) (kid : String) (k : Nat) (h : signKey valid s kid = .ok k) :
    ∃ r, s.ref kid = some r ∧ valid r.keyName = true ∧ s.key r.keyName = some k ∧
      resolve valid s kid = .ok k ∧
      (∀ c isEC, decrypt valid s kid c isEC =
        if isEC k then (if k = c then .ok k else .error .wrongKey) else .error .unsupportedKey) ∧
      (∀ c, kid ≠ "" → decryptJWE valid s kid c = if k = c then .ok k else .error .wrongKey) := by
  unfold signKey getPrivateKey findRef at h
  cases hr : s.ref kid with
  | none => simp [hr] at h
  | some r =>
    simp only [hr] at h
    unfold wGet at h
    by_cases hv : valid r.keyName = true
    · cases hk : s.key r.keyName with
      | none => simp [hv, hk] at h
      | some k' =>
        simp [hv, hk] at h
        subst h
        refine ⟨r, rfl, hv, hk, ?_, ?_, ?_⟩
        · simp [resolve, findRef, hr, wGet, hv, hk]
        · intro c isEC; simp [decrypt, findRef, hr, wGet, hv, hk]
        · intro c hne; simp [decryptJWE, hne, getPrivateKey, findRef, hr, wGet, hv, hk]
    · simp [hv] at h

/-- the backend is read, written and deleted only under validated names or the name `New` generated itself -/
theorem backend_touched_only_at_valid_or_new_names (s : Store) (op : Op) (name : String)
    (h : (step valid s op).key name ≠ s.key name) :
    valid name = true ∨ ∃ f, op = .new name f := backend_touched valid s op name h

/-- the names `New` drew and the names that passed validation are the only names the backend ever holds -/
def drawnNames : List Op → List String
  | [] => []
  | .new n _ :: rest => n :: drawnNames rest
  | _ :: rest => drawnNames rest

/-- **backend namespace invariant.** After ANY history, every entry of the backend is stored under a name that
    passed `validateKID` or that `New` drew itself (a uuid, see `uuid_names_confined`). -/
theorem backend_names_valid_or_drawn (ops : List Op) (s : Store) (name : String) (k : Nat)
    (h : (run valid s ops).key name = some k) :
    (∃ k0, s.key name = some k0) ∨ valid name = true ∨ name ∈ drawnNames ops := by
  induction ops generalizing s with
  | nil => exact Or.inl ⟨k, h⟩
  | cons op rest ih =>
    rcases ih (step valid s op) h with ⟨k0, h0⟩ | hv | hd
    · rcases step_key_name valid s op name k0 h0 with h1 | hv | ⟨f, rfl⟩
      · exact Or.inl ⟨k0, h1⟩
      · exact Or.inr (Or.inl hv)
      · exact Or.inr (Or.inr (by simp [drawnNames]))
    · exact Or.inr (Or.inl hv)
    · refine Or.inr (Or.inr ?_)
      cases op <;> simp [drawnNames, hd]

/-- **keyref_binding.** After ANY history of New / Link / Delete / Migrate in which `New` draws unused key names
    (the `uuid.New()` contract), for every kid: if a public key was returned by `New` for that kid and has not been
    unbound since (Delete / Link / Migrate of that same kid), then the only key pair a signing, decryption or
    resolve request for that kid can reach is the one whose public half was returned. -/
theorem keyref_binding (ops : List Op) (hf : FreshHist valid {} ops) (kid : String) (k k' : Nat)
    (hp : (run valid {} ops).pubd kid = some k) (hs : signKey valid (run valid {} ops) kid = .ok k') : k' = k := by
  obtain ⟨r, hr, hk⟩ := bound_run valid {} ops hf bound_empty kid k hp
  obtain ⟨r', hr', _, hk', _⟩ := sign_only_by_reference valid _ kid k' hs
  rw [hr] at hr'; cases hr'
  exact hk k' hk'

/-- **a signature requested for K verifies with exactly the public key published for K.** `pub`, `sign`, `sigOK` are
    the signature scheme (parameters); its correctness and "a signature verifies under one public key only" are the
    two named hypotheses (the harness checks both on every signature it obtains from the real store). -/
theorem signature_verifies_with_published_key_only {Pub Msg Sig : Type}
    (pub : Nat → Pub) (sign : Nat → Msg → Sig) (sigOK : Pub → Msg → Sig → Bool)
    (hCorrect : ∀ k m, sigOK (pub k) m (sign k m) = true)
    (hOnly : ∀ k p m, sigOK p m (sign k m) = true → p = pub k)
    (ops : List Op) (hf : FreshHist valid {} ops) (kid : String) (k k' : Nat) (m : Msg)
    (hp : (run valid {} ops).pubd kid = some k) (hs : signKey valid (run valid {} ops) kid = .ok k') :
    sigOK (pub k) m (sign k' m) = true ∧ ∀ p, sigOK p m (sign k' m) = true → p = pub k := by
  have e := keyref_binding valid ops hf kid k k' hp hs
  subst e
  exact ⟨hCorrect _ m, fun p h => hOnly _ p m h⟩

end binding

instance (s : Store) (n : String) : Decidable (FreshName s n) := by unfold FreshName; infer_instance

instance decFreshHist (valid : String → Bool) : (s : Store) → (ops : List Op) → Decidable (FreshHist valid s ops)
  | _, [] => isTrue trivial
  | s, op :: rest =>
    have := decFreshHist valid (step valid s op) rest
    match op with
    | .new n f => by unfold FreshHist; exact inferInstance
    | .link .. => by unfold FreshHist; exact inferInstance
    | .delete .. => by unfold FreshHist; exact inferInstance
    | .migrate => by unfold FreshHist; exact inferInstance
    | .save .. => by unfold FreshHist; exact inferInstance

def exValid : String → Bool := fun n => n != "../x"
def exOps : List Op :=
  [.new "u1" (some "did:a#1"), .new "u2" (some "did:b#1"), .link "alias" "u1" "1", .link "evil" "../x" "1", .delete "did:b#1"]

/-- non-vacuity + the shape of the behaviour: two keys, an alias, a link to a path-like name, a delete -/
example :
    FreshHist exValid {} exOps ∧
    (run exValid {} exOps).pubd "did:a#1" = some 0 ∧
    signKey exValid (run exValid {} exOps) "did:a#1" = .ok 0 ∧ signKey exValid (run exValid {} exOps) "alias" = .ok 0 ∧
    signKey exValid (run exValid {} exOps) "did:b#1" = .error .privateKeyNotFound ∧
    signKey exValid (run exValid {} exOps) "evil" = .error .invalidKid ∧
    signKey exValid (run exValid {} exOps) "nobody" = .error .privateKeyNotFound := by
  decide +kernel

def exReuse : List Op := [.new "u1" (some "A"), .link "B" "u1" "1", .delete "B", .new "u1" none]

/-- without the freshness contract the binding can break (so the hypothesis is not decoration): key name reuse after
    a delete through an alias re-points a published kid to a different key pair -/
example :
    ¬ FreshHist (fun _ => true) {} exReuse ∧
    (run (fun _ => true) {} exReuse).pubd "A" = some 0 ∧ signKey (fun _ => true) (run (fun _ => true) {} exReuse) "A" = .ok 1 := by
  decide +kernel

/-! ### key material does not flow into SQL rows, file names, audit records or outcomes (noninterference) -/

/-- **key_material_does_not_flow.** Take two stores that differ ONLY in the key material (same reference rows, same
    entry names in the backend — `SameButKeys`) and run the same history on both. Then, whatever the keys are:
    the reference rows (the SQL table), the names of the backend entries (the file names), `List`, `Exists`, the audit
    records of every further request, and the success / error class of signing and resolving are identical.
    None of these channels carries information about private (or public) key material. -/
theorem key_material_does_not_flow (valid : String → Bool) (s t : Store) (h : SameButKeys s t) (ops : List Op) :
    (run valid s ops).refs = (run valid t ops).refs ∧
    (run valid s ops).backend.map (·.1) = (run valid t ops).backend.map (·.1) ∧
    list (run valid s ops) = list (run valid t ops) ∧
    (∀ kid, keyExists (run valid s ops) kid = keyExists (run valid t ops) kid) ∧
    (∀ r, auditOf valid (run valid s ops) r = auditOf valid (run valid t ops) r) ∧
    (∀ kid, resErr (signKey valid (run valid s ops) kid) = resErr (signKey valid (run valid t ops) kid)) ∧
    (∀ kid, resErr (resolve valid (run valid s ops) kid) = resErr (resolve valid (run valid t ops) kid)) := by
  have hR := same_run valid h ops
  refine ⟨hR.1, hR.2, by simp [list, hR.1], fun kid => by simp [keyExists, same_ref hR kid],
    fun r => same_audit valid hR r, fun kid => same_getPrivateKey valid hR kid, fun kid => same_resolve valid hR kid⟩

/-- **error values are an output channel too.** The text of every error the engine words itself (`errText`) is computed
    from the request, the reference rows and the error class — no key pair is in scope of that function — and for two
    stores that differ only in key material it is the same text after any history. (The real texts are compared with
    `errText` character by character in the correspondence, for ECDSA, RSA and Ed25519 keys.) -/
theorem error_text_independent_of_key_material (valid : String → Bool) (keyDir : String) (s t : Store)
    (h : SameButKeys s t) (ops : List Op) (r : Req) (e : KErr) :
    errText keyDir (run valid s ops) r e = errText keyDir (run valid t ops) r e := by
  have hR := same_run valid h ops
  have href : ∀ kid, (run valid s ops).ref kid = (run valid t ops).ref kid := fun kid => same_ref hR kid
  cases e <;> cases r <;> simp only [errText, href] <;> (try rfl)

example : errText "/d" (run exValid {} exOps) (.decrypt "evil" 0) .invalidKid = some "invalid key ID: ../x" ∧
    errText "/d" (run exValid {} exOps) (.decrypt "alias" 0) .spiNotFound
      = some "could not open entry u1 with filename /d/u1_private.pem: entry not found" ∧
    errText "/d" (run exValid {} exOps) (.decrypt "alias" 0) .unsupportedKey = some "unsupported decryption key" := by
  decide +kernel

/-- non-vacuity: the same history on an engine whose key generator hands out other keys — the signing key differs,
    the rows / names / audit records do not -/
example :
    SameButKeys {} { nextKey := 100 } ∧
    signKey exValid (run exValid {} exOps) "did:a#1" = .ok 0 ∧
    signKey exValid (run exValid { nextKey := 100 } exOps) "did:a#1" = .ok 100 ∧
    auditOf exValid (run exValid {} exOps) (.sign "jws" "did:a#1" "" "") = [("SignJWS", "Signing a JWS with key: did:a#1")] ∧
    auditOf exValid (run exValid {} exOps) (.sign "dpop" "did:a#1" "" "") = [] := by
  refine ⟨⟨rfl, rfl⟩, ?_⟩
  decide +kernel

/-- no error / log / string-building call under `crypto/` renders a variable that holds a private key with a verb other
    than `%T` (type name only). Name-and-dataflow based go/ast inventory (parameters and declarations of private-key
    types, results of the key-producing calls, their type-switch / assertion bindings); the extractor is trusted. -/
theorem fact_no_key_variable_formatted :
    (∀ site ∈ C03.keyFormatSites, site.2.2.2.1 = "%T") ∧ 10 ≤ C03.keyFormatCallsInspected := by decide

/-- the lookups are by (kid → reference → backend) in every entry point that needs the private key, and nowhere else -/
theorem fact_key_lookups :
    C03.keyLookups = [
      ("Crypto.SignJWT", ["getPrivateKey(kid)"]), ("Crypto.SignJWS", ["getPrivateKey(kid)"]),
      ("Crypto.DecryptJWE", ["getPrivateKey(kid)"]),
      ("Crypto.getPrivateKey", ["findKeyReferenceByKid(kid)", "GetPrivateKey(keyRef.KeyName,keyRef.Version)"]),
      ("Crypto.SignDPoP", ["getPrivateKey(kid)"]),
      ("Crypto.Decrypt", ["findKeyReferenceByKid(kid)", "GetPrivateKey(keyRef.KeyName,keyRef.Version)"]),
      ("Crypto.Delete", ["findKeyReferenceByKid(kid)"]), ("Crypto.Exists", ["findKeyReferenceByKid(kid)"]),
      ("Crypto.Resolve", ["findKeyReferenceByKid(kid)", "GetPrivateKey(keyRef.KeyName,keyRef.Version)"])] := by decide

/-! ## 3. A JWS signed by the node never carries a private key in its `jwk` header -/

/-- **signjws_no_private_jwk.** For EVERY caller supplied header map: if package-level `SignJWS` does not refuse,
    the protected header it signs (a) contains only headers the caller supplied, (b) contains a `jwk` only if that
    key's raw Go type is not assignable to `crypto.Signer`, and (c) then carries no `kid`. -/
theorem signjws_no_private_jwk (h out : Headers) (hok : signJWSHeaders h = .ok out) :
    (∀ n v, hget out n = some v → hget h n = some v) ∧
    (∀ rt id, hget out "jwk" = some (.jwk rt id) → assignableToSigner rt = false ∧ hget out "kid" = none) := by
  unfold signJWSHeaders at hok
  split at hok
  · cases hok
  · split at hok
    · rename_i rt id hj
      split at hok
      · cases hok
      · rename_i hns
        cases hok
        refine ⟨?_, ?_⟩
        · intro n v hv
          unfold hget at hv ⊢
          simp only [alGet_del] at hv
          split at hv
          · cases hv
          · split at hv
            · cases hv
            · exact hv
        · intro rt' id' hv
          unfold hget at hv hj ⊢
          simp only [alGet_del] at hv ⊢
          simp only [show ("jwk" = "alg") = False by decide, show ("jwk" = "kid") = False by decide, if_false, hj] at hv
          cases hv
          exact ⟨by simpa using hns, by simp⟩
    · rename_i hnj
      cases hok
      refine ⟨?_, ?_⟩
      · intro n v hv
        unfold hget at hv ⊢
        simp only [alGet_del] at hv
        split at hv
        · cases hv
        · exact hv
      · intro rt id hv
        exfalso
        unfold hget at hv
        simp only [alGet_del, show ("jwk" = "alg") = False by decide, if_false] at hv
        exact hnj rt id hv

/-- the key store entry points `Crypto.SignJWS` / `MemoryJWTSigner.SignJWS`: same guarantee, the key must exist, and
    when no `jwk` is present the `kid` header is the REQUESTED kid whatever the caller put there -/
theorem store_signjws_headers (found : Bool) (h out : Headers) (kid : String)
    (hok : storeSignJWSHeaders found h kid = .ok out) :
    found = true ∧
    (∀ rt id, hget out "jwk" = some (.jwk rt id) → assignableToSigner rt = false ∧ hget out "kid" = none) ∧
    ((∀ rt id, hget (dedup h) "jwk" ≠ some (.jwk rt id)) → hget out "kid" = some (.str kid)) := by
  unfold storeSignJWSHeaders at hok
  split at hok
  · cases hok
  · rename_i hf
    refine ⟨by simpa using hf, (signjws_no_private_jwk _ out hok).2, ?_⟩
    intro hnj
    unfold signJWSHeaders at hok
    split at hok
    · cases hok
    · split at hok
      · rename_i rt id hj
        exfalso
        unfold hget hput at hj
        simp only [alGet_put, show ("jwk" = "kid") = False by decide, if_false] at hj
        exact hnj rt id hj
      · cases hok
        unfold hget hput
        simp [alGet_del, alGet_put]

/-- every key type the key stores can hold or create (`util.PemToPrivateKey`, `spi.GenerateKeyPair`) is a
    `crypto.Signer`, hence refused as a `jwk` header by SignJWS and classified private by the DPoP parser -/
theorem fact_store_key_types_are_signers :
    C03.pemPrivateKeyTypes ≠ [] ∧
    (∀ t ∈ C03.generateKeyPairType :: C03.pemPrivateKeyTypes, assignableToSigner t = true ∧ dpopJwkIsPrivate t = true) := by
  decide

/-- so: a private key of any type the key store can hold, offered as `jwk` header under ANY other headers, is refused -/
theorem store_key_as_jwk_header_refused (h : Headers) (t id : String)
    (ht : t ∈ C03.generateKeyPairType :: C03.pemPrivateKeyTypes) (hj : hget h "jwk" = some (.jwk t id)) :
    signJWSHeaders h = .error .setHeader ∨ signJWSHeaders h = .error .privateJwk := by
  unfold signJWSHeaders
  split
  · exact Or.inl rfl
  · right
    simp only [hj, (fact_store_key_types_are_signers.2 t ht).1, if_true]

/-- SignJWS in the source still has the modelled order: headers set, `jwk` present?, `kid` removed, Raw() into a
    `crypto.Signer`, refusal when that succeeds — all before `jws.Sign` -/
theorem fact_signjws_sequence :
    C03.signJWSRawTargetType = "crypto.Signer" ∧
    C03.signJWSSeq = ["if err != nil", "headers.Set(key)", "if headers.JWK() != nil", "headers.Remove(jwk.KeyIDKey)",
      "if err == nil", "headers.JWK().Raw(&jwkAsPrivateKey)",
      "return-error \"refusing to sign JWS with private key in JWK header\"",
      "if err != nil", "if detachedPayload", "jws.Sign()", "jws.Sign()", "if err != nil"] := by decide

/-- **signjwt_no_private_jwk.** The same guarantee for package-level `SignJWT` (guard added by a `fix:` commit; before it
    a caller-supplied private JWK header went into the token): a `jwk` header in the signed protected header is never
    assignable to crypto.Signer. -/
theorem signjwt_no_private_jwk (h out : Headers) (hok : signJWTHeaders h = .ok out) :
    ∀ rt id, hget out "jwk" = some (.jwk rt id) → assignableToSigner rt = false := by
  intro rt id hv
  -- the `jwk` entry of the output is the `jwk` entry of the input (alg removed, typ possibly added)
  have key : ∀ o : Headers, (o = alDel h "alg" ∨ o = hput (alDel h "alg") "typ" (.str "JWT")) →
      hget o "jwk" = hget h "jwk" := by
    intro o ho
    rcases ho with rfl | rfl
    · unfold hget; simp [alGet_del]
    · unfold hget hput; simp [alGet_put, alGet_del]
  unfold signJWTHeaders at hok
  split at hok
  · cases hok
  · split at hok
    · rename_i rt' id' hj
      split at hok
      · cases hok
      · rename_i hns
        have ho : out = alDel h "alg" ∨ out = hput (alDel h "alg") "typ" (.str "JWT") := by
          cases hok; split <;> simp
        rw [key out ho, hj] at hv
        cases hv
        simpa using hns
    · rename_i hnj
      have ho : out = alDel h "alg" ∨ out = hput (alDel h "alg") "typ" (.str "JWT") := by
        cases hok; split <;> simp
      rw [key out ho] at hv
      exact absurd hv (hnj rt id)

/-- SignJWT in the source has the guard before `jwt.Sign` -/
theorem fact_signjwt_guard :
    C03.signJWTSeq = ["convertHeaders", "hdr.JWK", "jwkHeader.Raw(&jwkAsPrivateKey):crypto.Signer",
      "return-error \"refusing to sign JWT with private key in JWK header\"", "jwt.Sign"] := by decide

/-- **the audit record of a signing request does not depend on the `jwk` header** (nor on any header but `kid`): the
    record is worded from `kid`, `iss`, `sub`; the real records (message AND field names) are compared with this in the
    correspondence for every generated header map, including private JWKs of every key type in a `jwk` header. -/
theorem sign_audit_ignores_jwk_header (jwt : Bool) (iss sub : String) (h : Headers) (v : HVal) :
    signAudit jwt iss sub (hput h "jwk" v) = signAudit jwt iss sub h := by
  unfold signAudit kidText hget hput
  simp [alGet_put]

/-- KNOWN LIMIT of the mechanism (not of the property as stated, which is about keys created or held by the node —
    those are all `crypto.Signer`s): the rule is typed on `crypto.Signer`, so a caller-made X25519 private JWK or a
    symmetric `oct` JWK passes, in SignJWS and SignJWT alike. -/
theorem signjws_rule_is_signer_typed :
    signJWSHeaders [("jwk", .jwk "x25519.PrivateKey" "x")] = .ok [("jwk", .jwk "x25519.PrivateKey" "x")] ∧
    signJWSHeaders [("jwk", .jwk "[]uint8" "oct")] = .ok [("jwk", .jwk "[]uint8" "oct")] ∧
    (signJWTHeaders [("jwk", .jwk "x25519.PrivateKey" "p")]).map (hget · "jwk") = .ok (some (.jwk "x25519.PrivateKey" "p")) ∧
    signJWTHeaders [("jwk", .jwk "*ecdsa.PrivateKey" "p")] = .error .privateJwk := by
  decide +kernel

def view (r : Except JErr Headers) : Except JErr (Option HVal × Option HVal × Option HVal) :=
  r.map fun o => (hget o "kid", hget o "jwk", hget o "typ")

example :
  view (storeSignJWSHeaders true [("kid", .str "forged"), ("typ", .str "x"), ("jwk", .jwk "*ecdsa.PublicKey" "pub")] "did:a#1")
    = .ok (none, some (.jwk "*ecdsa.PublicKey" "pub"), some (.str "x")) ∧
  view (storeSignJWSHeaders true [("kid", .str "forged"), ("typ", .str "x")] "did:a#1")
    = .ok (some (.str "did:a#1"), none, some (.str "x")) ∧
  storeSignJWSHeaders true [("jwk", .jwk "*ecdsa.PrivateKey" "priv")] "did:a#1" = .error .privateJwk ∧
  storeSignJWSHeaders false [] "did:a#1" = .error .keyNotFound := by
  decide +kernel

/-! ## 4. Inventory of the code that can reach private-key typed values (over the EXTRACTED facts) -/

def isTestSupport (f : Fn) : Bool := f.path.getLast? == some "test.go" || f.path.contains "test"

/-- files outside `crypto/` that are allowed to handle a private key, with the reason -/
def allowedOutside : List String :=
  [ "core/server_config.go"        -- the node's TLS certificate/key file (tls.LoadX509KeyPair), not a key store key
  , "http/user/session.go"         -- session-bound user wallet key (crypto.GenerateJWK): kept in the session store in
                                   -- plain text BY DESIGN ("low-assurance"), never a key store key
  , "auth/api/iam/openid4vp.go" ]  -- signs the user's presentation with that session key (MemoryJWTSigner)

/-- the key store engine: the files whose exported functions are the node-internal API to private keys -/
def engineFiles : List String :=
  ["crypto/crypto.go", "crypto/jwx.go", "crypto/dpop.go", "crypto/decryptor.go", "crypto/memory.go", "crypto/ecies.go",
   "crypto/dpop/dpop.go"]

/-- result types that cannot hold a private key: tokens / signatures / cipher- or plaintext, public keys, errors -/
def safeResults : List String :=
  ["string", "[]byte", "error", "bool", "crypto.PublicKey", "map[string]interface{}", "*orm.KeyReference", "jwa.SignatureAlgorithm"]

/-- **api_surface_by_kid** (a statement about the regenerated inventory; the go/ast extractor is trusted).
    (1) every function that obtains, generates, encodes or mentions a private-key typed value lies under `crypto/`,
        is test support, or is one of the three listed exceptions (TLS key file, session-bound user wallet key);
    (2) every EXPORTED function of the key store engine in that set returns only public-key / signature /
        ciphertext-plaintext / error types — except `GenerateJWK` (in-memory session keys, never key store keys);
    (3) the only functions that call the storage SPI's `GetPrivateKey` (or the unexported `getPrivateKey`) outside
        `crypto/storage/` are the engine's own methods and the fs→vault migration command. -/
theorem api_surface_by_kid :
    (∀ f ∈ C03.keyTouching, f.path.head? = some "crypto" ∨ isTestSupport f = true ∨ f.file ∈ allowedOutside) ∧
    (∀ f ∈ C03.keyTouching, f.file ∈ engineFiles → f.exported = true → f.name ≠ "GenerateJWK" →
        ∀ r ∈ f.results, r ∈ safeResults) ∧
    ((C03.keyTouching.filter (fun f => f.kinds.contains "getpriv" && !(f.path.take 2 == ["crypto", "storage"]))).map
        (fun f => (f.file, f.name)) =
      [("crypto/cmd/cmd.go", "exportToOtherStorage"), ("crypto/crypto.go", "Crypto.Resolve"),
       ("crypto/decryptor.go", "Crypto.Decrypt"), ("crypto/dpop.go", "Crypto.SignDPoP"),
       ("crypto/jwx.go", "Crypto.SignJWT"), ("crypto/jwx.go", "Crypto.SignJWS"), ("crypto/jwx.go", "Crypto.DecryptJWE"),
       ("crypto/jwx.go", "Crypto.getPrivateKey")]) := by
  decide +kernel

/-- the functions whose RESULT type is, or can hold, a private key — pinned; a new one changes this fact and the
    check reports -/
theorem private_key_typed_results_pinned :
    (C03.keyTouching.filter (fun f => !f.privResults.isEmpty)).map (fun f => (f.file, f.name)) =
      [("crypto/jwx.go", "GenerateJWK"), ("crypto/jwx.go", "Crypto.getPrivateKey"),
       ("crypto/storage/azure/keyvault.go", "Keyvault.GetPrivateKey"), ("crypto/storage/external/client.go", "APIClient.GetPrivateKey"),
       ("crypto/storage/fs/fs.go", "fileSystemBackend.GetPrivateKey"), ("crypto/storage/spi/interface.go", "GenerateKeyPair"),
       ("crypto/storage/spi/mock.go", "MockStorage.GetPrivateKey"), ("crypto/storage/spi/wrapper.go", "wrapper.GetPrivateKey"),
       ("crypto/storage/vault/vault.go", "vaultKVStorage.GetPrivateKey"), ("crypto/test.go", "memoryStorage.GetPrivateKey"),
       ("crypto/test.go", "NewTestKey"), ("crypto/test.go", "TestKey.Signer"), ("crypto/test.go", "TestKey.Private"),
       ("crypto/test/keys.go", "GenerateRSAKey"), ("crypto/test/keys.go", "GenerateECKey"),
       ("crypto/util/pem.go", "PemToPrivateKey"), ("http/user/session.go", "generateUserSessionJWK"),
       ("vdr/test.go", "TestMethodDIDAPrivateKey"), ("vdr/test.go", "TestMethodDIDBPrivateKey")] ∧
    -- the one exported, non-test function of the engine files in this list:
    (C03.keyTouching.filter (fun f => !f.privResults.isEmpty && f.exported && engineFiles.contains f.file)).map (·.name)
      = ["GenerateJWK"] := by
  decide +kernel

/-- the inventory is not empty / degenerate: it covers the whole tree -/
theorem fact_inventory_nontrivial : 400 ≤ C03.inventoryFiles ∧ 4000 ≤ C03.inventoryFuncs ∧ 50 ≤ C03.keyTouching.length := by
  decide

end Nuts.C03.Props
