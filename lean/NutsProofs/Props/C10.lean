/-
  C10 — did:nuts resolution is independent of the order in which updates arrive.
  ONLY property theorems (+ non-vacuity examples). Helper lemmas: NutsProofs/Lemmas/C10.lean.
  Model: NutsModel/C10/DidStore.lean (event.go, writer.go, merge.go, store.go, metadata.go).
  Facts: NutsModel/Facts/C10.lean is REGENERATED from /repo on every run.
-/
import NutsModel.C10.DidStore
import NutsModel.Facts.C10
import NutsProofs.Lemmas.C10

namespace Nuts.C10.Props
open Nuts.C10

/-! ### Obligations on the regenerated facts (a source change flips these) -/

/-- every list `mergeDocuments` builds by ranging over a Go map is sorted afterwards -/
theorem fact_map_built_fields_sorted :
    ∀ f ∈ Facts.C10.mergeMapBuiltFields, f ∈ Facts.C10.mergeSortedFields := by decide

/-- the model treats every field as map-built and sorted: that is what the source does -/
theorem fact_all_fields_sorted : ∀ f : Field, f ∈ Facts.C10.mergeSortedFields := by
  intro f; cases f <;> decide

/-- `applyFrom`/`applyEvent`/`applyDocument`/`writeEventList` do not iterate over a Go map
    (the model visits unconsumed source transactions in metadata order) -/
theorem fact_writer_has_no_map_range : Facts.C10.writerMapRanges = [] := by decide

/-- `applyFrom` reads the conflicted flag whether or not a base event exists (the model does) -/
theorem fact_conflicted_flag_read_unconditionally : Facts.C10.conflictedFlagReadUnconditional = true := by decide

/-! ### `before` is a strict total order on events with distinct refs -/

theorem before_strict_total :
    (∀ a : Event, before a a = false) ∧
    (∀ a b : Event, before a b = true → before b a = false) ∧
    (∀ a b c : Event, before a b = true → before b c = true → before a c = true) ∧
    (∀ a b : Event, a.ref ≠ b.ref → before a b = true ∨ before b a = true) :=
  ⟨before_irrefl, fun _ _ => before_asymm, fun _ _ _ => before_trans, fun _ _ => before_total⟩

/-- `eventList.insert` keeps the list sorted and adds exactly the new event -/
theorem insert_sorted_perm (n : Event) (l : List Event) (hs : Sorted l) (hn : ∀ y ∈ l, y.ref ≠ n.ref) :
    Sorted (insert n l).1 ∧ (insert n l).1.Perm (n :: l) :=
  ⟨insert_sorted n l hs hn, insert_perm n l⟩

/-! ### merge determinism -/

/-- `mergeDocuments` does not depend on the order in which Go iterates its maps — for ANY two iteration
    orders — given that every field is sorted afterwards (regenerated fact, discharged above). -/
theorem merge_deterministic (σ₁ σ₂ : Field → List Entry → List Entry)
    (h₁ : ∀ f l, (σ₁ f l).Perm l) (h₂ : ∀ f l, (σ₂ f l).Perm l) (a b : Doc) :
    mergeDocuments σ₁ Facts.C10.mergeSortedFields a b = mergeDocuments σ₂ Facts.C10.mergeSortedFields a b := by
  unfold mergeDocuments
  congr 1
  funext x
  have hx : Facts.C10.mergeSortedFields.contains x = true := by
    simpa using fact_all_fields_sorted x
  simp only [hx]
  exact mergeField_sorted_indep (σ₁ x) (σ₂ x) (h₁ x) (h₂ x) _ _

/-- hence the whole model does not depend on map iteration order -/
theorem cfg_independent_of_map_order (σ₁ σ₂ : Field → List Entry → List Entry)
    (h₁ : ∀ f l, (σ₁ f l).Perm l) (h₂ : ∀ f l, (σ₂ f l).Perm l) :
    cfgOf σ₁ Facts.C10.mergeSortedFields = cfgOf σ₂ Facts.C10.mergeSortedFields := by
  unfold cfgOf
  congr 1
  funext a b
  exact merge_deterministic σ₁ σ₂ h₁ h₂ a b

/-- a merged field is sorted and has unique ids whatever the iteration order was -/
theorem merge_field_canonical (σ : List Entry → List Entry) (h : ∀ l, (σ l).Perm l) (a b : List Entry) :
    (mergeField σ true a b).Pairwise (leOf entryLt) ∧ (mergeField σ true a b).Perm (buildMap (a ++ b)) := by
  unfold mergeField
  simp only [if_true]
  exact ⟨sortBy_pairwise entryLt entryLt_asymm entryLt_trans _, (sortBy_perm entryLt _).trans (h _)⟩

/-! ### the stored state is the fold over the sorted event list -/

/-- After ANY arrival sequence (any order, duplicates anywhere) the DID's event list is sorted, has no
    duplicates, contains exactly the events that arrived, and the stored metadata chain / documents /
    conflicted flag are exactly what one derives from scratch from that sorted list. -/
theorem store_is_fold (cfg : Cfg) (l : List Event) (hU : RefFun l) (s : Store)
    (h : addAll cfg {} l = .ok s) (id : String) :
    Inv cfg (s.get id) ∧ ∀ e, e ∈ (s.get id).events ↔ (e ∈ l ∧ e.doc.id = id) := by
  have hget := addAll_get cfg l {} s h id
  have hU' : ∀ x ∈ l.filter (fun e => e.doc.id = id), x ∈ l := fun x hx => (List.mem_filter.mp hx).1
  have := addDidAll_inv cfg l hU (l.filter (fun e => e.doc.id = id)) (({} : Store).get id) (s.get id)
    (inv_empty cfg) (by intro x hx; cases hx) hU' hget
  refine ⟨this.1, fun e => ?_⟩
  rw [this.2 e]
  constructor
  · rintro (h | h)
    · cases h
    · have := List.mem_filter.mp h; exact ⟨this.1, by simpa using this.2⟩
  · rintro ⟨h1, h2⟩
    exact Or.inr (List.mem_filter.mpr ⟨h1, by simpa using h2⟩)

/-- **Order independence.** For every finite set of events, every two arrival sequences over it (any
    permutation, duplicates anywhere), on independent stores, and whatever iteration order Go picks for its
    maps on each store: every DID has the identical event list, metadata chain, documents and conflicted
    flag — hence `Resolve` gives identical answers for every DID and every resolve metadata
    (latest, by time, by hash, by source transaction, allow-deactivated). -/
theorem resolve_order_independent (σ₁ σ₂ : Field → List Entry → List Entry)
    (h₁ : ∀ f l, (σ₁ f l).Perm l) (h₂ : ∀ f l, (σ₂ f l).Perm l)
    (l₁ l₂ : List Event) (hU : RefFun l₁) (hsame : ∀ e, e ∈ l₁ ↔ e ∈ l₂) (s₁ s₂ : Store)
    (r₁ : addAll (cfgOf σ₁ Facts.C10.mergeSortedFields) {} l₁ = .ok s₁)
    (r₂ : addAll (cfgOf σ₂ Facts.C10.mergeSortedFields) {} l₂ = .ok s₂) :
    ∀ id, s₁.get id = s₂.get id ∧ ∀ rm, resolve s₁ id rm = resolve s₂ id rm := by
  intro id
  rw [cfg_independent_of_map_order σ₂ σ₁ h₂ h₁] at r₂
  have hU₂ : RefFun l₂ := fun a ha b hb => hU a ((hsame a).mpr ha) b ((hsame b).mpr hb)
  obtain ⟨i₁, m₁⟩ := store_is_fold _ l₁ hU s₁ r₁ id
  obtain ⟨i₂, m₂⟩ := store_is_fold _ l₂ hU₂ s₂ r₂ id
  have heq : s₁.get id = s₂.get id := by
    apply didstate_determined _ _ _ i₁ i₂
    intro x; rw [m₁ x, m₂ x, hsame x]
  exact ⟨heq, fun rm => by unfold resolve; rw [heq]⟩

/-- **Counters.** `DocumentCount` equals the number of DIDs with at least one event and `ConflictedCount`
    the number of DIDs whose latest version is conflicted — after ANY arrival sequence. -/
theorem stats_are_what_the_states_imply (cfg : Cfg) (l : List Event) (s : Store) (h : addAll cfg {} l = .ok s) :
    s.documentCount = s.dids.length ∧
    s.conflictedCount = (s.dids.filter (fun p => p.2.conflicted)).length ∧
    (∀ k, k ∈ keys s ↔ (s.get k).events ≠ []) := by
  have hs := addAll_storeInv cfg l {} s (storeInv_empty cfg) h
  exact ⟨hs.docs, hs.confl, mem_keys_iff cfg s hs⟩

/-- hence both counters are independent of the arrival order (and of Go's map iteration order) -/
theorem stats_order_independent (σ₁ σ₂ : Field → List Entry → List Entry)
    (h₁ : ∀ f l, (σ₁ f l).Perm l) (h₂ : ∀ f l, (σ₂ f l).Perm l)
    (l₁ l₂ : List Event) (hU : RefFun l₁) (hsame : ∀ e, e ∈ l₁ ↔ e ∈ l₂) (s₁ s₂ : Store)
    (r₁ : addAll (cfgOf σ₁ Facts.C10.mergeSortedFields) {} l₁ = .ok s₁)
    (r₂ : addAll (cfgOf σ₂ Facts.C10.mergeSortedFields) {} l₂ = .ok s₂) :
    s₁.documentCount = s₂.documentCount ∧ s₁.conflictedCount = s₂.conflictedCount := by
  have i₁ := addAll_storeInv _ l₁ {} s₁ (storeInv_empty _) r₁
  have i₂ := addAll_storeInv _ l₂ {} s₂ (storeInv_empty _) r₂
  exact counts_determined _ _ s₁ s₂ i₁ i₂
    (fun k => (resolve_order_independent σ₁ σ₂ h₁ h₂ l₁ l₂ hU hsame s₁ s₂ r₁ r₂ k).1)

/-! ### deactivation is permanent; a covering update resolves a conflict -/

theorem applyEvent_deactivated (cfg : Cfg) (evs : List Event) (c : Meta) (e : Event) (d : Doc) (m : Meta)
    (h : applyEvent cfg evs (some c) e = .ok (d, m)) (hc : c.deactivated = true) : m.deactivated = true := by
  unfold applyEvent applyDocument at h
  simp only at h
  split at h
  · simp only [Res.ok.injEq, Prod.mk.injEq] at h; rw [← h.2]; simp [hc]
  · split at h
    · simp only [Res.ok.injEq, Prod.mk.injEq] at h; rw [← h.2]; simp [hc]
    · cases h
    · cases h

/-- once a version of the derived chain is deactivated every later version is -/
theorem deactivated_monotone (cfg : Cfg) (evs : List Event) :
    ∀ (es : List Event) (c : Meta) (chain : List (Doc × Meta)), c.deactivated = true →
      applyAll cfg evs (some c) es = .ok chain → ∀ p ∈ chain, p.2.deactivated = true := by
  intro es
  induction es with
  | nil => intro c chain _ h p hp; simp only [applyAll, Res.ok.injEq] at h; subst h; cases hp
  | cons e es ih =>
    intro c chain hc h p hp
    unfold applyAll at h
    split at h
    · rename_i d m he
      split at h
      · rename_i rest hr
        cases h
        have hm := applyEvent_deactivated cfg evs c e d m he hc
        rcases List.mem_cons.mp hp with rfl | hp
        · exact hm
        · exact ih m rest hm hr p hp
      · cases h
      · cases h
    · cases h
    · cases h

/-- a deactivated latest version is never resolved as active: `Resolve(id, nil)` answers `deactivated` -/
theorem deactivated_latest_not_resolved (d : Doc) (m : Meta) (older : List (Doc × Meta))
    (hm : m.deactivated = true) : resolveChain none ((d, m) :: older) = .err "deactivated" := by
  simp [resolveChain, hm, latestNonDeactivatedRequested]

/-- an update whose prevs cover all current source transactions yields a non-conflicted version that is
    exactly its own document, hash and source transaction -/
theorem conflict_resolved_by_covering_update (cfg : Cfg) (evs : List Event) (c : Meta) (e : Event)
    (hcover : ∀ st ∈ c.sourceTx, st ∈ e.prevs) :
    ∃ m, applyEvent cfg evs (some c) e = .ok (e.doc, m) ∧ m.isConflicted = false ∧
      m.sourceTx = [e.ref] ∧ m.hash = e.payloadHash ∧ m.version = c.version + 1 := by
  unfold applyEvent applyDocument
  have hempty : (c.sourceTx.filter (fun st => !(e.prevs.contains st))) = [] := by
    apply List.filter_eq_nil_iff.mpr
    intro st hst
    simp [hcover st hst]
  simp only [hempty, List.isEmpty_nil, if_true]
  exact ⟨_, rfl, by simp [Meta.isConflicted], rfl, rfl, rfl⟩

/-! ### non-vacuity: a concrete 2-way fork, two arrival orders, hypotheses met, conflict visible -/

private def docOf (svc : String) : Doc :=
  { id := "did:nuts:x", f := fun x => match x with
      | .controller => [⟨"did:nuts:x", "c"⟩] | .service => [⟨svc, "b"⟩] | _ => [] }
private def evCreate : Event := ⟨0, 10, 100, [], "p0", docOf "s0"⟩
private def evA : Event := ⟨1, 20, 200, [100], "pA", docOf "sA"⟩
private def evB : Event := ⟨1, 20, 150, [100], "pB", docOf "sB"⟩
private def cfg0 : Cfg := cfgOf (fun _ l => l) Facts.C10.mergeSortedFields

example : RefFun [evCreate, evA, evB] := by
  intro a ha b hb h
  simp only [List.mem_cons, List.mem_nil_iff, or_false] at ha hb
  rcases ha with rfl | rfl | rfl <;> rcases hb with rfl | rfl | rfl <;> first | rfl | (simp [evCreate, evA, evB] at h)

example : (match addAll cfg0 {} [evCreate, evA, evB], addAll cfg0 {} [evB, evA, evCreate, evA] with
    | .ok s₁, .ok s₂ =>
      (s₁.get "did:nuts:x").events.map (·.ref) == [100, 150, 200] &&
      (s₂.get "did:nuts:x").events.map (·.ref) == [100, 150, 200] &&
      (s₁.get "did:nuts:x").conflicted && (s₂.get "did:nuts:x").conflicted &&
      s₁.conflictedCount == 1 && s₂.conflictedCount == 1 && s₁.documentCount == 1 && s₂.documentCount == 1
    | _, _ => false) = true := by decide

end Nuts.C10.Props
