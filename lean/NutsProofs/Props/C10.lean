/-
  C10 — did:nuts resolution is independent of the order in which updates arrive.
  ONLY property theorems (+ non-vacuity examples). Helper lemmas: NutsProofs/Lemmas/C10.lean.
  Model: NutsModel/C10/DidStore.lean (event.go, writer.go, merge.go, store.go, metadata.go).
  Facts: NutsModel/Facts/C10.lean is REGENERATED from /repo on every run.
-/
import NutsModel.C10.DidStore
import NutsModel.Facts.C10
import NutsProofs.Lemmas.C10
import NutsProofs.Lemmas.C10Obs
import NutsProofs.Lemmas.C10Shelves
import NutsProofs.Lemmas.C10Backend
import NutsProofs.Lemmas.C10Docs
import NutsProofs.Lemmas.C10Read
import NutsProofs.Lemmas.C10Cache

namespace Nuts.C10.Props
open Nuts.C10

/-! ### Obligations on the regenerated facts (a source change flips these) -/

/-- every list `mergeDocuments` builds by ranging over a Go map is sorted afterwards -/
theorem fact_map_built_fields_sorted :
    ∀ f ∈ Facts.C10.mergeMapBuiltFields, f ∈ Facts.C10.mergeSortedFields := by decide

/-- the model treats every field as map-built and sorted: that is what the source does -/
theorem fact_all_fields_sorted : ∀ f : Field, f ∈ Facts.C10.mergeSortedFields := by
  intro f; cases f <;> decide

/-- `applyFrom`/`applyEvent`/`applyDocument`/`writeEventList` do not iterate over a Go map
    (the model visits unconsumed source transactions in metadata order) -/
theorem fact_writer_has_no_map_range : Facts.C10.writerMapRanges = [] := by decide

/-- `applyFrom` reads the conflicted flag whether or not a base event exists (the model does) -/
theorem fact_conflicted_flag_read_unconditionally : Facts.C10.conflictedFlagReadUnconditional = true := by decide

/-- `event.before` compares the clock, then the signing time (at full precision, `time.Time.Before`), then the ref —
    exactly the model's `before` -/
theorem fact_before_order : Facts.C10.beforeSteps = ["e.Clock < other.Clock => true", "e.Clock > other.Clock => false", "e.SigningTime.Before(other.SigningTime) => true", "other.SigningTime.Before(e.SigningTime) => false", "return e.Ref.Compare(other.Ref) < 0"] := by decide

/-- two events are the same event iff their refs are equal (the model's `contains`) -/
theorem fact_equal_by_ref : Facts.C10.equalBody = "{ return e.Ref.Equals(other.Ref) }" := by decide

/-- everything the ordering and the re-application read from a stored event survives the JSON round trip of the event
    list: each of these fields is persisted under its own tag (only the in-memory `document` pointer is not) -/
theorem fact_event_fields_persisted :
    (∀ f ∈ ["SigningTime", "Clock", "Previous", "Ref", "PayloadHash", "MetaRef"],
      ∃ p ∈ Facts.C10.eventFields, p.1 = f ∧ p.2 ≠ "" ∧ p.2 ≠ "-") ∧
    (Facts.C10.eventFields.map (·.2)).Nodup ∧
    (∀ p ∈ Facts.C10.eventFields, p.2 = "" → p.1 = "document") := by decide

/-- every field of the stored metadata record is persisted under its own tag -/
theorem fact_metadata_fields_persisted :
    (∀ f ∈ ["Version", "Created", "Updated", "Hash", "PreviousHash", "PreviousTransaction", "SourceTransactions", "Deactivated"],
      ∃ p ∈ Facts.C10.metadataFields, p.1 = f ∧ p.2 ≠ "" ∧ p.2 ≠ "-") ∧
    (Facts.C10.metadataFields.map (·.2)).Nodup := by decide

/-- the store object's only in-memory state is the conflicted cache (`Store.cache` in the model; everything else is
    read from the database on every call, which is why a restart only needs `reload`) -/
theorem fact_store_in_memory_state : Facts.C10.storeFields = ["db", "storageProvider", "conflictedDocuments"] := by decide

/-- the cache is written by `applyFrom` (add / remove) and `loadConflictedDocuments` (called from `Configure`) and read
    by `Conflicted` only — the model's `add`, `reload`, `conflictedOf` -/
theorem fact_cache_touch : Facts.C10.cacheTouch = ["Configure calls loadConflictedDocuments", "Conflicted uses conflictedDocuments", "addCachedConflict uses conflictedDocuments", "applyFrom calls addCachedConflict", "applyFrom calls removeCachedConflict", "loadConflictedDocuments uses conflictedDocuments", "removeCachedConflict uses conflictedDocuments"] := by decide

/-- metadata records are keyed DID+version, event `i` of the list points at version `i`, `latest` points at
    DID+version and `Resolve` walks down by `version - 1`: the model's chain indexed by position -/
theorem fact_version_keys : Facts.C10.sprintfKeys = ["Resolve: \"%s%d\" <- id.String() <- metadata.Version - 1", "applyEvent: \"%s%d\" <- nextDocument.ID.String() <- nextMetadata.Version", "writeEventList: \"%s%d\" <- id.String() <- i", "writeLatest: \"%s%d\" <- id <- metadata.Version"] := by decide

/-- single conditions the model copies -/
theorem fact_copied_conditions :
    Facts.C10.docCountCondition = "if metadata.Version == 0" ∧
    Facts.C10.deactivatedAssign = "newMeta.Deactivated = newMeta.Deactivated || currentMeta.Deactivated" ∧
    Facts.C10.isDeactivatedBody = "return len(document.Controller) == 0 && len(document.CapabilityInvocation) == 0" ∧
    Facts.C10.isConflictedBody = "return len(md.SourceTransactions) > 1" ∧
    Facts.C10.updatedOnlyIfDifferent = "if !md.Created.Equal(md.Updated) ;; result.Updated = &md.Updated" ∧
    Facts.C10.historyCreated = "created := el.Events[0].SigningTime" ∧
    Facts.C10.containsCheck = "if currentEventList.contains(event(transaction))" ∧
    Facts.C10.configureLoadsCache = "err = tl.loadConflictedDocuments()" := by decide

/-- the functions the model mirrors are textually the ones it was written against (normalised body digests);
    an edit to any of them fails here and sends the check looking for a concrete counterexample -/
theorem fact_modelled_source_unchanged : Facts.C10.modelledSourceDigests = [("event.go:before", "44e604635a93"),
    ("event.go:equal", "81163d70626e"),
    ("event.go:insert", "780be3f5eb32"),
    ("event.go:contains", "00bf01dec6b7"),
    ("writer.go:writeEventList", "02f6c11d75c9"),
    ("writer.go:writeDocument", "8958ffca45fc"),
    ("writer.go:writeLatest", "2207627fe06c"),
    ("writer.go:applyFrom", "dd594f34f3ed"),
    ("writer.go:incrementDocumentCount", "020ddd19a1ab"),
    ("writer.go:applyEvent", "5b9a524d3cd2"),
    ("writer.go:applyDocument", "bbccdf46d835"),
    ("writer.go:isDeactivated", "16f5db687650"),
    ("store.go:Configure", "293639ec0083"),
    ("store.go:Add", "f210e605bb68"),
    ("store.go:Resolve", "c8dce706bfc5"),
    ("store.go:Iterate", "ecd063ae3999"),
    ("store.go:loadConflictedDocuments", "c4a69f8179e5"),
    ("store.go:addCachedConflict", "568d12f58f5a"),
    ("store.go:removeCachedConflict", "0f654d40bfc3"),
    ("store.go:Conflicted", "2daf2fa6b38a"),
    ("store.go:ConflictedCount", "ab64cad9e09b"),
    ("store.go:DocumentCount", "e93a38d17291"),
    ("store.go:matches", "4307695c3584"),
    ("store.go:latestNonDeactivatedRequested", "193ad311e17e"),
    ("store.go:HistorySinceVersion", "21543445d03f"),
    ("reader.go:readDocument", "2c56abc1cbf7"),
    ("reader.go:readDocumentFromEvent", "6a5e7201b731"),
    ("reader.go:readMetadata", "716a8c6d9c59"),
    ("reader.go:readEventList", "0ac85a79cbbf"),
    ("metadata.go:asVDRMetadata", "c8353707e29f"),
    ("metadata.go:isConflicted", "26646ea99411"),
    ("merge.go:mergeDocuments", "1c4a7dff6449"),
    ("merge.go:mergeBasics", "1df844d1a025"),
    ("merge.go:mergeKeys", "a33bf08e3b1a"),
    ("merge.go:mergeControllers", "789cf91fb91b"),
    ("merge.go:mergeServices", "2bbd8aef8775"),
    ("merge.go:verificationMethodSort", "dc460a455299"),
    ("merge.go:keyAgreementSort", "66afa15cd134"),
    ("merge.go:assertionSort", "ef0d7e37783b"),
    ("merge.go:authenticationSort", "ac5c817389d6"),
    ("merge.go:capabilityInvocationSort", "4def980e52a4"),
    ("merge.go:capabilityDelegationSort", "b57d2ee295a3"),
    ("merge.go:controllerSort", "18db2dc296c6"),
    ("merge.go:serviceSort", "a0ad392477a0"),
    ("merge.go:contextSort", "a4fe7d831316"),
    ("finder.go:Find", "21d9d4d04ce6")] := by decide

/-- wiring (`cmd/root.go`): there is ONE store object (one conflicted cache), it is what the network and the VDR are
    given, it is a `core.Configurable` engine, and it is registered after the storage engine (so `Configure` — which
    opens the database and loads the conflicted cache — runs on a configured storage) and before its users -/
theorem fact_store_wiring :
    Facts.C10.didStoreConstructions.length = 1 ∧
    Facts.C10.didStoreUsers = ["network.NewNetworkInstance", "vdr.NewVDR"] ∧
    Facts.C10.storeIsConfigurable = true ∧
    Facts.C10.engineOrder.count "didStore" = 1 ∧
    Facts.C10.engineOrder.idxOf "storageInstance" < Facts.C10.engineOrder.idxOf "didStore" ∧
    Facts.C10.engineOrder.idxOf "didStore" < Facts.C10.engineOrder.idxOf "vdrInstance" ∧
    Facts.C10.engineOrder.idxOf "didStore" < Facts.C10.engineOrder.idxOf "networkInstance" ∧
    "vdrInstance" ∈ Facts.C10.engineOrder ∧ "networkInstance" ∈ Facts.C10.engineOrder := by decide

/-- `store.Add` runs TWO write transactions: the first only writes the document and the transaction index entry
    (`writeDocument`) and is COMMITTED — Add returns on its error — before the second one reads the event list, applies
    the events (`applyFrom` → `applyDocument` reads the transaction index) and writes the event list. The model's
    `addTwoTx`; a backend need not show a write transaction its own uncommitted writes (go-stoabs redis7 does not). -/
theorem fact_add_commits_index_before_event_transaction :
    Facts.C10.addWriteTransactions =
      ["writeDocument stoabs.WithWriteLock()",
       "readEventList,contains,insert,applyFrom,writeEventList stoabs.WithWriteLock()"] ∧
    Facts.C10.addBetweenTransactions =
      ["if err != nil { return fmt.Errorf(\"database error on commit: %w\", err) }"] := by decide

/-- `store.Add` has no read-only transaction, and every step that looks at or changes the event list
    (`readEventList`, `contains`, `insert`, `applyFrom`, `writeEventList`) runs inside the SAME `tl.db.Write` callback,
    taken with the write lock: a read-modify-write in one transaction. This is exactly what justifies `addDid` / `add`
    being ONE atomic step of the model: overlapping Adds are serialised at that transaction, so every concurrent
    schedule is an arrival sequence and the order-independence theorems cover it. -/
theorem fact_event_list_read_modify_write_in_one_transaction :
    Facts.C10.addReadTransactions = [] ∧ Facts.C10.addEventListStepsOutsideWriteTx = [] ∧
    Facts.C10.addWriteTransactions.getLast? =
      some "readEventList,contains,insert,applyFrom,writeEventList stoabs.WithWriteLock()" := by decide

/-! ### `before` is a strict total order on events with distinct refs -/

theorem before_strict_total :
    (∀ a : Event, before a a = false) ∧
    (∀ a b : Event, before a b = true → before b a = false) ∧
    (∀ a b c : Event, before a b = true → before b c = true → before a c = true) ∧
    (∀ a b : Event, a.ref ≠ b.ref → before a b = true ∨ before b a = true) :=
  ⟨before_irrefl, fun _ _ => before_asymm, fun _ _ _ => before_trans, fun _ _ => before_total⟩

/-- `eventList.insert` keeps the list sorted and adds exactly the new event -/
theorem insert_sorted_perm (n : Event) (l : List Event) (hs : Sorted l) (hn : ∀ y ∈ l, y.ref ≠ n.ref) :
    Sorted (insert n l).1 ∧ (insert n l).1.Perm (n :: l) :=
  ⟨insert_sorted n l hs hn, insert_perm n l⟩

/-! ### merge determinism -/

/-- `mergeDocuments` does not depend on the order in which Go iterates its maps — for ANY two iteration
    orders — given that every field is sorted afterwards (regenerated fact, discharged above). -/
theorem merge_deterministic (σ₁ σ₂ : Field → List Entry → List Entry)
    (h₁ : ∀ f l, (σ₁ f l).Perm l) (h₂ : ∀ f l, (σ₂ f l).Perm l) (a b : Doc) :
    mergeDocuments σ₁ Facts.C10.mergeSortedFields a b = mergeDocuments σ₂ Facts.C10.mergeSortedFields a b := by
  unfold mergeDocuments
  congr 1
  funext x
  have hx : Facts.C10.mergeSortedFields.contains x = true := by
    simpa using fact_all_fields_sorted x
  simp only [hx]
  exact mergeField_sorted_indep (σ₁ x) (σ₂ x) (h₁ x) (h₂ x) _ _

/-- hence the whole model does not depend on map iteration order -/
theorem cfg_independent_of_map_order (σ₁ σ₂ : Field → List Entry → List Entry)
    (h₁ : ∀ f l, (σ₁ f l).Perm l) (h₂ : ∀ f l, (σ₂ f l).Perm l) :
    cfgOf σ₁ Facts.C10.mergeSortedFields = cfgOf σ₂ Facts.C10.mergeSortedFields := by
  unfold cfgOf
  congr 1
  funext a b
  exact merge_deterministic σ₁ σ₂ h₁ h₂ a b

/-- a merged field is sorted and has unique ids whatever the iteration order was -/
theorem merge_field_canonical (σ : List Entry → List Entry) (h : ∀ l, (σ l).Perm l) (a b : List Entry) :
    (mergeField σ true a b).Pairwise (leOf entryLt) ∧ (mergeField σ true a b).Perm (buildMap (a ++ b)) := by
  unfold mergeField
  simp only [if_true]
  exact ⟨sortBy_pairwise entryLt entryLt_asymm entryLt_trans _, (sortBy_perm entryLt _).trans (h _)⟩

/-! ### the stored state is the fold over the sorted event list -/

/-- After ANY arrival sequence (any order, duplicates anywhere) the DID's event list is sorted, has no
    duplicates, contains exactly the events that arrived, and the stored metadata chain / documents /
    conflicted flag are exactly what one derives from scratch from that sorted list. -/
theorem store_is_fold (cfg : Cfg) (l : List Event) (hU : RefFun l) (s : Store)
    (h : addAll cfg {} l = .ok s) (id : String) :
    Inv cfg (s.get id) ∧ ∀ e, e ∈ (s.get id).events ↔ (e ∈ l ∧ e.doc.id = id) := by
  have hget := addAll_get cfg l {} s h id
  have hU' : ∀ x ∈ l.filter (fun e => e.doc.id = id), x ∈ l := fun x hx => (List.mem_filter.mp hx).1
  have := addDidAll_inv cfg l hU (l.filter (fun e => e.doc.id = id)) (({} : Store).get id) (s.get id)
    (inv_empty cfg) (by intro x hx; cases hx) hU' hget
  refine ⟨this.1, fun e => ?_⟩
  rw [this.2 e]
  constructor
  · rintro (h | h)
    · cases h
    · have := List.mem_filter.mp h; exact ⟨this.1, by simpa using this.2⟩
  · rintro ⟨h1, h2⟩
    exact Or.inr (List.mem_filter.mpr ⟨h1, by simpa using h2⟩)

/-- **Order independence.** For every finite set of events, every two arrival sequences over it (any
    permutation, duplicates anywhere), on independent stores, and whatever iteration order Go picks for its
    maps on each store: every DID has the identical event list, metadata chain, documents and conflicted
    flag — hence `Resolve` gives identical answers for every DID and every resolve metadata
    (latest, by time, by hash, by source transaction, allow-deactivated). -/
theorem resolve_order_independent (σ₁ σ₂ : Field → List Entry → List Entry)
    (h₁ : ∀ f l, (σ₁ f l).Perm l) (h₂ : ∀ f l, (σ₂ f l).Perm l)
    (l₁ l₂ : List Event) (hU : RefFun l₁) (hsame : ∀ e, e ∈ l₁ ↔ e ∈ l₂) (s₁ s₂ : Store)
    (r₁ : addAll (cfgOf σ₁ Facts.C10.mergeSortedFields) {} l₁ = .ok s₁)
    (r₂ : addAll (cfgOf σ₂ Facts.C10.mergeSortedFields) {} l₂ = .ok s₂) :
    ∀ id, s₁.get id = s₂.get id ∧ ∀ rm, resolve s₁ id rm = resolve s₂ id rm := by
  intro id
  rw [cfg_independent_of_map_order σ₂ σ₁ h₂ h₁] at r₂
  have hU₂ : RefFun l₂ := fun a ha b hb => hU a ((hsame a).mpr ha) b ((hsame b).mpr hb)
  obtain ⟨i₁, m₁⟩ := store_is_fold _ l₁ hU s₁ r₁ id
  obtain ⟨i₂, m₂⟩ := store_is_fold _ l₂ hU₂ s₂ r₂ id
  have heq : s₁.get id = s₂.get id := by
    apply didstate_determined _ _ _ i₁ i₂
    intro x; rw [m₁ x, m₂ x, hsame x]
  exact ⟨heq, fun rm => by unfold resolve; rw [heq]⟩

/-- **Counters.** `DocumentCount` equals the number of DIDs with at least one event and `ConflictedCount`
    the number of DIDs whose latest version is conflicted — after ANY arrival sequence. -/
theorem stats_are_what_the_states_imply (cfg : Cfg) (l : List Event) (s : Store) (h : addAll cfg {} l = .ok s) :
    s.documentCount = s.dids.length ∧
    s.conflictedCount = (s.dids.filter (fun p => p.2.conflicted)).length ∧
    (∀ k, k ∈ keys s ↔ (s.get k).events ≠ []) := by
  have hs := addAll_storeInv cfg l {} s (storeInv_empty cfg) h
  exact ⟨hs.docs, hs.confl, mem_keys_iff cfg s hs⟩

/-- hence both counters are independent of the arrival order (and of Go's map iteration order) -/
theorem stats_order_independent (σ₁ σ₂ : Field → List Entry → List Entry)
    (h₁ : ∀ f l, (σ₁ f l).Perm l) (h₂ : ∀ f l, (σ₂ f l).Perm l)
    (l₁ l₂ : List Event) (hU : RefFun l₁) (hsame : ∀ e, e ∈ l₁ ↔ e ∈ l₂) (s₁ s₂ : Store)
    (r₁ : addAll (cfgOf σ₁ Facts.C10.mergeSortedFields) {} l₁ = .ok s₁)
    (r₂ : addAll (cfgOf σ₂ Facts.C10.mergeSortedFields) {} l₂ = .ok s₂) :
    s₁.documentCount = s₂.documentCount ∧ s₁.conflictedCount = s₂.conflictedCount := by
  have i₁ := addAll_storeInv _ l₁ {} s₁ (storeInv_empty _) r₁
  have i₂ := addAll_storeInv _ l₂ {} s₂ (storeInv_empty _) r₂
  exact counts_determined _ _ s₁ s₂ i₁ i₂
    (fun k => (resolve_order_independent σ₁ σ₂ h₁ h₂ l₁ l₂ hU hsame s₁ s₂ r₁ r₂ k).1)

/-! ### deactivation is permanent; a covering update resolves a conflict -/

theorem applyEvent_deactivated (cfg : Cfg) (evs : List Event) (c : Meta) (e : Event) (d : Doc) (m : Meta)
    (h : applyEvent cfg evs (some c) e = .ok (d, m)) (hc : c.deactivated = true) : m.deactivated = true := by
  unfold applyEvent applyDocument at h
  simp only at h
  split at h
  · simp only [Res.ok.injEq, Prod.mk.injEq] at h; rw [← h.2]; simp [hc]
  · split at h
    · simp only [Res.ok.injEq, Prod.mk.injEq] at h; rw [← h.2]; simp [hc]
    · cases h
    · cases h

/-- once a version of the derived chain is deactivated every later version is -/
theorem deactivated_monotone (cfg : Cfg) (evs : List Event) :
    ∀ (es : List Event) (c : Meta) (chain : List (Doc × Meta)), c.deactivated = true →
      applyAll cfg evs (some c) es = .ok chain → ∀ p ∈ chain, p.2.deactivated = true := by
  intro es
  induction es with
  | nil => intro c chain _ h p hp; simp only [applyAll, Res.ok.injEq] at h; subst h; cases hp
  | cons e es ih =>
    intro c chain hc h p hp
    unfold applyAll at h
    split at h
    · rename_i d m he
      split at h
      · rename_i rest hr
        cases h
        have hm := applyEvent_deactivated cfg evs c e d m he hc
        rcases List.mem_cons.mp hp with rfl | hp
        · exact hm
        · exact ih m rest hm hr p hp
      · cases h
      · cases h
    · cases h
    · cases h

/-- a deactivated latest version is never resolved as active: `Resolve(id, nil)` answers `deactivated` -/
theorem deactivated_latest_not_resolved (d : Doc) (m : Meta) (older : List (Doc × Meta))
    (hm : m.deactivated = true) : resolveChain none ((d, m) :: older) = .err "deactivated" := by
  simp [resolveChain, hm, latestNonDeactivatedRequested]

/-- an update whose prevs cover all current source transactions yields a non-conflicted version that is
    exactly its own document, hash and source transaction -/
theorem conflict_resolved_by_covering_update (cfg : Cfg) (evs : List Event) (c : Meta) (e : Event)
    (hcover : ∀ st ∈ c.sourceTx, st ∈ e.prevs) :
    ∃ m, applyEvent cfg evs (some c) e = .ok (e.doc, m) ∧ m.isConflicted = false ∧
      m.sourceTx = [e.ref] ∧ m.hash = e.payloadHash ∧ m.version = c.version + 1 := by
  unfold applyEvent applyDocument
  have hempty : (c.sourceTx.filter (fun st => !(e.prevs.contains st))) = [] := by
    apply List.filter_eq_nil_iff.mpr
    intro st hst
    simp [hcover st hst]
  simp only [hempty, List.isEmpty_nil, if_true]
  exact ⟨_, rfl, by simp [Meta.isConflicted], rfl, rfl, rfl⟩

/-! ### the other observation sites: Conflicted(), Iterate(), Finder, HistorySinceVersion, restart -/

/-- everything `addAll` reaches from the empty store satisfies the observation invariant
    (event IDs, cache = flags, counters) -/
theorem reachable_obsInv (cfg : Cfg) (hk : MergeKeepsId cfg) (l : List Event) (s : Store)
    (h : addAll cfg {} l = .ok s) : ObsInv cfg s :=
  addAll_obsInv cfg hk l {} s (obsInv_empty cfg) h

/-- **Order independence of every other read path.** For two arrival sequences over the same event set (as in
    `resolve_order_independent`): the entry `Conflicted()` hands out for each DID, the whole `Iterate()` sequence,
    the `Finder` result and `HistorySinceVersion` for every version are identical. -/
theorem observations_order_independent (σ₁ σ₂ : Field → List Entry → List Entry)
    (h₁ : ∀ f l, (σ₁ f l).Perm l) (h₂ : ∀ f l, (σ₂ f l).Perm l)
    (l₁ l₂ : List Event) (hU : RefFun l₁) (hsame : ∀ e, e ∈ l₁ ↔ e ∈ l₂) (s₁ s₂ : Store)
    (r₁ : addAll (cfgOf σ₁ Facts.C10.mergeSortedFields) {} l₁ = .ok s₁)
    (r₂ : addAll (cfgOf σ₂ Facts.C10.mergeSortedFields) {} l₂ = .ok s₂) :
    (∀ id, conflictedOf s₁ id = conflictedOf s₂ id) ∧ iterate s₁ = iterate s₂ ∧ findActive s₁ = findActive s₂ ∧
    (∀ id v, historySince (s₁.get id) v = historySince (s₂.get id) v) := by
  have hget := fun k => (resolve_order_independent σ₁ σ₂ h₁ h₂ l₁ l₂ hU hsame s₁ s₂ r₁ r₂ k).1
  have i₁ := reachable_obsInv _ (cfgOf_keeps_id σ₁ _) l₁ s₁ r₁
  have i₂ := reachable_obsInv _ (cfgOf_keeps_id σ₂ _) l₂ s₂ r₂
  have hit := iterate_determined _ _ s₁ s₂ i₁.store i₂.store hget
  refine ⟨?_, hit, ?_, ?_⟩
  · intro id
    unfold conflictedOf
    rw [i₁.cache.look id, i₂.cache.look id, hget id]
  · unfold findActive; rw [hit]
  · intro id v; rw [hget id]

/-- **Restart.** Re-opening the store (`loadConflictedDocuments` on a new store object) rebuilds exactly the cache
    the running store had: same entry for every DID, same entries overall, nothing else changes. -/
theorem restart_changes_nothing (cfg : Cfg) (hk : MergeKeepsId cfg) (l : List Event) (s : Store)
    (h : addAll cfg {} l = .ok s) :
    (reload s).dids = s.dids ∧ (reload s).conflictedCount = s.conflictedCount ∧
    (reload s).documentCount = s.documentCount ∧
    (∀ id, conflictedOf (reload s) id = conflictedOf s id) ∧ (∀ p, p ∈ (reload s).cache ↔ p ∈ s.cache) := by
  have hs := reachable_obsInv cfg hk l s h
  refine ⟨rfl, rfl, rfl, ?_, ?_⟩
  · intro id; unfold conflictedOf; rw [reload_look cfg hk s hs id]
  · exact mem_of_alGet_iff _ _ (reload_nodup s) hs.cache.nodup (reload_look cfg hk s hs)

/-- **Iterators and counters tell one story.** After any arrival sequence `Conflicted()` calls back exactly
    `ConflictedCount()` times and `Iterate()` exactly `DocumentCount()` times; a DID has a `Conflicted()` entry iff
    its durable flag is set, and that entry is its latest version (what `Resolve` with `AllowDeactivated` answers),
    which has more than one source transaction. -/
theorem iterators_agree_with_counters (cfg : Cfg) (hk : MergeKeepsId cfg) (l : List Event) (s : Store)
    (h : addAll cfg {} l = .ok s) :
    s.cache.length = s.conflictedCount ∧ (iterate s).length = s.documentCount ∧
    ∀ id, ((conflictedOf s id).isSome = (s.get id).conflicted) ∧
      ∀ d vm, conflictedOf s id = some (d, vm) →
        ∃ m, resolve s id (some { allowDeactivated := true }) = .ok (d, m) ∧ m.asVDR = vm ∧ vm.sourceTx.length > 1 := by
  have hs := reachable_obsInv cfg hk l s h
  refine ⟨cache_length cfg s hs, iterate_length cfg s hs.store, fun id => ?_⟩
  have hlook := hs.cache.look id
  have hinv := get_inv cfg s hs.store id
  unfold conflictedOf
  by_cases hc : (s.get id).conflicted = true
  · simp only [hc, if_true] at hlook
    have hne : (s.get id).events ≠ [] := by
      intro hnil
      have hch := hinv.chain
      rw [hnil] at hch
      simp only [derive, applyAll, Res.ok.injEq] at hch
      have hf := hinv.flag
      rw [← hch] at hf
      simp [hc] at hf
    obtain ⟨p, hp⟩ := inv_last cfg (s.get id) hinv hne
    rw [hlook, hp, hc]
    refine ⟨rfl, ?_⟩
    intro d vm hdv
    simp only [Option.map_some, Option.some.injEq, Prod.mk.injEq] at hdv
    refine ⟨p.2, ?_, hdv.2, ?_⟩
    · rw [← hdv.1]; exact resolve_latest s id p hp
    · have hf := hinv.flag
      rw [hp, hc] at hf
      rw [← hdv.2]
      simpa [Meta.isConflicted, Meta.asVDR] using hf.symm
  · have hc' : (s.get id).conflicted = false := by simpa using hc
    simp only [hc', Bool.false_eq_true, if_false] at hlook
    rw [hlook, hc']
    refine ⟨rfl, ?_⟩
    intro d vm hdv
    simp at hdv

/-- **Resolve answers satisfy their filters** — for every metadata combination (hash, time, source transaction,
    allow-deactivated, any subset): the answer is a stored version, it passes every filter that was given, and it is
    the latest version that does. -/
theorem resolve_answers_satisfy_filters (s : Store) (id : String) (r : ResolveMeta) (d : Doc) (m : Meta)
    (h : resolve s id (some r) = .ok (d, m)) :
    (∃ newer older, (s.get id).chain.reverse = newer ++ (d, m) :: older ∧
      ∀ q ∈ newer, matchesMeta q.2 (some r) = false) ∧
    (m.deactivated = true → r.allowDeactivated = true) ∧
    (∀ x, r.hash = some x → m.hash = x) ∧
    (∀ t, r.time = some t → m.updated ≤ t ∧ m.created ≤ t) ∧
    (∀ tx, r.sourceTx = some tx → tx ∈ m.sourceTx) := by
  unfold resolve at h
  obtain ⟨newer, older, hc, hm, hall⟩ := resolveChain_sound (some r) _ (d, m) h
  exact ⟨⟨newer, older, hc, hall⟩, matchesMeta_some m r hm⟩

/-- … and `Resolve` is complete: it answers not-found only when NO stored version passes the filters, and its only
    other error on stored data is `deactivated` -/
theorem resolve_not_found_means_no_version_matches (s : Store) (id : String) (rm : Option ResolveMeta) :
    (resolve s id rm = .err "not-found" → ∀ q ∈ (s.get id).chain, matchesMeta q.2 rm = false) ∧
    (∀ x, resolve s id rm = .err x → x = "not-found" ∨ x = "deactivated") := by
  unfold resolve
  exact ⟨fun h q hq => resolveChain_not_found rm _ h q (List.mem_reverse.mpr hq), resolveChain_errors rm _⟩

/-- **Deactivation is permanent, end to end.** If the arrived set holds a deactivation of a DID then — for every
    arrival order — `Resolve(id, nil)` and `Resolve(id, {})` answer `deactivated`, and no query without
    `AllowDeactivated` is ever answered with a deactivated version. -/
theorem deactivation_is_permanent (cfg : Cfg) (l : List Event) (hU : RefFun l) (s : Store)
    (h : addAll cfg {} l = .ok s) (e : Event) (he : e ∈ l) (hd : isDeactivated e.doc = true) :
    resolve s e.doc.id none = .err "deactivated" ∧ resolve s e.doc.id (some {}) = .err "deactivated" ∧
    ∀ r d m, resolve s e.doc.id (some r) = .ok (d, m) → r.allowDeactivated = false → m.deactivated = false := by
  obtain ⟨hinv, hmem⟩ := store_is_fold cfg l hU s h e.doc.id
  have hin : e ∈ (s.get e.doc.id).events := (hmem e).mpr ⟨he, rfl⟩
  obtain ⟨h1, h2⟩ := inv_deactivated_resolve cfg (s.get e.doc.id) hinv e hin hd
  refine ⟨h1, h2, ?_⟩
  intro r d m hr hna
  have := (resolve_answers_satisfy_filters s e.doc.id r d m hr).2.1
  cases hmd : m.deactivated with
  | false => rfl
  | true => rw [this hmd] at hna; cases hna

/-- **A covering update resolves the conflict, end to end.** If one event of a DID is after all its other events
    and names all of them as previous transactions then — for every arrival order, duplicates included — the DID is
    not conflicted, has no `Conflicted()` entry, and its latest version is exactly that event's document, hash and
    source transaction. -/
theorem covering_update_resolves_any_order (cfg : Cfg) (hk : MergeKeepsId cfg) (l : List Event) (hU : RefFun l)
    (s : Store) (h : addAll cfg {} l = .ok s) (top : Event) (htop : top ∈ l)
    (hcov : ∀ e ∈ l, e.doc.id = top.doc.id → e ≠ top → before e top = true ∧ e.ref ∈ top.prevs) :
    (s.get top.doc.id).conflicted = false ∧ conflictedOf s top.doc.id = none ∧
    ∃ m, resolve s top.doc.id (some { allowDeactivated := true }) = .ok (top.doc, m) ∧
      m.sourceTx = [top.ref] ∧ m.hash = top.payloadHash := by
  obtain ⟨hinv, hmem⟩ := store_is_fold cfg l hU s h top.doc.id
  have hin : top ∈ (s.get top.doc.id).events := (hmem top).mpr ⟨htop, rfl⟩
  obtain ⟨m, hl, hs, hh, hc⟩ := inv_covering_last cfg (s.get top.doc.id) hinv top hin
    (fun e he hne => hcov e ((hmem e).mp he).1 ((hmem e).mp he).2 hne)
  have hobs := reachable_obsInv cfg hk l s h
  refine ⟨hc, ?_, m, resolve_latest s _ _ hl, hs, hh⟩
  unfold conflictedOf
  rw [hobs.cache.look, hc]
  rfl

/-- **History.** After any arrival sequence `HistorySinceVersion(id, 0)` lists exactly the arrived transactions of
    the DID, each once, in `before` order, numbered from 0, all with the first one's signing time as `Created`. -/
theorem history_is_the_sorted_event_list (cfg : Cfg) (l : List Event) (hU : RefFun l) (s : Store)
    (h : addAll cfg {} l = .ok s) (id : String) (hist : List HistDoc)
    (hh : historySince (s.get id) 0 = .ok hist) :
    Sorted (s.get id).events ∧ (∀ e, e ∈ (s.get id).events ↔ (e ∈ l ∧ e.doc.id = id)) ∧
    hist.map (·.raw) = (s.get id).events.map (·.payloadHash) ∧
    hist.map (·.version) = List.range' 0 (s.get id).events.length ∧
    ∀ x ∈ hist, some x.created = (s.get id).events.head?.map (·.sigTime) := by
  obtain ⟨hinv, hmem⟩ := store_is_fold cfg l hU s h id
  unfold historySince at hh
  cases hev : (s.get id).events with
  | nil => rw [hev] at hh; cases hh
  | cons e0 es =>
    rw [hev] at hh
    simp only [Nat.not_lt_zero, if_false, List.drop_zero, Res.ok.injEq] at hh
    obtain ⟨h1, h2, h3⟩ := histFrom_raw e0.sigTime (e0 :: es) 0
    have hsort := hinv.sorted
    rw [hev] at hsort hmem
    refine ⟨hsort, hmem, by rw [← hh]; exact h1, by rw [← hh]; exact h2, ?_⟩
    intro x hx
    rw [← hh] at hx
    simp [h3 x hx]

/-! ### the shelf level: MetaRef numbering, metadata keys, latest pointer, Resolve's walk -/

/-- **The shelves refine the chain.** For every arrival sequence of a DID's events (any order, duplicates anywhere) the
    literal second write transaction of `store.Add` — base metadata read through the base event's `MetaRef`, records
    Put under DID+`Version`, `latest` = last `Version`, all `MetaRef`s renumbered by `writeEventList` — succeeds whenever
    the chain model does and leaves: event `i` of the stored list pointing at record `i`, record `i` = version `i` of
    the chain, `latest` = the last version; and `store.Resolve`'s walk (start at `latest`, go on with `Version - 1`)
    answers exactly what the chain model answers, for every resolve metadata. -/
theorem shelves_refine_chain (cfg : Cfg) (l : List Event) (a : DidState) (h : addDidAll cfg {} l = .ok a) :
    ∃ st, sAddAll cfg {} l = .ok st ∧ SInv st a ∧ ∀ rm, sResolve st rm = resolveChain rm a.chain.reverse := by
  obtain ⟨st, h1, h2, h3⟩ := sAddAll_refines cfg l {} {} a (inv_empty cfg) sInv_empty h
  exact ⟨st, h1, h2, fun rm => sResolve_refines cfg st a h3 h2 rm⟩

/-- store-level form: what `Resolve` reads from the shelves of DID `id` after any arrival sequence on the store -/
theorem shelf_resolve_eq_resolve (cfg : Cfg) (l : List Event) (s : Store) (h : addAll cfg {} l = .ok s) (id : String) :
    ∃ st, sAddAll cfg {} (l.filter (fun e => e.doc.id = id)) = .ok st ∧ SInv st (s.get id) ∧
      ∀ rm, sResolve st rm = resolve s id rm := by
  have hget := addAll_get cfg l {} s h id
  have h0 : ({} : Store).get id = {} := by simp [Store.get, alGet]
  rw [h0] at hget
  obtain ⟨st, h1, h2, h3⟩ := shelves_refine_chain cfg _ (s.get id) hget
  exact ⟨st, h1, h2, fun rm => by rw [h3 rm]; rfl⟩

/-- hence order independence holds for the literal shelf-level reads as well -/
theorem shelf_level_order_independent (σ₁ σ₂ : Field → List Entry → List Entry)
    (h₁ : ∀ f l, (σ₁ f l).Perm l) (h₂ : ∀ f l, (σ₂ f l).Perm l)
    (l₁ l₂ : List Event) (hU : RefFun l₁) (hsame : ∀ e, e ∈ l₁ ↔ e ∈ l₂) (s₁ s₂ : Store)
    (r₁ : addAll (cfgOf σ₁ Facts.C10.mergeSortedFields) {} l₁ = .ok s₁)
    (r₂ : addAll (cfgOf σ₂ Facts.C10.mergeSortedFields) {} l₂ = .ok s₂) (id : String) :
    ∃ st₁ st₂, sAddAll (cfgOf σ₁ Facts.C10.mergeSortedFields) {} (l₁.filter (fun e => e.doc.id = id)) = .ok st₁ ∧
      sAddAll (cfgOf σ₂ Facts.C10.mergeSortedFields) {} (l₂.filter (fun e => e.doc.id = id)) = .ok st₂ ∧
      (∀ rm, sResolve st₁ rm = sResolve st₂ rm) ∧ st₁.events = st₂.events ∧ st₁.latest = st₂.latest := by
  obtain ⟨st₁, a1, b1, c1⟩ := shelf_resolve_eq_resolve _ l₁ s₁ r₁ id
  obtain ⟨st₂, a2, b2, c2⟩ := shelf_resolve_eq_resolve _ l₂ s₂ r₂ id
  obtain ⟨hget, hres⟩ := resolve_order_independent σ₁ σ₂ h₁ h₂ l₁ l₂ hU hsame s₁ s₂ r₁ r₂ id
  refine ⟨st₁, st₂, a1, a2, fun rm => by rw [c1 rm, c2 rm, hres rm], ?_, ?_⟩
  · rw [b1.events, b2.events, hget]
  · rw [b1.latest, b2.latest, hget]

/-! ### non-vacuity: a concrete 2-way fork, two arrival orders, hypotheses met, conflict visible -/

private def docOf (svc : String) : Doc :=
  { id := "did:nuts:x", f := fun x => match x with
      | .controller => [⟨"did:nuts:x", "c"⟩] | .service => [⟨svc, "b"⟩] | _ => [] }
private def evCreate : Event := ⟨0, 10, 100, [], "p0", docOf "s0"⟩
private def evA : Event := ⟨1, 20, 200, [100], "pA", docOf "sA"⟩
private def evB : Event := ⟨1, 20, 150, [100], "pB", docOf "sB"⟩
private def cfg0 : Cfg := cfgOf (fun _ l => l) Facts.C10.mergeSortedFields

example : RefFun [evCreate, evA, evB] := by
  intro a ha b hb h
  simp only [List.mem_cons, List.mem_nil_iff, or_false] at ha hb
  rcases ha with rfl | rfl | rfl <;> rcases hb with rfl | rfl | rfl <;> first | rfl | (simp [evCreate, evA, evB] at h)

example : (match addAll cfg0 {} [evCreate, evA, evB], addAll cfg0 {} [evB, evA, evCreate, evA] with
    | .ok s₁, .ok s₂ =>
      (s₁.get "did:nuts:x").events.map (·.ref) == [100, 150, 200] &&
      (s₂.get "did:nuts:x").events.map (·.ref) == [100, 150, 200] &&
      (s₁.get "did:nuts:x").conflicted && (s₂.get "did:nuts:x").conflicted &&
      s₁.conflictedCount == 1 && s₂.conflictedCount == 1 && s₁.documentCount == 1 && s₂.documentCount == 1
    | _, _ => false) = true := by decide

/-! ### why Add uses two write transactions: no "read your own writes" is needed -/

/-- **The two-transaction Add works on a backend whose in-transaction reads see committed data only.** For every
    arrival sequence on the store and every DID: running the DID's arrivals through `addTwoTx` (transaction 1 commits the
    index entry, transaction 2 looks up only COMMITTED index entries) never fails where the chain model succeeds and
    ends in exactly the chain model's state — so everything proved above (order independence of Resolve, counters,
    iterators, history, …) holds on such a backend (go-stoabs redis7) without assuming that a write transaction reads
    its own writes. -/
theorem two_tx_add_needs_no_read_your_writes (cfg : Cfg) (l : List Event) (s : Store) (h : addAll cfg {} l = .ok s)
    (id : String) :
    ∃ c, twoTxAll cfg {} (l.filter (fun e => e.doc.id = id)) = .ok c ∧ c.st = s.get id ∧ CInv c := by
  have hget := addAll_get cfg l {} s h id
  have h0 : ({} : Store).get id = {} := by simp [Store.get, alGet]
  rw [h0] at hget
  exact twoTxAll_refines cfg _ {} (s.get id) cInv_empty hget

/-- hence order independence on that backend, stated directly -/
theorem two_tx_add_order_independent_on_committed_reads (σ₁ σ₂ : Field → List Entry → List Entry)
    (h₁ : ∀ f l, (σ₁ f l).Perm l) (h₂ : ∀ f l, (σ₂ f l).Perm l)
    (l₁ l₂ : List Event) (hU : RefFun l₁) (hsame : ∀ e, e ∈ l₁ ↔ e ∈ l₂) (s₁ s₂ : Store)
    (r₁ : addAll (cfgOf σ₁ Facts.C10.mergeSortedFields) {} l₁ = .ok s₁)
    (r₂ : addAll (cfgOf σ₂ Facts.C10.mergeSortedFields) {} l₂ = .ok s₂) (id : String) :
    ∃ c₁ c₂, twoTxAll (cfgOf σ₁ Facts.C10.mergeSortedFields) {} (l₁.filter (fun e => e.doc.id = id)) = .ok c₁ ∧
      twoTxAll (cfgOf σ₂ Facts.C10.mergeSortedFields) {} (l₂.filter (fun e => e.doc.id = id)) = .ok c₂ ∧
      c₁.st = c₂.st := by
  obtain ⟨c₁, a1, b1, _⟩ := two_tx_add_needs_no_read_your_writes _ l₁ s₁ r₁ id
  obtain ⟨c₂, a2, b2, _⟩ := two_tx_add_needs_no_read_your_writes _ l₂ s₂ r₂ id
  exact ⟨c₁, c₂, a1, a2, by rw [b1, b2, (resolve_order_independent σ₁ σ₂ h₁ h₂ l₁ l₂ hU hsame s₁ s₂ r₁ r₂ id).1]⟩

/-- **… and the ONE-transaction Add does not.** Folding `writeDocument` into the event transaction makes the store
    arrival-order dependent on such a backend. Witness: a 2-way fork {create, A, B} where B sorts before A. Arrival
    create, B, A: every Add succeeds, three events, conflicted. Arrival create, A, B: B arrives late, is inserted before A,
    A is re-applied and does not consume B, `applyDocument` looks B's own index entry up — written in this very
    transaction, not committed — and Add(B) fails (and would fail on every re-delivery): two events, no conflict.
    The two-transaction Add gives the same three-event, conflicted state for both orders. -/
theorem one_tx_add_order_dependent_witness :
    (addSeq (addOneTx cfg0) {} [evCreate, evB, evA]).2 = 0 ∧
    (addSeq (addOneTx cfg0) {} [evCreate, evB, evA]).1.st.events.map (·.ref) = [100, 150, 200] ∧
    (addSeq (addOneTx cfg0) {} [evCreate, evB, evA]).1.st.conflicted = true ∧
    addOneTx cfg0 (addSeq (addOneTx cfg0) {} [evCreate, evA]).1 evB = .err "txref-not-found" ∧
    (addSeq (addOneTx cfg0) {} [evCreate, evA, evB, evB]).2 = 2 ∧
    (addSeq (addOneTx cfg0) {} [evCreate, evA, evB, evB]).1.st.events.map (·.ref) = [100, 200] ∧
    (addSeq (addOneTx cfg0) {} [evCreate, evA, evB, evB]).1.st.conflicted = false ∧
    (addSeq (addTwoTx cfg0) {} [evCreate, evA, evB]).2 = 0 ∧
    (addSeq (addTwoTx cfg0) {} [evCreate, evA, evB]).1.st.events.map (·.ref) = [100, 150, 200] ∧
    (addSeq (addTwoTx cfg0) {} [evCreate, evA, evB]).1.st.conflicted = true := by
  refine ⟨by decide, by decide, by decide, ?_, by decide, by decide, by decide, by decide, by decide, by decide⟩
  have : (match addOneTx cfg0 (addSeq (addOneTx cfg0) {} [evCreate, evA]).1 evB with
    | .err x => x == "txref-not-found" | _ => false) = true := by decide
  cases h : addOneTx cfg0 (addSeq (addOneTx cfg0) {} [evCreate, evA]).1 evB with
  | ok c => rw [h] at this; cases this
  | panic x => rw [h] at this; cases this
  | err x => rw [h] at this; simp only [beq_iff_eq] at this; rw [this]

/-! ### overlapping Adds -/

/-- **Atomic Adds: every schedule is an arrival order.** `add` is one step because the event list is read, changed
    and written in one serialised write transaction (`fact_event_list_read_modify_write_in_one_transaction`). Two stores
    fed the same set by ANY two schedules of overlapping Adds therefore fall under `resolve_order_independent`; spelled
    out for a pair: adding `a` then `b`, or `b` then `a`, on any reachable state gives the same DID states. -/
theorem overlapping_atomic_adds_commute (σ : Field → List Entry → List Entry) (hσ : ∀ f l, (σ f l).Perm l)
    (l : List Event) (a b : Event) (hU : RefFun (l ++ [a, b])) (s₁ s₂ : Store)
    (r₁ : addAll (cfgOf σ Facts.C10.mergeSortedFields) {} (l ++ [a, b]) = .ok s₁)
    (r₂ : addAll (cfgOf σ Facts.C10.mergeSortedFields) {} (l ++ [b, a]) = .ok s₂) :
    ∀ id, s₁.get id = s₂.get id ∧ ∀ rm, resolve s₁ id rm = resolve s₂ id rm := by
  apply resolve_order_independent σ σ hσ hσ (l ++ [a, b]) (l ++ [b, a]) hU _ s₁ s₂ r₁ r₂
  intro e
  simp only [List.mem_append, List.mem_cons, List.mem_nil_iff, or_false]
  constructor <;> (rintro (h | h | h) <;> simp [h])

/-- **Check-then-act Adds lose an accepted transaction.** If the event list is captured before the write transaction,
    two overlapping Adds of the fork branches A and B both start from {create}; B's write overwrites A's: the history has
    two events instead of three, A is gone, and no conflict is recorded — while either sequential order gives the
    three-event conflicted state. -/
theorem stale_read_add_loses_update_witness :
    (match addDidAll cfg0 {} [evCreate] with
      | .ok st =>
        (match addStalePair cfg0 st evA evB with
          | .ok s => s.events.map (·.ref) == [100, 150] && !s.conflicted
          | _ => false) &&
        (match addDidAll cfg0 st [evA, evB], addDidAll cfg0 st [evB, evA] with
          | .ok s₁, .ok s₂ => s₁.events.map (·.ref) == [100, 150, 200] && s₁.conflicted &&
              s₂.events.map (·.ref) == [100, 150, 200] && s₂.conflicted
          | _, _ => false)
      | _ => false) = true := by decide

/-! ### the by-time form of the deactivation clause is FALSE of the code (open finding) -/

private def evDeact : Event := ⟨1, 20, 500, [100], "pX", { id := "did:nuts:x", f := fun _ => [] }⟩

/-- full-strength by-time form of "a deactivated DID never resolves as active again": once the arrived set holds a
    deactivation of a DID, a `Resolve` by a time at or after every signing time, without `AllowDeactivated`, is never
    answered with a version. -/
def DeactivatedNeverActiveByTimeStmt : Prop :=
  ∀ (cfg : Cfg) (l : List Event) (s : Store) (e : Event) (t : Nat) (r : ResolveMeta) (d : Doc) (m : Meta),
    addAll cfg {} l = .ok s → e ∈ l → isDeactivated e.doc = true → (∀ x ∈ l, x.sigTime ≤ t) →
    r.time = some t → r.allowDeactivated = false → resolve s e.doc.id (some r) ≠ .ok (d, m)

/-- … and it does NOT hold: `Resolve` skips deactivated versions when a resolve time is given
    (`latestNonDeactivatedRequested` = false, `matches` refuses the deactivated version) and goes on to the last ACTIVE
    version. Witness: create at 10, deactivation at 20, `Resolve(ResolveTime = 40)` answers the created document with
    `deactivated = false`. Replayed on the real store: harness/corpus/C10/deactivated-did-resolves-as-active-by-time.jsonl -/
theorem deactivated_resolves_active_by_time_witness : ¬ DeactivatedNeverActiveByTimeStmt := by
  intro h
  have key : (match addAll cfg0 {} [evCreate, evDeact] with
      | .ok s => (match resolve s "did:nuts:x" (some { time := some 40 }) with
          | .ok (_, m) => !m.deactivated && m.version == 0 | _ => false)
      | _ => false) = true := by decide
  cases hs : addAll cfg0 {} [evCreate, evDeact] with
  | err x => rw [hs] at key; cases key
  | panic x => rw [hs] at key; cases key
  | ok s =>
    rw [hs] at key
    simp only at key
    cases hr : resolve s "did:nuts:x" (some { time := some 40 }) with
    | err x => rw [hr] at key; cases key
    | panic x => rw [hr] at key; cases key
    | ok p =>
      obtain ⟨d, m⟩ := p
      refine h cfg0 [evCreate, evDeact] s evDeact 40 { time := some 40 } d m hs (by simp) (by decide) ?_ rfl rfl hr
      intro x hx
      simp only [List.mem_cons, List.mem_nil_iff, or_false] at hx
      rcases hx with rfl | rfl <;> decide

/-- the hypotheses of the new theorems are met by the same concrete stores: the fork is cached and counted, survives a
    restart, `Iterate` lists the DID once, the history is the sorted event list, a covering update clears the conflict
    (in a late arrival order too) and a deactivation answers `deactivated` -/
private def evR : Event := ⟨2, 30, 300, [150, 200, 100], "pR", docOf "sR"⟩
private def evD : Event := ⟨3, 40, 400, [300], "pD", { id := "did:nuts:x", f := fun _ => [] }⟩

example : MergeKeepsId cfg0 := cfgOf_keeps_id _ _

example : (match addAll cfg0 {} [evB, evA, evCreate] with
    | .ok s =>
      s.cache.length == 1 && (reload s).cache.length == 1 && (iterate s).length == 1 &&
      (conflictedOf s "did:nuts:x").isSome && (conflictedOf (reload s) "did:nuts:x").isSome &&
      (match historySince (s.get "did:nuts:x") 0 with
        | .ok h => h.map (·.raw) == ["p0", "pB", "pA"] && h.map (·.version) == [0, 1, 2] && h.map (·.created) == [10, 10, 10]
        | _ => false)
    | _ => false) = true := by decide

example : (match addAll cfg0 {} [evR, evB, evA, evCreate] with
    | .ok s =>
      !(s.get "did:nuts:x").conflicted && s.cache.length == 0 && s.conflictedCount == 0 &&
      (match resolve s "did:nuts:x" (some { allowDeactivated := true }) with
        | .ok (_, m) => m.sourceTx == [300] && m.hash == "pR"
        | _ => false)
    | _ => false) = true := by decide

example : (match addAll cfg0 {} [evD, evR, evB, evA, evCreate] with
    | .ok s =>
      (match resolve s "did:nuts:x" none with | .err e => e == "deactivated" | _ => false) &&
      (match resolve s "did:nuts:x" (some {}) with | .err e => e == "deactivated" | _ => false) &&
      (match resolve s "did:nuts:x" (some { time := some 35 }) with | .ok (_, m) => !m.deactivated | _ => false) &&
      (match resolve s "did:nuts:x" (some { hash := some "pB", time := some 15, allowDeactivated := true }) with
        | .err e => e == "not-found" | _ => false)
    | _ => false) = true := by decide

example : (match sAddAll cfg0 {} [evB, evA, evCreate, evA] with
    | .ok st => st.events.map (·.metaRef) == [some 0, some 1, some 2] && st.events.map (·.ev.ref) == [100, 150, 200] &&
        st.latest == some 2 && st.conflicted && st.metas.length == 3 &&
        (match sResolve st (some { time := some 15 }) with | .ok (_, m) => m.version == 0 | _ => false)
    | _ => false) = true := by decide

/-! ### deepening round: regenerated decision table, Puts, Get error handling, statistics codec, constants -/

/-- interpreter of the regenerated decision table of `latestNonDeactivatedRequested`: the steps are tried in source order;
    "nil" tests the pointer, any other key tests whether that field of the resolve metadata is set; `none` = the table
    would dereference a nil pointer or names a field the model does not know -/
def lndField (r : ResolveMeta) : String → Option Bool
  | "ResolveTime" => some r.time.isSome
  | "Hash" => some r.hash.isSome
  | "SourceTransaction" => some r.sourceTx.isSome
  | _ => none

def lndTable (final : ResolveMeta → Bool) : List (String × Bool) → Option ResolveMeta → Option Bool
  | [], none => none
  | [], some r => some (final r)
  | (k, v) :: rest, rm =>
    if k = "nil" then (match rm with | none => some v | some _ => lndTable final rest rm)
    else match rm with
      | none => none
      | some r =>
        match lndField r k with
        | none => none
        | some true => some v
        | some false => lndTable final rest rm

/-- **the hand-written `latestNonDeactivatedRequested` IS the regenerated decision table** (check order, tested fields,
    answers and the final `!AllowDeactivated`), for every resolve metadata -/
theorem fact_latest_non_deactivated_table :
    Facts.C10.lndFinal = "!resolveMetadata.AllowDeactivated" ∧
    ∀ rm, lndTable (fun r => !r.allowDeactivated) Facts.C10.lndSteps rm = some (latestNonDeactivatedRequested rm) := by
  refine ⟨by decide, ?_⟩
  intro rm
  cases rm with
  | none => rfl
  | some r =>
    obtain ⟨ad, h, t, s⟩ := r
    cases h <;> cases t <;> cases s <;> rfl

/-- the statements of `matches` in source order (deactivated, nil, hash, time: Updated then Created, source transaction) -/
theorem fact_matches_steps : Facts.C10.matchesSteps =
    ["metadata.Deactivated && (resolveMetadata == nil || !resolveMetadata.AllowDeactivated) => { return false }",
     "resolveMetadata == nil => { return true }",
     "resolveMetadata.Hash != nil && !metadata.Hash.Equals(*resolveMetadata.Hash) => { return false }",
     "resolveMetadata.ResolveTime != nil => { resolveTime := *resolveMetadata.ResolveTime if metadata.Updated.After(resolveTime) { return false } if metadata.Created.After(resolveTime) { return false } }",
     "resolveMetadata.SourceTransaction != nil => { for _, keyTx := range metadata.SourceTransactions { if keyTx.Equals(*resolveMetadata.SourceTransaction) { return true } } return false }",
     "return true"] := by rfl

/-- every shelf Put of the write path: `writeDocument` = txRefV2[ref] ← payload hash, documentsV2[payload hash] ← bytes;
    `applyEvent` = metadataV2[DID+version] and, ONLY when the version is conflicted, documentsV2[metadata.Hash] ← merged bytes;
    latestV2 / eventsV2 / conflictedV2 / the two statsV2 counters (DocShelves.lean `writeDocument`, `writeMergedStep`, `statsStep`) -/
theorem fact_shelf_puts : Facts.C10.shelfPuts =
    ["writeDocument: transactionIndexShelf[stoabs.HashKey(transaction.Ref)] = transaction.PayloadHash.Slice()",
     "writeDocument: documentShelf[stoabs.HashKey(transaction.PayloadHash)] = documentBytes",
     "applyEvent: metadataShelf[stoabs.BytesKey(fmt.Sprintf(\"%s%d\", nextDocument.ID.String(), nextMetadata.Version))] = metadataBytes",
     "applyEvent: if nextMetadata.isConflicted(): documentShelf[stoabs.HashKey(nextMetadata.Hash)] = docBytes",
     "writeLatest: latestShelf[stoabs.BytesKey(id.String())] = []byte(mdID)",
     "writeEventList: eventShelf[stoabs.BytesKey(id.String())] = nelBytes",
     "applyFrom: if metadata.isConflicted(): conflictedShelf[stoabs.BytesKey(document.ID.String())] = []byte{0}",
     "applyFrom: statsShelf[stoabs.BytesKey(conflictedCountKey)] = cBytes",
     "incrementDocumentCount: statsShelf[stoabs.BytesKey(documentCountKey)] = cBytes"] := by rfl

/-- every shelf Get of the read and write paths is followed by a check that returns any error other than
    `ErrKeyNotFound` (ReadPath.lean: a failing Get ends the call with the storage error) -/
theorem fact_get_errors_returned : Facts.C10.getGuards =
    ["Resolve: latestMetaRef, err := latestReader.Get(stoabs.BytesKey(id.String())) ; if err != nil && !errors.Is(err, stoabs.ErrKeyNotFound) { return err }",
     "loadConflictedDocuments: latestMetaRef, err := latestReader.Get(key) ; if err != nil && !errors.Is(err, stoabs.ErrKeyNotFound) { return err }",
     "ConflictedCount: cBytes, err := reader.Get(stoabs.BytesKey(conflictedCountKey)) ; if err != nil && !errors.Is(err, stoabs.ErrKeyNotFound) { return err }",
     "DocumentCount: cBytes, err := reader.Get(stoabs.BytesKey(documentCountKey)) ; if err != nil && !errors.Is(err, stoabs.ErrKeyNotFound) { return err }",
     "HistorySinceVersion: documentBytes, err := documentReader.Get(stoabs.NewHashKey(payloadHash)) ; if err != nil { if errors.Is(err, stoabs.ErrKeyNotFound) { return storage.ErrNotFound } return err }",
     "readDocument: documentBytes, err := documentReader.Get(stoabs.NewHashKey(documentHash)) ; if err != nil && !errors.Is(err, stoabs.ErrKeyNotFound) { return document, err }",
     "readMetadata: metadataBytes, err := metadataReader.Get(stoabs.BytesKey(ref)) ; if err != nil && !errors.Is(err, stoabs.ErrKeyNotFound) { return metadata, err }",
     "readEventList: eventListBytes, err := eventReader.Get(stoabs.BytesKey(id.String())) ; if err != nil && !errors.Is(err, stoabs.ErrKeyNotFound) { return el, err }",
     "applyFrom: cBytes, err := statsWriter.Get(stoabs.BytesKey(conflictedCountKey)) ; if err != nil && !errors.Is(err, stoabs.ErrKeyNotFound) { return err }",
     "applyFrom: b, err := conflictedWriter.Get(stoabs.BytesKey(id.String())) ; if err != nil && !errors.Is(err, stoabs.ErrKeyNotFound) { return err }",
     "incrementDocumentCount: cBytes, err := statsWriter.Get(stoabs.BytesKey(documentCountKey)) ; if err != nil && !errors.Is(err, stoabs.ErrKeyNotFound) { return err }",
     "applyDocument: payloadHashBytes, err := txRefReader.Get(stoabs.HashKey(st)) ; if err != nil && !errors.Is(err, stoabs.ErrKeyNotFound) { return did.Document{}, documentMetadata{}, fmt.Errorf(\"error on reading transactionIndexShelf: %w\", err) }"] := by rfl

/-- the counters are 4-byte big-endian on every read and every write (DocShelves.lean `encU32` / `decU32`) -/
theorem fact_stats_codec : Facts.C10.statsCodec =
    ["applyFrom: binary.BigEndian.Uint32",
     "applyFrom: make([]byte, 4)",
     "applyFrom: binary.BigEndian.PutUint32",
     "incrementDocumentCount: binary.BigEndian.Uint32",
     "incrementDocumentCount: make([]byte, 4)",
     "incrementDocumentCount: binary.BigEndian.PutUint32",
     "ConflictedCount: binary.BigEndian.Uint32",
     "DocumentCount: binary.BigEndian.Uint32"] := by rfl

theorem fact_store_constants : Facts.C10.storeConsts =
    ["didStoreName=\"didstore\"",
     "latestShelf=\"latestV2\"",
     "metadataShelf=\"metadataV2\"",
     "transactionIndexShelf=\"txRefV2\"",
     "documentShelf=\"documentsV2\"",
     "eventShelf=\"eventsV2\"",
     "conflictedShelf=\"conflictedV2\"",
     "statsShelf=\"statsV2\"",
     "conflictedCountKey=\"conflictedCount\"",
     "documentCountKey=\"documentCount\""] := by rfl

/-- `HistorySinceVersion` refuses a negative version before any read; `readDocumentFromEvent` takes the in-memory
    document of the new event and reads every other one from documentsV2 by payload hash -/
theorem fact_history_guard_and_event_document :
    Facts.C10.historyFirstStatement = "if version < 0 { return nil, errors.New(\"negative version\") }" ∧
    Facts.C10.readDocumentFromEventBody = "{ if e.document != nil { return *e.document, nil } return readDocument(tx, e.PayloadHash) }" := ⟨rfl, rfl⟩

/-! ### the content-addressed shelves txRefV2 / documentsV2 and the statistics shelf (NutsModel/C10/DocShelves.lean) -/

theorem render_nonempty (d : Doc) : d.render.isEmpty = false := by
  have hne : d.render.toList ≠ [] := by
    unfold Doc.render
    simp [String.toList_append]
  cases h : d.render.isEmpty with
  | false => rfl
  | true =>
    exfalso
    apply hne
    rw [String.isEmpty_iff.mp h]; rfl

/-- **Every document the store refers to is on the document shelf, under its own hash, after ANY sequence of Adds** —
    including Adds whose first write transaction failed (mode 1: nothing written) or whose second one failed or was rolled
    back (mode 2: `writeDocument`'s two Puts stay behind), in any arrival order, for any number of DIDs sharing the two
    shelves. For the reached state `(b, s)`:
    * documentsV2 is content addressed: a value is only ever stored under the hash of its own bytes;
    * txRefV2 maps a ref only to the payload hash of the accepted transaction with that ref;
    * for every listed event, `applyDocument`'s lookup (txRefV2 Get, then `readDocument`) yields the published bytes — the
      "transaction reference not found" / "read document failed" errors of `applyDocument` are unreachable;
    * for every stored version (published or merged), `readDocument(metadata.Hash)` yields that version's bytes — so the
      document reads of `Resolve`, `Iterate`, `loadConflictedDocuments` and `applyFrom`'s base never fail. -/
theorem referenced_documents_are_stored (cfg : Cfg) (U : List Event) (hU : Accepted U) (l : List (Event × Nat))
    (hl : ∀ p ∈ l, p.1 ∈ U) (b : Blob) (s : Store) (h : dAddAll cfg ({}, {}) l = .ok (b, s)) :
    (∀ k bytes, alGet b.docs k = some bytes → k = "H:" ++ bytes) ∧
    (∀ r k, alGet b.txRef r = some k → ∃ e ∈ U, e.ref = r ∧ e.payloadHash = k) ∧
    (∀ id, ∀ e ∈ (s.get id).events, lookupTx b e.ref = .ok e.doc.render) ∧
    (∀ id, ∀ p ∈ (s.get id).chain, readDocument b p.2.hash = .ok p.1.render) := by
  have hd := dAddAll_dinv cfg U hU l ({}, {}) (b, s) hl (dinv_empty cfg U) h
  refine ⟨hd.ca, hd.tx, ?_, ?_⟩
  · intro id e he
    obtain ⟨a, c⟩ := hd.ev id e he
    simp only [lookupTx, a, readDocument, c, render_nonempty]
    rfl
  · intro id p hp
    simp only [readDocument, hd.ch id p hp, render_nonempty]
    rfl

/-- **Resolve hands out the bytes of the version it selected**: whenever the chain-level `Resolve` answers version
    `(d, m)`, the document read through documentsV2 succeeds and returns exactly `d`'s bytes (so order independence of
    `resolve` carries over to the bytes handed out). -/
theorem resolve_reads_the_selected_version (cfg : Cfg) (U : List Event) (hU : Accepted U) (l : List (Event × Nat))
    (hl : ∀ p ∈ l, p.1 ∈ U) (b : Blob) (s : Store) (h : dAddAll cfg ({}, {}) l = .ok (b, s))
    (id : String) (rm : Option ResolveMeta) (d : Doc) (m : Meta) (hr : resolve s id rm = .ok (d, m)) :
    resolveBytes b s id rm = .ok (d.render, m) := by
  obtain ⟨_, _, _, hch⟩ := referenced_documents_are_stored cfg U hU l hl b s h
  have hmem : (d, m) ∈ (s.get id).chain := by
    unfold resolve at hr
    obtain ⟨newer, older, hc, _, _⟩ := resolveChain_sound rm _ (d, m) hr
    have : (d, m) ∈ (s.get id).chain.reverse := by rw [hc]; simp
    exact List.mem_reverse.mp this
  simp only [resolveBytes, hr, hch id (d, m) hmem]

/-- the model's shelves after the second write transaction of a NON-failing Add of a fresh store are those of the
    chain-level model (the projection forgets the two shelves) -/
theorem doc_shelves_do_not_change_the_store (cfg : Cfg) (b : Blob) (s : Store) (e : Event) (b' : Blob) (s' : Store)
    (h : dAdd cfg b s e 0 = .ok (b', s')) : add cfg s e = .ok s' := by
  unfold dAdd at h
  simp only [Nat.zero_ne_one, if_false, show (0 : Nat) ≠ 2 by decide] at h
  cases hA : add cfg s e with
  | err x => simp only [hA] at h; cases h
  | panic x => simp only [hA] at h; cases h
  | ok s1 =>
    simp only [hA] at h
    split at h <;> (simp only [Res.ok.injEq, Prod.mk.injEq] at h; rw [h.2])

/-- **a failed Add changes nothing but the content-addressed shelves** ("unchanged on fault") -/
theorem failed_add_leaves_the_store_unchanged (cfg : Cfg) (b : Blob) (s : Store) (e : Event) (mode : Nat)
    (hm : mode = 1 ∨ mode = 2) (b' : Blob) (s' : Store) (h : dAdd cfg b s e mode = .ok (b', s')) :
    s' = s ∧ (mode = 1 → b' = b) ∧ (mode = 2 → b' = writeDocument b e) := by
  unfold dAdd at h
  rcases hm with rfl | rfl
  · simp only [if_true, Res.ok.injEq, Prod.mk.injEq] at h
    exact ⟨h.2.symm, fun _ => h.1.symm, fun h2 => by cases h2⟩
  · simp only [show (2 : Nat) ≠ 1 by decide, if_false, if_true, Res.ok.injEq, Prod.mk.injEq] at h
    exact ⟨h.2.symm, (fun h1 => by cases h1), fun _ => h.1.symm⟩

/-- **statsV2 codec**: what `PutUint32` writes, `Uint32` reads back (for every value a uint32 can hold); a written
    counter never makes `binary.BigEndian.Uint32` panic -/
theorem stats_codec_roundtrip (n : Nat) (h : n < 4294967296) : decU32 (some (encU32 n)) = .ok n := dec_enc_u32 n h

/-- **the statistics part of `applyFrom` on the literal 4-byte values refines the counters of `add`**: as long as the
    decoded counters stay below 2³² and the count is positive when a DID that was flagged stops being conflicted (both hold
    in every reachable state: `stats_are_what_the_states_imply`), the uint32 arithmetic never wraps and the bytes written
    decode to exactly the numbers the chain-level model keeps -/
theorem stats_shelf_refines_counters (st : Stats) (c d : Nat) (was now : Bool) (lv : Nat)
    (hc : decU32 st.cc = .ok c) (hd : decU32 st.dc = .ok d) (hcb : c + 1 < 4294967296) (hdb : d + 1 < 4294967296)
    (hpos : was = true → now = false → 1 ≤ c) :
    ∃ st', statsStep st was now lv = .ok st' ∧
      decU32 st'.cc = .ok (if now then (if was then c else c + 1) else (if was then c - 1 else c)) ∧
      decU32 st'.dc = .ok (if lv = 0 then d + 1 else d) :=
  statsStep_refines st c d was now lv hc hd hcb hdb hpos

/-- **The statistics shelf tracks the counters, end to end.** For every sequence of Adds (any arrival order, any DIDs,
    failing first / second transactions, duplicates) of fewer than 2³² − 1 Adds: the statistics code of `applyFrom` never
    fails or panics on the bytes it wrote itself, its uint32 arithmetic never wraps, and the two 4-byte big-endian values on
    statsV2 decode to exactly `ConflictedCount` / `DocumentCount` of the chain-level model — to which
    `stats_are_what_the_states_imply` and `stats_order_independent` apply. -/
theorem stats_shelf_tracks_counters (cfg : Cfg) (l : List (Event × Nat)) (hl : l.length + 1 < 4294967296)
    (b : Blob) (s : Store) (h : dAddAll cfg ({}, {}) l = .ok (b, s)) :
    ∃ st, dAddSAll cfg ({}, {}, {}) l = .ok (b, s, st) ∧
      decU32 st.cc = .ok s.conflictedCount ∧ decU32 st.dc = .ok s.documentCount := by
  obtain ⟨st, h1, h2⟩ := dAddSAll_total cfg l {} {} {} 0 (b, s) (by omega)
    ⟨storeInv_empty cfg, rfl, rfl, Nat.le_refl _⟩ h
  exact ⟨st, h1, h2.cc, h2.dc⟩

/-! non-vacuity: an accepted fork {create, A, B}; B's second write transaction fails once, B is delivered again; the
    published and the merged documents are readable, the index knows the three refs -/
private def evC' : Event := { evCreate with payloadHash := "H:" ++ (docOf "s0").render }
private def evA' : Event := { evA with payloadHash := "H:" ++ (docOf "sA").render }
private def evB' : Event := { evB with payloadHash := "H:" ++ (docOf "sB").render }

example : Accepted [evC', evA', evB'] := by
  refine ⟨?_, ?_⟩
  · intro e he
    simp only [List.mem_cons, List.mem_nil_iff, or_false] at he
    rcases he with rfl | rfl | rfl <;> rfl
  · intro a ha b hb h
    simp only [List.mem_cons, List.mem_nil_iff, or_false] at ha hb
    rcases ha with rfl | rfl | rfl <;> rcases hb with rfl | rfl | rfl <;> first | rfl | (simp [evC', evA', evB', evCreate, evA, evB] at h)

set_option maxRecDepth 200000 in
example : (match dAddAll cfg0 ({}, {}) [(evB', 2), (evA', 0), (evC', 0), (evB', 1), (evB', 0)] with
    | .ok (b, s) =>
      b.txRef.length == 3 && b.docs.length == 4 && (s.get "did:nuts:x").conflicted &&
      (match resolveBytes b s "did:nuts:x" (some {}) with | .ok (bytes, m) => m.sourceTx.length == 2 && !bytes.isEmpty | _ => false) &&
      (match lookupTx b 150 with | .ok bytes => bytes == (docOf "sB").render | _ => false)
    | _ => false) = true := by decide

example : (match statsStep {} false true 0 with
    | .ok st => st.cc == some [0, 0, 0, 1] && st.dc == some [0, 0, 0, 1] &&
        (match statsStep st true false 3 with | .ok st2 => st2.cc == some [0, 0, 0, 0] && st2.dc == some [0, 0, 0, 1] | _ => false)
    | _ => false) = true := by decide

set_option maxRecDepth 200000 in
example : (match dAddSAll cfg0 ({}, {}, {}) [(evB', 2), (evA', 0), (evC', 0), (evB', 1), (evB', 0), (evA', 0)] with
    | .ok (_, s, st) => st.cc == some [0, 0, 0, 1] && st.dc == some [0, 0, 0, 1] && s.conflictedCount == 1 && s.documentCount == 1
    | _ => false) = true := by decide

/-- **`HistorySinceVersion` returns the published bytes of the sorted event list, and never fails on a listed DID**: for
    every sequence of Adds (failed transactions included) and every DID with at least one event, every version `v ≥ 0` up
    to the last one yields `.ok` with, per listed event from index `v` on, the bytes published by that event, `Created` =
    the first event's signing time, `Updated` = the event's, numbered from `v`; a negative version is refused before any
    read. (The chain-level `history_is_the_sorted_event_list` says which events these are, in every arrival order.) -/
theorem history_reads_published_bytes (cfg : Cfg) (U : List Event) (hU : Accepted U) (l : List (Event × Nat))
    (hl : ∀ p ∈ l, p.1 ∈ U) (b : Blob) (s : Store) (h : dAddAll cfg ({}, {}) l = .ok (b, s)) (id : String)
    (e0 : Event) (rest : List Event) (hev : (s.get id).events = e0 :: rest) :
    (∀ v : Nat, v ≤ rest.length →
      historySinceInt b (s.get id) (v : Int) = .ok (rawList e0.sigTime v ((e0 :: rest).drop v))) ∧
    (∀ z : Int, z < 0 → historySinceInt b (s.get id) z = .err "other:negative version") := by
  have hd := dAddAll_dinv cfg U hU l ({}, {}) (b, s) hl (dinv_empty cfg U) h
  refine ⟨?_, ?_⟩
  · intro v hv
    unfold historySinceInt
    have hneg : ¬ ((v : Int) < 0) := by omega
    simp only [hneg, if_false, hev, Int.toNat_natCast, List.length_cons]
    have hle : ¬ (v > rest.length + 1 - 1) := by omega
    simp only [hle, if_false]
    apply historyRawFrom_ok
    intro x hx
    have hx' : x ∈ (s.get id).events := by rw [hev]; exact List.mem_of_mem_drop hx
    exact (hd.ev id x hx').2
  · intro z hz
    unfold historySinceInt
    simp only [hz, if_true]

set_option maxRecDepth 200000 in
example : (match dAddAll cfg0 ({}, {}) [(evB', 2), (evA', 0), (evC', 0), (evB', 0)] with
    | .ok (b, s) =>
      (match historySinceInt b (s.get "did:nuts:x") 1 with
        | .ok h => h.map (·.1) == [(docOf "sB").render, (docOf "sA").render] && h.map (·.2.2.2) == [1, 2]
        | _ => false) &&
      (match historySinceInt b (s.get "did:nuts:x") (-1) with | .err x => x == "other:negative version" | _ => false)
    | _ => false) = true := by decide

/-- **The bytes `Resolve` hands out depend neither on the arrival order nor on which Adds failed.** Two stores receive
    arrival sequences in which any Add may fail in its first or in its second write transaction (and be re-delivered or
    not); if the sets of events whose Add ran completely are the same, then for every DID and every resolve metadata both
    stores answer the same error or the same metadata with the same document BYTES read from documentsV2 — whatever
    iteration order Go picks for its maps on either store. (Composition of `resolve_order_independent`,
    `referenced_documents_are_stored` and the projection `dAddAll_store`.) -/
theorem bytes_handed_out_are_order_and_failure_independent (σ₁ σ₂ : Field → List Entry → List Entry)
    (h₁ : ∀ f l, (σ₁ f l).Perm l) (h₂ : ∀ f l, (σ₂ f l).Perm l)
    (U : List Event) (hU : Accepted U) (l₁ l₂ : List (Event × Nat))
    (hl₁ : ∀ p ∈ l₁, p.1 ∈ U) (hl₂ : ∀ p ∈ l₂, p.1 ∈ U)
    (hR : RefFun (applied l₁)) (hsame : ∀ e, e ∈ applied l₁ ↔ e ∈ applied l₂)
    (b₁ b₂ : Blob) (s₁ s₂ : Store)
    (r₁ : dAddAll (cfgOf σ₁ Facts.C10.mergeSortedFields) ({}, {}) l₁ = .ok (b₁, s₁))
    (r₂ : dAddAll (cfgOf σ₂ Facts.C10.mergeSortedFields) ({}, {}) l₂ = .ok (b₂, s₂))
    (id : String) (rm : Option ResolveMeta) :
    resolveBytes b₁ s₁ id rm = resolveBytes b₂ s₂ id rm := by
  have a₁ := dAddAll_store _ l₁ ({}, {}) (b₁, s₁) r₁
  have a₂ := dAddAll_store _ l₂ ({}, {}) (b₂, s₂) r₂
  obtain ⟨_, hres⟩ := resolve_order_independent σ₁ σ₂ h₁ h₂ (applied l₁) (applied l₂) hR hsame s₁ s₂ a₁ a₂ id
  have hr := hres rm
  cases hx : resolve s₁ id rm with
  | ok p =>
    obtain ⟨d, m⟩ := p
    rw [resolve_reads_the_selected_version _ U hU l₁ hl₁ b₁ s₁ r₁ id rm d m hx,
        resolve_reads_the_selected_version _ U hU l₂ hl₂ b₂ s₂ r₂ id rm d m (by rw [← hr]; exact hx)]
  | err x =>
    have hy : resolve s₂ id rm = .err x := by rw [← hr]; exact hx
    simp only [resolveBytes, hx, hy]
  | panic x =>
    have hy : resolve s₂ id rm = .panic x := by rw [← hr]; exact hx
    simp only [resolveBytes, hx, hy]

/-! non-vacuity: the fork with a failed and re-delivered B against the plain order; the same bytes come out -/
example : applied [(evB', 2), (evA', 0), (evC', 0), (evB', 1), (evB', 0)] = [evA', evC', evB'] := rfl

set_option maxRecDepth 200000 in
example : (match dAddAll cfg0 ({}, {}) [(evB', 2), (evA', 0), (evC', 0), (evB', 1), (evB', 0)],
                 dAddAll cfg0 ({}, {}) [(evC', 0), (evB', 0), (evA', 0)] with
    | .ok (b₁, s₁), .ok (b₂, s₂) =>
      (match resolveBytes b₁ s₁ "did:nuts:x" (some {}), resolveBytes b₂ s₂ "did:nuts:x" (some {}) with
        | .ok (x, m), .ok (y, n) => x == y && m.hash == n.hash && m.sourceTx == n.sourceTx
        | _, _ => false)
    | _, _ => false) = true := by decide

/-! ### read transactions on a failing storage layer (NutsModel/C10/ReadPath.lean) -/

/-- **A storage error inside `Resolve`'s read transaction cannot change an answer**, end to end: for every arrival
    sequence, every DID, every resolve metadata and every position `k` of the failing shelf Get, `Resolve` on the literal
    shelves either returns the storage error or answers exactly what the (order independent) chain-level `resolve`
    answers — never another version, never `not-found` / `deactivated` in place of an existing answer. A failure of the
    first Get (latestV2) is always reported; without a failure (`k = 0`) the answer is `resolve`'s. -/
theorem read_fault_never_changes_an_answer (cfg : Cfg) (l : List Event) (s : Store) (h : addAll cfg {} l = .ok s)
    (id : String) :
    ∃ st, sAddAll cfg {} (l.filter (fun e => e.doc.id = id)) = .ok st ∧
      ∀ rm, (∀ k, sResolveF st rm k = .err "db" ∨ sResolveF st rm k = resolve s id rm) ∧
        sResolveF st rm 0 = resolve s id rm ∧ sResolveF st rm 1 = .err "db" := by
  obtain ⟨st, h1, _, h3⟩ := shelf_resolve_eq_resolve cfg l s h id
  refine ⟨st, h1, fun rm => ⟨fun k => ?_, ?_, sResolveF_one st rm⟩⟩
  · rw [← h3 rm]; exact sResolveF_or st rm k
  · rw [← h3 rm]; exact sResolveF_zero st rm

/-- the classification the harness is compared with: a call performing `gets` Gets reports exactly the failures at
    positions 1..gets -/
theorem fault_class_db_iff (gets k : Nat) : faultClass gets k = "db" ↔ (1 ≤ k ∧ k ≤ gets) := by
  unfold faultClass
  by_cases h : 1 ≤ k ∧ k ≤ gets
  · simp [h]
  · simp only [h, if_false]
    constructor
    · intro x; exact absurd x (by decide)
    · intro x; exact x.elim

/-! non-vacuity: on the fork {create, B, A} resolving at a time before the fork walks 3 versions: Gets 1..5 (latest, three
    metadata records, one document) are reported, a failure armed at Get 6 never fires -/
example : (match sAddAll cfg0 {} [evB, evA, evCreate] with
    | .ok st =>
      (List.range 7).map (fun k => match sResolveF st (some { time := some 15 }) k with
        | .err e => e | .ok (_, m) => toString m.version | .panic e => e) ==
        ["0", "db", "db", "db", "db", "db", "0"]
    | _ => false) = true := by decide

/-! ### the in-memory conflicted cache under a rolled-back second write transaction (NutsModel/C10/Cache.lean)

`applyFrom` updates `store.conflictedDocuments` inside the closure of the write transaction. A transaction that is rolled
back after the closure ran leaves the shelves as they were, but not the map. -/

/-- regenerated from writer.go / store.go: the map is written unconditionally in BOTH branches of applyFrom's
    `if metadata.isConflicted()` (put in the conflicted branch, delete in the other — `add`'s `alPut` / `alDel`), between
    the counter arithmetic and the shelf Put / Delete, i.e. inside the closure of the write transaction (what
    `addRolledBack` models); keyed by `document.ID.String()`; `ConflictedCount` reads the statistics shelf, not the map -/
theorem fact_cache_update_inside_write_closure : Facts.C10.cacheBranches =
    ["then: if !conflicted { conflictedCount++ }", "then: tl.addCachedConflict(*document, *metadata)",
     "then: err = conflictedWriter.Put(stoabs.BytesKey(document.ID.String()), []byte{0})",
     "else: if conflicted { conflictedCount-- }", "else: tl.removeCachedConflict(*document)",
     "else: err = conflictedWriter.Delete(stoabs.BytesKey(document.ID.String()))",
     "addCachedConflict: { tl.conflictedDocuments[document.ID.String()] = conflictedDocument{ didDocument: document, metadata: metadata, } }",
     "removeCachedConflict: { delete(tl.conflictedDocuments, document.ID.String()) }",
     "Conflicted: { for _, conflicted := range tl.conflictedDocuments { if err := fn(conflicted.didDocument, conflicted.metadata.asVDRMetadata()); err != nil { return err } } return nil }",
     "ConflictedCount: var count uint32 ; 3 statements ; last: return uint(count), err"] := by rfl

/-- a rolled-back Add leaves every shelf and both statistics as they were -/
theorem rolled_back_add_keeps_the_shelves (cfg : Cfg) (s t : Store) (e : Event) (h : addRolledBack cfg s e = .ok t) :
    t.dids = s.dids ∧ t.conflictedCount = s.conflictedCount ∧ t.documentCount = s.documentCount ∧
      ∀ id rm, resolve t id rm = resolve s id rm := by
  obtain ⟨h1, h2, h3⟩ := rolled_back_keeps cfg s t e h
  refine ⟨h1, h2, h3, fun id rm => ?_⟩
  simp only [resolve, Store.get, h1]

/-- **the re-delivery of a rolled-back transaction is exactly the undisturbed Add**: whatever the rolled-back attempt left
    in the in-memory map, delivering the same transaction again ends in the very state (shelves, statistics AND cache)
    that a single undisturbed Add produces — for every store state, reachable or not -/
theorem redelivery_after_rollback_is_the_undisturbed_add (cfg : Cfg) (s t : Store) (e : Event)
    (h : addRolledBack cfg s e = .ok t) : add cfg t e = add cfg s e := redelivery cfg s t e h

/-- **Stale cache entries are confined and repaired, for every history.** Take ANY sequence of deliveries, each either
    committed or rolled back after `applyFrom` ran (any DIDs, any order, duplicates, the same transaction rolled back many
    times). The store it ends in has exactly the shelves and statistics of the run that only saw the committed deliveries,
    and `Conflicted()` answers the same for every key except those `dirtyAll` lists: keys touched by a rolled-back Add that
    no later committed Add touched again. Re-opening the store repairs those as well. -/
theorem stale_cache_entries_are_confined_and_repaired (cfg : Cfg) (l : List (Event × Bool)) (t : Store)
    (h : addAllRb cfg {} l = .ok t) :
    ∃ u, addAll cfg {} (committed l) = .ok u ∧ t.dids = u.dids ∧ t.conflictedCount = u.conflictedCount ∧
      t.documentCount = u.documentCount ∧
      (∀ k, k ∉ dirtyAll cfg {} [] l → alGet t.cache k = alGet u.cache k) ∧ reload t = reload u := by
  obtain ⟨u, h1, h2, h3, h4, h5⟩ := rb_run cfg l {} {} [] t rfl rfl rfl (fun _ _ => rfl) h
  refine ⟨u, h1, h2, h3, h4, h5, ?_⟩
  simp only [reload, h2, h3, h4]

/-- **Witness that the staleness is real** (why the theorem above needs `dirtyAll`): create, update A, then the parallel
    update B whose second write transaction is rolled back — `Conflicted()` lists the DID although its latest stored
    version is not conflicted and `ConflictedCount()` is 0; after the re-delivery of B cache, flag and counter agree. -/
theorem rolled_back_add_leaves_stale_cache_witness :
    (match addAllRb cfg0 {} [(evCreate, false), (evA, false), (evB, true)],
           addAllRb cfg0 {} [(evCreate, false), (evA, false), (evB, true), (evB, false)] with
     | .ok t, .ok t2 =>
       (conflictedOf t "did:nuts:x").isSome && !(t.get "did:nuts:x").conflicted && t.conflictedCount == 0 &&
       dirtyAll cfg0 {} [] [(evCreate, false), (evA, false), (evB, true)] == ["did:nuts:x"] &&
       (conflictedOf t2 "did:nuts:x").isSome && (t2.get "did:nuts:x").conflicted && t2.conflictedCount == 1 &&
       dirtyAll cfg0 {} [] [(evCreate, false), (evA, false), (evB, true), (evB, false)] == []
     | _, _ => false) = true := by decide

/-! non-vacuity of `redelivery_after_rollback_is_the_undisturbed_add` / `rolled_back_add_keeps_the_shelves` -/
example : (match addAll cfg0 {} [evCreate, evA] with
    | .ok s => (match addRolledBack cfg0 s evB with | .ok t => t.cache.length == 1 && s.cache.length == 0 | _ => false)
    | _ => false) = true := by decide

/-- **`Conflicted()` is right about a DID immediately after every committed Add of it, whatever was rolled back before**:
    after ANY history of committed / rolled-back deliveries, the key a committed Add touches holds exactly the entry of
    the run that only saw the committed deliveries (the entry `iterators_agree_with_counters` / `restart_changes_nothing`
    speak about) — the re-delivery the DAG performs after a failed Add therefore always ends the staleness of that DID -/
theorem conflicted_entry_is_right_after_every_committed_add (cfg : Cfg) (l : List (Event × Bool)) (e : Event) (t' t : Store) (k : String)
    (h1 : addAllRb cfg {} l = .ok t') (hk : touched cfg t' e = some k)
    (h2 : addAllRb cfg {} (l ++ [(e, false)]) = .ok t) :
    ∃ u, addAll cfg {} (committed (l ++ [(e, false)])) = .ok u ∧ alGet t.cache k = alGet u.cache k := by
  have ha : add cfg t' e = .ok t := by
    rw [addAllRb_snoc cfg l {} t' _ h1] at h2
    simp only [addAllRb, Bool.false_eq_true, if_false] at h2
    split at h2
    · rename_i s1 hs1; cases h2; exact hs1
    · cases h2
    · cases h2
  obtain ⟨u, hu, _, _, _, hc⟩ := rb_run cfg (l ++ [(e, false)]) {} {} [] t rfl rfl rfl (fun _ _ => rfl) h2
  exact ⟨u, hu, hc k (committed_cleans cfg l {} t' t [] e k h1 ha hk)⟩

example : (match addAllRb cfg0 {} [(evCreate, false), (evA, false), (evB, true)] with
    | .ok t' => touched cfg0 t' evB == some "did:nuts:x" &&
        (match addAllRb cfg0 {} ([(evCreate, false), (evA, false), (evB, true)] ++ [(evB, false)]) with | .ok _ => true | _ => false)
    | _ => false) = true := by decide

end Nuts.C10.Props
