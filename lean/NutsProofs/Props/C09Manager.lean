/-
  C09 — the node's own publishing path (deepening round 2026-09-28): what `Manager.Update` / `Deactivate` hand to the
  network. Model: NutsModel/C09/Manager.lean. Property theorems + non-vacuity + fact obligations.
-/
import NutsModel.C09.Manager
import NutsModel.Facts.C09
import NutsModel.Facts.C10
import NutsProofs.Lemmas.C09

namespace Nuts.C09.Props
open Nuts Nuts.C10 Nuts.C09

/-! ### obligations on the regenerated facts -/

/-- `Manager.Update`: store lookup (AllowDeactivated), deactivated test, JSON-LD contexts, `ManagedDocumentValidator`
    (= the network validator + the managed-service check), `resolveControllerWithKey`, the controller's metadata through
    `m.resolver`, the template (did+json, payload, kid, prevs = current sources ++ controller sources), then the network -/
theorem fact_manager_update_steps :
    Facts.C09.managerUpdateCalls.take 8 =
      ["m.store.Resolve(id, resolverMetadata)", "withJSONLDContext(next, did.DIDContextV1URI())",
       "withJSONLDContext(next, jsonld.JWS2020ContextV1URI())", "ManagedDocumentValidator(m.serviceResolver)",
       "m.resolveControllerWithKey(ctx, *currentDIDDocument)", "m.resolver.Resolve(controller.ID, nil)",
       "network.TransactionTemplate(DIDDocumentType, payload, kid)", "m.networkClient.CreateTransaction(ctx, tx)"] ∧
    Facts.C09.managerUpdatePrevs = "append(currentMeta.SourceTransactions, controllerMeta.SourceTransactions...)" ∧
    Facts.C09.managerUpdateTemplate = "network.TransactionTemplate(DIDDocumentType, payload, kid).WithAdditionalPrevs(previousTransactions)" ∧
    Facts.C09.managerUpdateDeactivatedTest = "currentMeta.Deactivated => return error" ∧
    Facts.C09.managedValidators = ["NetworkDocumentValidator()", "managedServiceValidator{serviceResolver}"] ∧
    Facts.C09.managerDeactivateIs = "m.Update(ctx, id, emptyDoc)" := by
  refine ⟨by rfl, by rfl, by rfl, by rfl, by rfl, by rfl⟩

/-- `resolveControllerWithKey`: controllers over the STORE with nil metadata, none => error, then the first
    capabilityInvocation entry (controller order, entry order) that the key store has without error -/
theorem fact_manager_key_choice :
    Facts.C09.managerKeyChoice =
      ["ResolveControllers(m.store, doc, nil)", "if len(controllers) == 0 => return did.Document{}, \"\"",
       "range controllers", "range c.CapabilityInvocation", "m.keyStore.Exists(ctx, cik.ID.String())",
       "if err == nil && ok => return c, cik.ID.String()"] := by rfl

/-- `resolveControllerWithKey` returns a capabilityInvocation entry of one of the controllers, and the key store has it -/
theorem firstOwnedKey_sound (has : String → Bool) :
    ∀ (cs : List Doc) (c : Doc) (kid : String), firstOwnedKey has cs = some (c, kid) →
      c ∈ cs ∧ (∃ e ∈ c.f .capInv, e.id = kid) ∧ has kid = true := by
  intro cs
  induction cs with
  | nil => intro c kid h; simp [firstOwnedKey] at h
  | cons x xs ih =>
    intro c kid h
    unfold firstOwnedKey at h
    cases hf : (x.f .capInv).find? (fun e => has e.id) with
    | some e =>
      rw [hf] at h
      simp only [Option.some.injEq, Prod.mk.injEq] at h
      obtain ⟨rfl, rfl⟩ := h
      exact ⟨List.mem_cons_self, ⟨e, List.mem_of_find?_eq_some hf, rfl⟩, by simpa using List.find?_some hf⟩
    | none =>
      rw [hf] at h
      obtain ⟨h1, h2, h3⟩ := ih c kid h
      exact ⟨List.mem_cons_of_mem _ h1, h2, h3⟩

/-- ... and it refuses only when the key store has NO capabilityInvocation key of ANY controller -/
theorem firstOwnedKey_none (has : String → Bool) :
    ∀ (cs : List Doc), firstOwnedKey has cs = none → ∀ c ∈ cs, ∀ e ∈ c.f .capInv, has e.id = false := by
  intro cs
  induction cs with
  | nil => intro _ c hc; cases hc
  | cons x xs ih =>
    intro h c hc e he
    unfold firstOwnedKey at h
    cases hf : (x.f .capInv).find? (fun e => has e.id) with
    | some e' => rw [hf] at h; cases h
    | none =>
      rw [hf] at h
      rcases List.mem_cons.mp hc with rfl | hc'
      · have := List.find?_eq_none.mp hf e he
        simpa using this
      · exact ih h c hc' e he

/-- **What the node publishes.** Whenever `Manager.Update` (hence `Deactivate`, `RemoveVerificationMethod`) hands a
    transaction to the network: the DID's latest version is not deactivated; the new document passes the SAME
    `NetworkDocumentValidator` rules the receiving ambassadors apply (`validator_rules_sound_complete`) and the managed
    service check; the signing key id is a capabilityInvocation entry of an ACTIVE controller of the latest version (as
    `resolveControllers` over the store finds them) whose private key this node holds; and the prevs are exactly the
    source transactions of the latest version followed by those of that controller's latest version (what
    `handleUpdateDIDDocument` needs to find the succeeded version, the controller and the key). -/
theorem managerUpdate_sound (c : Cfg) (s : Store) (has : String → Bool) (svcOk : Bool) (id : String) (next : NDoc) (p : Published)
    (h : managerUpdate c s has svcOk id next = .ok p) :
    ∃ cur curMeta ctrls ctrl ctrlDoc ctrlMeta,
      resolve s id (some { allowDeactivated := true }) = .ok (cur, curMeta) ∧ curMeta.deactivated = false ∧
      validate c.thumb c.vmNilJwkErr c.validators next = .ok () ∧ svcOk = true ∧
      managerControllers c.maxDepth s cur = .ok ctrls ∧ ctrl ∈ ctrls ∧ isDeactivated ctrl = false ∧
      (∃ e ∈ ctrl.f .capInv, e.id = p.kid) ∧ has p.kid = true ∧
      resolve s ctrl.id none = .ok (ctrlDoc, ctrlMeta) ∧
      p.prevs = curMeta.sourceTx ++ ctrlMeta.sourceTx ∧ p.doc = next := by
  unfold managerUpdate at h
  cases hr : resolve s id (some { allowDeactivated := true }) with
  | err e => rw [hr] at h; cases h
  | panic x => rw [hr] at h; cases h
  | ok cm =>
    obtain ⟨cur, curMeta⟩ := cm
    rw [hr] at h
    simp only [] at h
    by_cases hd : curMeta.deactivated = true
    · simp [hd] at h
    · have hd' : curMeta.deactivated = false := by simpa using hd
      simp only [hd', Bool.false_eq_true, if_false] at h
      cases hv : validate c.thumb c.vmNilJwkErr c.validators next with
      | err e => rw [hv] at h; cases h
      | panic x => rw [hv] at h; cases h
      | ok u =>
        rw [hv] at h
        simp only [] at h
        cases hs : svcOk with
        | false => simp [hs] at h
        | true =>
          simp only [hs, Bool.not_true, Bool.false_eq_true, if_false] at h
          cases hc : managerControllers c.maxDepth s cur with
          | err e => rw [hc] at h; cases h
          | panic x => rw [hc] at h; cases h
          | ok ctrls =>
            rw [hc] at h
            simp only [] at h
            by_cases he : ctrls.isEmpty = true
            · simp [he] at h
            · have he' : ctrls.isEmpty = false := by simpa using he
              simp only [he', Bool.false_eq_true, if_false] at h
              cases hk : firstOwnedKey has ctrls with
              | none => rw [hk] at h; cases h
              | some ck =>
                obtain ⟨ctrl, kid⟩ := ck
                rw [hk] at h
                simp only [] at h
                cases hrr : resolverResolve c.maxDepth s none ctrl.id with
                | err e => rw [hrr] at h; cases h
                | panic x => rw [hrr] at h; cases h
                | ok d0 =>
                  rw [hrr] at h
                  simp only [] at h
                  cases hm : resolve s ctrl.id none with
                  | err e => rw [hm] at h; cases h
                  | panic x => rw [hm] at h; cases h
                  | ok dm =>
                    obtain ⟨ctrlDoc, ctrlMeta⟩ := dm
                    rw [hm] at h
                    simp only [Res.ok.injEq] at h
                    subst h
                    obtain ⟨hmem, hentry, hhas⟩ := firstOwnedKey_sound has ctrls ctrl kid hk
                    have hact := (ctrlsWith_mem _ cur ctrls hc ctrl hmem).1
                    cases u
                    exact ⟨cur, curMeta, ctrls, ctrl, ctrlDoc, ctrlMeta, by first | rfl | assumption, hd', by first | rfl | assumption,
                      by first | rfl | assumption, by first | rfl | assumption, hmem, hact, hentry, hhas, by first | rfl | assumption, rfl, rfl⟩

/-- **A deactivated DID is never updated by this node**, whatever keys the key store still holds -/
theorem managerUpdate_deactivated_refused (c : Cfg) (s : Store) (has : String → Bool) (svcOk : Bool) (id : String) (next : NDoc)
    (cur : Doc) (m : Meta) (hr : resolve s id (some { allowDeactivated := true }) = .ok (cur, m)) (hd : m.deactivated = true) :
    managerUpdate c s has svcOk id next = .err "mgr:deactivated" := by
  unfold managerUpdate
  rw [hr]
  simp [hd]

/-- **Without a controller key nothing is published**: if the key store has no capabilityInvocation key of any active
    controller of the latest version, `Manager.Update` fails (there is no other signing path) -/
theorem managerUpdate_needs_controller_key (c : Cfg) (s : Store) (has : String → Bool) (svcOk : Bool) (id : String) (next : NDoc)
    (cur : Doc) (m : Meta) (ctrls : List Doc)
    (hr : resolve s id (some { allowDeactivated := true }) = .ok (cur, m))
    (hc : managerControllers c.maxDepth s cur = .ok ctrls)
    (hno : ∀ ctrl ∈ ctrls, ∀ e ∈ ctrl.f .capInv, has e.id = false) :
    ∀ p, managerUpdate c s has svcOk id next ≠ .ok p := by
  intro p hp
  obtain ⟨cur', m', ctrls', ctrl, _, _, hr', _, _, _, hc', hmem, _, ⟨e, he, hek⟩, hhas, _, _, _⟩ :=
    managerUpdate_sound c s has svcOk id next p hp
  rw [hr] at hr'
  cases hr'
  rw [hc] at hc'
  cases hc'
  have := hno ctrl hmem e he
  rw [hek, hhas] at this
  cases this

/-! ### non-vacuity: a self-controlled DID with keys a and b, the node holds b only -/
private def cfgM : Cfg :=
  { thumb := fun k => k, didThumb := fun k => "D" ++ k, maxDepth := Facts.C09.maxControllerDepth,
    validators := Facts.C09.networkValidators, vmNilJwkErr := Facts.C09.verifyThumbprintGuardsNilJwk,
    findKeyNilJwkErr := Facts.C09.findKeyGuardsNilJwk, store := cfgOf (fun _ l => l) Facts.C10.mergeSortedFields }
private def vmM (k : String) : NVM := { id := "did:nuts:Da#" ++ k, pfx := "did:nuts:Da", frag := k, key := .key k }
private def docM (keys : List String) : NDoc :=
  { id := "did:nuts:Da", idID := "Da", vms := keys.map vmM, capInv := keys.map vmM }
private def txM : Tx := { ref := 100, clock := 0, sigTime := 10, prevs := [], payloadHash := "p100", embedded := some "a", signer := "a" }
private def sM : Store := (step cfgM {} txM (some (docM ["a", "b"]))).1
private def showM (r : Res Published) : String :=
  match r with | .ok p => s!"ok {p.kid} {p.prevs}" | .err e => e | .panic x => x

example : showM (managerUpdate cfgM sM (fun k => k == "did:nuts:Da#b") true "did:nuts:Da" (docM ["b"])) = "ok did:nuts:Da#b [100, 100]" := by decide
example : showM (managerUpdate cfgM sM (fun _ => false) true "did:nuts:Da" (docM ["b"])) = "mgr:no-key" := by decide
example : showM (managerUpdate cfgM sM (fun _ => true) true "did:nuts:Dx" (docM ["b"])) = "mgr:resolve:not-found" := by decide
/-- what the node publishes is accepted by an ambassador holding the same store -/
example : (match managerUpdate cfgM sM (fun k => k == "did:nuts:Da#b") true "did:nuts:Da" (docM ["b"]) with
    | .ok p => (step cfgM sM { ref := 200, clock := 1, sigTime := 20, prevs := p.prevs.eraseDups, payloadHash := "p200",
                               kid := { holder := "did:nuts:Da", id := p.kid }, signer := "b" } (some p.doc)).2
    | _ => "not published") = "ok" := by decide

end Nuts.C09.Props
